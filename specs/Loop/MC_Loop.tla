------------------------------ MODULE MC_Loop ------------------------------
EXTENDS Loop, Json
(* Model-checking and generation wrapper.
   Exhaustive configs hide `hist` with VIEW View.  Generation configs (Gen_*.cfg, -simulate or exhaustive
   without VIEW) print one JSON line per *completed behaviour*: the iteration counts and everything
   that was put on p3, p4, p8[x], p6[x] in order, with the number of tokens the producing step had
   consumed when it put (field n) - the driver replays these arrival orders on the real steps; chk[n] is
   LC's checklist after the n-th token it consumed (compared with iteration_termination_checklist).   *)
FinalJ == [N |-> N, scatter |-> Scatter, idx |-> Idx, p3 |-> hist.p3, p4 |-> hist.p4, p8 |-> hist.p8, p6 |-> hist.p6,
           chk |-> hist.chk]
GenEmit == AllDone => PrintT(ToJson(FinalJ))
\* no Finished: a generated behaviour ends (no successor) when every step has terminated
GenNext == \/ InFwdPut \/ InFwdTerm \/ LCStep \/ CDTrue \/ CDFalse \/ CDTerm
           \/ BodyOutAny \/ BodyTermAny \/ LOStepAny \/ TMStepAny \/ BPFwd
=============================================================================
