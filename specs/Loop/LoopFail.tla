------------------------------ MODULE LoopFail ------------------------------
(* C04 for loops: the loop sub-network of Loop.tla with an UNRECOVERABLE failure of one body job
   (no failure manager: the job ends FAILED), termination statuses on the termination tokens, the body
   steps made explicit, and the executor.

        IN --> p3 --> LC --> p4 --> CD --true--> p5 --> PRE[x] --> EX[x] --> p7[x] --> FW[x] --> p8[x]
                ^  ^                 |                 (schedule/   (Execute                      ^ |  |
                |  +--- BP <---------|---------------   transfer)    Step)     p8["o1"] ----------|-+  |
                |                    +---- false: ITERM on every skip port = p8[x] ---------------+    v
                +---- TM (dot product of p6[x]; ITERM@instance) <---- p6[x] <---------------------- LO[x]
                                                                       |
                                                                       +--> executor (workflow output ports)

   Token values and iteration order are the business of Loop.tla (C06); here only the control
   protocol matters: tok / iterm / term(status).  One action per token consumed (reaction + the put that
   follows, see the atomicity note in Loop.tla).

   EX[x]  ExecuteStep.run (step.py:869-909): a `retrieve_inputs` task (reading) and one task per running
          job; a job that ends FAILED cancels every other unfinished task - the sibling jobs AND the pending
          retrieve_inputs - so the loop `while unfinished` ends and the step terminates FAILED at once.
          CancelReader = FALSE is the variant in which the reader is not cancelled (the step then terminates
          only when its input port has terminated on its own).
   PRE[x] ScheduleStep/TransferStep in front of the ExecuteStep: forward, terminate with the status received.
   TM     CombinatorStep: a termination token marks ITS port terminated, the step goes on reading the other
          ports (TMStops = FALSE, as coded).  TMStops = TRUE is the proposed repair: a FAILED/CANCELLED
          termination token ends the step at once.
   X      StreamFlowExecutor.run/_wait_outputs: with output ports it reads p6[x]; a FAILED/CANCELLED
          termination token closes the executor WITHOUT terminating the steps and run() raises; when every
          output port terminated normally close() terminates (CANCELLED) whatever is still running.
          Without output ports it waits for every step task, then raises iff some step FAILED/CANCELLED.

   C04 for this family: (1) the executor ends, and raises iff the failing job was executed; (2) every step
   of the network terminates - also after the raise, because the executor does not stop the steps on that
   path.  Behaviours are finite, so "eventually" = "in every state without successor": `Stuck` is the only
   stuttering action and is enabled exactly in the terminal states; QuiescentEnded is the invariant form,
   ExecutorEnds / EveryStepEnds the temporal form under weak fairness.                               *)
EXTENDS Naturals, Integers, Sequences, FiniteSets, TLC

CONSTANTS NI, Counts, Outs, Scatter,
          FailOuts,      \* outputs whose body step may contain the failing job (subset of Outs)
          FailIters,     \* iteration numbers at which the job may fail (a number >= N[i]: the job never runs)
          WOSet,         \* subset of BOOLEAN: Init chooses whether the workflow declares the loop outputs as output ports
          CancelReader,  \* as coded: TRUE
          TMStops        \* as coded: FALSE

Inst == 1..NI
ITag(i) == IF Scatter THEN <<0, i - 1>> ELSE <<0>>
InstOf(tag) == CHOOSE i \in Inst : ITag(i) = tag
Prefix(tag) == SubSeq(tag, 1, Len(tag) - 1)
LastC(tag) == tag[Len(tag)]
Tok(tag) == [t |-> "tok", tag |-> tag]
ITerm(tag) == [t |-> "iterm", tag |-> tag]
Term(st) == [t |-> "term", tag |-> <<0>>, st |-> st]          \* st \in {"ok", "bad"}: COMPLETED|SKIPPED / FAILED|CANCELLED
Worse(a, b) == IF a = "bad" \/ b = "bad" THEN "bad" ELSE "ok"   \* _reduce_statuses

Steps == {<<k, "-">> : k \in {"IN", "LC", "CD", "TM", "BP"}} \cup {<<k, x>> : k \in {"PRE", "EX", "FW", "LO"}, x \in Outs}

VARIABLES N, fail, wo,     \* iteration counts; <<output, instance, iteration>> of the failing job; output ports declared
          infwd, q3, lc,   \* lc = [imap, chk, term, st]
          q4, q5, q5x, q7, q8, q8b, q6, q6x,
          ex,              \* [Outs -> [reading, jobs, st]]
          lo,              \* [Outs -> [cnt, size, st]]   cnt/size: instance tag -> tokens received / expected
          tm,              \* [have, term, st]
          done,            \* [Steps -> BOOLEAN]   step.terminated
          status,          \* [Steps -> "ok" | "bad" | "cancelled-by-close"]
          failed,          \* the failing job was executed
          xrecv, xstate    \* executor
vars == <<N, fail, wo, infwd, q3, lc, q4, q5, q5x, q7, q8, q8b, q6, q6x, ex, lo, tm, done, status, failed, xrecv, xstate>>

Empty == [x \in {} |-> 0]
Put(f, k, v) == [y \in DOMAIN f \cup {k} |-> IF y = k THEN v ELSE f[y]]
Get(f, k, d) == IF k \in DOMAIN f THEN f[k] ELSE d
FailTag == Append(ITag(fail[2]), fail[3])

Init ==
  /\ N \in [Inst -> Counts]
  /\ fail \in {<<x, i, k>> : x \in FailOuts, i \in Inst, k \in FailIters}
  /\ wo \in WOSet
  /\ infwd = 0 /\ q3 = <<>> /\ lc = [imap |-> Empty, chk |-> {}, term |-> FALSE, st |-> "ok"]
  /\ q4 = <<>>
  /\ q5 = [x \in Outs |-> <<>>] /\ q5x = [x \in Outs |-> <<>>] /\ q7 = [x \in Outs |-> <<>>]
  /\ q8 = [x \in Outs |-> <<>>] /\ q8b = <<>> /\ q6 = [x \in Outs |-> <<>>] /\ q6x = [x \in Outs |-> <<>>]
  /\ ex = [x \in Outs |-> [reading |-> TRUE, jobs |-> {}, st |-> "ok"]]
  /\ lo = [x \in Outs |-> [cnt |-> Empty, size |-> Empty, st |-> "ok"]]
  /\ tm = [have |-> [x \in Outs |-> {}], term |-> {}, st |-> "ok"]
  /\ done = [s \in Steps |-> FALSE]
  /\ status = [s \in Steps |-> "ok"]
  /\ failed = FALSE
  /\ xrecv = {} /\ xstate = "running"

Ends(s, st) == /\ done' = [done EXCEPT ![s] = TRUE] /\ status' = [status EXCEPT ![s] = st]
Q3Put(tk) == IF done[<<"LC", "-">>] THEN q3 ELSE Append(q3, tk)
Q6Put(q, x, toks) == [q EXCEPT ![x] = @ \o toks]

\* ---- input forwarder -----------------------------------------------------------------------------
InFwd ==
  /\ ~done[<<"IN", "-">>]
  /\ IF infwd < NI
     THEN /\ q3' = Q3Put(Tok(ITag(infwd + 1))) /\ infwd' = infwd + 1 /\ UNCHANGED <<done, status>>
     ELSE /\ q3' = Q3Put(Term("ok")) /\ UNCHANGED infwd /\ Ends(<<"IN", "-">>, "ok")
  /\ UNCHANGED <<N, fail, wo, lc, q4, q5, q5x, q7, q8, q8b, q6, q6x, ex, lo, tm, failed, xrecv, xstate>>

\* ---- LoopCombinatorStep --------------------------------------------------------------------------
LCStep ==
  /\ ~done[<<"LC", "-">>] /\ q3 # <<>>
  /\ LET tk == Head(q3)
         pre == Prefix(tk.tag)
         s1 == CASE tk.t = "term"  -> [lc EXCEPT !.term = TRUE, !.st = Worse(@, tk.st),
                                                  !.chk = IF tk.st = "bad" THEN {} ELSE @]   \* step.py:1267
                 [] tk.t = "iterm" -> [lc EXCEPT !.chk = @ \ {tk.tag}]
                 [] OTHER -> [lc EXCEPT !.chk = IF pre \in lc.chk THEN lc.chk ELSE lc.chk \cup {tk.tag},
                                        !.imap = IF pre \notin DOMAIN lc.imap THEN Put(lc.imap, tk.tag, 0)
                                                 ELSE Put(lc.imap, pre, lc.imap[pre] + 1)]
         ntag == IF pre \notin DOMAIN lc.imap THEN Append(tk.tag, 0) ELSE Append(pre, lc.imap[pre] + 1)
         stops == s1.term /\ s1.chk = {}
     IN /\ lc' = s1
        /\ q4' = (IF tk.t = "tok" THEN Append(q4, Tok(ntag)) ELSE q4) \o (IF stops THEN <<Term(s1.st)>> ELSE <<>>)
        /\ IF stops THEN Ends(<<"LC", "-">>, s1.st) ELSE UNCHANGED <<done, status>>
  /\ q3' = Tail(q3)
  /\ UNCHANGED <<N, fail, wo, infwd, q5, q5x, q7, q8, q8b, q6, q6x, ex, lo, tm, failed, xrecv, xstate>>

\* ---- loop condition ------------------------------------------------------------------------------
CDStep ==
  /\ ~done[<<"CD", "-">>] /\ q4 # <<>>
  /\ LET tk == Head(q4) IN
     CASE tk.t = "term" ->
            /\ q5' = [x \in Outs |-> Append(q5[x], Term(tk.st))] /\ Ends(<<"CD", "-">>, tk.st) /\ UNCHANGED <<q8, q8b>>
       [] tk.t = "tok" /\ LastC(tk.tag) < N[InstOf(Prefix(tk.tag))] ->
            /\ q5' = [x \in Outs |-> Append(q5[x], tk)] /\ UNCHANGED <<q8, q8b, done, status>>
       [] OTHER ->
            /\ q8' = [x \in Outs |-> Append(q8[x], ITerm(tk.tag))] /\ q8b' = Append(q8b, ITerm(tk.tag))
            /\ UNCHANGED <<q5, done, status>>
  /\ q4' = Tail(q4)
  /\ UNCHANGED <<N, fail, wo, infwd, q3, lc, q5x, q7, q6, q6x, ex, lo, tm, failed, xrecv, xstate>>

\* ---- schedule / transfer steps of the body --------------------------------------------------------
PreStep(x) ==
  /\ ~done[<<"PRE", x>>] /\ q5[x] # <<>>
  /\ q5x' = [q5x EXCEPT ![x] = Append(@, Head(q5[x]))]
  /\ q5' = [q5 EXCEPT ![x] = Tail(@)]
  /\ IF Head(q5[x]).t = "term" THEN Ends(<<"PRE", x>>, Head(q5[x]).st) ELSE UNCHANGED <<done, status>>
  /\ UNCHANGED <<N, fail, wo, infwd, q3, lc, q4, q7, q8, q8b, q6, q6x, ex, lo, tm, failed, xrecv, xstate>>

\* ---- ExecuteStep ---------------------------------------------------------------------------------
ExRecv(x) ==           \* the retrieve_inputs task completes
  /\ ~done[<<"EX", x>>] /\ ex[x].reading /\ q5x[x] # <<>>
  /\ LET tk == Head(q5x[x]) IN
     ex' = [ex EXCEPT ![x] = IF tk.t = "term"
                             THEN [reading |-> FALSE, st |-> Worse(@.st, tk.st),
                                   jobs |-> IF tk.st = "bad" THEN {} ELSE @.jobs]      \* cancels the jobs
                             ELSE [@ EXCEPT !.jobs = @ \cup {tk.tag}]]
  /\ q5x' = [q5x EXCEPT ![x] = Tail(@)]
  /\ UNCHANGED <<N, fail, wo, infwd, q3, lc, q4, q5, q7, q8, q8b, q6, q6x, lo, tm, done, status, failed, xrecv, xstate>>

IsFailing(x, tag) == x = fail[1] /\ tag = FailTag
ExJobDone(x, tag) ==
  /\ tag \in ex[x].jobs /\ ~IsFailing(x, tag)
  /\ ex' = [ex EXCEPT ![x].jobs = @ \ {tag}]
  /\ q7' = [q7 EXCEPT ![x] = Append(@, Tok(tag))]
  /\ UNCHANGED <<N, fail, wo, infwd, q3, lc, q4, q5, q5x, q8, q8b, q6, q6x, lo, tm, done, status, failed, xrecv, xstate>>
ExJobFail(x, tag) ==
  /\ tag \in ex[x].jobs /\ IsFailing(x, tag)
  /\ ex' = [ex EXCEPT ![x] = [reading |-> IF CancelReader THEN FALSE ELSE @.reading, jobs |-> {}, st |-> "bad"]]
  /\ failed' = TRUE
  /\ UNCHANGED <<N, fail, wo, infwd, q3, lc, q4, q5, q5x, q7, q8, q8b, q6, q6x, lo, tm, done, status, xrecv, xstate>>
ExEnd(x) ==            \* `while unfinished` has nothing left: terminate
  /\ ~done[<<"EX", x>>] /\ ~ex[x].reading /\ ex[x].jobs = {}
  /\ q7' = [q7 EXCEPT ![x] = Append(@, Term(ex[x].st))]
  /\ Ends(<<"EX", x>>, ex[x].st)
  /\ UNCHANGED <<N, fail, wo, infwd, q3, lc, q4, q5, q5x, q8, q8b, q6, q6x, ex, lo, tm, failed, xrecv, xstate>>

\* ---- output forwarder ----------------------------------------------------------------------------
FwStep(x) ==
  /\ ~done[<<"FW", x>>] /\ q7[x] # <<>>
  /\ q8' = [q8 EXCEPT ![x] = Append(@, Head(q7[x]))]
  /\ q8b' = IF x = "o1" THEN Append(q8b, Head(q7[x])) ELSE q8b
  /\ q7' = [q7 EXCEPT ![x] = Tail(@)]
  /\ IF Head(q7[x]).t = "term" THEN Ends(<<"FW", x>>, Head(q7[x]).st) ELSE UNCHANGED <<done, status>>
  /\ UNCHANGED <<N, fail, wo, infwd, q3, lc, q4, q5, q5x, q6, q6x, ex, lo, tm, failed, xrecv, xstate>>

\* ---- loop output step (terminates on the first termination token, see Loop.tla LOBreak) ------------
LoStep(x) ==
  /\ ~done[<<"LO", x>>] /\ q8[x] # <<>>
  /\ LET tk == Head(q8[x])
         pre == Prefix(tk.tag)
         s1 == CASE tk.t = "term"  -> [lo[x] EXCEPT !.st = Worse(@, tk.st)]
                 [] tk.t = "iterm" -> [lo[x] EXCEPT !.size = Put(@, pre, LastC(tk.tag))]
                 [] OTHER          -> [lo[x] EXCEPT !.cnt = Put(@, pre, Get(lo[x].cnt, pre, 0) + 1)]
         emits == tk.t # "term" /\ Get(s1.cnt, pre, 0) = Get(s1.size, pre, 0 - 1)
         toks == (IF emits THEN <<Tok(pre)>> ELSE <<>>) \o (IF tk.t = "term" THEN <<Term(s1.st)>> ELSE <<>>)
     IN /\ lo' = [lo EXCEPT ![x] = s1]
        /\ q6' = Q6Put(q6, x, toks)
        /\ q6x' = IF wo THEN Q6Put(q6x, x, toks) ELSE q6x
        /\ IF tk.t = "term" THEN Ends(<<"LO", x>>, s1.st) ELSE UNCHANGED <<done, status>>
  /\ q8' = [q8 EXCEPT ![x] = Tail(@)]
  /\ UNCHANGED <<N, fail, wo, infwd, q3, lc, q4, q5, q5x, q7, q8b, ex, tm, failed, xrecv, xstate>>

\* ---- loop terminator (CombinatorStep.run) ----------------------------------------------------------
TmStep(x) ==
  /\ ~done[<<"TM", "-">>] /\ x \notin tm.term /\ q6[x] # <<>>
  /\ LET tk == Head(q6[x]) IN
     IF tk.t = "term"
     THEN LET st1 == Worse(tm.st, tk.st)
              stops == (tm.term \cup {x} = Outs) \/ (TMStops /\ tk.st = "bad")
          IN /\ tm' = [tm EXCEPT !.term = @ \cup {x}, !.st = st1]
             /\ q3' = IF stops THEN Q3Put(Term(st1)) ELSE q3
             /\ IF stops THEN Ends(<<"TM", "-">>, st1) ELSE UNCHANGED <<done, status>>
     ELSE LET have1 == [tm.have EXCEPT ![x] = @ \cup {tk.tag}]
              full == \A y \in Outs : tk.tag \in have1[y]
          IN /\ tm' = [tm EXCEPT !.have = IF full THEN [y \in Outs |-> have1[y] \ {tk.tag}] ELSE have1]
             /\ q3' = IF full THEN Q3Put(ITerm(tk.tag)) ELSE q3
             /\ UNCHANGED <<done, status>>
  /\ q6' = [q6 EXCEPT ![x] = Tail(@)]
  /\ UNCHANGED <<N, fail, wo, infwd, lc, q4, q5, q5x, q7, q8, q8b, q6x, ex, lo, failed, xrecv, xstate>>

\* ---- back-propagation ----------------------------------------------------------------------------
BpStep ==
  /\ ~done[<<"BP", "-">>] /\ q8b # <<>>
  /\ q3' = Q3Put(Head(q8b))
  /\ q8b' = Tail(q8b)
  /\ IF Head(q8b).t = "term" THEN Ends(<<"BP", "-">>, Head(q8b).st) ELSE UNCHANGED <<done, status>>
  /\ UNCHANGED <<N, fail, wo, infwd, lc, q4, q5, q5x, q7, q8, q6, q6x, ex, lo, tm, failed, xrecv, xstate>>

\* ---- executor ------------------------------------------------------------------------------------
AnyBad(st) == \E s \in Steps : st[s] # "ok"
XRecv(x) ==            \* _wait_outputs on the output port p6[x]
  /\ wo /\ xstate = "running" /\ x \notin xrecv /\ q6x[x] # <<>>
  /\ LET tk == Head(q6x[x]) IN
     IF tk.t # "term" THEN UNCHANGED <<xrecv, xstate, done, status>>
     ELSE IF tk.st = "bad"
     THEN \* _cancel(): closed without terminating the steps; the status check raises
          /\ xstate' = "raised" /\ UNCHANGED <<xrecv, done, status>>
     ELSE /\ xrecv' = xrecv \cup {x}
          /\ IF xrecv' = Outs
             THEN \* close(): terminate(CANCELLED) on every step that has not terminated
                  /\ done' = [s \in Steps |-> TRUE]
                  /\ status' = [s \in Steps |-> IF done[s] THEN status[s] ELSE "cancelled-by-close"]
                  /\ xstate' = IF AnyBad(status') THEN "raised" ELSE "returned"
             ELSE UNCHANGED <<xstate, done, status>>
  /\ q6x' = [q6x EXCEPT ![x] = Tail(@)]
  /\ UNCHANGED <<N, fail, wo, infwd, q3, lc, q4, q5, q5x, q7, q8, q8b, q6, ex, lo, tm, failed>>
XGather ==             \* no output ports: gather(*executions), then the status check
  /\ ~wo /\ xstate = "running" /\ \A s \in Steps : done[s]
  /\ xstate' = IF AnyBad(status) THEN "raised" ELSE "returned"
  /\ UNCHANGED <<N, fail, wo, infwd, q3, lc, q4, q5, q5x, q7, q8, q8b, q6, q6x, ex, lo, tm, done, status, failed, xrecv>>

Ended == xstate # "running" /\ \A s \in Steps : done[s]
Stuck == Ended /\ UNCHANGED vars

StepAny == \E x \in Outs : \/ PreStep(x) \/ ExRecv(x) \/ ExEnd(x) \/ FwStep(x) \/ LoStep(x) \/ TmStep(x) \/ XRecv(x)
                           \/ \E tag \in ex[x].jobs : ExJobDone(x, tag) \/ ExJobFail(x, tag)
Next == InFwd \/ LCStep \/ CDStep \/ BpStep \/ StepAny \/ XGather \/ Stuck
Spec == Init /\ [][Next]_vars
FairSpec == Spec /\ WF_vars(Next)

\* ---- properties ----------------------------------------------------------------------------------
TypeOK == /\ xstate \in {"running", "raised", "returned"}
          /\ \A s \in Steps : status[s] \in {"ok", "bad", "cancelled-by-close"}
\* a failing job makes the executor raise, never return; without an executed failure it never raises
FailureMeansRaise == xstate = "returned" => ~failed
NoSpuriousRaise == xstate = "raised" => failed
\* with deadlock checking ON: the only states without a successor other than stuttering are the Ended ones
\* (TLC reports any other as a deadlock);  the same as an invariant:
QuiescentEnded == (~ENABLED (InFwd \/ LCStep \/ CDStep \/ BpStep \/ StepAny \/ XGather)) => Ended
ExecutorEnds == <>(xstate # "running")
EveryStepEnds == <>[](\A s \in Steps : done[s])
=============================================================================
