\* as coded; the failing job is in the body step that produces the fed-back output o1
CONSTANTS NI = 1  Counts = {1, 2, 3}  Outs = {"o1", "o2"}  Scatter = FALSE
          FailOuts = {"o1"}  FailIters = {0, 1, 2}  WOSet = {TRUE, FALSE}  CancelReader = TRUE  TMStops = FALSE
SPECIFICATION FairSpec
INVARIANT TypeOK
INVARIANT FailureMeansRaise
INVARIANT QuiescentEnded
PROPERTY ExecutorEnds
PROPERTY EveryStepEnds
