\* every interleaving, one instance (plain loop), counts 0..3, two outputs.  The driver generates the
\* other configurations (NI, Counts, Outs, Scatter, Eager) from this template.
CONSTANTS NI = 1  Counts = {0, 1, 2, 3}  Outs = {"o1", "o2"}  Scatter = FALSE  IdxSet = {0}  Eager = FALSE
INIT Init
NEXT Next
VIEW View
INVARIANT TypeOK
INVARIANT I1
INVARIANT I2
INVARIANT I3
INVARIANT TermLast
INVARIANT CounterOK
INVARIANT ChkOK
