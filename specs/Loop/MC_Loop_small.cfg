\* 2 instances, counts 0..3, two outputs: exhaustive interleavings
CONSTANTS NI = 2  Counts = {0, 1, 2, 3}  Outs = {"o1", "o2"}  Scatter = TRUE
INIT Init
NEXT Next
VIEW View
INVARIANT TypeOK
INVARIANT I1
INVARIANT I2
INVARIANT I3
INVARIANT TermLast
INVARIANT CounterOK
