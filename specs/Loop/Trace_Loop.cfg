\* template: the driver generates the CONSTANTS line per batch (NI, Counts, Outs, Scatter of the documents)
CONSTANTS NI = 2  Counts = {0, 1, 2, 3}  Outs = {"o1", "o2"}  Scatter = TRUE  IdxSet = {0, 1}  Eager = FALSE
INIT TInit
NEXT TNext
INVARIANT TAccept
INVARIANT I1
INVARIANT I2
INVARIANT I3
INVARIANT TermLast
INVARIANT CounterOK
INVARIANT ChkOK
CONSTRAINT TDiag
