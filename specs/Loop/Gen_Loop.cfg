\* generation: one JSON line per completed behaviour (use -simulate for large counts, -workers 1)
CONSTANTS NI = 2  Counts = {0, 1, 9, 10, 11, 15}  Outs = {"o1", "o2"}  Scatter = TRUE  IdxSet = {0, 1}  Eager = FALSE
INIT Init
NEXT GenNext
INVARIANT GenEmit
