\* template (the driver generates CONSTANTS per run): a scatter of 12 elements around the loop, -simulate, -workers 1
CONSTANTS NI = 12  Counts = {0, 1, 2, 3, 4}  Outs = {"o1", "o2"}  Scatter = TRUE  IdxSet = {0, 1, 2, 3, 4, 5, 6, 7, 8, 9, 10, 11}  Eager = FALSE
INIT WideInit
NEXT GenNext
INVARIANT GenEmit
INVARIANT I1
INVARIANT I2
INVARIANT I3
INVARIANT TermLast
INVARIANT CounterOK
INVARIANT ChkOK
