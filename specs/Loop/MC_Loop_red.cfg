\* partial-order reduced (Eager), loop inside a scatter: 2 instances x counts 0..3, two outputs
CONSTANTS NI = 2  Counts = {0, 1, 2, 3}  Outs = {"o1", "o2"}  Scatter = TRUE  IdxSet = {0, 1}  Eager = TRUE
INIT Init
NEXT Next
VIEW View
INVARIANT TypeOK
INVARIANT I1
INVARIANT I2
INVARIANT I3
INVARIANT TermLast
INVARIANT CounterOK
INVARIANT ChkOK
