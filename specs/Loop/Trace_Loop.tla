----------------------------- MODULE Trace_Loop -----------------------------
(* Trace validation (code -> spec) for real loop workflows: the events are the Port.put calls recorded
   while streamflow.cwl.runner executed a generated loop document, projected to the model's ports.

   trace[1]  = [N |-> <<N_1, .., N_NI>>]                      the iteration counts of the document
   events    = [p |-> "p3", by |-> "in"|"bp"|"tm", t, tag]     put on LC's input port (three producers)
               [p |-> "p4", t, tag]                            LoopCombinatorStep output
               [p |-> "p5", t, tag]                            conditional true branch / its termination
               [p |-> "cdfalse", tag, xs]                      ITERM put on the skip ports xs in one atomic section
               [p |-> "p8", x, t, tag]                         output forwarder of output x (body results)
               [p |-> "p6", x, t, tag, m, all, last]           loop output step of x (m = "all" | "last")
   Consumption is silent (DESIGN.md 3.3): reactions of LC / LO / TM that put nothing are taken without
   consuming an event.  All invariants of Loop are evaluated on every state of the real trace.      *)
EXTENDS Loop, TraceUtil
VARIABLES tid, l
tvars == <<vars, tid, l>>

Tr == Traces[tid]
More == l <= Len(Tr)
Ev == Tr[l]
LastOf(s) == s[Len(s)]
Grew(a, b) == Len(b) = Len(a) + 1
Matches(e, tk) == e.t = tk.t /\ e.tag = tk.tag

\* N is fixed BEFORE Init so that `N \in [Inst -> Counts]` is a membership test (a scatter of 12 instances
\* has |Counts|^12 count vectors: they must not be enumerated)
TInit == /\ tid \in 1..Len(Traces) /\ l = 2
         /\ N = [i \in Inst |-> Traces[tid][1].N[i]] /\ Init

OnP3 == /\ Ev.p = "p3"
        /\ \/ Ev.by = "in" /\ (InFwdPut \/ InFwdTerm)
           \/ Ev.by = "bp" /\ BPFwd
           \/ Ev.by = "tm" /\ TMStepAny
        /\ Grew(hist.p3, hist'.p3) /\ LastOf(hist'.p3).by = Ev.by /\ Matches(Ev, LastOf(hist'.p3).tok)
OnP4 == /\ Ev.p = "p4" /\ LCStep
        /\ Grew(hist.p4, hist'.p4) /\ Matches(Ev, LastOf(hist'.p4).tok)
OnP5 == /\ Ev.p = "p5"
        /\ \/ Ev.t = "tok" /\ CDTrue /\ Head(q4).tag = Ev.tag
           \/ Ev.t = "term" /\ CDTerm
OnCDFalse == /\ Ev.p = "cdfalse" /\ {Ev.xs[j] : j \in 1..Len(Ev.xs)} = Outs
             /\ CDFalse /\ Head(q4).tag = Ev.tag
OnP8 == /\ Ev.p = "p8" /\ Ev.x \in Outs
        /\ \/ Ev.t = "tok" /\ BodyOut(Ev.x, Ev.tag)
           \/ Ev.t = "term" /\ BodyTerm(Ev.x)
OnP6 == /\ Ev.p = "p6" /\ Ev.x \in Outs /\ LOStep(Ev.x)
        /\ Grew(hist.p6[Ev.x], hist'.p6[Ev.x])
        /\ LET o == LastOf(hist'.p6[Ev.x]).tok
           IN /\ Matches(Ev, o)
              /\ Ev.t = "tok" => IF Ev.m = "all" THEN Ev.all = o.all ELSE Ev.last = o.last

Logged == More /\ (OnP3 \/ OnP4 \/ OnP5 \/ OnCDFalse \/ OnP8 \/ OnP6) /\ l' = l + 1 /\ UNCHANGED tid
Silent == /\ \/ LCStep /\ hist'.p4 = hist.p4
             \/ \E x \in Outs : LOStep(x) /\ hist'.p6 = hist.p6
             \/ \E x \in Outs : TMStep(x) /\ hist'.p3 = hist.p3
          /\ UNCHANGED <<tid, l>>
TNext == Logged \/ Silent
TSpec == TInit /\ [][TNext]_tvars

TAccept == (~More /\ AllDone) => TUAcceptMsg(tid)
TDiag == TUDiagMsg(tid, l)
=============================================================================
