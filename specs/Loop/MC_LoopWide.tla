---------------------------- MODULE MC_LoopWide ----------------------------
(* MANY CONCURRENT LOOP INSTANCES (a loop inside a scatter of >= 11 elements: instance tags 0.0 .. 0.9, 0.10,
   0.11, .. whose components have several digits).  The count vectors are an input chosen by the driver
   (NChoices: seeded, every completion-order class represented - see C06.py), TLC chooses the interleaving
   (-simulate).  N is fixed before Init: [Inst -> Counts] has |Counts|^NI elements and is never enumerated.
   Every generated state is checked against the invariants of Loop; completed behaviours are printed as in
   MC_Loop.                                                                                             *)
EXTENDS MC_Loop, LoopWideChoices        \* NChoices: set of count vectors <<N_1, .., N_NI>>
ASSUME \A v \in NChoices : DOMAIN v = 1..NI /\ \A i \in 1..NI : v[i] \in Counts
WideInit == N \in NChoices /\ Init
=============================================================================
