-------------------------- MODULE LoopWideChoices --------------------------
(* Count vectors of the wide-scatter runs (input of MC_LoopWide).  A cfg file cannot hold tuples, so the driver
   REGENERATES this module for every run (seeded vectors, see C06.py `_wide_vectors`); this copy documents the format. *)
NChoices == { <<1, 2, 1, 0, 2, 1, 2, 1, 1, 2, 4, 3>>,      \* 0.10, 0.11 outlast 0.1 and 0.1 is the last of 0.0 .. 0.9
              <<1, 3, 1, 0, 2, 1, 2, 1, 1, 2, 1, 0>> }     \* 0.1 outlasts 0.10, 0.11
=============================================================================
