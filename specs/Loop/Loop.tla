-------------------------------- MODULE Loop --------------------------------
(* The loop sub-network that the CWL translator builds for a step with a `Loop` requirement
   (streamflow/cwl/translator.py, "Process loop outputs"), one loop variable i1 fed back from the
   output o1, any number of further outputs (o2 ...) that are *not* fed back.

        in-fwd ----> p3 ----> LC ----> p4 ----> CD --true--> p5 --> body jobs --> out-fwd(x) --> p8[x]
                      ^  ^                       |                                               ^  |  |
                      |  +--- BP <---------------|-------------------- p8["o1"] -----------------|--+  |
                      |                          +----false: ITERM on every skip port = p8[x] ---+     v
                      +---- TM (dot product of p6[x], emits ITERM@instance) <---- p6[x] <---- LO[x] <--+

   LC  LoopCombinatorStep + LoopCombinator      (iteration_termination_checklist, iteration_map)
   CD  CWLLoopConditionalStep                   (instance i iterates N[i] times)
   LO  CWLLoopOutput{All,Last}Step              (token_map, size_map, termination_map)   one per output
   TM  CombinatorStep + LoopTerminationCombinator
   BP  back-propagation ForwardTransformer,  in-fwd  input ForwardTransformer
   p3 has three producers (in-fwd, BP, TM); p8[x] has two (output forwarder, CD's skip port) and
   p8["o1"] has two consumers (LO["o1"], BP).

   Ports are FIFO queues per consumer (Port.put appends to every consumer queue).  Atomic sections
   of the code (DESIGN.md 3.5): every `port.put(await self._persist_token(..))` suspends in the
   database call, so a step's reaction to an input token and the put that follows are two atomic
   sections, and the step does not read its next token in between.  Here the two are ONE action,
   taken at the moment of the put: the reaction only changes the step's private state and removes
   the head of a queue that only this step reads, so it commutes with every action of every other
   step up to the put (a queue only grows at its tail in the meantime); behaviours of the finer
   model and of this one have the same sequences on every port.  Trace_Loop relies on the same
   fact: consumption is silent in a real trace (DESIGN.md 3.3), the put is the logged event.
   Puts that are not preceded by an await (iteration-termination tokens of the conditional,
   termination tokens in `terminate`) belong to the same action as well.
   The body (token transformers, schedule/execute steps, output forwarder) is abstracted to "a job
   per (output, iteration) that may finish in any order": `pend`.

   Token values are implied by (port, tag) and are not modelled: an emitted loop output carries the
   *iteration numbers* it was built from (`all` in emission order, `last`), the driver maps them to
   the values of the generated document.                                                         *)
EXTENDS Naturals, Integers, Sequences, FiniteSets, TLC, Tags

CONSTANTS NI,        \* number of loop instances (scatter elements around the loop)
          Counts,    \* admissible iteration counts; Init chooses N \in [1..NI -> Counts]
          Outs,      \* outputs of the loop step; "o1" is fed back to the loop variable
          Scatter,   \* TRUE: instance tags are 0.j (loop inside a scatter); FALSE: the instance tag is 0
          IdxSet,    \* the NI scatter indices of the loop instances; Idx = IdxSet in increasing order: the tag of
                     \* instance i is 0.Idx[i].  0..NI-1 is a full scatter; a sparse IdxSet (e.g. {1, 10, 11})
                     \* is a scatter whose other elements never reach the loop (`when` on the scattered step) or,
                     \* read as a projection, the instances of a wide scatter that are still alive.  Tags are
                     \* sequences of NATURALS: 0.1 is not a prefix of 0.10 and 0.10 is not an iteration of 0.1,
                     \* whatever their decimal renderings look like (StrRelated below names that input class).
          Eager      \* TRUE: partial-order reduction, see "Reduction" below (FALSE = every interleaving)

ASSUME /\ NI \in Nat \ {0} /\ Counts \subseteq Nat /\ "o1" \in Outs /\ (Scatter \/ NI = 1)
       /\ IdxSet \subseteq Nat /\ Cardinality(IdxSet) = NI

Inst == 1..NI
Idx == [i \in Inst |-> CHOOSE v \in IdxSet : Cardinality({w \in IdxSet : w < v}) = i - 1]
ITag(i) == IF Scatter THEN <<0, Idx[i]>> ELSE <<0>>
\* Input class "many concurrent instances with multi-digit tags": the decimal rendering of one instance's
\* scatter index is a proper STRING prefix of another's (1 and 10..19, 2 and 20..29, 1 and 100..199 ..).
\* Nothing in the specification depends on it; the driver requires that the bound behaviours exercise it.
DecPrefix(a, b) == a > 0 /\ \E k \in 1..4 : b \div (10 ^ k) = a
StrRelated == Scatter /\ \E i, j \in Inst : DecPrefix(Idx[i], Idx[j])
InstOf(tag) == CHOOSE i \in Inst : ITag(i) = tag
Prefix(tag) == SubSeq(tag, 1, Len(tag) - 1)              \* ".".join(tag.split(".")[:-1])
LastC(tag) == tag[Len(tag)]                               \* int(tag.split(".")[-1])
Tok(tag) == [t |-> "tok", tag |-> tag]
ITerm(tag) == [t |-> "iterm", tag |-> tag]
Term == [t |-> "term", tag |-> <<0>>]                     \* TerminationToken has the default tag "0"

\* python dicts
Empty == [x \in {} |-> 0]
Put(f, k, v) == [x \in DOMAIN f \cup {k} |-> IF x = k THEN v ELSE f[x]]
Get(f, k, d) == IF k \in DOMAIN f THEN f[k] ELSE d

VARIABLES N,       \* [Inst -> Counts] the conditional's decisions (fixed in Init)
          infwd,   \* input forwarder: number of instance tokens forwarded (NI + 1: terminated)
          q3, lc,  \* LC input queue; LC state [imap, chk, term, done, n]
          q4,      \* CD input queue
          cddone,  \* the conditional has terminated (termination token on p5)
          pend,    \* [Outs -> set of iteration tags] body jobs started and not finished
          bterm,   \* [Outs -> BOOLEAN] output forwarder terminated
          q8, q8b, \* [Outs -> queue of LO[x]];  queue of BP (consumer of p8["o1"])
          lo,      \* [Outs -> [tmap, smap, termmap, done, n]]
          q6, tm,  \* [Outs -> queue of TM]; TM state [have, term, done]
          bpdone,
          em,      \* [Outs -> [instance tag -> sequence of emitted outputs]]   (what I1/I2 talk about)
          hist     \* history only: everything put on p3, p4, p8[x], p6[x], in order, and LC's checklist
                   \* (iteration_termination_checklist) after each token it consumed

vars == <<N, infwd, q3, lc, q4, cddone, pend, bterm, q8, q8b, lo, q6, tm, bpdone, em, hist>>
View == <<N, infwd, q3, lc, q4, cddone, pend, bterm, q8, q8b, lo, q6, tm, bpdone, em>>

LO0 == [tmap |-> Empty, smap |-> Empty, termmap |-> Empty, done |-> FALSE, n |-> 0]

Init ==
  /\ N \in [Inst -> Counts]
  /\ infwd = 0
  /\ q3 = <<>> /\ lc = [imap |-> Empty, chk |-> {}, term |-> FALSE, done |-> FALSE, n |-> 0]
  /\ q4 = <<>> /\ cddone = FALSE
  /\ pend = [x \in Outs |-> {}]
  /\ bterm = [x \in Outs |-> FALSE]
  /\ q8 = [x \in Outs |-> <<>>] /\ q8b = <<>>
  /\ lo = [x \in Outs |-> LO0]
  /\ q6 = [x \in Outs |-> <<>>]
  /\ tm = [have |-> [x \in Outs |-> {}], term |-> {}, done |-> FALSE]
  /\ bpdone = FALSE
  /\ em = [x \in Outs |-> [i \in {ITag(j) : j \in Inst} |-> <<>>]]
  /\ hist = [p3 |-> <<>>, p4 |-> <<>>, p8 |-> [x \in Outs |-> <<>>], p6 |-> [x \in Outs |-> <<>>], chk |-> <<>>]

\* history helpers -------------------------------------------------------------------------------
H3(h, tk, by) == [h EXCEPT !.p3 = Append(@, [tok |-> tk, by |-> by])]
H4(h, tk, n) == [h EXCEPT !.p4 = Append(@, [tok |-> tk, n |-> n])]
H8(h, x, tk) == [h EXCEPT !.p8[x] = Append(@, tk)]
H8all(h, tk) == [h EXCEPT !.p8 = [x \in Outs |-> Append(h.p8[x], tk)]]
H6(h, x, tk, n) == [h EXCEPT !.p6[x] = Append(@, [tok |-> tk, n |-> n])]

\* Reduction ---------------------------------------------------------------------------------------
\* An action that only consumes from a queue which its step alone reads, changes that step's private
\* state and appends to a queue with a single producer and a single consumer commutes with every
\* action of every other step.  With Eager such *local* actions run as soon as they are enabled, in a
\* fixed priority order, and pre-empt the *visible* actions (those that append to a port with several
\* producers: p3, p8[x]).  Every behaviour of the full model is equivalent (by swapping independent
\* actions) to one of the reduced model with the same sequence on every port, so I1, I2 (functions of
\* the sequences on p8/p6), the first conjunct of I3 (private to one LO step) and deadlock freedom
\* are preserved.  The second conjunct of I3 relates two steps: it is checked with Eager = FALSE.
LCReady == ~lc.done /\ q3 # <<>>
CDLocalReady == ~cddone /\ q4 # <<>>
                /\ (Head(q4).t = "term" \/ LastC(Head(q4).tag) < N[InstOf(Prefix(Head(q4).tag))])
LOReady(x) == ~lo[x].done /\ q8[x] # <<>>
TMWrites(x) == IF Head(q6[x]).t = "term" THEN tm.term \cup {x} = Outs
               ELSE \A y \in Outs \ {x} : Head(q6[x]).tag \in tm.have[y]
TMReady(x) == ~tm.done /\ x \notin tm.term /\ q6[x] # <<>>
TMLocalReady(x) == TMReady(x) /\ ~TMWrites(x)
EagerPending == Eager /\ (LCReady \/ CDLocalReady \/ (\E x \in Outs : LOReady(x) \/ TMLocalReady(x)))
Vis == ~EagerPending                                         \* guard of the visible actions
PrioCD == Eager => ~LCReady
PrioLO(x) == Eager => ~LCReady /\ ~CDLocalReady /\ (x = "o1" \/ ~LOReady("o1"))
PrioTM(x) == Eager => IF TMWrites(x) THEN Vis
                      ELSE ~LCReady /\ ~CDLocalReady /\ ~(\E y \in Outs : LOReady(y))

\* tokens put on p3 after LC stopped reading are never consumed: not kept in the queue
Q3Put(tk) == IF lc.done THEN q3 ELSE Append(q3, tk)

\* ------------------------------------------------------------------------------------------------
\* input forwarder: the instance tokens in scatter order, then it terminates
InFwdPut ==
  /\ Vis /\ infwd < NI
  /\ infwd' = infwd + 1
  /\ q3' = Q3Put(Tok(ITag(infwd + 1)))
  /\ hist' = H3(hist, Tok(ITag(infwd + 1)), "in")
  /\ UNCHANGED <<N, lc, q4, cddone, pend, bterm, q8, q8b, lo, q6, tm, bpdone, em>>

InFwdTerm ==
  /\ Vis /\ infwd = NI
  /\ infwd' = NI + 1
  /\ q3' = Q3Put(Term)
  /\ hist' = H3(hist, Term, "in")
  /\ UNCHANGED <<N, lc, q4, cddone, pend, bterm, q8, q8b, lo, q6, tm, bpdone, em>>

\* ------------------------------------------------------------------------------------------------
\* LoopCombinatorStep.run, one finished get task (step.py:1257-1322) + LoopCombinator._product
\* LCOut: the retagged token the combinator yields for an ordinary token
LCOut(s, tk) ==
  LET pre == Prefix(tk.tag)
  IN IF pre \notin DOMAIN s.imap THEN Append(tk.tag, 0) ELSE Append(pre, s.imap[pre] + 1)
LCReact(s, tk) ==
  CASE tk.t = "term"  -> [s EXCEPT !.term = TRUE]
    [] tk.t = "iterm" -> [s EXCEPT !.chk = @ \ {tk.tag}]       \* only tags that are in the checklist
    [] OTHER ->
       LET pre == Prefix(tk.tag)
       IN [s EXCEPT !.chk = IF pre \in s.chk THEN s.chk ELSE s.chk \cup {tk.tag},
                    !.imap = IF pre \notin DOMAIN s.imap THEN Put(s.imap, tk.tag, 0)
                             ELSE Put(s.imap, pre, s.imap[pre] + 1)]
\* `not (task_name in terminated and len(checklist) == 0)` decides whether the port is read again
LCStops(s) == s.term /\ s.chk = {}

LCStep ==
  /\ LCReady
  /\ LET tk == Head(q3)
         s1 == [LCReact(lc, tk) EXCEPT !.n = @ + 1]
     IN /\ lc' = [s1 EXCEPT !.done = LCStops(s1)]
        /\ q4' = (IF tk.t = "tok" THEN Append(q4, Tok(LCOut(lc, tk))) ELSE q4)
                 \o (IF LCStops(s1) THEN <<Term>> ELSE <<>>)
        /\ hist' = LET h0 == [hist EXCEPT !.chk = Append(@, s1.chk)]
                       h1 == IF tk.t = "tok" THEN H4(h0, Tok(LCOut(lc, tk)), s1.n) ELSE h0
                   IN IF LCStops(s1) THEN H4(h1, Term, s1.n) ELSE h1
  /\ q3' = Tail(q3)
  /\ UNCHANGED <<N, infwd, cddone, pend, bterm, q8, q8b, lo, q6, tm, bpdone, em>>

\* ------------------------------------------------------------------------------------------------
\* CWLLoopConditionalStep: iteration k of instance i runs iff k < N[i]
\* true: the token reaches p5 and the body starts one job per output for this iteration
CDTrue ==
  /\ ~cddone /\ q4 # <<>> /\ Head(q4).t = "tok" /\ PrioCD
  /\ LastC(Head(q4).tag) < N[InstOf(Prefix(Head(q4).tag))]
  /\ pend' = [x \in Outs |-> pend[x] \cup {Head(q4).tag}]
  /\ q4' = Tail(q4)
  /\ UNCHANGED <<N, infwd, q3, lc, cddone, bterm, q8, q8b, lo, q6, tm, bpdone, em, hist>>

\* _on_false: IterationTerminationToken on every skip port, no await in between
CDFalse ==
  /\ Vis /\ ~cddone /\ q4 # <<>> /\ Head(q4).t = "tok"
  /\ LastC(Head(q4).tag) >= N[InstOf(Prefix(Head(q4).tag))]
  /\ q4' = Tail(q4)
  /\ q8' = [x \in Outs |-> Append(q8[x], ITerm(Head(q4).tag))]
  /\ q8b' = Append(q8b, ITerm(Head(q4).tag))
  /\ hist' = H8all(hist, ITerm(Head(q4).tag))
  /\ UNCHANGED <<N, infwd, q3, lc, cddone, pend, bterm, lo, q6, tm, bpdone, em>>

CDTerm ==
  /\ ~cddone /\ q4 # <<>> /\ Head(q4).t = "term" /\ PrioCD
  /\ q4' = Tail(q4)
  /\ cddone' = TRUE
  /\ UNCHANGED <<N, infwd, q3, lc, pend, bterm, q8, q8b, lo, q6, tm, bpdone, em, hist>>

\* ------------------------------------------------------------------------------------------------
\* body + output forwarder: jobs finish in any order; the forwarder terminates after the last one
BodyOut(x, tag) ==
  /\ Vis /\ tag \in pend[x]
  /\ pend' = [pend EXCEPT ![x] = @ \ {tag}]
  /\ q8' = [q8 EXCEPT ![x] = Append(@, Tok(tag))]
  /\ q8b' = IF x = "o1" THEN Append(q8b, Tok(tag)) ELSE q8b
  /\ hist' = H8(hist, x, Tok(tag))
  /\ UNCHANGED <<N, infwd, q3, lc, q4, cddone, bterm, lo, q6, tm, bpdone, em>>
BodyOutAny == \E x \in Outs : \E tag \in pend[x] : BodyOut(x, tag)

BodyTerm(x) ==
  /\ Vis /\ cddone /\ pend[x] = {} /\ ~bterm[x]
  /\ bterm' = [bterm EXCEPT ![x] = TRUE]
  /\ q8' = [q8 EXCEPT ![x] = Append(@, Term)]
  /\ q8b' = IF x = "o1" THEN Append(q8b, Term) ELSE q8b
  /\ hist' = H8(hist, x, Term)
  /\ UNCHANGED <<N, infwd, q3, lc, q4, cddone, pend, lo, q6, tm, bpdone, em>>

\* ------------------------------------------------------------------------------------------------
\* LoopOutputStep.run (step.py:1364-1411) and CWLLoopOutput{All,Last}Step._process_output
ByIteration(a, b) == LastC(a) < LastC(b)                  \* key=lambda t: int(t.tag.split(".")[-1])
ProcessOutput(s, prefix) ==
  LET sorted == SortSeq(Get(s.tmap, prefix, <<>>), ByIteration)
  IN [t |-> "tok", tag |-> prefix,
      all |-> [j \in 1..Len(sorted) |-> LastC(sorted[j])],
      last |-> IF Len(sorted) = 0 THEN 0 - 1 ELSE LastC(sorted[Len(sorted)])]

\* `if self.termination_map and all(self.termination_map)`: all() ranges over the KEYS of the dict;
\* a key is a tag prefix, truthy unless it is the empty string
LOBreak(s) == DOMAIN s.termmap # {} /\ \A k \in DOMAIN s.termmap : k # <<>>

LOReact(s, tk) ==
  LET prefix == Prefix(tk.tag)
  IN CASE tk.t = "term"  -> IF DOMAIN s.tmap = {} THEN s
                             ELSE [s EXCEPT !.termmap = [k \in DOMAIN s.tmap |-> Len(s.tmap[k]) = Get(s.smap, k, 0 - 1)]]
       [] tk.t = "iterm" -> [s EXCEPT !.smap = Put(@, prefix, LastC(tk.tag))]
       [] OTHER          -> [s EXCEPT !.tmap = Put(@, prefix, Append(Get(s.tmap, prefix, <<>>), tk.tag))]
LOEmits(s, tk) == Len(Get(s.tmap, Prefix(tk.tag), <<>>)) = Get(s.smap, Prefix(tk.tag), 0 - 1)

LOStep(x) ==
  /\ LOReady(x) /\ PrioLO(x)
  /\ LET tk == Head(q8[x])
         s1 == [LOReact(lo[x], tk) EXCEPT !.n = @ + 1]
         brk0 == tk.t = "term" /\ DOMAIN lo[x].tmap = {}          \* "no iterations have been performed"
         emits == ~brk0 /\ LOEmits(s1, tk)
         o == ProcessOutput(s1, Prefix(tk.tag))
         stops == brk0 \/ LOBreak(s1)
     IN /\ lo' = [lo EXCEPT ![x] = [s1 EXCEPT !.done = stops]]
        /\ q6' = [q6 EXCEPT ![x] = @ \o (IF emits THEN <<o>> ELSE <<>>) \o (IF stops THEN <<Term>> ELSE <<>>)]
        /\ em' = IF emits THEN [em EXCEPT ![x] = Put(@, o.tag, Append(Get(em[x], o.tag, <<>>), o))] ELSE em
        /\ hist' = LET h1 == IF emits THEN H6(hist, x, o, s1.n) ELSE hist
                   IN IF stops THEN H6(h1, x, Term, s1.n) ELSE h1
  /\ q8' = [q8 EXCEPT ![x] = Tail(@)]
  /\ UNCHANGED <<N, infwd, q3, lc, q4, cddone, pend, bterm, q8b, tm, bpdone>>

\* ------------------------------------------------------------------------------------------------
\* loop terminator: dot product of the loop outputs by tag -> ITERM@instance on LC's input port
TMStep(x) ==
  /\ TMReady(x) /\ PrioTM(x)
  /\ LET tk == Head(q6[x])
     IN IF tk.t = "term"
        THEN /\ tm' = [tm EXCEPT !.term = @ \cup {x}, !.done = (tm.term \cup {x} = Outs)]
             /\ q3' = IF tm.term \cup {x} = Outs THEN Q3Put(Term) ELSE q3
             /\ hist' = IF tm.term \cup {x} = Outs THEN H3(hist, Term, "tm") ELSE hist
        ELSE LET have1 == [tm.have EXCEPT ![x] = @ \cup {tk.tag}]
                 full == \A y \in Outs : tk.tag \in have1[y]
             IN /\ tm' = [tm EXCEPT !.have = IF full THEN [y \in Outs |-> have1[y] \ {tk.tag}] ELSE have1]
                /\ q3' = IF full THEN Q3Put(ITerm(tk.tag)) ELSE q3
                /\ hist' = IF full THEN H3(hist, ITerm(tk.tag), "tm") ELSE hist
  /\ q6' = [q6 EXCEPT ![x] = Tail(@)]
  /\ UNCHANGED <<N, infwd, lc, q4, cddone, pend, bterm, q8, q8b, lo, bpdone, em>>

\* back-propagation forwarder (Transformer.run forwards iteration-termination tokens unchanged)
BPFwd ==
  /\ Vis /\ ~bpdone /\ q8b # <<>>
  /\ q3' = Q3Put(Head(q8b))
  /\ q8b' = Tail(q8b)
  /\ bpdone' = (Head(q8b).t = "term")
  /\ hist' = H3(hist, Head(q8b), "bp")
  /\ UNCHANGED <<N, infwd, lc, q4, cddone, pend, bterm, q8, lo, q6, tm, em>>

AllDone == /\ infwd = NI + 1 /\ lc.done /\ cddone /\ bpdone /\ tm.done
           /\ \A x \in Outs : bterm[x] /\ lo[x].done
Finished == AllDone /\ UNCHANGED vars

LOStepAny == \E x \in Outs : LOStep(x)
TMStepAny == \E x \in Outs : TMStep(x)
BodyTermAny == \E x \in Outs : BodyTerm(x)

Next == \/ InFwdPut \/ InFwdTerm \/ LCStep \/ CDTrue \/ CDFalse \/ CDTerm
        \/ BodyOutAny \/ BodyTermAny \/ LOStepAny \/ TMStepAny \/ BPFwd \/ Finished

Spec == Init /\ [][Next]_vars
FairSpec == Spec /\ WF_vars(Next)

\* ------------------------------------------------------------------------------------------------
\* properties
ITags == {ITag(i) : i \in Inst}
Expected(i) == [t |-> "tok", tag |-> ITag(i), all |-> [j \in 1..N[i] |-> j - 1],
                last |-> N[i] - 1]

TypeOK == /\ infwd \in 0..NI + 1
          /\ \A x \in Outs : DOMAIN em[x] = ITags

\* (I1) at most one output per instance at any time, tagged with the instance tag; exactly one
\*      once the loop output step has terminated (with I3)
I1 == \A x \in Outs : \A it \in ITags :
        /\ Len(em[x][it]) <= 1
        /\ \A j \in 1..Len(em[x][it]) : em[x][it][j].tag = it
\* (I2) the output is built from all N[i] iterations in iteration order (numeric), last = N[i]-1
\*      (-1 stands for "no iteration": null for `last`, the empty list for `all`)
I2 == \A x \in Outs : \A i \in Inst :
        \A j \in 1..Len(em[x][ITag(i)]) : em[x][ITag(i)][j] = Expected(i)
\* (I3) no loop step terminates before every instance has emitted
I3 == /\ \A x \in Outs : lo[x].done => \A it \in ITags : Len(em[x][it]) = 1
      /\ lc.done => \A x \in Outs : \A it \in ITags : Len(em[x][it]) = 1
\* the termination token is the last thing a loop output step sees (what makes the all(keys) test harmless)
TermLast == \A x \in Outs : bterm[x] => pend[x] = {} /\ cddone
\* the iteration counter is per instance and never runs past the instance's count
CounterOK == \A it \in DOMAIN lc.imap : it \in ITags /\ lc.imap[it] <= N[InstOf(it)]

\* LC's checklist holds instance tags only, and every instance LC has seen stays in it until that instance has
\* emitted on every output (this is what keeps the loop step alive while other instances finish: I3)
ChkOK == /\ lc.chk \subseteq ITags
         /\ \A it \in ITags : it \in lc.chk => it \in DOMAIN lc.imap
         /\ \A it \in ITags : (it \in DOMAIN lc.imap /\ \E x \in Outs : Len(em[x][it]) = 0) => it \in lc.chk

\* (L) every loop step terminates
Termination == <>AllDone
=============================================================================
