CONSTANTS NI = 2  Counts = {0, 1, 2}  Outs = {"o1", "o2"}  Scatter = TRUE
SPECIFICATION FairSpec
PROPERTY Termination
INVARIANT I1
INVARIANT I3
