\* (L) every loop step terminates, under weak fairness of the next-state relation
CONSTANTS NI = 1  Counts = {0, 1, 2}  Outs = {"o1", "o2"}  Scatter = FALSE  IdxSet = {0}  Eager = FALSE
SPECIFICATION FairSpec
PROPERTY Termination
INVARIANT I1
INVARIANT I3
