\* generation config (use with any MC_Deployment_* module, -workers 1): one JSON line per transition
CONSTANTS Deps <- MCDeps Wraps <- MCWraps Kind <- MCKind Lazy <- MCLazy Fails <- MCFails Instant <- MCInstant NReq = 3 ReqChoices <- MCChoices Fixes <- MCFixes
INIT Init
NEXT GenNext
INVARIANT ModelOK
