---- MODULE MC_Deployment_wrapfail ----
EXTENDS Deployment, Json
\* Instance `wrapfail-3deploy` of Deployment.tla with Fixes = ['A', 'B', 'C', 'D', 'E', 'F'] (the code as repaired in /repo; Fixes = {} reproduces the defect of the code before the repairs; written by harness/vh/props/C26.py:mc_files; the driver generates
\* one such module per scenario at run time).  Run: tlc -deadlock -config MC_Deployment_wrapfail.cfg MC_Deployment_wrapfail.tla ; GenNext = per-transition emission.
MCDeps == {"i", "o"}
MCWraps == [d \in MCDeps |-> CASE d = "i" -> "-" [] d = "o" -> "i"]
MCKind == [d \in MCDeps |-> CASE d = "i" -> "eager" [] d = "o" -> "wrapper"]
MCLazy == {}
MCFails == {"i"}
MCInstant == {}
MCChoices == << {<<"deploy", "o">>}, {<<"deploy", "o">>}, {<<"deploy", "o">>} >>
MCFixes == {"A", "B", "C", "D", "E", "F"}
Emit(a) == PrintT(ToJson([f |-> S, a |-> a, t |-> S', v |-> ViolSet(S, S')]))
GenNext == \/ \E r \in Reqs, k \in {"deploy", "undeploy", "uall", "use"}, d \in Names :
                Start(r, k, d) /\ Emit(<<"Start", ToString(r), k, d>>)
           \/ \E t \in Tasks : IODone(t) /\ Emit(<<"IODone", ToString(t)>>)
           \/ Step /\ Emit(<<"Step">>)
====
