---- MODULE MC_Deployment_redeploy ----
EXTENDS Deployment, Json
\* Instance `redeploy-race` of Deployment.tla with Fixes = ['A', 'B', 'C', 'D', 'E', 'F'] (the code as repaired in /repo; Fixes = {} reproduces the defect of the code before the repairs; written by harness/vh/props/C26.py:mc_files; the driver generates
\* one such module per scenario at run time).  Run: tlc -deadlock -config MC_Deployment_redeploy.cfg MC_Deployment_redeploy.tla ; GenNext = per-transition emission.
MCDeps == {"a"}
MCWraps == [d \in MCDeps |-> CASE d = "a" -> "-"]
MCKind == [d \in MCDeps |-> CASE d = "a" -> "eager"]
MCLazy == {}
MCFails == {}
MCInstant == {}
MCChoices == << {<<"deploy", "a">>}, {<<"undeploy", "a">>}, {<<"deploy", "a">>}, {<<"deploy", "a">>} >>
MCFixes == {"A", "B", "C", "D", "E", "F"}
Emit(a) == PrintT(ToJson([f |-> S, a |-> a, t |-> S', v |-> ViolSet(S, S')]))
GenNext == \/ \E r \in Reqs, k \in {"deploy", "undeploy", "uall", "use"}, d \in Names :
                Start(r, k, d) /\ Emit(<<"Start", ToString(r), k, d>>)
           \/ \E t \in Tasks : IODone(t) /\ Emit(<<"IODone", ToString(t)>>)
           \/ Step /\ Emit(<<"Step">>)
====
