CONSTANTS Deps <- MCDeps Wraps <- MCWraps Kind <- MCKind Lazy <- MCLazy Fails <- MCFails Instant <- MCInstant NReq = 3 ReqChoices <- MCChoices Fixes <- MCFixes
INIT Init
NEXT Next
INVARIANT ModelOK
INVARIANT DeployedAtMostOnce
INVARIANT OneLivePerName
INVARIANT NoUndeployUnderLiveWrapper
INVARIANT NoHang
PROPERTY DeployReturnsDeployed
PROPERTY UseReturnsDeployed
PROPERTY UndeployAllExactlyOnce
