------------------------------ MODULE Deployment ------------------------------
(* DefaultDeploymentManager (streamflow/deployment/manager.py) and FutureConnector
   (streamflow/deployment/future.py) under concurrent requests, on asyncio.

   Structure (DESIGN.md 3.5): every request is a task = a stack of frames over the statements of
   deploy/_deploy/_inner_deploy/undeploy/undeploy_all (+ `use`: first use of a connector obtained from
   get_connector, which triggers the lazy deployment).  One TLA+ step of a task (`RunToBlock`) is the
   maximal run of statements up to the next suspension point: an unset asyncio.Event, a pending
   connector.deploy/undeploy, a pending gather.  The event loop is modelled as asyncio implements it:
   a FIFO ready queue of handles (task wake-ups and gather done-callbacks); Event.set() schedules the
   waiters in waiting order; create_task / completion of I/O append a handle.  Hence the only
   nondeterminism is the environment's: WHEN a request arrives (Start) and WHEN a connector call
   completes (IODone), relative to the handles already queued.

   State = one record S (the whole manager + loop + connector objects):
     cfg    config_map keys                      ev/evset/nev  events_map: name -> event IDENTITY; set events
     dmap/dorder  deployments_map (insertion ordered)          gobj/gorder/sets  dependency_graph: name -> set OBJECT
     conn   every connector object ever created (fake eager/wrapper instances and FutureConnectors)
     pc/stack/result/io/ret  tasks;   ready, waitq  event loop;   gleft/gdone/gexc  gather bookkeeping
     rk/rd  kind and target of each request (chosen by the environment at Start)
     ustart/alone  history for the undeploy_all clause

   `Fixes` selects the repairs of notes/C26.md.  /repo contains all six (one `fix:` commit each), so the code is
   described by Fixes = {"A", "B", "C", "D", "E", "F"}, for which TLC proves every clause on the quick scenarios;
   Fixes = {} is the manager before the repairs (kept so that a tree that loses a repair is still followed in
   lock step and its clause violations are reported on the real behaviour):
     "A"  _deploy sets the deployment's event when _inner_deploy raises
     "B"  undeploy clears/sets the event object it waited on instead of looking it up again
     "C"  undeploy returns when, after waiting, the deployment is no longer in deployments_map
     "D"  a deploy request woken from its wait re-examines the deployment when the CURRENT event is not set
     "E"  the tail loop of undeploy releases the other deployments only from a deployment that is really gone
          (was a member of their dependency set and is no longer in config_map) and cascades only then
     "F"  a deployment whose creation failed is removed from the dependency sets of the others
          (in the existing handler of connector.deploy and, with "A", in the new handler)
   The PROPERTIES are those of the statement and do not depend on Fixes.                                  *)
EXTENDS Naturals, Sequences, FiniteSets, TLC

CONSTANTS
  Deps,        \* declared deployments (context.config["deployments"])
  Wraps,       \* [Deps -> Deps \cup {"-"}]   the `wraps` directive ("-" = none: a wrapper then wraps __LOCAL__)
  Kind,        \* [Deps -> {"eager", "wrapper"}]  plain connector class / ConnectorWrapper subclass
  Lazy,        \* SUBSET Deps: lazy deployments (FutureConnector)
  Fails,       \* SUBSET Names: connector.deploy raises
  Instant,     \* SUBSET Names: connector.deploy/undeploy complete without suspending (like LocalConnector)
  NReq,        \* number of requests
  ReqChoices,  \* [1..NReq -> SUBSET ({"deploy","undeploy","uall","use"} \X Names)]
  Fixes        \* SUBSET {"A", "B", "C", "D", "E", "F"}

VARIABLE S

LocalN == "__LOCAL__"
Names == Deps \cup {LocalN}
Reqs == 1..NReq
MaxCh == Cardinality(Names)
Tasks == Reqs \cup {r * 10 + k : r \in Reqs, k \in 1..MaxCh}
Parent(t) == t \div 10
NameKind(n) == IF n = LocalN THEN "eager" ELSE Kind[n]
NameWraps(n) == IF n = LocalN THEN "-" ELSE Wraps[n]
IsLazy(n) == n # LocalN /\ n \in Lazy

Frame(fn, d, st) == [fn |-> fn, d |-> d, st |-> st, inst |-> 0, myev |-> 0, w |-> "-", isw |-> FALSE,
                     aux |-> 0, snap |-> <<>>]

Init == S = [ cfg |-> {}, ev |-> [n \in Names |-> 0], evset |-> {}, nev |-> 0,
              dmap |-> [n \in Names |-> 0], dorder |-> <<>>,
              gobj |-> [n \in Names |-> 0], gorder |-> <<>>, sets |-> <<>>,
              conn |-> <<>>,
              pc |-> [t \in Tasks |-> "idle"], stack |-> [t \in Tasks |-> <<>>],
              result |-> [t \in Tasks |-> "-"], io |-> [t \in Tasks |-> "-"], ret |-> [t \in Tasks |-> 0],
              ready |-> <<>>, waitq |-> <<>>,
              gleft |-> [r \in Reqs |-> 0], gdone |-> [r \in Reqs |-> FALSE], gexc |-> [r \in Reqs |-> FALSE],
              rk |-> [r \in Reqs |-> "-"], rd |-> [r \in Reqs |-> "-"],
              ustart |-> [r \in Reqs |-> {}], alone |-> [r \in Reqs |-> FALSE] ]

-----------------------------------------------------------------------------
(* helpers on sequences / ordered dicts *)
SeqRange(q) == {q[i] : i \in 1..Len(q)}
Without(q, x) == SelectSeq(q, LAMBDA y : y # x)
DictIns(order, k) == IF k \in SeqRange(order) THEN order ELSE Append(order, k)

Top(s, t) == s.stack[t][Len(s.stack[t])]
Pop(s, t) == SubSeq(s.stack[t], 1, Len(s.stack[t]) - 1)
SetTop(s, t, f) == [s EXCEPT !.stack[t] = Append(Pop(s, t), f)]
Push(s, t, g) == [s EXCEPT !.stack[t] = Append(@, g)]
ReplacePush(s, t, f, g) == [s EXCEPT !.stack[t] = Append(Append(Pop(s, t), f), g)]

(* asyncio.Event: set() wakes the waiters in waiting order (their wake-ups are appended to the ready
   queue); a waiter that has been woken proceeds even if the event is cleared again meanwhile. *)
WaitEv(s, t) == Top(s, t).myev
SetEv(s, e) ==
  IF e \in s.evset THEN s
  ELSE LET woken == SelectSeq(s.waitq, LAMBDA x : WaitEv(s, x) = e)
           rest  == SelectSeq(s.waitq, LAMBDA x : WaitEv(s, x) # e)
       IN [s EXCEPT !.evset = @ \cup {e}, !.waitq = rest,
                    !.ready = @ \o [i \in 1..Len(woken) |-> <<"t", woken[i]>>]]
ClearEv(s, e) == [s EXCEPT !.evset = @ \ {e}]
\* `await event.wait()`: continue at frame f2 (its `st` is the continuation); suspend only if e is unset
WaitOn(s, t, f2, e) ==
  LET s1 == SetTop(s, t, [f2 EXCEPT !.myev = e])
  IN IF e \in s.evset THEN s1 ELSE [s1 EXCEPT !.waitq = Append(@, t)]

AddToSet(s, sid, x) == [s EXCEPT !.sets[sid] = @ \cup {x}]
DelFromSet(s, sid, x) == [s EXCEPT !.sets[sid] = @ \ {x}]

\* repair "F": a deployment that failed gives up its claims on the deployments it wraps
Release(s, d) == IF "F" \in Fixes
                   THEN [s EXCEPT !.sets = [i \in 1..Len(s.sets) |-> IF \E n \in Names : s.gobj[n] = i THEN s.sets[i] \ {d} ELSE s.sets[i]]]
                   ELSE s

(* task completion: a child task of undeploy_all has the gather done-callback attached, which is
   scheduled (one handle) when the task finishes *)
TaskDone(s, t, res) ==
  [s EXCEPT !.pc[t] = "done", !.result[t] = res, !.stack[t] = <<>>,
            !.ready = IF t \in Reqs THEN @ ELSE Append(@, <<"cb", t>>)]

Return(s, t) == IF Len(s.stack[t]) = 1 THEN TaskDone(s, t, "ok") ELSE [s EXCEPT !.stack[t] = Pop(s, t)]
ReturnVal(s, t, v) == Return([s EXCEPT !.ret[t] = v], t)

(* an exception unwinds the frames of the task; the only handler on the way is repair "A" *)
RECURSIVE Unwind(_, _)
Unwind(s, t) ==
  IF s.stack[t] = <<>> THEN TaskDone(s, t, "err")
  ELSE LET f  == Top(s, t)
           s1 == [s EXCEPT !.stack[t] = Pop(s, t)]
       IN Unwind(IF "A" \in Fixes /\ f.fn = "_deploy" /\ f.st = "afterinner" THEN SetEv(Release(s1, f.d), s1.ev[f.d]) ELSE s1, t)
Raise(s, t) == Unwind(s, t)

NewConn(name, kind, state, dc, inner, dev) ==
  [name |-> name, kind |-> kind, state |-> state, dc |-> dc, uc |-> 0, inner |-> inner,
   deploying |-> FALSE, dev |-> dev, real |-> 0]

\* start a connector call on behalf of task t: suspends unless the connector is `Instant`
StartIO(s, t, name) == [s EXCEPT !.io[t] = IF name \in Instant THEN "done" ELSE "pending"]

-----------------------------------------------------------------------------
(* One statement (group of statements without suspension point) of task t. *)
Micro(s, t) ==
  LET f == Top(s, t)
      d == f.d
  IN
  CASE f.fn = "deploy" /\ f.st = "enter" ->
         ReplacePush(s, t, [f EXCEPT !.st = "after"], Frame("_deploy", d, "loop"))
    [] f.fn = "deploy" /\ f.st = "after" ->               \* self.dependency_graph[name].add(name)
         IF s.gobj[d] # 0 THEN Return(AddToSet(s, s.gobj[d], d), t) ELSE Raise(s, t)

    \* ---------------------------------------------------------------- _deploy
    [] f.fn = "_deploy" /\ f.st = "loop" ->
         IF d \notin s.cfg
           THEN LET s1 == [s EXCEPT !.cfg = @ \cup {d}, !.ev[d] = s.nev + 1, !.nev = @ + 1,
                                    !.sets = Append(@, {}), !.gobj[d] = Len(s.sets) + 1,
                                    !.gorder = DictIns(@, d)]
                IN ReplacePush(s1, t, [f EXCEPT !.st = "afterinner"],
                               [Frame("_inner", d, "enter") EXCEPT !.isw = (NameKind(d) = "wrapper")])
           ELSE WaitOn(s, t, [f EXCEPT !.st = "wait"], s.ev[d])
    [] f.fn = "_deploy" /\ f.st = "wait" ->
         IF "D" \in Fixes /\ s.ev[d] \notin s.evset THEN SetTop(s, t, [f EXCEPT !.st = "loop"])
         ELSE IF s.dmap[d] = 0 THEN Raise(s, t)
         ELSE IF d \in s.cfg THEN Return(s, t) ELSE SetTop(s, t, [f EXCEPT !.st = "loop"])
    [] f.fn = "_deploy" /\ f.st = "afterinner" ->         \* _inner_deploy returned s.ret[t] (inner connector or 0)
         LET id == Len(s.conn) + 1 IN
         IF IsLazy(d)
           THEN LET s1 == [s EXCEPT !.conn = Append(@, NewConn(d, "future", "new", 0, s.ret[t], s.nev + 1)),
                                    !.nev = @ + 1, !.dmap[d] = id, !.dorder = DictIns(@, d)]
                IN SetTop(SetEv(s1, s1.ev[d]), t, [f EXCEPT !.st = "loop"])      \* no `break`: loops once more
           ELSE LET s1 == [s EXCEPT !.conn = Append(@, NewConn(d, NameKind(d), "deploying", 1, s.ret[t], 0)),
                                    !.dmap[d] = id, !.dorder = DictIns(@, d)]
                IN SetTop(StartIO(s1, t, d), t, [f EXCEPT !.st = "deploying", !.inst = id])
    [] f.fn = "_deploy" /\ f.st = "deploying" ->          \* connector.deploy completed
         IF d \in Fails
           THEN LET s1 == [s EXCEPT !.conn[f.inst].state = "failed", !.io[t] = "-"] IN
                IF s1.dmap[d] = 0 THEN Raise(s1, t)        \* pop() raises KeyError inside the handler
                ELSE Raise(SetEv(Release([s1 EXCEPT !.dmap[d] = 0, !.dorder = Without(@, d)], d), s1.ev[d]), t)
           ELSE Return(SetEv([s EXCEPT !.conn[f.inst].state = "deployed", !.io[t] = "-"], s.ev[d]), t)

    \* ---------------------------------------------------------------- _inner_deploy(connector_type, config of d)
    [] f.fn = "_inner" /\ f.st = "enter" ->
         IF ~f.isw THEN ReturnVal(s, t, 0)
         ELSE IF NameWraps(d) = "-"
           THEN IF LocalN \notin s.cfg
                  THEN ReplacePush(s, t, [f EXCEPT !.st = "check", !.w = LocalN], Frame("_deploy", LocalN, "loop"))
                  ELSE SetTop(s, t, [f EXCEPT !.st = "check", !.w = LocalN])
           ELSE SetTop(s, t, [f EXCEPT !.st = "check", !.w = NameWraps(d)])
    [] f.fn = "_inner" /\ f.st = "check" ->
         IF f.w \in s.cfg
           THEN IF s.dmap[f.w] = 0 THEN WaitOn(s, t, [f EXCEPT !.st = "recur"], s.ev[f.w])
                ELSE SetTop(s, t, [f EXCEPT !.st = "recur"])
         ELSE IF f.w \in Deps
           THEN ReplacePush(s, t, [f EXCEPT !.st = "link"], Frame("_deploy", f.w, "loop"))
           ELSE Raise(s, t)                                \* WorkflowDefinitionException
    [] f.fn = "_inner" /\ f.st = "recur" ->               \* type(self.deployments_map[w]), self.config_map[w]
         IF s.dmap[f.w] = 0 \/ f.w \notin s.cfg THEN Raise(s, t)
         ELSE ReplacePush(s, t, [f EXCEPT !.st = "link"],
                          [Frame("_inner", f.w, "enter") EXCEPT !.isw = (s.conn[s.dmap[f.w]].kind = "wrapper")])
    [] f.fn = "_inner" /\ f.st = "link" ->                \* dependency_graph[w].add(d); return config with deployments_map[w]
         IF s.gobj[f.w] = 0 THEN Raise(s, t)
         ELSE LET s1 == AddToSet(s, s.gobj[f.w], d) IN
              IF s1.dmap[f.w] = 0 THEN Raise(s1, t) ELSE ReturnVal(s1, t, s1.dmap[f.w])

    \* ---------------------------------------------------------------- undeploy
    [] f.fn = "undeploy" /\ f.st = "enter" ->
         IF s.dmap[d] # 0 THEN WaitOn(s, t, [f EXCEPT !.st = "wait"], s.ev[d]) ELSE Return(s, t)
    [] f.fn = "undeploy" /\ f.st = "wait" ->
         IF "C" \in Fixes /\ s.dmap[d] = 0 THEN Return(s, t)
         ELSE IF s.gobj[d] = 0 THEN Raise(s, t)
         ELSE LET s1 == DelFromSet(s, s.gobj[d], d)
                  e  == IF "B" \in Fixes THEN f.myev ELSE s.ev[d]
              IN IF s1.sets[s.gobj[d]] # {} THEN SetTop(s1, t, [f EXCEPT !.st = "loopinit"])
                 ELSE LET s2 == ClearEv(s1, e) IN
                      IF s2.dmap[d] = 0 \/ d \notin s2.cfg THEN Raise(s2, t)
                      ELSE LET c  == s2.dmap[d]
                               s3 == [s2 EXCEPT !.dmap[d] = 0, !.dorder = Without(@, d), !.cfg = @ \ {d},
                                                !.gobj[d] = 0, !.gorder = Without(@, d),
                                                !.conn[c].state = "undeploying", !.conn[c].uc = @ + 1]
                               r  == s3.conn[c].real
                           IN IF s3.conn[c].kind = "future"
                                THEN IF r = 0 THEN SetTop([s3 EXCEPT !.io[t] = "done"], t, [f EXCEPT !.st = "undeploying", !.inst = c])
                                     ELSE SetTop(StartIO([s3 EXCEPT !.conn[r].state = "undeploying", !.conn[r].uc = @ + 1], t, d),
                                                 t, [f EXCEPT !.st = "undeploying", !.inst = c])
                                ELSE SetTop(StartIO(s3, t, d), t, [f EXCEPT !.st = "undeploying", !.inst = c])
    [] f.fn = "undeploy" /\ f.st = "undeploying" ->       \* connector.undeploy completed
         LET r  == s.conn[f.inst].real
             s1 == [s EXCEPT !.conn[f.inst].state = "undeployed", !.io[t] = "-"]
             s2 == IF r # 0 THEN [s1 EXCEPT !.conn[r].state = "undeployed"] ELSE s1
             e  == IF "B" \in Fixes THEN f.myev ELSE s.ev[d]
         IN SetTop(SetEv(s2, e), t, [f EXCEPT !.st = "loopinit"])
    [] f.fn = "undeploy" /\ f.st = "loopinit" ->          \* list((k, v) for k, v in dependency_graph.items() if k != name)
         LET others == Without(s.gorder, d) IN
         SetTop(s, t, [f EXCEPT !.st = "loop", !.snap = [i \in 1..Len(others) |-> <<others[i], s.gobj[others[i]]>>]])
    [] f.fn = "undeploy" /\ f.st = "loop" ->
         IF f.snap = <<>> THEN Return(s, t)
         ELSE LET n   == f.snap[1][1]
                  sid == f.snap[1][2]
                  s0  == SetTop(s, t, [f EXCEPT !.snap = Tail(@)])
                  s1  == DelFromSet(s0, sid, d)
              IN IF "E" \in Fixes
                   THEN IF d \in s.sets[sid] /\ d \notin s.cfg
                          THEN IF s1.sets[sid] = {} THEN Push(s1, t, Frame("undeploy", n, "enter")) ELSE s1
                          ELSE s0
                   ELSE IF s1.sets[sid] = {} THEN Push(s1, t, Frame("undeploy", n, "enter")) ELSE s1

    \* ---------------------------------------------------------------- undeploy_all
    [] f.fn = "uall" /\ f.st = "enter" ->
         LET names == s.dorder
             n     == Len(names)
         IN IF n = 0 THEN Return(s, t)                    \* gather() of nothing is already done
            ELSE SetTop([s EXCEPT !.pc = [x \in Tasks |-> IF x \in {t * 10 + k : k \in 1..n} THEN "run" ELSE @[x]],
                                  !.stack = [x \in Tasks |-> IF x \in {t * 10 + k : k \in 1..n}
                                                               THEN << Frame("undeploy", names[x - t * 10], "enter") >> ELSE @[x]],
                                  !.ready = @ \o [k \in 1..n |-> <<"t", t * 10 + k>>],
                                  !.gleft[t] = n, !.gdone[t] = FALSE, !.gexc[t] = FALSE],
                        t, [f EXCEPT !.st = "gather"])
    [] f.fn = "uall" /\ f.st = "gather" ->
         IF s.gexc[t] THEN Raise(s, t) ELSE Return(s, t)

    \* ---------------------------------------------------------------- first use of get_connector(d)
    [] f.fn = "use" /\ f.st = "enter" ->
         LET c == s.dmap[d] IN
         IF c = 0 THEN TaskDone(s, t, "none")
         ELSE IF s.conn[c].kind # "future" THEN Return(s, t)
         ELSE IF s.conn[c].real # 0 THEN Return(s, t)
         ELSE IF ~s.conn[c].deploying
           THEN LET id == Len(s.conn) + 1
                    s1 == [s EXCEPT !.conn[c].deploying = TRUE,
                                    !.conn = Append(@, NewConn(d, NameKind(d), "deploying", 1, s.conn[c].inner, 0))]
                IN SetTop(StartIO(s1, t, d), t, [f EXCEPT !.st = "fdeploying", !.inst = c, !.aux = id])
           ELSE WaitOn(s, t, [f EXCEPT !.st = "fwait", !.inst = c], s.conn[c].dev)
    [] f.fn = "use" /\ f.st = "fdeploying" ->
         IF d \in Fails
           THEN Raise(SetEv([s EXCEPT !.conn[f.aux].state = "failed", !.io[t] = "-"], s.conn[f.inst].dev), t)
           ELSE Return(SetEv([s EXCEPT !.conn[f.aux].state = "deployed", !.conn[f.inst].real = f.aux, !.io[t] = "-"],
                             s.conn[f.inst].dev), t)
    [] f.fn = "use" /\ f.st = "fwait" ->
         IF s.conn[f.inst].real = 0 THEN Raise(s, t) ELSE Return(s, t)

Blocked(s, t) ==
  \/ s.pc[t] # "run"
  \/ t \in SeqRange(s.waitq)
  \/ s.io[t] = "pending"
  \/ Top(s, t).fn = "uall" /\ Top(s, t).st = "gather" /\ ~s.gdone[t]

RECURSIVE RunToBlock(_, _)
RunToBlock(s, t) == IF Blocked(s, t) THEN s ELSE RunToBlock(Micro(s, t), t)

-----------------------------------------------------------------------------
(* Actions.  Environment: Start, IODone.  Event loop: Step (deterministic). *)
Live(c) == c.kind # "future" /\ c.state \in {"deploying", "deployed"}
OtherRunning(s, r) == \E t \in Tasks : t # r /\ Parent(t) # r /\ s.pc[t] = "run"

Start(r, k, d) ==
  /\ S.pc[r] = "idle" /\ \A q \in Reqs : q < r => S.pc[q] # "idle"
  /\ <<k, d>> \in ReqChoices[r]
  /\ S' = [S EXCEPT !.pc[r] = "run", !.rk[r] = k, !.rd[r] = IF k = "uall" THEN "-" ELSE d,
                    !.stack[r] = << Frame(k, d, "enter") >>,
                    !.ready = Append(@, <<"t", r>>),
                    !.ustart[r] = IF k = "uall" THEN {i \in 1..Len(S.conn) : S.conn[i].kind # "future" /\ S.conn[i].state = "deployed"} ELSE {},
                    !.alone = [q \in Reqs |-> IF q = r THEN k = "uall" /\ ~OtherRunning(S, r) ELSE FALSE]]

IODone(t) ==
  /\ S.io[t] = "pending"
  /\ S' = [S EXCEPT !.io[t] = "done", !.ready = Append(@, <<"t", t>>)]

Step ==
  /\ S.ready # <<>>
  /\ LET h  == Head(S.ready)
         s0 == [S EXCEPT !.ready = Tail(@)]
     IN IF h[1] = "t"
          THEN S' = RunToBlock(s0, h[2])
          ELSE LET p  == Parent(h[2])                     \* gather's _done_callback for child h[2]
                   s1 == [s0 EXCEPT !.gleft[p] = @ - 1]
               IN S' = IF s1.gdone[p] THEN s1
                       ELSE IF s1.result[h[2]] = "err"
                         THEN [s1 EXCEPT !.gdone[p] = TRUE, !.gexc[p] = TRUE, !.ready = Append(@, <<"t", p>>)]
                       ELSE IF s1.gleft[p] = 0
                         THEN [s1 EXCEPT !.gdone[p] = TRUE, !.ready = Append(@, <<"t", p>>)]
                       ELSE s1

Next == \/ \E r \in Reqs, k \in {"deploy", "undeploy", "uall", "use"}, d \in Names : Start(r, k, d)
        \/ \E t \in Tasks : IODone(t)
        \/ Step
Spec == Init /\ [][Next]_S
FairSpec == Spec /\ WF_S(Step) /\ \A t \in Tasks : WF_S(IODone(t))

-----------------------------------------------------------------------------
(* Sanity of the model itself (must hold for every value of Fixes). *)
ModelOK ==
  /\ \A i \in 1..Len(S.ready) : S.ready[i][1] = "t" =>
        /\ S.pc[S.ready[i][2]] = "run" /\ S.ready[i][2] \notin SeqRange(S.waitq) /\ S.io[S.ready[i][2]] # "pending"
  /\ \A t \in Tasks : S.pc[t] = "run" <=> S.stack[t] # <<>>
  /\ \A t \in Tasks : S.io[t] = "pending" => S.pc[t] = "run"
  /\ \A i \in 1..Len(S.waitq) : WaitEv(S, S.waitq[i]) \notin S.evset
  /\ \A n \in Names : (S.dmap[n] # 0 <=> n \in SeqRange(S.dorder)) /\ (S.gobj[n] # 0 <=> n \in SeqRange(S.gorder))

-----------------------------------------------------------------------------
(* The statement's clauses, as predicates over a state s (or a step s -> s2) so that the generation
   configs can also emit, per transition, which clauses are false (`ViolSet`). *)
Gone(c) == c.state \in {"undeploying", "undeployed"}
Returned(s, s2, r) == s.result[r] = "-" /\ s2.result[r] = "ok"

\* (1) a connector instance is deployed at most once (and undeployed at most once), one live instance per name
AtMostOnceS(s) == \A i \in 1..Len(s.conn) : s.conn[i].dc <= 1 /\ s.conn[i].uc <= 1
OneLiveS(s) == \A n \in Names : Cardinality({i \in 1..Len(s.conn) : s.conn[i].name = n /\ Live(s.conn[i])}) <= 1

\* (2) a deploy request returns only when its (eager) connector is deployed;
\*     a first use returns only when the lazily deployed connector has been deployed (a concurrent explicit
\*     undeploy of the deployment in use is the caller's race, not constrained by the statement)
DeployOK(s, r) == (s.rk[r] = "deploy" /\ ~IsLazy(s.rd[r])) =>
                    (s.dmap[s.rd[r]] # 0 /\ s.conn[s.dmap[s.rd[r]]].state = "deployed")
DeployStepOK(s, s2) == \A r \in Reqs : Returned(s, s2, r) => DeployOK(s2, r)
UseOK(s, s2, r) ==
  (s2.rk[r] = "use" /\ s.stack[r] # <<>> /\ Top(s, r).fn = "use" /\ Top(s, r).inst # 0) =>
     LET c == Top(s, r).inst IN           \* the FutureConnector the request holds
     s2.conn[c].real # 0 /\ s2.conn[s2.conn[c].real].state \in {"deployed", "undeploying", "undeployed"}
UseStepOK(s, s2) == \A r \in Reqs : Returned(s, s2, r) => UseOK(s, s2, r)

\* (3) a wrapped deployment is not undeployed while a wrapper of it is live
WrapOKS(s) ==
  \A i \in 1..Len(s.conn) : (Live(s.conn[i]) /\ s.conn[i].inner # 0) =>
      LET x == s.conn[s.conn[i].inner] IN ~Gone(x) /\ (x.real # 0 => ~Gone(s.conn[x.real]))

\* (4) undeploy_all (run on its own) undeploys every connector that was deployed, exactly once
UallOK(s, r) == (s.rk[r] = "uall" /\ s.alone[r]) =>
                   \A i \in s.ustart[r] : s.conn[i].uc = 1 /\ s.conn[i].state = "undeployed"
UallStepOK(s, s2) == \A r \in Reqs : Returned(s, s2, r) => UallOK(s2, r)

\* (5) no hang: when nothing is queued and no connector call is in flight, every started task is finished
Quiescent(s) == s.ready = <<>> /\ \A t \in Tasks : s.io[t] # "pending"
NoHangS(s) == Quiescent(s) => \A t \in Tasks : s.pc[t] # "run"

DeployedAtMostOnce == AtMostOnceS(S)
OneLivePerName == OneLiveS(S)
NoUndeployUnderLiveWrapper == WrapOKS(S)
NoHang == NoHangS(S)
DeployReturnsDeployed == [][DeployStepOK(S, S')]_S
UseReturnsDeployed == [][UseStepOK(S, S')]_S
UndeployAllExactlyOnce == [][UallStepOK(S, S')]_S
EveryRequestEnds == \A r \in Reqs : (S.pc[r] = "run") ~> (S.pc[r] = "done")

ViolSet(s, s2) ==
  (IF AtMostOnceS(s2) THEN {} ELSE {"once"}) \cup (IF OneLiveS(s2) THEN {} ELSE {"onelive"}) \cup
  (IF DeployStepOK(s, s2) THEN {} ELSE {"deployret"}) \cup (IF UseStepOK(s, s2) THEN {} ELSE {"useret"}) \cup
  (IF WrapOKS(s2) THEN {} ELSE {"wrap"}) \cup (IF UallStepOK(s, s2) THEN {} ELSE {"uall"}) \cup
  (IF NoHangS(s2) THEN {} ELSE {"hang"})
===============================================================================
