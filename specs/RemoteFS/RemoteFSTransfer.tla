--------------------------- MODULE RemoteFSTransfer ---------------------------
(* C22: `DefaultDataManager.transfer_data(src_location, src, dst_locations, dst, writable)` specified
   by its CONTRACT over the abstract file trees of RemoteFS (regular files with a content id and an
   executable bit, directories, symbolic links inside the tree).

     destination root  =  dst                     when dst does not exist (its parent is created if needed)
                          dst/basename(src)       when dst is an existing directory
     destination tree  =  the DEREFERENCED source tree: same directory structure, same regular-file
                          contents and executable bits, links replaced by what they point to
     read-only         :  the destination may contain (or be) symbolic links, but dereferencing it inside
                          the destination location must give the same tree
     afterwards        :  every destination location has an available data location for the root

   The case analysis that the code spreads over transfer_data/_copy, get_local_to_remote_destination,
   get_remote_to_remote_write_command, _local_copy, copy_same_connector, copy_remote_to_remote and
   extract_tar_stream is the state space: one behaviour per case (Init chooses it, Transfer applies the
   contract).  TLC checks that the contract is well defined for every case (invariants below) and emits,
   per case, the expected destination; the harness instantiates names and contents, runs the real
   transfer_data between real locations and compares.                                              *)
EXTENDS Naturals, Sequences, FiniteSets, TLC

SrcKinds == {"file", "emptyfile", "dir", "emptydir", "richdir"}
DstStates == {"absent", "absent_deep", "dir"}      \* absent_deep: the parent of dst is missing too
Basenames == {"same", "diff"}                      \* basename(dst) = / # basename(src)
Pairs == {"L>L", "L>R", "R>L", "R>R:same-location", "R>R:same-connector", "R>R:other-connector"}
RemoteDst == Pairs \ {"L>L", "R>L"}

VARIABLES case, phase, dest
vars == <<case, phase, dest>>

File(p, c, x) == [p |-> p, k |-> "f", c |-> c, x |-> x, tgt |-> <<>>, abs |-> FALSE]
Dir(p) == [p |-> p, k |-> "d", c |-> 0, x |-> FALSE, tgt |-> <<>>, abs |-> FALSE]
Link(p, t, a) == [p |-> p, k |-> "l", c |-> 0, x |-> FALSE, tgt |-> t, abs |-> a]   \* t: path inside the tree; a: written as an absolute path

\* source trees, paths relative to the source root (<<>> = the root itself); content 0 = empty
Tree(kind) ==
  CASE kind = "file" -> {File(<<>>, 1, TRUE)}
    [] kind = "emptyfile" -> {File(<<>>, 0, FALSE)}
    [] kind = "emptydir" -> {Dir(<<>>)}
    [] kind = "dir" -> {Dir(<<>>), File(<<"f1">>, 1, FALSE), File(<<"f2">>, 2, FALSE)}
    [] kind = "richdir" -> {Dir(<<>>), File(<<"f1">>, 1, FALSE), File(<<"x">>, 2, TRUE), File(<<"e">>, 0, FALSE),
                            Dir(<<"sub">>), File(<<"sub", "g">>, 1, TRUE), Dir(<<"sub", "empty">>),
                            Link(<<"lnk">>, <<"f1">>, FALSE), Link(<<"dlnk">>, <<"sub">>, FALSE),
                            Link(<<"alnk">>, <<"x">>, TRUE)}

IsPrefix(t, p) == Len(t) <= Len(p) /\ SubSeq(p, 1, Len(t)) = t
Links(T) == {e \in T : e.k = "l"}
Rebase(e, t, q) == [e EXCEPT !.p = q \o SubSeq(e.p, Len(t) + 1, Len(e.p))]
Deref(T) == (T \ Links(T)) \cup
            UNION {{Rebase(x, e.tgt, e.p) : x \in {y \in T \ Links(T) : IsPrefix(e.tgt, y.p)}} : e \in Links(T)}

Root(c) == IF c.dst = "dir" THEN <<"DST", "SRCNAME">> ELSE <<"DST">>
Contract(c) == [root |-> Root(c), tree |-> Deref(Tree(c.src)), registered |-> TRUE, links_allowed |-> ~c.writable]

Cases == {c \in [src : SrcKinds, dst : DstStates, bn : Basenames, pair : Pairs, writable : BOOLEAN, n : 1..2] :
            c.n = 2 => c.pair \in RemoteDst}

Init == case \in Cases /\ phase = "todo" /\ dest = {}
Transfer == phase = "todo" /\ phase' = "done" /\ dest' = Contract(case).tree /\ UNCHANGED case
Next == Transfer
Spec == Init /\ [][Next]_vars

---------------------------------------------------------------------------
(* the contract is well defined *)
Bag(T) == [k \in {<<e.c, e.x>> : e \in {y \in T : y.k = "f"}} |->
             Cardinality({e \in T : e.k = "f" /\ <<e.c, e.x>> = k})]
TypeOK == phase \in {"todo", "done"} /\ case \in Cases
NoLinksLeft == phase = "done" => \A e \in dest : e.k \in {"f", "d"}
RootKept == phase = "done" => \E e \in dest : e.p = <<>> /\ \E s \in Tree(case.src) : s.p = <<>> /\ s.k = e.k
ParentsExist == phase = "done" => \A e \in dest : e.p # <<>> =>
                   \E d \in dest : d.k = "d" /\ d.p = SubSeq(e.p, 1, Len(e.p) - 1)
UniquePaths == phase = "done" => \A e, f \in dest : e.p = f.p => e = f
\* every regular file of the source is there with its content and executable bit; a link adds copies of its target
SourceFilesKept == phase = "done" =>
   \A s \in Tree(case.src) : s.k # "l" => s \in dest
LinkedFilesCopied == phase = "done" =>
   \A l \in Links(Tree(case.src)) : \A s \in Tree(case.src) :
      (s.k # "l" /\ IsPrefix(l.tgt, s.p)) => Rebase(s, l.tgt, l.p) \in dest
NothingInvented == phase = "done" =>
   \A e \in dest : e \in Tree(case.src) \/ \E l \in Links(Tree(case.src)) : IsPrefix(l.p, e.p)
=============================================================================
