------------------------- MODULE MC_RemoteFSTransfer -------------------------
EXTENDS RemoteFSTransfer, Json
SetToSeqBy(S) == LET RECURSIVE F(_)
                     F(T) == IF T = {} THEN <<>> ELSE LET e == CHOOSE x \in T : TRUE IN <<e>> \o F(T \ {e})
                 IN F(S)
GenNext == Transfer /\ PrintT(ToJson([case |-> case, root |-> Contract(case).root,
                                       source |-> SetToSeqBy(Tree(case.src)), tree |-> SetToSeqBy(dest'),
                                       links_allowed |-> Contract(case).links_allowed]))
=============================================================================
