---------------------- MODULE MC_RemoteFSTransferHistory ----------------------
EXTENDS RemoteFSTransferHistory, Json
SeqOfSet(S) == LET RECURSIVE F(_)
                   F(T) == IF T = {} THEN <<>> ELSE LET e == CHOOSE x \in T : TRUE IN <<e>> \o F(T \ {e})
               IN F(S)
\* one line per transfer step: the configuration, the history up to and including it, the trees
HGenNext == HNext /\ (hist'[Len(hist')].ev = "T" =>
                        PrintT(ToJson([hcase |-> case, hist |-> hist', source |-> SeqOfSet(Tree(case.src)),
                                       tree |-> SeqOfSet(dest)])))
=============================================================================
