INIT HInit
NEXT HGenNext
INVARIANT HTypeOK
INVARIANT AvailableCopiesResolve
INVARIANT LastTransferGood
INVARIANT WritableCopiesAreReal
