CONSTANTS Contents = {1, 2}  Modes = {384, 493}
          MaxDepth = 3  Seeds = {"empty", "file", "links"}
INIT Init
NEXT GenNext
VIEW ViewMC
INVARIANT TypeOK
INVARIANT EntriesHaveRealParent
INVARIANT FirstLevelLinks
INVARIANT InodesCanonical
INVARIANT ExistsIsFileOrDir
INVARIANT ResolveIsFixpoint
PROPERTY LawsHold
