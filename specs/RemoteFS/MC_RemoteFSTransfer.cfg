INIT Init
NEXT GenNext
INVARIANT TypeOK
INVARIANT NoLinksLeft
INVARIANT RootKept
INVARIANT ParentsExist
INVARIANT UniquePaths
INVARIANT SourceFilesKept
INVARIANT LinkedFilesCopied
INVARIANT NothingInvented
