------------------------ MODULE RemoteFSTransferHistory ------------------------
(* C22, histories: the SAME source (location A) is transferred two or three times to the SAME
   destination location B (B # A), each time to a fresh path L1, L2, L3, read-only or writable; between
   two transfers a copy may be LOST (removed from B) and reported with invalidate_location(B, Li), as
   the engine does when a file token is found unavailable.

   transfer_data may serve a transfer from a copy that is already on B instead of fetching the data
   from A (read-only: a link to that copy; writable: a copy of it).  The contract of RemoteFSTransfer
   applies to EVERY transfer of a history, whatever came before: the destination dereferences to the
   dereferenced source tree and is registered as available.  What the shortcut may use is therefore
   constrained: only a real copy that is present and still registered as available (`MayServe`).
   Losing a copy invalidates it and every link to it.

   State: `copies[i]` describes Li (real copy | link to Lj, present on B, registration); `hist` is the
   sequence of events (what the harness replays on the real data manager; the choice `via` is the
   implementation's freedom and is not part of it); the inherited variables hold the configuration
   (`case`), the constant "history" (`phase`) and the tree every transfer must reproduce (`dest`).   *)
EXTENDS RemoteFSTransfer

VARIABLES copies, hist
hvars == <<case, phase, dest, copies, hist>>

MaxTransfers == 3
HPairs == {"L>R", "R>L", "R>R:same-connector", "R>R:other-connector"}     \* source location # destination location
HSources == {"file", "richdir"}
HCases == [src : HSources, pair : HPairs]

Real(w) == [kind |-> "real", to |-> 0, present |-> TRUE, reg |-> "available", writable |-> w]
LinkTo(j) == [kind |-> "link", to |-> j, present |-> TRUE, reg |-> "available", writable |-> FALSE]

Resolves(C, i) == IF C[i].kind = "real" THEN C[i].present
                  ELSE C[i].present /\ C[C[i].to].kind = "real" /\ C[C[i].to].present
MayServe(C, j) == C[j].kind = "real" /\ C[j].present /\ C[j].reg = "available"

HInit == /\ case \in HCases /\ phase = "history" /\ dest = Deref(Tree(case.src))
         /\ copies = <<>> /\ hist = <<>>

\* via = 0: the data comes from the source location; via = j: it is served from the copy Lj on B
HTransfer(w, via) ==
  /\ Len(copies) < MaxTransfers
  /\ via \in 0..Len(copies)
  /\ via # 0 => MayServe(copies, via)
  /\ copies' = Append(copies, IF via # 0 /\ ~w THEN LinkTo(via) ELSE Real(w))
  /\ hist' = Append(hist, [ev |-> "T", w |-> w, i |-> Len(copies) + 1])
  /\ UNCHANGED <<case, phase, dest>>

\* Li disappears from B and the data manager is told so; at most one loss between two transfers
HLose(i) ==
  /\ Len(copies) < MaxTransfers /\ hist # <<>> /\ hist[Len(hist)].ev = "T"
  /\ i \in 1..Len(copies) /\ copies[i].present
  /\ copies' = [j \in 1..Len(copies) |->
                  IF j = i \/ (copies[j].kind = "link" /\ copies[j].to = i)
                  THEN [copies[j] EXCEPT !.present = IF j = i THEN FALSE ELSE @, !.reg = "invalid"]
                  ELSE copies[j]]
  /\ hist' = Append(hist, [ev |-> "L", w |-> FALSE, i |-> i])
  /\ UNCHANGED <<case, phase, dest>>

HNext == \/ \E w \in BOOLEAN, via \in 0..MaxTransfers : HTransfer(w, via)
         \/ \E i \in 1..MaxTransfers : HLose(i)
HSpec == HInit /\ [][HNext]_hvars

---------------------------------------------------------------------------
HTypeOK == /\ case \in HCases /\ Len(copies) <= MaxTransfers
           /\ \A i \in 1..Len(copies) : copies[i].kind = "link" => copies[i].to \in 1..(i - 1)
\* every copy the data manager reports as available dereferences to the source tree
AvailableCopiesResolve == \A i \in 1..Len(copies) : copies[i].reg = "available" => Resolves(copies, i)
\* the copy just made is good (whatever happened before)
LastTransferGood == (hist # <<>> /\ hist[Len(hist)].ev = "T") =>
                       /\ Resolves(copies, Len(copies)) /\ copies[Len(copies)].reg = "available"
WritableCopiesAreReal == \A i \in 1..Len(copies) : copies[i].writable => copies[i].kind = "real"
=============================================================================
