---------------------------- MODULE MC_RemoteFS ----------------------------
EXTENDS RemoteFS, Json
(* Exhaustive check: `depth` stays in the fingerprint (parallel BFS may reach a state first on a
   longer path), `ret` does not.  Generation (B-edge, -workers 1, strict BFS): both hidden, so every
   distinct tree reached within MaxDepth-1 steps is expanded exactly once and every one of its
   transitions is printed as one JSON line.                                                       *)
ViewMC == <<fs, ino, depth>>
ViewGen == <<fs, ino>>

\* compact state: one item per path of PathList (0 = absent, <<"f", inode>>, <<"d", mode>>,
\* <<"l", target, rel>>), then <<content, mode>> of the inodes in use
NodeC(n) == IF n.k = "-" THEN 0 ELSE IF n.k = "f" THEN <<"f", n.ino>> ELSE IF n.k = "d" THEN <<"d", n.mode>>
            ELSE <<"l", n.tgt, n.rel>>
StC(F, I) == <<[i \in 1..Len(PathList) |-> NodeC(F[PathList[i]])],
              [j \in 1..Cardinality(UsedInos(F)) |-> <<I[j].c, I[j].m>>]>>
GenNext == Next /\ PrintT(ToJson([f |-> StC(fs, ino), t |-> StC(fs', ino'), a |-> ret', d |-> depth]))
=============================================================================
