------------------------------- MODULE RemoteFS -------------------------------
(* An abstract POSIX file system and the path operations of StreamFlow's `StreamFlowPath`
   (streamflow/data/remotepath.py) as actions with results.  The semantics written down here is the
   LOCAL one (LocalStreamFlowPath = pathlib/os on a POSIX file system, Python 3.12, running as
   root); RemoteStreamFlowPath, which performs every operation with a shell command on the
   location, has to produce the same results and the same trees (property C24).

   Namespace: a root directory that always exists, first-level paths <<d>> (d \in Dirs) and
   second-level paths <<d, n>> (n \in Names).  An entry is absent, a regular file (its content and
   mode live in an inode, so that hard links share them), a directory (second-level directories
   are always empty: nothing below them is in the namespace) or a symbolic link.  The target of a
   link is stored as the namespace path it denotes; `rel` tells whether it was written as a bare
   sibling name or as an absolute path.  First-level links only point to first-level paths (a
   first-level link to a second-level directory would give paths of depth 3).

   `ret` is the observation of the last step (operation, arguments, class of the operand, errno
   or "ok", value); `depth` counts steps.  Both are history variables hidden by the VIEW of the
   generation configuration.                                                                     *)
EXTENDS Naturals, Sequences, FiniteSets, TLC

CONSTANTS Contents,     \* content ids a write_text may write (naturals >= 1)
          Modes,        \* arguments of chmod (decimal value of the octal mode)
          MaxDepth,     \* operation sequences of at most this length
          Seeds         \* which initial trees: subset of {"empty", "file", "links"}

VARIABLES fs, ino, ret, depth
vars == <<fs, ino, ret, depth>>

DirSeq == <<"d1", "d2">>     \* the namespace: 2 directories x 2 names
NameSeq == <<"a", "b">>

ND == Len(DirSeq)
NN == Len(NameSeq)
Dirs == {DirSeq[i] : i \in 1..ND}
Names == {NameSeq[i] : i \in 1..NN}
P1 == {<<d>> : d \in Dirs}
P2 == {<<d, n>> : d \in Dirs, n \in Names}
Paths == P1 \cup P2
PathList == [i \in 1..(ND + ND * NN) |->
               IF i <= ND THEN <<DirSeq[i]>>
               ELSE <<DirSeq[((i - ND - 1) \div NN) + 1], NameSeq[((i - ND - 1) % NN) + 1]>>]
Inodes == 1..(ND + ND * NN)

DefFileMode == 420      \* 0o644 = 0o666 & ~umask(022)
DefDirMode == 493       \* 0o755 = 0o777 & ~umask(022)

Absent == [k |-> "-", ino |-> 0, mode |-> 0, tgt |-> <<>>, rel |-> FALSE]
FileN(i) == [k |-> "f", ino |-> i, mode |-> 0, tgt |-> <<>>, rel |-> FALSE]
DirN(m) == [k |-> "d", ino |-> 0, mode |-> m, tgt |-> <<>>, rel |-> FALSE]
LinkN(t, r) == [k |-> "l", ino |-> 0, mode |-> 0, tgt |-> t, rel |-> r]
FreeI == [c |-> 0, m |-> 0]

Ok(p) == [st |-> "ok", p |-> p]
Err(e) == [st |-> e, p |-> <<>>]
Fuel == 12              \* more than the longest loop-free chain of links in the namespace

---------------------------------------------------------------------------
(* Path resolution (the kernel's path walk). *)
RECURSIVE Res(_, _, _, _)
Res(F, p, follow, fuel) ==
  IF fuel = 0 THEN Err("ELOOP")
  ELSE LET loc == IF Len(p) = 1 THEN Ok(p)
                  ELSE LET pr == Res(F, <<p[1]>>, TRUE, fuel - 1)
                       IN IF pr.st # "ok" THEN pr
                          ELSE IF F[pr.p].k # "d" \/ Len(pr.p) # 1 THEN Err("ENOTDIR")
                          ELSE Ok(<<pr.p[1], p[2]>>)
       IN IF loc.st # "ok" THEN loc
          ELSE LET n == F[loc.p]
               IN IF n.k = "-" THEN Err("ENOENT")
                  ELSE IF n.k = "l" /\ follow THEN Res(F, n.tgt, TRUE, fuel - 1)
                  ELSE loc

Stat(F, p) == Res(F, p, TRUE, Fuel)        \* follows a final link
LStat(F, p) == Res(F, p, FALSE, Fuel)      \* does not
Locate(F, p) ==                            \* where the directory entry of p lives (it may be absent)
  IF Len(p) = 1 THEN Ok(p)
  ELSE LET pr == Stat(F, <<p[1]>>)
       IN IF pr.st # "ok" THEN pr
          ELSE IF F[pr.p].k # "d" \/ Len(pr.p) # 1 THEN Err("ENOTDIR")
          ELSE Ok(<<pr.p[1], p[2]>>)

ExistsV(F, p) == Stat(F, p).st = "ok"
IsFileV(F, p) == LET s == Stat(F, p) IN s.st = "ok" /\ F[s.p].k = "f"
IsDirV(F, p) == LET s == Stat(F, p) IN s.st = "ok" /\ F[s.p].k = "d"
IsLinkV(F, p) == LET s == LStat(F, p) IN s.st = "ok" /\ F[s.p].k = "l"

\* class of the operand (only used to name what an implementation test exercised)
Kind(F, p) ==
  LET l == LStat(F, p)
  IN IF l.st = "ENOTDIR" THEN "notdir"
     ELSE IF l.st = "ELOOP" THEN "parentloop"
     ELSE IF l.st = "ENOENT" THEN (IF Locate(F, p).st = "ok" THEN "missing" ELSE "noparent")
     ELSE LET n == F[l.p]
          IN IF n.k = "f" THEN "file"
             ELSE IF n.k = "d" THEN "dir"
             ELSE LET s == Stat(F, p)
                  IN IF s.st = "ELOOP" THEN "loop"
                     ELSE IF s.st # "ok" THEN "dangling"
                     ELSE IF F[s.p].k = "d" THEN "link>dir" ELSE "link>file"

---------------------------------------------------------------------------
(* Canonical inode numbering: files are numbered by their first path in PathList; unreferenced
   inodes are freed. *)
RECURSIVE Renum(_, _, _, _)
Renum(F, k, m, next) ==        \* m: old inode number -> new one
  IF k > Len(PathList) THEN m
  ELSE LET n == F[PathList[k]]
       IN IF n.k = "f" /\ n.ino \notin DOMAIN m THEN Renum(F, k + 1, m @@ (n.ino :> next), next + 1)
          ELSE Renum(F, k + 1, m, next)
NormF(F) == LET m == Renum(F, 1, <<>>, 1)
            IN [p \in Paths |-> IF F[p].k = "f" THEN [F[p] EXCEPT !.ino = m[F[p].ino]] ELSE F[p]]
NormI(F, I) == LET m == Renum(F, 1, <<>>, 1)
               IN [r \in Inodes |-> IF \E i \in DOMAIN m : m[i] = r
                                    THEN I[CHOOSE i \in DOMAIN m : m[i] = r] ELSE FreeI]
UsedInos(F) == {F[p].ino : p \in {q \in Paths : F[q].k = "f"}}
NewIno(I) == CHOOSE i \in Inodes : I[i].m = 0 /\ \A j \in Inodes : I[j].m = 0 => i <= j

---------------------------------------------------------------------------
(* Results of the operations on a given file system <<F, I>>.  Mutators return [st, F, I]. *)
R(st, F, I) == [st |-> st, F |-> F, I |-> I]

OsMkdir(F, p) ==
  LET loc == Locate(F, p)
  IN IF loc.st # "ok" THEN [st |-> loc.st, F |-> F]
     ELSE IF F[loc.p].k # "-" THEN [st |-> "EEXIST", F |-> F]
     ELSE [st |-> "ok", F |-> [F EXCEPT ![loc.p] = DirN(DefDirMode)]]

\* LocalStreamFlowPath.mkdir re-implements pathlib's mkdir: os.mkdir; on FileNotFoundError and
\* `parents` create the parent (parents=True, exist_ok=True) and retry without parents; any other
\* OSError is swallowed iff exist_ok and the path is a directory.
MkdirL1(F, q) ==
  LET r == OsMkdir(F, q)
  IN IF r.st = "ok" THEN r
     ELSE IF IsDirV(F, q) THEN [st |-> "ok", F |-> F] ELSE r
MkdirR(F, p, parents, existok) ==
  LET r == OsMkdir(F, p)
  IN IF r.st = "ok" THEN r
     ELSE IF r.st = "ENOENT"
          THEN IF ~parents \/ Len(p) = 1 THEN r
               ELSE LET pr == MkdirL1(F, <<p[1]>>)
                    IN IF pr.st # "ok" THEN pr
                       ELSE LET r2 == OsMkdir(pr.F, p)
                            IN IF r2.st = "ok" \/ r2.st = "ENOENT" THEN r2
                               ELSE IF existok /\ IsDirV(pr.F, p) THEN [st |-> "ok", F |-> pr.F]
                               ELSE [st |-> r2.st, F |-> pr.F]
     ELSE IF existok /\ IsDirV(F, p) THEN [st |-> "ok", F |-> F] ELSE r

\* open(p, "w"): follows links; a dangling link creates its target
RECURSIVE CreateLoc(_, _, _)
CreateLoc(F, p, fuel) ==
  IF fuel = 0 THEN Err("ELOOP")
  ELSE LET loc == Locate(F, p)
       IN IF loc.st # "ok" THEN loc
          ELSE IF F[loc.p].k = "l" THEN CreateLoc(F, F[loc.p].tgt, fuel - 1)
          ELSE loc
WriteR(F, I, p, c) ==
  LET t == CreateLoc(F, p, Fuel)
  IN IF t.st # "ok" THEN R(t.st, F, I)
     ELSE LET n == F[t.p]
          IN IF n.k = "d" THEN R("EISDIR", F, I)
             ELSE IF n.k = "f" THEN R("ok", F, [I EXCEPT ![n.ino].c = c])
             ELSE LET i == NewIno(I)
                  IN R("ok", [F EXCEPT ![t.p] = FileN(i)], [I EXCEPT ![i] = [c |-> c, m |-> DefFileMode]])

ReadR(F, I, p) ==
  LET s == Stat(F, p)
  IN IF s.st # "ok" THEN [st |-> s.st, v |-> 0]
     ELSE IF F[s.p].k = "d" THEN [st |-> "EISDIR", v |-> 0]
     ELSE [st |-> "ok", v |-> I[F[s.p].ino].c]

\* size(): a file -> its size (0 through a link); otherwise the sum over the regular files found by
\* walking without following links (0 for anything that cannot be listed).  Value = the content
\* ids whose lengths are summed.
FilesOf(F, D) == {n \in Names : F[<<D, n>>].k = "f"}
SeqOfNames(S) == LET RECURSIVE G(_)
                     G(i) == IF i > NN THEN <<>>
                             ELSE (IF NameSeq[i] \in S THEN <<NameSeq[i]>> ELSE <<>>) \o G(i + 1)
                 IN G(1)
SizeV(F, I, p) ==
  LET s == Stat(F, p)
  IN IF s.st # "ok" THEN <<>>
     ELSE IF F[s.p].k = "f" THEN (IF IsLinkV(F, p) THEN <<>> ELSE <<I[F[s.p].ino].c>>)
     ELSE IF Len(s.p) = 2 THEN <<>>
     ELSE LET ns == SeqOfNames(FilesOf(F, s.p[1]))
          IN [j \in 1..Len(ns) |-> I[F[<<s.p[1], ns[j]>>].ino].c]

ChecksumV(F, I, p) == IF IsFileV(F, p) THEN <<I[F[Stat(F, p).p].ino].c>> ELSE <<>>   \* <<>> = None

\* glob.glob(base/pattern): "*" lists the directory (dangling links included), a literal name is
\* tested with lexists, "*/*" lists the directories (links to directories included) of the root
EntriesOf(F, D) == {n \in Names : F[<<D, n>>].k # "-"}
GlobAll(F, d) == LET s == Stat(F, <<d>>)
                 IN IF s.st = "ok" /\ F[s.p].k = "d" /\ Len(s.p) = 1
                    THEN {<<d, n>> : n \in EntriesOf(F, s.p[1])} ELSE {}
GlobLit(F, d, n) == IF LStat(F, <<d, n>>).st = "ok" THEN {<<d, n>>} ELSE {}
GlobAllAll(F) == UNION {GlobAll(F, d) : d \in Dirs}

\* Path.walk(top_down, follow_symlinks): set of <<path, dirnames, filenames>>; nothing when the top
\* cannot be listed.  Paths are name sequences relative to the root (up to 3 names when a link to a
\* first-level directory is followed).
WalkDirs(F, D, follow) == {n \in Names : \/ F[<<D, n>>].k = "d"
                                         \/ follow /\ F[<<D, n>>].k = "l" /\ IsDirV(F, <<D, n>>)}
WalkT(path, dirs, files) == [path |-> path, dirs |-> dirs, files |-> files]
WalkSafe(F, p, follow) ==     \* following links terminates: followed first-level directories hold no links to directories
  ~follow \/ LET s == Stat(F, p)
             IN s.st = "ok" /\ F[s.p].k = "d" /\ Len(s.p) = 1 =>
                  \A n \in WalkDirs(F, s.p[1], TRUE) :
                     LET t == Stat(F, <<s.p[1], n>>)
                     IN Len(t.p) = 1 => /\ t.p # s.p
                                        /\ \A m \in Names : F[<<t.p[1], m>>].k # "l" \/ ~IsDirV(F, <<t.p[1], m>>)
WalkV(F, p, follow) ==
  LET s == Stat(F, p)
  IN IF s.st # "ok" \/ F[s.p].k # "d" THEN {}
     ELSE IF Len(s.p) = 2 THEN {WalkT(p, {}, {})}
     ELSE LET D == s.p[1]
              ds == WalkDirs(F, D, follow)
              Sub(n) == LET t == Stat(F, <<D, n>>)
                        IN IF Len(t.p) = 2 THEN {WalkT(p \o <<n>>, {}, {})}
                           ELSE LET D2 == t.p[1]
                                    ds2 == WalkDirs(F, D2, follow)
                                IN {WalkT(p \o <<n>>, ds2, EntriesOf(F, D2) \ ds2)}
                                   \cup {WalkT(p \o <<n, m>>, {}, {}) : m \in ds2}
          IN {WalkT(p, ds, EntriesOf(F, D) \ ds)} \cup UNION {Sub(n) : n \in ds}

ResolveV(F, p) == IF ExistsV(F, p) THEN <<Stat(F, p).p>> ELSE <<>>      \* <<>> = None

\* LocalStreamFlowPath.rmtree: nothing unless exists() (so a dangling link stays); unlink links and
\* files, shutil.rmtree directories
RmtreeF(F, p) ==
  IF ~ExistsV(F, p) THEN F
  ELSE IF IsLinkV(F, p) THEN [F EXCEPT ![LStat(F, p).p] = Absent]
  ELSE LET q == Stat(F, p).p
       IN IF F[q].k = "d"
          THEN [x \in Paths |-> IF x = q \/ (Len(q) = 1 /\ Len(x) = 2 /\ x[1] = q[1]) THEN Absent ELSE F[x]]
          ELSE [F EXCEPT ![q] = Absent]

\* os.symlink(target, p): t is a namespace path (absolute target) or a sibling name (relative)
SymlinkR(F, p, t, rel) ==
  LET loc == Locate(F, p)
  IN IF loc.st # "ok" THEN [st |-> loc.st, F |-> F]
     ELSE IF F[loc.p].k # "-" THEN [st |-> "EEXIST", F |-> F]
     ELSE LET tgt == IF ~rel THEN t ELSE IF Len(loc.p) = 1 THEN <<t>> ELSE <<loc.p[1], t>>
          IN [st |-> "ok", F |-> [F EXCEPT ![loc.p] = LinkN(tgt, rel)]]

\* os.link(t, p): the source is not followed; directories cannot be linked
HardlinkOk(F, p, t) ==      \* the copy of a link keeps its meaning (see the module comment)
  LET src == LStat(F, t)
      loc == Locate(F, p)
  IN (src.st = "ok" /\ loc.st = "ok" /\ F[src.p].k = "l") =>
        /\ F[src.p].rel => (Len(src.p) = Len(loc.p) /\ (Len(src.p) = 1 \/ src.p[1] = loc.p[1]))
        /\ Len(loc.p) = 1 => Len(F[src.p].tgt) = 1
HardlinkR(F, p, t) ==
  LET src == LStat(F, t)
  IN IF src.st # "ok" THEN [st |-> src.st, F |-> F]
     ELSE LET loc == Locate(F, p)
          IN IF loc.st # "ok" THEN [st |-> loc.st, F |-> F]
             ELSE IF F[loc.p].k # "-" THEN [st |-> "EEXIST", F |-> F]
             ELSE IF F[src.p].k = "d" THEN [st |-> "EPERM", F |-> F]
             ELSE [st |-> "ok", F |-> [F EXCEPT ![loc.p] = F[src.p]]]

ChmodR(F, I, p, m) ==
  LET s == Stat(F, p)
  IN IF s.st # "ok" THEN R(s.st, F, I)
     ELSE IF F[s.p].k = "f" THEN R("ok", F, [I EXCEPT ![F[s.p].ino].m = m])
     ELSE R("ok", [F EXCEPT ![s.p].mode = m], I)

\* os.access(X_OK) as root: directories always, files iff some execute bit is set
HasX(m) == (m % 2 = 1) \/ ((m \div 8) % 2 = 1) \/ ((m \div 64) % 2 = 1)
IsExecV(F, I, p) == LET s == Stat(F, p)
                    IN s.st = "ok" /\ (F[s.p].k = "d" \/ HasX(I[F[s.p].ino].m))

---------------------------------------------------------------------------
(* Initial trees *)
EmptyF == [p \in Paths |-> Absent]
EmptyI == [i \in Inodes |-> FreeI]
D1 == DirSeq[1]
D2 == DirSeq[2]
NA == NameSeq[1]
NB == NameSeq[2]
C1 == CHOOSE c \in Contents : \A x \in Contents : c <= x
FileF == [EmptyF EXCEPT ![<<D1>>] = DirN(DefDirMode), ![<<D1, NA>>] = FileN(1)]
FileI == [EmptyI EXCEPT ![1] = [c |-> C1, m |-> DefFileMode]]
LinksF == [FileF EXCEPT ![<<D1, NB>>] = LinkN(<<D1, NA>>, FALSE), ![<<D2>>] = LinkN(<<D1>>, FALSE)]
SeedState(s) == IF s = "empty" THEN <<EmptyF, EmptyI>>
                ELSE IF s = "file" THEN <<FileF, FileI>> ELSE <<LinksF, FileI>>

Init == /\ \E s \in Seeds : fs = SeedState(s)[1] /\ ino = SeedState(s)[2]
        /\ ret = [op |-> "init", args |-> <<>>, kind |-> "", st |-> "ok", v |-> 0]
        /\ depth = 0

---------------------------------------------------------------------------
(* Actions.  All the queries of a state are one action (`Observe`: they do not change the state,
   and the table of their answers is what an implementation has to reproduce, query by query);
   every mutating operation is an action of its own. *)
NP == Len(PathList)
SeqMap(Op(_), s) == [i \in 1..Len(s) |-> Op(s[i])]
PathArgs == [i \in 1..NP |-> <<PathList[i]>>]
ReadArgs == [i \in 1..(2 * NP) |-> <<PathList[((i - 1) \div 2) + 1], IF i % 2 = 1 THEN 0 ELSE 2>>]   \* n = -1 (all) / 2
WalkArgs == [i \in 1..(4 * NP) |-> <<PathList[((i - 1) \div 4) + 1], ((i - 1) % 4) < 2, ((i - 1) % 2) = 1>>]
GlobNameArgs == [i \in 1..(ND * NN) |-> PathList[ND + i]]

QueriesOf(F, I) ==
  LET K == [p \in Paths |-> Kind(F, p)]
      Q(op, args, p, st, v) == [op |-> op, args |-> args, kind |-> K[p], st |-> st, v |-> v]
      QExists(x) == Q("exists", x, x[1], "ok", ExistsV(F, x[1]))
      QIsFile(x) == Q("is_file", x, x[1], "ok", IsFileV(F, x[1]))
      QIsDir(x) == Q("is_dir", x, x[1], "ok", IsDirV(F, x[1]))
      QIsSymlink(x) == Q("is_symlink", x, x[1], "ok", IsLinkV(F, x[1]))
      QIsExec(x) == Q("is_executable", x, x[1], "ok", IsExecV(F, I, x[1]))
      QRead(x) == LET r == ReadR(F, I, x[1]) IN Q("read_text", x, x[1], r.st, r.v)
      QSize(x) == Q("size", x, x[1], "ok", SizeV(F, I, x[1]))
      QChecksum(x) == Q("checksum", x, x[1], "ok", ChecksumV(F, I, x[1]))
      QResolve(x) == Q("resolve", x, x[1], "ok", ResolveV(F, x[1]))
      QWalk(x) == Q("walk", x, x[1], "ok", WalkV(F, x[1], x[3]))
      QGlobStar(x) == Q("glob", <<x, "*">>, x, "ok", GlobAll(F, x[1]))
      QGlobName(x) == Q("glob", <<<<x[1]>>, "lit", x[2]>>, x, "ok", GlobLit(F, x[1], x[2]))
      WalkOk(x) == WalkSafe(F, x[1], x[3])
  IN SeqMap(QExists, PathArgs) \o SeqMap(QIsFile, PathArgs) \o SeqMap(QIsDir, PathArgs)
     \o SeqMap(QIsSymlink, PathArgs) \o SeqMap(QIsExec, PathArgs) \o SeqMap(QRead, ReadArgs)
     \o SeqMap(QSize, PathArgs) \o SeqMap(QChecksum, PathArgs) \o SeqMap(QResolve, PathArgs)
     \o SeqMap(QWalk, SelectSeq(WalkArgs, WalkOk))
     \o SeqMap(QGlobStar, [i \in 1..ND |-> PathList[i]]) \o SeqMap(QGlobName, GlobNameArgs)
     \o <<Q("glob", <<<<>>, "*/*">>, PathList[1], "ok", GlobAllAll(F))>>

Step == depth < MaxDepth /\ depth' = depth + 1
Obs(op, args, p, st, v) == ret' = [op |-> op, args |-> args, kind |-> Kind(fs, p), st |-> st, v |-> v]
Observe == /\ Step /\ UNCHANGED <<fs, ino>>
           /\ ret' = [op |-> "observe", args |-> <<>>, kind |-> "", st |-> "ok", v |-> QueriesOf(fs, ino)]
Mutate(op, args, p, st, F, I, v) == Step /\ fs' = F /\ ino' = I /\ Obs(op, args, p, st, v)
MutateN(op, args, p, st, F, I, v) ==      \* may create or remove files: renumber the inodes
  Step /\ fs' = NormF(F) /\ ino' = NormI(F, I) /\ Obs(op, args, p, st, v)

Mkdir(p, parents, existok) ==
  LET r == MkdirR(fs, p, parents, existok) IN Mutate("mkdir", <<p, parents, existok>>, p, r.st, r.F, ino, 0)
WriteText(p, c) ==
  LET r == WriteR(fs, ino, p, c) IN MutateN("write_text", <<p, c>>, p, r.st, r.F, r.I, c)
Rmtree(p) == MutateN("rmtree", <<p>>, p, "ok", RmtreeF(fs, p), ino, 0)
SymlinkAbs(p, t) ==
  /\ Len(p) = 1 => Len(t) = 1
  /\ LET r == SymlinkR(fs, p, t, FALSE) IN Mutate("symlink_to", <<p, t, FALSE>>, p, r.st, r.F, ino, 0)
SymlinkRel(p, t) ==        \* t: the other sibling name
  /\ IF Len(p) = 1 THEN t \in Dirs \ {p[1]} ELSE t \in Names \ {p[2]}
  /\ LET r == SymlinkR(fs, p, t, TRUE) IN Mutate("symlink_to", <<p, t, TRUE>>, p, r.st, r.F, ino, 0)
Hardlink(p, t) ==
  /\ HardlinkOk(fs, p, t)
  /\ LET r == HardlinkR(fs, p, t) IN MutateN("hardlink_to", <<p, t>>, p, r.st, r.F, ino, 0)
Chmod(p, m) ==
  LET r == ChmodR(fs, ino, p, m) IN Mutate("chmod", <<p, m>>, p, r.st, r.F, r.I, 0)

Next ==
  \/ Observe
  \/ \E p \in Paths : \/ \E pa, eo \in BOOLEAN : Mkdir(p, pa, eo)
                      \/ \E c \in Contents : WriteText(p, c)
                      \/ Rmtree(p)
                      \/ \E t \in Paths : SymlinkAbs(p, t) \/ Hardlink(p, t)
                      \/ \E t \in Dirs \cup Names : SymlinkRel(p, t)
                      \/ \E m \in Modes : Chmod(p, m)

Spec == Init /\ [][Next]_vars

---------------------------------------------------------------------------
(* Properties of the specification itself *)
NodeOK(n) == /\ n.k \in {"-", "f", "d", "l"}
             /\ n.k = "f" => n.ino \in Inodes
             /\ n.k = "l" => n.tgt \in Paths
TypeOK == /\ DOMAIN fs = Paths /\ \A p \in Paths : NodeOK(fs[p])
          /\ DOMAIN ino = Inodes
EntriesHaveRealParent == \A p \in P2 : fs[p].k # "-" => fs[<<p[1]>>].k = "d"
FirstLevelLinks == \A p \in P1 : fs[p].k = "l" => Len(fs[p].tgt) = 1
InodesCanonical == /\ NormF(fs) = fs /\ NormI(fs, ino) = ino
                   /\ \A i \in Inodes : (i \in UsedInos(fs)) <=> (ino[i].m # 0)
ExistsIsFileOrDir == \A p \in Paths : ExistsV(fs, p) <=> (IsFileV(fs, p) \/ IsDirV(fs, p))
ResolveIsFixpoint == \A p \in Paths : ExistsV(fs, p) =>
                        LET q == Stat(fs, p).p IN Stat(fs, q) = Ok(q) /\ ~IsLinkV(fs, q)

\* laws relating an operation to what can be observed afterwards (action properties)
Arg(i) == ret'.args[i]
Laws ==
  /\ ret'.op = "observe" => UNCHANGED <<fs, ino>>
  /\ ret'.st # "ok" => UNCHANGED <<fs, ino>>                        \* a failing operation changes nothing
  /\ (ret'.op = "write_text" /\ ret'.st = "ok") =>
        ReadR(fs', ino', Arg(1)) = [st |-> "ok", v |-> Arg(2)]
  /\ (ret'.op = "mkdir" /\ ret'.st = "ok") => IsDirV(fs', Arg(1))
  /\ (ret'.op = "mkdir" /\ ret'.st = "ok" /\ ~Arg(3)) => ~(LStat(fs, Arg(1)).st = "ok")
  /\ ret'.op = "rmtree" => ~ExistsV(fs', Arg(1))
  /\ (ret'.op = "symlink_to" /\ ret'.st = "ok") => IsLinkV(fs', Arg(1))
  /\ (ret'.op = "hardlink_to" /\ ret'.st = "ok") =>
        fs'[LStat(fs', Arg(1)).p] = fs'[LStat(fs', Arg(2)).p]
  /\ (ret'.op = "chmod" /\ ret'.st = "ok" /\ IsFileV(fs, Arg(1))) =>
        (IsExecV(fs', ino', Arg(1)) <=> HasX(Arg(2)))
LawsHold == [][Laws]_vars
=============================================================================
