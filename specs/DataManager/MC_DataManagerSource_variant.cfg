CONSTANTS MaxOps = 6  CheckBeforeWait = TRUE
CONSTANTS Locs <- MCLocs  DepOf <- MCDepOf  IsLocal <- MCIsLocal  Dsts <- MCDsts
INIT Init
NEXT Next
CONSTRAINT NotDone
INVARIANT ChosenIsValidPrimary
INVARIANT NoneOnlyWhenNoCandidateIsLeft
INVARIANT BlockedOnlyOnInFlight
