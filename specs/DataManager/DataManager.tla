----------------------------- MODULE DataManager -----------------------------
(* The data-location registry of StreamFlow (`streamflow/data/manager.py`):
   `_RemotePathMapper` (a trie of `_RemotePathNode`s with `locations` and `valid_paths`) and the
   `DefaultDataManager` operations register_path / register_relation / invalidate_location /
   get_data_locations / get_source_location.

   Two layers in one state:

   * AS-IS layer (dl, locs, valid, nodes, last): a faithful transcription of the code, object
     identities included (a DataLocation object is an index into `dl`; the same object is stored
     in several nodes; invalidation flips the type of the OBJECT).
   * DECLARATIVE layer (sup, unk, cls, direct): what the property statement (C21) says the registry
     must answer, computed from the HISTORY of operations only.  Exp(p, l) is
        "reg"  p (or a path beneath p) was registered on l and not invalidated since
        "rel"  the data of p has a copy on l at another path (a relation), not invalidated since
        "no"   must be reported unavailable (never registered/related, or every copy invalidated)
        "any"  the statement does not decide (a path RELATED to the invalidated one, on the same
               location: the code also drops such copies, e.g. links whose target vanished)
     `cls` is the partition of paths induced by the relations declared so far.

   The invariant `Match` says the as-is answers agree with the declarative ones wherever the
   statement decides.  TLC explores all operation sequences up to a depth; where the as-is layer
   breaks `Match` the harness replays the sequence on the real class (genuine defect iff the real
   class follows).  Environment actions only use handles the public API returns (rule 7):
   the object returned by the latest register_path (`last`), or the first object listed by
   get_data_locations for a directly registered (path, location).                              *)
EXTENDS Integers, Sequences, FiniteSets, TLC

CONSTANTS PathSeq,        \* sequence of all paths (each a sequence of letters, <<>> = "/"), prefix closed
          LocSeq,         \* sequence of all locations
          Types,          \* data types used by the environment: subset of {"PRIMARY", "SYMLINK"}
          WrapsOf(_),     \* location -> wrapped location or "none"
          MountFrom(_),   \* location -> mount point inside the wrapping location (a path)
          MountTo(_),     \* location -> corresponding path on the wrapped location
          RelateAll       \* TRUE: relations may also start from ancestor-implied registrations

VARIABLES dl,             \* sequence of DataLocation objects [loc, path, type]; type in PRIMARY/SYMLINK/INVALID
          locs,           \* locs[p][l]  : sequence of object ids   (node.locations[dep][name])
          valid,          \* valid[p][l] : set of paths             (node.valid_paths[dep][name])
          nodes,          \* sequence of existing trie nodes in creation order (children dict order)
          last,           \* handle returned by the latest register_path: [k|->"none"] / [k|->"id",id] / [k|->"new",loc,path,type]
          err,            \* exception raised by the latest operation ("none" / "RecursionError")
          sup, unk, cls, direct,   \* declarative layer (history)
          act, hist       \* latest operation / all operations so far (hidden by VIEW)
asis == <<dl, locs, valid, nodes, last, err>>
vars == <<dl, locs, valid, nodes, last, err, sup, unk, cls, direct, act, hist>>

Paths == {PathSeq[i] : i \in 1..Len(PathSeq)}
Locs == {LocSeq[i] : i \in 1..Len(LocSeq)}
InSeq(s, x) == \E i \in 1..Len(s) : s[i] = x
IsUnder(p, q) == Len(q) <= Len(p) /\ SubSeq(p, 1, Len(q)) = q          \* p is q or lies beneath q
Under(q) == {p \in Paths : IsUnder(p, q)}
AncSelf(p) == {SubSeq(p, 1, k) : k \in 0..Len(p)}
IsChild(c, p) == Len(c) = Len(p) + 1 /\ IsUnder(c, p)

---------------------------------------------------------------------------
(* AS-IS layer.  st = [dl, locs, valid, nodes]; handles: see `last`. *)
HLoc(st, h) == IF h.k = "id" THEN st.dl[h.id].loc ELSE h.loc
HPath(st, h) == IF h.k = "id" THEN st.dl[h.id].path ELSE h.path
Fresh(l, p, t) == [k |-> "new", loc |-> l, path |-> p, type |-> t]
Id(i) == [k |-> "id", id |-> i]

\* "Create or navigate hierarchy": nodes are created top-down for every part of the path
EnsureNodes(ns, p) ==
  LET RECURSIVE F(_, _)
      F(s, k) == IF k > Len(p) THEN s
                 ELSE LET q == SubSeq(p, 1, k) IN F(IF InSeq(s, q) THEN s ELSE Append(s, q), k + 1)
  IN F(ns, 0)

\* one iteration of the bottom-up loop of put(): store object h in node np unless ITS path is in valid_paths
PutOne(st, np, h) ==
  LET l == HLoc(st, h)
      pp == HPath(st, h)
      st0 == [st EXCEPT !.nodes = EnsureNodes(@, np)]
  IN IF pp \in st0.valid[np][l] THEN [st |-> st0, h |-> h, stop |-> TRUE]
     ELSE LET alloc == h.k = "new"
              i == IF alloc THEN Len(st0.dl) + 1 ELSE h.id
              dl1 == IF alloc THEN Append(st0.dl, [loc |-> l, path |-> pp, type |-> h.type]) ELSE st0.dl
          IN [st |-> [st0 EXCEPT !.dl = dl1, !.locs[np][l] = Append(@, i), !.valid[np][l] = @ \cup {pp}],
              h |-> Id(i), stop |-> FALSE]

\* put(path, data_location, recursive=True): the object on its own node, fresh PRIMARY objects on the
\* ancestors, bottom-up, `break` at the first node whose valid_paths already has the path
PutRec(st, p, h) ==
  LET l == HLoc(st, h)
      r0 == PutOne(st, p, h)
      RECURSIVE Up(_, _)
      Up(s, k) == IF k < 0 THEN s
                  ELSE LET np == SubSeq(p, 1, k)
                           r == PutOne(s, np, Fresh(l, np, "PRIMARY"))
                       IN IF r.stop THEN r.st ELSE Up(r.st, k - 1)
  IN [st |-> IF r0.stop THEN r0.st ELSE Up(r0.st, Len(p) - 1), h |-> r0.h]

\* every object stored in the node of p, INVALID ones included (path_mapper.get(path))
NodeObjs(st, p) ==
  LET RECURSIVE F(_)
      F(k) == IF k > Len(LocSeq) THEN <<>> ELSE st.locs[p][LocSeq[k]] \o F(k + 1)
  IN F(1)

\* register_relation(src, dst): for x in get(src.path): put(x.path, dst); put(dst.path, x)
RelateSt(st, srcPath, dstH) ==
  LET RECURSIVE F(_, _, _)
      F(s, d, xs) == IF xs = <<>> THEN [st |-> s, h |-> d]
                     ELSE LET x == Head(xs)
                              r1 == PutOne(s, s.dl[x].path, d)
                              r2 == PutOne(r1.st, HPath(r1.st, r1.h), Id(x))
                          IN F(r2.st, r1.h, Tail(xs))
  IN F(st, dstH, NodeObjs(st, srcPath))

\* the wrapped-location loop of register_path (get_inner_path through the mount point)
HasInner(l, p) == WrapsOf(l) # "none" /\ IsUnder(p, MountFrom(l))
InnerPath(l, p) == MountTo(l) \o SubSeq(p, Len(MountFrom(l)) + 1, Len(p))
RECURSIVE InnerChain(_, _)            \* <<loc, path>> pairs of the inner registrations, outermost first
InnerChain(l, p) == IF HasInner(l, p) THEN <<<<WrapsOf(l), InnerPath(l, p)>>>> \o InnerChain(WrapsOf(l), InnerPath(l, p))
                    ELSE <<>>
RegisterSt(st, l, p, t) ==
  LET r1 == PutRec(st, p, Fresh(l, p, t))
      RECURSIVE Chain(_, _)
      Chain(s, ch) == IF ch = <<>> THEN s
                      ELSE LET r == PutRec(s, ch[1][2], Fresh(ch[1][1], ch[1][2], t))
                           IN Chain(RelateSt(r.st, p, r.h).st, Tail(ch))
  IN [st |-> Chain(r1.st, InnerChain(l, p)), h |-> r1.h]

\* invalidate_location(location, path) as coded.  `stack` holds <<path, objects>> of the calls in progress:
\* re-entering a call with the same path and an unchanged object table can never terminate
\* (the real code then raises RecursionError); over = TRUE reports exactly that.
RECURSIVE Inv(_, _, _, _)
Inv(st, l, q, stack) ==
  IF <<q, st.dl>> \in stack THEN [st |-> st, over |-> TRUE]
  ELSE
  LET ids == st.locs[q][l]
      s1 == [st EXCEPT !.dl = [i \in DOMAIN st.dl |-> IF InSeq(ids, i) THEN [st.dl[i] EXCEPT !.type = "INVALID"] ELSE st.dl[i]],
                       !.valid[q][l] = @ \ {st.dl[ids[k]].path : k \in 1..Len(ids)}]
      kids == SelectSeq(st.nodes, LAMBDA c : IsChild(c, q))
      RECURSIVE Work(_)
      Work(k) == IF k > Len(kids) THEN <<>> ELSE st.locs[kids[k]][l] \o Work(k + 1)
      RECURSIVE Each(_, _)
      Each(s, w) == IF w = <<>> THEN [st |-> s, over |-> FALSE]
                    ELSE LET i == Head(w) IN
                         IF s.dl[i].type = "INVALID" THEN Each(s, Tail(w))
                         ELSE LET r == Inv(s, s.dl[i].loc, s.dl[i].path, stack \cup {<<q, st.dl>>})
                              IN IF r.over THEN r ELSE Each(r.st, Tail(w))
  IN Each(s1, Work(1))

Pack == [dl |-> dl, locs |-> locs, valid |-> valid, nodes |-> nodes]
Unpack(st) == /\ dl' = st.dl /\ locs' = st.locs /\ valid' = st.valid /\ nodes' = st.nodes

\* ---- observables
Live(st, p, l) == SelectSeq(st.locs[p][l], LAMBDA i : st.dl[i].type # "INVALID")     \* get_data_locations(p, dep, name)
Avail(p, l) == Live(Pack, p, l) # <<>>
OwnLive(st, p, l) == SelectSeq(Live(st, p, l), LAMBDA i : st.dl[i].path = p)
PrimaryAt(p) == {i \in DOMAIN dl : dl[i].type = "PRIMARY" /\ \E l \in Locs : InSeq(locs[p][l], i)}
\* get_source_location(p, dst): any PRIMARY copy stored in the node of p (same deployment first, then local,
\* then the first one; iteration over Python sets: the choice inside a class is not determined)
SourceNone(p) == PrimaryAt(p) = {}

---------------------------------------------------------------------------
(* DECLARATIVE layer.
   sup[p][l] : the set of paths q such that "the data of p has a copy on l at q" is certain:
               q = p after a registration of p (or of something beneath p) on l, q = the path of the related
               registration after a relation; a copy disappears when its path q is invalidated on l.
   unk[p][l] : TRUE when the statement does not decide whether further copies exist (see DRelate/DInvalidate). *)
Class(c, p) == CHOOSE s \in c : p \in s
Merge(c, p, q) == LET a == Class(c, p)  b == Class(c, q) IN (c \ {a, b}) \cup {a \cup b}
Exp(p, l) == IF p \in sup[p][l] THEN "reg" ELSE IF sup[p][l] # {} THEN "rel" ELSE IF unk[p][l] THEN "any" ELSE "no"

\* relation between the registration of ps on ls and the registration of pd on ld
DRelate(su, un, c, ps, ls, pd, ld) ==
  LET c1 == Merge(c, ps, pd)
      m == Class(c1, ps)
      \* RELATION CLOSURE (clause "related to such a registration"): every copy of the data of ps that is certain
      \* when the relation is declared -- the source itself and each <<q, lq>> with q \in su[ps][lq], i.e. the other
      \* ends of the relations / wrapped registrations the source already takes part in -- is a copy of the same data
      \* as the destination: the destination becomes a certain copy of each such q (on ld, at pd) and each such q
      \* a certain copy of pd (on lq, at q).  With one relation per source this is the pair (ps, pd) only; with a
      \* fan-out (relate(A,B); relate(A,C)), a chain (relate(A,B); relate(B,C)) or a location wrapped more than
      \* once (register_path relates the outermost copy to every inner one) it also links B with C.
      K == {<<ps, ls>>} \cup {x \in Paths \X Locs : x[1] \in su[ps][x[2]]}
      su2 == [p \in Paths |-> [l \in Locs |->
                 su[p][l] \cup (IF l = ld /\ \E x \in K : x[1] = p THEN {pd} ELSE {})
                          \cup (IF p = pd THEN {x[1] : x \in {y \in K : y[2] = l}} ELSE {})]]
      \* beyond the copies that are certain (copies that were invalidated in the meantime, paths related to the
      \* DESTINATION, longer chains) the code hands the new copy to further nodes: undecided
      un1 == [p \in Paths |-> [l \in Locs |-> un[p][l] \/ (p \in m /\ l = ld) \/ p = pd]]
  IN [su |-> su2, un |-> un1, c |-> c1]

DRegister(su, un, c, d, l, p) ==
  LET ch == InnerChain(l, p)
      RegUp(ss, ll, pp) == [q \in Paths |-> [x \in Locs |-> IF x = ll /\ q \in AncSelf(pp) THEN ss[q][x] \cup {q} ELSE ss[q][x]]]
      RECURSIVE F(_, _, _, _)
      F(ss, uu, cc, k) == IF k > Len(ch) THEN [su |-> ss, un |-> uu, c |-> cc]
                          ELSE LET r == DRelate(RegUp(ss, ch[k][1], ch[k][2]), uu, cc, p, l, ch[k][2], ch[k][1])
                               IN F(r.su, r.un, r.c, k + 1)
      r0 == F(RegUp(su, l, p), un, c, 1)
  IN [su |-> r0.su, un |-> r0.un, c |-> r0.c, d |-> d \cup {<<p, l>>} \cup {<<ch[k][2], ch[k][1]>> : k \in 1..Len(ch)}]

\* least set containing everything beneath q, closed under "related to" and "beneath": the paths whose
\* copies (on the invalidated location) the code may drop as well -- links to vanished data
RECURSIVE Spread(_, _)
Spread(c, S) == LET T == S \cup UNION {Class(c, p) : p \in S} \cup UNION {Under(p) : p \in S}
                IN IF T = S THEN S ELSE Spread(c, T)
DInvalidate(su, un, c, d, l, q) ==
  LET U == Under(q)
      S == Spread(c, U)
  IN [su |-> [p \in Paths |-> [x \in Locs |-> IF x # l THEN su[p][x]        \* nothing on other locations
                                              ELSE su[p][x] \ S]],         \* copies beneath q are gone, related ones undecided
      \* beneath q everything is decided again when every path related to p lies beneath q as well
      un |-> [p \in Paths |-> [x \in Locs |-> IF x = l /\ p \in U /\ Class(c, p) \subseteq U THEN FALSE
                                              ELSE un[p][x] \/ (x = l /\ (su[p][x] \cap (S \ U)) # {})]],
      d |-> {x \in d : ~(x[2] = l /\ x[1] \in S)}]

---------------------------------------------------------------------------
Init == /\ dl = <<>> /\ nodes = <<>> /\ last = [k |-> "none"] /\ err = "none"
        /\ locs = [p \in Paths |-> [l \in Locs |-> <<>>]]
        /\ valid = [p \in Paths |-> [l \in Locs |-> {}]]
        /\ sup = [p \in Paths |-> [l \in Locs |-> {}]]
        /\ unk = [p \in Paths |-> [l \in Locs |-> FALSE]]
        /\ cls = {{p} : p \in Paths}
        /\ direct = {}
        /\ act = <<"init">> /\ hist = <<>>

Log(a) == /\ act' = a /\ hist' = Append(hist, a)

InnerInPaths(l, p) == \A k \in 1..Len(InnerChain(l, p)) : InnerChain(l, p)[k][2] \in Paths

RegisterPath(l, p, t) ==
  /\ InnerInPaths(l, p)
  /\ LET r == RegisterSt(Pack, l, p, t)
         d == DRegister(sup, unk, cls, direct, l, p)
     IN /\ Unpack(r.st) /\ last' = r.h /\ err' = "none"
        /\ sup' = d.su /\ unk' = d.un /\ cls' = d.c /\ direct' = d.d
  /\ Log(<<"reg", l, p, t>>)

\* handles the environment can hold
Cells == IF RelateAll THEN {x \in Paths \X Locs : Exp(x[1], x[2]) = "reg"} ELSE direct
CellHandle(p, l) == Id(OwnLive(Pack, p, l)[1])
HasCellHandle(p, l) == <<p, l>> \in Cells /\ Exp(p, l) = "reg" /\ OwnLive(Pack, p, l) # <<>>
Descs == {<<"last">>} \cup {<<"cell", x[1], x[2]>> : x \in Paths \X Locs}
DescOK(d) == IF d[1] = "last" THEN last.k # "none" ELSE HasCellHandle(d[2], d[3])
DescH(d) == IF d[1] = "last" THEN last ELSE CellHandle(d[2], d[3])

RegisterRelation(sd, dd) ==
  /\ DescOK(sd) /\ DescOK(dd)
  /\ LET sh == DescH(sd)
         dh == DescH(dd)
         ps == HPath(Pack, sh)  ls == HLoc(Pack, sh)
         pd == HPath(Pack, dh)  ld == HLoc(Pack, dh)
     IN /\ sh # dh /\ <<ps, ls>> # <<pd, ld>>
        /\ LET r == RelateSt(Pack, ps, dh)
               d == DRelate(sup, unk, cls, ps, ls, pd, ld)
           IN /\ Unpack(r.st) /\ err' = "none"
              /\ last' = IF dd[1] = "last" THEN r.h ELSE last       \* the held object may have been stored
              /\ sup' = d.su /\ unk' = d.un /\ cls' = d.c /\ direct' = direct
  /\ Log(<<"rel", sd, dd>>)

InvalidateLocation(l, q) ==
  /\ InSeq(nodes, q)                          \* (a path that was never seen raises KeyError: not constrained)
  /\ LET r == Inv(Pack, l, q, {})
         d == DInvalidate(sup, unk, cls, direct, l, q)
     IN /\ Unpack(r.st) /\ err' = IF r.over THEN "RecursionError" ELSE "none"
        /\ last' = [k |-> "none"]             \* handles obtained before an invalidation are not reused
        /\ sup' = d.su /\ unk' = d.un /\ cls' = cls /\ direct' = d.d
  /\ Log(<<"inv", l, q>>)

Next == \/ \E l \in Locs, p \in Paths, t \in Types : RegisterPath(l, p, t)
        \/ \E sd \in Descs, dd \in Descs : RegisterRelation(sd, dd)
        \/ \E l \in Locs, q \in Paths : InvalidateLocation(l, q)
Spec == Init /\ [][Next]_vars

---------------------------------------------------------------------------
(* Properties. *)
TypeOK == /\ \A p \in Paths, l \in Locs : \A k \in 1..Len(locs[p][l]) :
               locs[p][l][k] \in DOMAIN dl /\ dl[locs[p][l][k]].loc = l
          /\ cls \subseteq SUBSET Paths /\ UNION cls = Paths

CellOK(p, l) == /\ Exp(p, l) \in {"reg", "rel"} => Avail(p, l)
                /\ Exp(p, l) = "no" => ~Avail(p, l)
Match == err = "none" /\ \A p \in Paths, l \in Locs : CellOK(p, l)

\* the clauses of the statement, by the operation that has just been performed
ReRegisterRestores == act[1] = "reg" => \A q \in AncSelf(act[3]) : Avail(q, act[2])
InnerRegistered == act[1] = "reg" =>
                     \A k \in 1..Len(InnerChain(act[2], act[3])) :
                        LET c == InnerChain(act[2], act[3])[k] IN
                        /\ \A q \in AncSelf(c[2]) : Avail(q, c[1])
                        /\ Avail(act[3], c[1]) /\ Avail(c[2], act[2])
                        \* a location wrapped more than once: the inner copies are copies of each other as well
                        /\ \A j \in 1..Len(InnerChain(act[2], act[3])) :
                              LET d == InnerChain(act[2], act[3])[j] IN Avail(c[2], d[1]) /\ Avail(d[2], c[1])
\* relation closure, stated on the relations declared so far: whatever is a certain copy of p is reported from p
RelationClosed == \A p \in Paths, l \in Locs : sup[p][l] # {} => Avail(p, l)
InvalidateCovers == act[1] = "inv" => \A p \in Under(act[3]) : Exp(p, act[2]) = "no" => ~Avail(p, act[2])
InvalidateTerminates == err = "none"
SourceValid == \A p \in Paths : \A i \in PrimaryAt(p) : dl[i].type = "PRIMARY"     \* by construction of PrimaryAt
Unaffected == \A p \in Paths, l \in Locs : Exp(p, l) \in {"reg", "rel"} => Avail(p, l)
NoGhosts == \A p \in Paths, l \in Locs : Exp(p, l) = "no" => ~Avail(p, l)

(* Root causes of the violations of Match in the as-is layer (narrow, state based):
   STALE  a node keeps a path in valid_paths although every object with that path stored there is INVALID
          (the object was invalidated through ANOTHER node: put() then skips the re-registration);
   SKIP   a node holds live objects of a location while an ancestor... (see MC module)                  *)
StaleAt(p, l) == \E q \in valid[p][l] : ~\E k \in 1..Len(locs[p][l]) :
                     dl[locs[p][l][k]].path = q /\ dl[locs[p][l][k]].type # "INVALID"
=============================================================================
