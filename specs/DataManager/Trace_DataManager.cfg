CONSTANTS Universe = "T3"  NLocs = 3  Wrap = TRUE  Wrap2 = FALSE  Family = "none"  MaxDepth = 99  RelateAll = FALSE
CONSTANTS Types = {"PRIMARY", "SYMLINK"}
CONSTANTS PathSeq <- MCPathSeq  LocSeq <- MCLocSeq  WrapsOf <- MCWrapsOf  MountFrom <- MCMountFrom  MountTo <- MCMountTo
INIT TInit
NEXT TNext
