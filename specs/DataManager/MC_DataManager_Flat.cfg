CONSTANTS Universe = "Flat"  NLocs = 1  Wrap = FALSE  Wrap2 = FALSE  Family = "none"  MaxDepth = 6  RelateAll = FALSE
CONSTANTS Types = {"PRIMARY"}
CONSTANTS PathSeq <- MCPathSeq  LocSeq <- MCLocSeq  WrapsOf <- MCWrapsOf  MountFrom <- MCMountFrom  MountTo <- MCMountTo
INIT Init
NEXT Next
VIEW View
CONSTRAINT BoundOK
INVARIANT TypeOK
INVARIANT MatchModuloKnown
