-------------------------- MODULE Trace_DataManager --------------------------
(* Answers for operation sequences proposed by the harness (larger universes than the exhaustive
   configurations can cover): TRACE_FILE holds [[op, ...], ...]; TLC walks every sequence with the
   actions of DataManager and prints, after each operation, what the declarative layer expects and what
   the as-is layer answers (same line format as MC_DataManager!Emit, plus the trace id).
   An operation that is not enabled (a handle the environment cannot hold, a path that was never
   seen) is skipped and reported as such; a sequence stops at the first state that breaks Match,
   exactly as the exhaustive configurations do not expand such states.                          *)
EXTENDS MC_DataManager, IOUtils

VARIABLES tid, pos
tvars == <<tid, pos>>

Traces == JsonDeserialize(IOEnv.TRACE_FILE)

OpEnabled(op) ==
  CASE op[1] = "reg" -> op[2] \in Locs /\ op[3] \in Paths /\ InnerInPaths(op[2], op[3])
    [] op[1] = "rel" -> /\ DescOK(op[2]) /\ DescOK(op[3])
                        /\ DescH(op[2]) # DescH(op[3])
                        /\ <<HPath(Pack, DescH(op[2])), HLoc(Pack, DescH(op[2]))>> # <<HPath(Pack, DescH(op[3])), HLoc(Pack, DescH(op[3]))>>
    [] op[1] = "inv" -> op[2] \in Locs /\ op[3] \in Paths /\ InSeq(nodes, op[3])
\* Do(op): see MC_DataManager

TInit == Init /\ tid = 1 /\ pos = 1
Reset == /\ dl' = <<>> /\ nodes' = <<>> /\ last' = [k |-> "none"] /\ err' = "none"
         /\ locs' = [p \in Paths |-> [l \in Locs |-> <<>>]]
         /\ valid' = [p \in Paths |-> [l \in Locs |-> {}]]
         /\ sup' = [p \in Paths |-> [l \in Locs |-> {}]]
         /\ unk' = [p \in Paths |-> [l \in Locs |-> FALSE]]
         /\ cls' = {{p} : p \in Paths}
         /\ direct' = {}
         /\ act' = <<"init">> /\ hist' = <<>>
TEmit(kind) == PrintT(ToJson([t |-> tid, k |-> pos, r |-> kind, e |-> ExpRow, a |-> AvailRow, s |-> SrcRow,
                              c |-> CauseRow, x |-> err', xc |-> ErrCause', n |-> Len(dl')]))
TNext ==
  /\ tid <= Len(Traces)
  /\ IF pos > Len(Traces[tid]) \/ ~Match
     THEN Reset /\ tid' = tid + 1 /\ pos' = 1
     ELSE LET op == Traces[tid][pos] IN
          /\ pos' = pos + 1 /\ tid' = tid
          /\ IF OpEnabled(op) THEN Do(op) /\ TEmit("done")
             ELSE UNCHANGED vars /\ TEmit("skipped")
=============================================================================
