--------------------------- MODULE MC_DataManager ---------------------------
(* Bounded configurations of DataManager.  Path universes (prefix closed, root included):
     T2    full binary tree of depth 2 over {a,b}            (7 paths)
     T3    full binary tree of depth 3                       (15 paths)
     Chain /, /a, /a/a, /a/a/a, /b                           (5 paths)
     Fork  /, /a, /a/a, /a/b, /b, /b/a                       (6 paths)
   Locations: L1 local (deployment __LOCAL__), L2 remote, L3 remote wrapping L2 with the mount
   point /a -> /b (so registering /a/x on L3 also registers /b/x on L2 and relates the two).
   Wrap2: L2 in turn wraps L1 with the mount point /b/a -> /b/b: a stack of depth two (container -> vm ->
   host), registering /a/a/x on L3 also registers /b/a/x on L2 and /b/b/x on L1, three different paths,
   and the relation closure demands that each of the three paths reports all three copies.
   Family: a scenario family = all continuations of a fixed prefix of operations (performed through the
   same actions, counted in MaxDepth); "three" = one file registered at three different paths on three
   locations, so that fan-outs and chains of relations (at least two relations sharing an end) are reached
   two operations later.                                                                         *)
EXTENDS DataManager, Json

CONSTANTS Universe,       \* "T2" / "T3" / "Chain" / "Fork"
          NLocs,          \* 1..3
          Wrap,           \* TRUE: L3 wraps L2 (needs NLocs = 3)
          Wrap2,          \* TRUE: L2 wraps L1 (with Wrap: L3 -> L2 -> L1, a location wrapped twice)
          Family,         \* "none" / "three": prefix of operations every behaviour starts with
          MaxDepth        \* operation sequences of length <= MaxDepth

A == "a"
B == "b"
T2 == << <<>>, <<A>>, <<B>>, <<A,A>>, <<A,B>>, <<B,A>>, <<B,B>> >>
T3 == T2 \o << <<A,A,A>>, <<A,A,B>>, <<A,B,A>>, <<A,B,B>>, <<B,A,A>>, <<B,A,B>>, <<B,B,A>>, <<B,B,B>> >>
ChainU == << <<>>, <<A>>, <<B>>, <<A,A>>, <<A,A,A>> >>
FlatU == << <<>>, <<A>>, <<B>> >>
ForkU == << <<>>, <<A>>, <<B>>, <<A,A>>, <<A,B>>, <<B,A>> >>
MCPathSeq == CASE Universe = "T2" -> T2 [] Universe = "T3" -> T3 [] Universe = "Chain" -> ChainU [] Universe = "Fork" -> ForkU [] Universe = "Flat" -> FlatU
MCLocSeq == SubSeq(<<"L1", "L2", "L3">>, 1, NLocs)
MCWrapsOf(l) == IF Wrap /\ l = "L3" THEN "L2" ELSE IF Wrap2 /\ l = "L2" THEN "L1" ELSE "none"
MCMountFrom(l) == IF l = "L2" THEN <<B, A>> ELSE <<A>>
MCMountTo(l) == IF l = "L2" THEN <<B, B>> ELSE <<B>>

Prefix == CASE Family = "none" -> <<>>
            [] Family = "three" -> << <<"reg", "L1", <<A, A>>, "PRIMARY">>, <<"reg", "L2", <<A, B>>, "PRIMARY">>,
                                      <<"reg", "L3", <<B, A>>, "PRIMARY">> >>
Do(op) ==
  CASE op[1] = "reg" -> RegisterPath(op[2], op[3], op[4])
    [] op[1] = "rel" -> RegisterRelation(op[2], op[3])
    [] op[1] = "inv" -> InvalidateLocation(op[2], op[3])
\* the prefix first, then every operation
FNext == IF Len(hist) < Len(Prefix) THEN Do(Prefix[Len(hist) + 1]) ELSE Next

Bound == Len(hist) < MaxDepth
\* states that already break Match are not expanded (everything after them is a consequence)
BoundOK == Bound /\ Match

(* Root causes of the known violations of Match in the as-is layer (both confirmed on the real class):
   STALE   a node keeps a path in valid_paths although no live object with that path is stored there
           (the object was invalidated through ANOTHER node that also stores it): put() skips the
           re-registration there and, because of the `break`, on every ancestor above;
   ORPHAN  a live object stored in some node but not in its OWN node: the duplicate that register_path
           returns for an already valid path, stored later by register_relation; invalidate_location
           reaches objects through their own node only, so the copy survives (or the recursion never ends);
   HOLE    a path is still reported on a location although one of its ancestors is not: invalidate_location
           descends into a child only through a LIVE object of that child, so when the child's objects were
           already invalidated through another node (a relation) everything beneath the child is skipped.  *)
StoredAt(i, p) == InSeq(locs[p][dl[i].loc], i)
Orphan(i) == dl[i].type # "INVALID" /\ ~StoredAt(i, dl[i].path)
CellCause(p, l) ==
  IF CellOK(p, l) THEN 0
  ELSE IF Exp(p, l) \in {"reg", "rel"} /\ \E q \in Under(p) : StaleAt(q, l) THEN 1
  ELSE IF Exp(p, l) = "no" /\ \A k \in 1..Len(locs[p][l]) : dl[locs[p][l][k]].type # "INVALID" => Orphan(locs[p][l][k]) THEN 2
  ELSE IF Exp(p, l) = "no" /\ \E q \in AncSelf(p) \ {p} : InSeq(nodes, q) /\ Live(Pack, q, l) = <<>> THEN 3
  ELSE 9
ErrCause == IF err = "none" THEN 0 ELSE IF \E i \in DOMAIN dl : Orphan(i) /\ \E p \in Paths : StoredAt(i, p) THEN 2 ELSE 9
\* (after an exception only the exception is judged: the operation did not complete)
MatchModuloKnown == ErrCause # 9 /\ (err = "none" => \A p \in Paths, l \in Locs : CellCause(p, l) # 9)

\* the depth is part of the view: exactly all sequences of length <= MaxDepth whatever the number of workers
View == <<dl, locs, valid, nodes, last, err, sup, unk, cls, direct, Len(hist)>>

\* ---- compact emission: one JSON line per transition (generation configs, -workers 1)
Code(v) == CASE v = "no" -> 0 [] v = "reg" -> 1 [] v = "rel" -> 2 [] v = "any" -> 3
CellRow(f(_, _)) == [i \in 1..(Len(PathSeq) * Len(LocSeq)) |->
                       f(PathSeq[((i - 1) \div Len(LocSeq)) + 1], LocSeq[((i - 1) % Len(LocSeq)) + 1])]
ExpRow == CellRow(LAMBDA p, l : Code(Exp(p, l)'))
AvailRow == CellRow(LAMBDA p, l : IF SelectSeq(locs'[p][l], LAMBDA i : dl'[i].type # "INVALID") # <<>> THEN 1 ELSE 0)
CauseRow == CellRow(LAMBDA p, l : CellCause(p, l)')
SrcRow == [i \in 1..Len(PathSeq) |-> IF SourceNone(PathSeq[i])' THEN 0 ELSE 1]
Emit == PrintT(ToJson([h |-> hist', e |-> ExpRow, a |-> AvailRow, s |-> SrcRow, c |-> CauseRow, x |-> err', xc |-> ErrCause', n |-> Len(dl')]))
GenNext == FNext /\ Emit
=============================================================================
