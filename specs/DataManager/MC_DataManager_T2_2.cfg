CONSTANTS Universe = "T2"  NLocs = 2  Wrap = FALSE  Wrap2 = FALSE  Family = "none"  MaxDepth = 3  RelateAll = FALSE
CONSTANTS Types = {"PRIMARY"}
CONSTANTS PathSeq <- MCPathSeq  LocSeq <- MCLocSeq  WrapsOf <- MCWrapsOf  MountFrom <- MCMountFrom  MountTo <- MCMountTo
INIT Init
NEXT Next
VIEW View
CONSTRAINT BoundOK
INVARIANT TypeOK
INVARIANT MatchModuloKnown
