-------------------------- MODULE DataManagerSource --------------------------
(* get_source_location under in-flight registrations (C21, clause "the source location chosen for a
   transfer is always a valid primary copy").

   One path P and a few locations.  A location holds at most one copy of P, which is
     "pending"  registered PRIMARY with its `available` event unset: the destination of a transfer in
                flight (transfer_data registers it, relates it to the source, copies, re-types, sets the event)
     "avail"    registered and available (register_path, or a completed transfer).
   Its type is PRIMARY / SYMLINK / INVALID.  Environment: RegAvail, RegPending, Complete (keep the type, as a
   writable transfer does, or re-type to SYMBOLIC_LINK), Invalidate (also while pending), Start of ONE
   get_source_location(P, dst) call, and Settle = the event loop runs the call until it blocks again.

   The call is transcribed statement by statement; by the atomicity rule (DESIGN 3.5) it runs without
   interruption from one suspension point (`await loc.available.wait()` on an unset event) to the next:
   the environment acts only while `running` is FALSE.  The three loops iterate over Python sets / a list:
   the order inside a loop is left open.  The type is re-checked AFTER the wait, as coded.             *)
EXTENDS Integers, Sequences, FiniteSets, TLC

CONSTANTS Locs,          \* locations
          DepOf(_),      \* location -> deployment
          IsLocal(_),    \* location -> BOOLEAN
          Dsts,          \* destination deployments the call may be started with
          MaxOps,        \* environment operations per behaviour
          CheckBeforeWait \* FALSE: as coded.  TRUE: the variant that tests the type BEFORE the wait and not after
                          \* (kept to show that the properties below tell the two apart)

VARIABLES st,            \* st[l] in {"none", "pending", "avail"}
          ty,            \* ty[l] in {"PRIMARY", "SYMLINK", "INVALID"}
          pc,            \* "idle" / "next" (pick a candidate) / "wait" (suspended on cur) / "check" / "done"
          running,       \* TRUE while the call holds the event loop
          dst, snap, phase, todo, cur, result,
          hist           \* environment operations so far
vars == <<st, ty, pc, running, dst, snap, phase, todo, cur, result, hist>>

ValidPrimary(l) == st[l] # "none" /\ ty[l] = "PRIMARY"           \* listed by get_data_locations(P, data_type=PRIMARY)
Log(op) == hist' = Append(hist, op)
EnvFree == ~running /\ Len(hist) < MaxOps
CallVars == <<pc, running, dst, snap, phase, todo, cur, result>>

Init == /\ st = [l \in Locs |-> "none"] /\ ty = [l \in Locs |-> "PRIMARY"]
        /\ pc = "idle" /\ running = FALSE /\ dst = "none" /\ snap = {} /\ phase = 0 /\ todo = {} /\ cur = "none"
        /\ result = "none" /\ hist = <<>>

(* ---- environment ---- *)
RegAvail(l) == /\ EnvFree /\ st[l] = "none"
               /\ st' = [st EXCEPT ![l] = "avail"] /\ UNCHANGED <<ty, CallVars>> /\ Log(<<"regavail", l>>)
\* a transfer needs a source: some copy of P must already be registered (register_relation(src, dst))
RegPending(l) == /\ EnvFree /\ st[l] = "none" /\ \E s \in Locs : st[s] # "none"
                 /\ st' = [st EXCEPT ![l] = "pending"] /\ UNCHANGED <<ty, CallVars>> /\ Log(<<"regpending", l>>)
Complete(l, retype) == /\ EnvFree /\ st[l] = "pending"
                       /\ retype => ty[l] = "PRIMARY"           \* (an invalidated destination is not re-typed here)
                       /\ st' = [st EXCEPT ![l] = "avail"]
                       /\ ty' = IF retype THEN [ty EXCEPT ![l] = "SYMLINK"] ELSE ty
                       /\ UNCHANGED CallVars /\ Log(<<"complete", l, retype>>)
Invalidate(l) == /\ EnvFree /\ st[l] # "none" /\ ty[l] # "INVALID"
                 /\ ty' = [ty EXCEPT ![l] = "INVALID"] /\ UNCHANGED <<st, CallVars>> /\ Log(<<"invalidate", l>>)
\* asyncio.create_task(get_source_location(P, d)) and one run of the loop
Start(d) == /\ EnvFree /\ pc = "idle"
            /\ dst' = d /\ snap' = {l \in Locs : ValidPrimary(l)}
            /\ IF {l \in Locs : ValidPrimary(l)} = {}
               THEN pc' = "done" /\ running' = FALSE /\ UNCHANGED <<phase, todo>>
               ELSE /\ pc' = "next" /\ running' = TRUE /\ phase' = 1
                    /\ todo' = {l \in Locs : ValidPrimary(l) /\ DepOf(l) = d}
            /\ UNCHANGED <<st, ty, cur, result>> /\ Log(<<"start", d>>)
\* the loop runs: the suspended call resumes if the event it waits for is set
Settle == /\ EnvFree /\ pc = "wait" /\ st[cur] = "avail"
          /\ pc' = "check" /\ running' = TRUE
          /\ UNCHANGED <<st, ty, dst, snap, phase, todo, cur, result>> /\ Log(<<"settle">>)

(* ---- the call, as coded ---- *)
PhaseSet(k) == IF k = 2 THEN {l \in snap : IsLocal(l)} ELSE snap          \* k = 3: all data_locations
Pick == /\ running /\ pc = "next"
        /\ IF todo = {}
           THEN IF phase = 3
                THEN pc' = "done" /\ running' = FALSE /\ UNCHANGED <<phase, todo, cur>>       \* return None
                ELSE phase' = phase + 1 /\ todo' = PhaseSet(phase + 1) /\ UNCHANGED <<pc, running, cur>>
           ELSE \E c \in todo :
                  /\ todo' = todo \ {c} /\ cur' = c /\ UNCHANGED phase
                  /\ IF CheckBeforeWait /\ ty[c] # "PRIMARY" THEN UNCHANGED <<pc, running>>      \* (variant) skipped
                     ELSE IF st[c] = "avail" THEN pc' = "check" /\ UNCHANGED running           \* await on a set event: no suspension
                     ELSE pc' = "wait" /\ running' = FALSE                                    \* suspension point
        /\ UNCHANGED <<st, ty, dst, snap, result, hist>>
Check == /\ running /\ pc = "check"
         /\ IF ty[cur] = "PRIMARY" \/ CheckBeforeWait THEN pc' = "done" /\ result' = cur /\ running' = FALSE      \* re-check AFTER the wait
            ELSE pc' = "next" /\ UNCHANGED <<result, running>>
         /\ UNCHANGED <<st, ty, dst, snap, phase, todo, cur, hist>>

Next == \/ \E l \in Locs : RegAvail(l) \/ RegPending(l) \/ Invalidate(l) \/ \E r \in BOOLEAN : Complete(l, r)
        \/ \E d \in Dsts : Start(d)
        \/ Settle \/ Pick \/ Check
Spec == Init /\ [][Next]_vars

(* ---- properties (judged in the state in which the call returns: such states are not expanded) ---- *)
NotDone == pc # "done"
ChosenIsValidPrimary == (pc = "done" /\ result # "none") => (ValidPrimary(result) /\ st[result] = "avail")
NoneOnlyWhenNoCandidateIsLeft == (pc = "done" /\ result = "none") => \A l \in snap : ~ValidPrimary(l)
BlockedOnlyOnInFlight == (pc = "wait" /\ ~running) => st[cur] \in {"pending", "avail"}
\* once every copy is available the call cannot stay suspended after a Settle: it is suspended on an unavailable copy only
\* (checked as: a suspended call whose copy is available can always be settled -- Settle is enabled by construction)
=============================================================================
