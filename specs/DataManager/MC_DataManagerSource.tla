------------------------ MODULE MC_DataManagerSource ------------------------
EXTENDS DataManagerSource, Json
MCLocs == {"X1", "X2", "LOC"}
MCDepOf(l) == IF l = "LOC" THEN "__LOCAL__" ELSE "d1"          \* X1, X2: two locations of one deployment
MCIsLocal(l) == l = "LOC"
MCDsts == {"d1", "elsewhere"}
\* one line per state in which a behaviour ends (call returned, or operation budget used up)
Leaf == pc = "done" \/ (~running /\ Len(hist) = MaxOps)
EmitLeaf == Leaf => PrintT(ToJson([h |-> hist, done |-> pc = "done", r |-> result]))
=============================================================================
