CONSTANTS
    Tables <- MCTables
    TableOf <- MCTableOf
    InitFS <- MCInitFS
    HostSrc <- MCHostSrc
    CtrSrc <- MCCtrSrc
    HostDst <- MCHostDst
    CtrDst <- MCCtrDst
    Envs <- OneEnv
    Names = {"x1", "x2"}
    MaxOps = 2
SPECIFICATION Spec
VIEW View
INVARIANT TypeOK
INVARIANT ExecNeedsContainer
INVARIANT NoLeak
INVARIANT ExternalUntouched
INVARIANT PreparedBeforeRun
INVARIANT InstanceFaithful
INVARIANT NoInstanceBefore
INVARIANT ContentPreserved
INVARIANT DecisionFaithful
INVARIANT StreamOnlyWhenHidden
PROPERTY FrameStep
