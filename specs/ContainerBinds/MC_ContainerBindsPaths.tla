----------------------- MODULE MC_ContainerBindsPaths -----------------------
(* Theory check and case generation for the path mapping of container connectors.

   State = one mount table T (all well-formed tables with at most MaxMounts mounts whose destinations have at
   most DstDepth components over Comp; bind sources from Srcs; types bind / volume / tmpfs).  For every query path
   (at most QDepth components) TLC checks that the design (deepest component-prefix match, ContainerPaths.tla)
   meets the requirements and the round-trip laws, and prints the requirement in data form; the driver puts the
   same questions to the real _get_host_path / _get_container_path / _get_longest_prefix_path.

   Comp contains components one of which is a string prefix of another ("d", "db"): a mount /d must not capture
   /db/x.                                                                                                     *)
EXTENDS ContainerPaths, TLC, Json

CONSTANTS Comp, DstDepth, QDepth, MaxMounts, SrcMode

RECURSIVE PathsOfLen(_)
PathsOfLen(n) == IF n = 0 THEN {<<>>} ELSE {Append(p, c) : p \in PathsOfLen(n - 1), c \in Comp}
PathsUpTo(n) == UNION {PathsOfLen(k) : k \in 0..n}

Dsts == PathsUpTo(DstDepth) \ {<<>>}
\* bind sources: all non-root paths, or (SrcMode = "few") a selection that keeps nesting and the d/db pair
Srcs == IF SrcMode = "all" THEN Dsts
        ELSE {p \in Dsts : Len(p) = 1 \/ p[1] = "d"}
Q == PathsUpTo(QDepth)

Bind(s, d) == [type |-> "bind", src |-> s, dst |-> d, ro |-> FALSE]
Other(t, d) == [type |-> t, src |-> <<>>, dst |-> d, ro |-> FALSE]
AllMounts == {Bind(s, d) : s \in Srcs, d \in Dsts} \cup {Other(t, d) : t \in {"volume", "tmpfs"}, d \in Dsts}

Tables1 == {{}} \cup {{m} : m \in AllMounts}
Tables2 == {{m, n} : m \in AllMounts, n \in AllMounts}
Tables3 == {{m, n, o} : m \in AllMounts, n \in AllMounts, o \in AllMounts}
AllTables == {T \in (IF MaxMounts >= 3 THEN Tables1 \cup Tables2 \cup Tables3
                     ELSE IF MaxMounts = 2 THEN Tables1 \cup Tables2 ELSE Tables1) : WellFormed(T)}

VARIABLE T
Init == T \in AllTables
Next == UNCHANGED T

TmpfsGoverns(p) == Over(T, p) # {} /\ MaxDst(Over(T, p)).type = "tmpfs"

(* --- the design meets the requirements ------------------------------------------------------------------ *)
HostDesignOK == \A p \in Q : HostPathOK(T, p, HostPath(T, p))
CtrDesignOK == \A p \in Q : ContainerPathOK(T, p, ContainerPath(T, p))
\* host -> container -> host gives the path back when the container name is not shadowed
RoundTripHCH == \A p \in Q :
    LET a == ContainerPath(T, p) IN (a.def /\ Faithful(T, p, a.p)) => HostPath(T, a.p) = Some(p)
\* container -> host -> container gives a name of the same file
RoundTripCHC == \A p \in Q :
    LET h == HostPath(T, p) IN
    (h.def /\ ~TmpfsGoverns(p)) =>
        /\ Resolve(T, p) = Loc(HostStore, h.p)
        /\ ContainerPath(T, h.p).def
        /\ (\A c \in Cands(T, h.p) : Faithful(T, h.p, c)) => Resolve(T, ContainerPath(T, h.p).p) = Resolve(T, p)
\* a mount whose path is not a component prefix never captures a path
OnlyComponentPrefix == \A p \in Q :
    /\ (\A m \in Binds(T) : ~IsPrefix(m.dst, p)) => ~HostPath(T, p).def
    /\ (\A m \in Binds(T) : ~IsPrefix(m.src, p)) => ~ContainerPath(T, p).def
\* the deepest mount wins
DeepestWins == \A p \in Q : \A m \in Known(T) :
    (IsPrefix(m.dst, p) /\ HostPath(T, p).def) =>
        \E g \in Binds(T) : IsPrefix(g.dst, p) /\ Len(g.dst) >= Len(m.dst) /\ HostPath(T, p).p = g.src \o Rest(g.dst, p)
LongestPrefixOK == \A p \in Q :
    LET S == {m.dst : m \in T}
        r == LongestPrefix(p, S)
    IN IsPrefix(r, p) /\ (r = <<>> \/ r \in S) /\ \A s \in S : IsPrefix(s, p) => Len(s) <= Len(r)

(* --- generation: the requirement in data form ------------------------------------------------------------ *)
HostReq(p) ==
    IF Over(T, p) = {} THEN [k |-> "none", p |-> <<>>]
    ELSE LET g == MaxDst(Over(T, p)) IN
         IF g.type = "bind" THEN [k |-> "some", p |-> g.src \o Rest(g.dst, p)]
         ELSE IF g.type = "volume" THEN [k |-> "none", p |-> <<>>] ELSE [k |-> "any", p |-> <<>>]
CtrReq(p) ==
    IF Cands(T, p) = {} THEN [k |-> "none", ps |-> {}]
    ELSE IF \A c \in Cands(T, p) : Faithful(T, p, c) THEN [k |-> "oneof", ps |-> Cands(T, p)]
    ELSE [k |-> "any", ps |-> {}]
Emit == PrintT(ToJson([T |-> T,
                       q |-> {[p |-> p, h |-> HostReq(p), c |-> CtrReq(p),
                               l |-> LongestPrefix(p, {m.dst : m \in T})] : p \in Q}]))
=============================================================================
