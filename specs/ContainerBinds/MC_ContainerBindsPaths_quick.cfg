CONSTANTS
    Comp = {"d", "db"}
    DstDepth = 2
    QDepth = 3
    MaxMounts = 2
    SrcMode = "all"
INIT Init
NEXT Next
INVARIANT HostDesignOK
INVARIANT CtrDesignOK
INVARIANT RoundTripHCH
INVARIANT RoundTripCHC
INVARIANT OnlyComponentPrefix
INVARIANT DeepestWins
INVARIANT LongestPrefixOK
INVARIANT Emit
