CONSTANTS
    Tables <- MCTables
    TableOf <- MCTableOf
    InitFS <- MCInitFS
    HostSrc <- MCHostSrc
    CtrSrc <- MCCtrSrc
    HostDst <- MCHostDst
    CtrDst <- MCCtrDst
    Envs <- OneEnv
    Names = {"x1"}
    MaxOps = 1
SPECIFICATION Spec
CONSTRAINT NoStop
INVARIANT TypeOK
INVARIANT ContentPreserved
INVARIANT DecisionFaithful
INVARIANT StreamOnlyWhenHidden
INVARIANT InstanceFaithful
PROPERTY FrameStep
INVARIANT EmitOps
