CONSTANTS
    Comp = {"d", "db", "e"}
    DstDepth = 2
    QDepth = 3
    MaxMounts = 2
    SrcMode = "few"
INIT Init
NEXT Next
INVARIANT HostDesignOK
INVARIANT CtrDesignOK
INVARIANT RoundTripHCH
INVARIANT RoundTripCHC
INVARIANT OnlyComponentPrefix
INVARIANT DeepestWins
INVARIANT LongestPrefixOK
INVARIANT Emit
