CONSTANTS
    Mode = "all"
    EffSrcLocs = {"", "l2"}
    ExtraItems = {"readonly"}
INIT Init
NEXT Next
INVARIANT MountOrderFree
INVARIANT Emit
