CONSTANT Mode = "all"
INIT Init
NEXT Next
INVARIANT MountOrderFree
INVARIANT Emit
