CONSTANTS
    Tables <- MCTables
    TableOf <- MCTableOf
    InitFS <- MCInitFS
    HostSrc <- NoSrc
    CtrSrc <- NoSrc
    HostDst <- MCHostDst
    CtrDst <- MCCtrDst
    Envs <- AllEnvs
    Names = {"x1"}
    MaxOps = 2
SPECIFICATION Spec
VIEW View
INVARIANT TypeOK
INVARIANT ExecNeedsContainer
INVARIANT NoLeak
INVARIANT ExternalUntouched
INVARIANT PreparedBeforeRun
INVARIANT InstanceFaithful
INVARIANT NoInstanceBefore
