CONSTANTS
    Tables <- MCTables
    TableOf <- MCTableOf
    InitFS <- MCInitFS
    HostSrc <- MCHostSrc
    CtrSrc <- MCCtrSrc
    HostDst <- MCHostDst
    CtrDst <- MCCtrDst
    Envs <- AllEnvs
    Names = {"x1", "x2"}
    MaxOps = 1000
INIT TInit
NEXT TNext
CONSTRAINT Diag
INVARIANT Accept
INVARIANT TypeOK
INVARIANT ExecNeedsContainer
INVARIANT NoLeak
INVARIANT ExternalUntouched
INVARIANT PreparedBeforeRun
INVARIANT InstanceFaithful
INVARIANT NoInstanceBefore
INVARIANT ContentPreserved
INVARIANT DecisionFaithful
INVARIANT StreamOnlyWhenHidden
