------------------------ MODULE MC_ContainerBindsMisc ------------------------
(* Enumerations for the parsers, for _get_effective_locations and for the hardware the instance reports.

   mode "bind"   every bind text  src[:dest[:opts]]  over a small alphabet of fields
   mode "mount"  every mount text: an ordering of at most one `type=`, one source item, one destination item and
                 any of the extra items (a bare flag, an unrelated key)
   mode "eff"    three locations with mount tables from a pool, a destination path, an optional source location
   mode "hw"     cgroup readings -> cores (in thousandths) and memory (MiB)
   One JSON line per case with the specification's answer / the requirement in data form.                     *)
EXTENDS ContainerPaths, TLC, Json

CONSTANTS Mode, EffSrcLocs, ExtraItems
VARIABLE x

(* ---- _parse_bind ---------------------------------------------------------------------------------------- *)
BindFields == {<<s>> : s \in {"/h/a", "/h/a b"}}
              \cup {<<s, d>> : s \in {"/h/a"}, d \in {"", "/c/b"}}
              \cup {<<s, d, o>> : s \in {"/h/a"}, d \in {"", "/c/b"}, o \in {"", "ro", "rw", "z"}}

(* ---- _parse_mount --------------------------------------------------------------------------------------- *)
KV(k, v) == [k |-> k, v |-> v, kv |-> TRUE]
Flag(k) == [k |-> k, v |-> "", kv |-> FALSE]
TypeItems == {KV("type", t) : t \in {"bind", "volume", "tmpfs"}}
SrcItems == {KV("src", "/h/a"), KV("source", "/h/b")}
DstItems == {KV("dst", "/c/x"), KV("target", "/c/y"), KV("destination", "/c/z")}
Extras == {e \in {Flag("readonly"), KV("bind-propagation", "rprivate")} : e.k \in ExtraItems}
Pick(S) == {{}} \cup {{i} : i \in S}
ItemSets == {a \cup b \cup c \cup e : a \in Pick(TypeItems), b \in Pick(SrcItems), c \in Pick(DstItems), e \in SUBSET Extras}
RECURSIVE Orders(_)
Orders(S) == IF S = {} THEN {<<>>} ELSE UNION {{<<i>> \o o : o \in Orders(S \ {i})} : i \in S}
MountTexts == UNION {Orders(S) : S \in ItemSets \ {{}}}

(* ---- _get_effective_locations ---------------------------------------------------------------------------- *)
Bd(s, d) == [type |-> "bind", src |-> s, dst |-> d, ro |-> FALSE]
Vl(d) == [type |-> "volume", src |-> <<>>, dst |-> d, ro |-> FALSE]
Pool == {{}, {Bd(<<"hv">>, <<"d">>)}, {Bd(<<"hw">>, <<"d">>)}, {Bd(<<"hv">>, <<"e">>)}, {Vl(<<"d">>)},
         {Bd(<<"hv">>, <<"d">>), Vl(<<"d", "n">>)}, {Bd(<<"hv">>, <<"d">>), Bd(<<"hw">>, <<"e">>)}}
Locs == <<"l1", "l2", "l3">>
LocSet == {"l1", "l2", "l3"}
EffDsts == {<<"d", "x">>, <<"db", "x">>, <<"e", "x">>, <<"d", "n", "x">>, <<"p", "x">>}
EffCases == {[tt |-> tt, dst |-> d, src |-> s] : tt \in [LocSet -> Pool], d \in EffDsts, s \in EffSrcLocs}
EffReq(c) ==
    LET TT == c.tt
        bound(l) == Resolve(TT[l], c.dst).st = HostStore
    IN [must |-> {l \in LocSet : ~bound(l) \/ l = c.src},
        same |-> {<<a, b>> \in LocSet \X LocSet : a # b /\ SameFile(TT, a, b, c.dst)},
        single |-> {<<a, b>> \in LocSet \X LocSet : a # b /\ bound(a) /\ Governor(TT[a], c.dst) = Governor(TT[b], c.dst)}]

(* ---- hardware ------------------------------------------------------------------------------------------- *)
\* cpuset "0-3" -> 4 cpus is the harness's rendering; here: number of cpus
HwCases == {[quota |-> q, period |-> p, ncpus |-> n, mem |-> m, memtotal |-> 4194304, v |-> v] :
            q \in {0, 50000, 100000, 200000}, p \in {50000, 100000}, n \in {1, 3, 4}, m \in {0, 536870912}, v \in {1, 2}}
\* quota 0 stands for "max" (no limit): all cpus of the cpuset; otherwise quota/period cpus
CoresMilli(c) == IF c.quota = 0 THEN 1000 * c.ncpus ELSE (c.quota * 1000) \div c.period
\* mem 0 stands for "max": MemTotal of /proc/meminfo (kB) in MiB, otherwise the limit (bytes) in MiB
MemMiB(c) == IF c.mem = 0 THEN c.memtotal \div 1024 ELSE c.mem \div 1048576

CasesOf(m) ==
    CASE m = "bind" -> {[mode |-> m, fields |-> f, exp |-> ParseBind(f)] : f \in BindFields}
      [] m = "mount" -> {[mode |-> m, items |-> t, exp |-> ParseMount(t)] : t \in MountTexts}
      [] m = "eff" -> {[mode |-> m, tt |-> c.tt, dst |-> c.dst, src |-> c.src, req |-> EffReq(c)] : c \in EffCases}
      [] m = "hw" -> {[mode |-> m, hw |-> c, cores |-> CoresMilli(c), mem |-> MemMiB(c)] : c \in HwCases}
Cases == IF Mode = "all" THEN UNION {CasesOf(m) : m \in {"bind", "mount", "eff", "hw"}} ELSE CasesOf(Mode)

Init == x \in Cases
Next == UNCHANGED x
Emit == PrintT(ToJson(x))

\* sanity of the transcription: order of the items does not matter, a complete text is accepted
MountOrderFree == x.mode = "mount" =>
    \A o \in Orders({x.items[i] : i \in 1..Len(x.items)}) : ParseMount(o) = x.exp
=============================================================================
