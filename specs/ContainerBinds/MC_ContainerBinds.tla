--------------------------- MODULE MC_ContainerBinds ---------------------------
(* Scenarios of the life-cycle/transfer model.  Paths: <<"h",..>> host only, <<"c",..>> container only,
   <<"s",..>> same name on both sides (identity binds).  A mount record also says through which option the
   harness passes it to the connector (`via`: "volume" = `volume: [src:dst[:ro]]`, "mount" = `mount: [type=..]`,
   "tmpfs").                                                                                                *)
EXTENDS ContainerBinds, Json

B(src, dst, via) == [type |-> "bind", src |-> src, dst |-> dst, ro |-> FALSE, via |-> via]
Bro(src, dst, via) == [type |-> "bind", src |-> src, dst |-> dst, ro |-> TRUE, via |-> via]
V(dst) == [type |-> "volume", src |-> <<>>, dst |-> dst, ro |-> FALSE, via |-> "mount"]
Tm(dst) == [type |-> "tmpfs", src |-> <<>>, dst |-> dst, ro |-> FALSE, via |-> "tmpfs"]

MCTables == {"none", "one", "mixed", "nested", "volshadow", "ident", "strprefix", "twice"}

MCTableOf(s) ==
    CASE s = "none" -> {}
      [] s = "one" -> {B(<<"h","v1">>, <<"c","m1">>, "volume")}
      [] s = "mixed" -> {B(<<"h","v1">>, <<"c","m1">>, "mount"), Bro(<<"h","v2">>, <<"c","m2">>, "volume"),
                         B(<<"h","v9">>, <<"c","m9">>, "mount"), V(<<"c","vol">>), Tm(<<"c","t">>)}
      [] s = "nested" -> {B(<<"h","v1">>, <<"c","m1">>, "volume"), B(<<"h","v2">>, <<"c","m1","n">>, "mount")}
      [] s = "volshadow" -> {B(<<"h","v1">>, <<"c","m1">>, "volume"), V(<<"c","m1","n">>)}
      [] s = "ident" -> {B(<<"s","v">>, <<"s","v">>, "volume")}
      [] s = "strprefix" -> {B(<<"h","d">>, <<"c","d">>, "volume")}
      [] s = "twice" -> {B(<<"h","v1">>, <<"c","m1">>, "volume"), Bro(<<"h","v1","d">>, <<"c","m2">>, "mount")}

H(p, c) == [st |-> HostStore, p |-> p, c |-> c]
C(p, c) == [st |-> CtrStore, p |-> p, c |-> c]
Vo(d, p, c) == [st |-> VolStore(d), p |-> p, c |-> c]

HostCommon == {H(<<"h">>, "DIR"), H(<<"h","w">>, "DIR"), H(<<"h","w","f">>, "a4"), H(<<"h","w","d">>, "DIR"),
               H(<<"h","w","d","g">>, "a5"), H(<<"h","o">>, "DIR"),
               H(<<"h","v1">>, "DIR"), H(<<"h","v1","f">>, "a1"), H(<<"h","v1","d">>, "DIR"), H(<<"h","v1","d","g">>, "a2"),
               H(<<"h","v2">>, "DIR"), H(<<"h","v2","f">>, "a3"), H(<<"s">>, "DIR")}
CtrCommon == {C(<<"c">>, "DIR"), C(<<"c","w">>, "DIR"), C(<<"c","w","f">>, "b1"), C(<<"c","w","d">>, "DIR"),
              C(<<"c","w","d","g">>, "b2"), C(<<"c","o">>, "DIR"), C(<<"s">>, "DIR")}

MCInitFS(s) ==
    HostCommon \cup CtrCommon \cup
    CASE s = "mixed" -> {Vo(<<"c","vol">>, <<>>, "DIR"), Vo(<<"c","vol">>, <<"f">>, "b4"), Vo(<<"c","t">>, <<>>, "DIR")}
      [] s = "volshadow" -> {Vo(<<"c","m1","n">>, <<>>, "DIR"), Vo(<<"c","m1","n">>, <<"f">>, "b5")}
      [] s = "ident" -> {H(<<"s","v">>, "DIR"), H(<<"s","v","f">>, "a6"), H(<<"s","v","d">>, "DIR"), H(<<"s","v","d","g">>, "a9")}
      [] s = "strprefix" -> {H(<<"h","d">>, "DIR"), H(<<"h","d","f">>, "a8"), H(<<"h","db">>, "DIR"), H(<<"h","db","f">>, "a7"),
                             C(<<"c","db">>, "DIR"), C(<<"c","db","f">>, "b3")}
      [] OTHER -> {}

MCHostSrc(s) == {<<"h","v1","f">>, <<"h","v1","d">>, <<"h","w","f">>, <<"h","w","d">>, <<"h","v2","f">>,
                 <<"h","db","f">>, <<"h","d","f">>, <<"s","v","f">>, <<"s","v","d">>, <<"h","v1","d","g">>}
MCCtrSrc(s) == {<<"c","w","f">>, <<"c","w","d">>, <<"c","m1","f">>, <<"c","m1","d">>, <<"c","m2","f">>, <<"c","m2","g">>,
                <<"c","vol","f">>, <<"c","m1","n","f">>, <<"c","db","f">>, <<"c","d","f">>, <<"s","v","f">>, <<"s","v","d">>}
CONSTANT Names
Fresh(D) == {Append(d, n) : d \in D, n \in Names}
\* destinations: the directories that exist in the scenario (after _prepare_volumes) and fresh names inside them
Prepared(s) == MCInitFS(s) \cup {H(m.src, "DIR") : m \in Binds(MCTableOf(s))}
MCCtrDst(s) ==
    LET dirs == {d \in {<<"c","o">>, <<"c","m1">>, <<"c","vol">>, <<"s","v">>, <<"c","m1","n">>, <<"c","d">>, <<"c","db">>,
                        <<"c","m2">>, <<"c","t">>, <<"c","m1","d">>, <<"c","m9">>} :
                    IsDir(Prepared(s), Resolve(MCTableOf(s), d))}
    IN dirs \cup Fresh(dirs)
MCHostDst(s) == Fresh({d \in {<<"h","o">>, <<"h","v1">>, <<"h","w">>, <<"h","v2">>, <<"s","v">>, <<"h","d">>, <<"h","db">>,
                              <<"h","v1","d">>, <<"h","v9">>} : IsDir(Prepared(s), HostLoc(d))})

Env(e, g, i, p, r) == [ext |-> e, given |-> g, image |-> i, pullable |-> p, runfails |-> r]
AllEnvs == {Env(FALSE, FALSE, TRUE, TRUE, FALSE),      \* image present
            Env(FALSE, FALSE, FALSE, TRUE, FALSE),     \* image pulled first
            Env(FALSE, FALSE, FALSE, FALSE, FALSE),    \* image cannot be pulled: `docker run` fails
            Env(FALSE, FALSE, TRUE, TRUE, TRUE),       \* `docker run` fails
            Env(TRUE, TRUE, TRUE, TRUE, FALSE),        \* external container
            Env(TRUE, FALSE, TRUE, TRUE, FALSE)}       \* external without containerId: rejected
GoodEnvs == {Env(FALSE, FALSE, TRUE, TRUE, FALSE), Env(TRUE, TRUE, TRUE, TRUE, FALSE)}
OneEnv == {Env(FALSE, FALSE, TRUE, TRUE, FALSE)}

\* exhaustive runs: history (`last`) is not part of the fingerprint
View == <<pc, env, sc, cuser, cid, running, mine, image, inst, fs, taint, nops>>

\* generation: every specified single copy of every scenario, one JSON line per distinct (state, operation)
EmitOps ==
    /\ (IsCopy /\ nops = 1) => PrintT(ToJson([sc |-> sc, cuser |-> cuser, last |-> last]))
    /\ (pc = "new" /\ cuser) => PrintT(ToJson([scenario |-> sc, table |-> Tab, fs |-> fs]))
NoStop == pc # "stop"
NoSrc(s) == {}
=============================================================================
