--------------------------- MODULE ContainerBinds ---------------------------
(* Life cycle and transfers of a DockerConnector (`streamflow/deployment/connector/container.py`) that wraps
   the local connector, together with the docker daemon it talks to through the `docker` CLI.

   One action = one atomic section of the code = the run between two suspension points; every suspension point of
   `deploy`/`undeploy` is the completion of a `docker` CLI call (or of a command in the container), so the actions
   of the life cycle are named after the CLI call they issue and the i-th CLI record of a real run must be the
   i-th such action of the behaviour (that is how the driver binds the life cycle, in both directions).

   deploy(external):   DeployBegin -> [PrepareVolumes -> ImageInspect -> [Pull] -> DockerRun] -> Inspect -> Probe
   then, any number:   Locations | RunCmd | CopyL2R | CopyR2L | CopyR2R          (each a complete call)
   undeploy(external): UndeployBegin -> [Stop]

   State of the world
     running, images   the daemon: ids of running containers, whether the image is present
     fs                the files: set of [st, p, c]; st = host store, the container's own store or a volume,
                       c = "DIR" for a directory, a content token for a file
   State of the connector
     pc, ext, cid, mine (containers it started), inst (the populated ContainerInstance: user flag and binds)
   `last` describes the step just taken (for the replay on the real classes).                              *)
EXTENDS ContainerPaths, TLC

CONSTANTS
    Tables,        \* set of scenario ids
    TableOf(_),    \* scenario id -> mount table
    InitFS(_),     \* scenario id -> initial files
    HostSrc(_), CtrSrc(_),       \* scenario id -> candidate source paths (host side / container side)
    HostDst(_), CtrDst(_),       \* scenario id -> candidate destinations: existing directories or fresh names
    MaxOps,        \* bound on the number of operations after deploy
    Envs           \* set of environments [ext, given, image, pullable, runfails]

VARIABLES pc, env, sc, cuser, cid, running, mine, image, inst, fs, taint, nops, last
vars == <<pc, env, sc, cuser, cid, running, mine, image, inst, fs, taint, nops, last>>

Tab == TableOf(sc)
NoneId == "none"
NewId == "k1"                    \* the container `docker run` creates
ExtId == "k0"                    \* the container that exists beforehand (external deployments)
NoInst == [ok |-> FALSE, cuser |-> FALSE, binds |-> {}]
Quiet == [op |-> "none"]

HostLoc(p) == Loc(HostStore, p)
Exists(f, l) == \E e \in f : e.st = l.st /\ e.p = l.p
IsDir(f, l) == \E e \in f : e.st = l.st /\ e.p = l.p /\ e.c = "DIR"
Tree(f, l) == {[rel |-> Rest(l.p, e.p), c |-> e.c] : e \in {x \in f : x.st = l.st /\ IsPrefix(l.p, x.p)}}
Put(f, l, tr) == f \cup {[st |-> l.st, p |-> l.p \o t.rel, c |-> t.c] : t \in tr}

\* container names under which a stored entry is visible (inverse of Resolve)
CtrNames(T, st, p) ==
    LET raw == IF st = CtrStore THEN {p}
               ELSE IF st = HostStore THEN {m.dst \o Rest(m.src, p) : m \in SrcOver(T, p)}
               ELSE {st.id \o p}
    IN {c \in raw : Resolve(T, c) = Loc(st, p)}
HostAdd(f, g) == {[p |-> e.p, c |-> e.c] : e \in {x \in g \ f : x.st = HostStore}}
CtrAdd(T, f, g) == UNION {{[p |-> c, c |-> e.c] : c \in CtrNames(T, e.st, e.p)} : e \in g \ f}

\* no mount at or below a container path / nothing mounted inside the image of a host path
CleanCtr(T, cp) == \A m \in T : ~IsPrefix(cp, m.dst)
CleanHost(T, hp) ==
    /\ \A b \in SrcOver(T, hp) : CleanCtr(T, b.dst \o Rest(b.src, hp))
    /\ \A b \in Binds(T) : IsPrefix(hp, b.src) => \A m \in T : ~(IsPrefix(b.dst, m.dst) /\ m.dst # b.dst)
WritableCtr(T, cp) == IF Over(T, cp) = {} THEN TRUE ELSE ~MaxDst(Over(T, cp)).ro
Inside(a, b) == a.st = b.st /\ IsPrefix(a.p, b.p)        \* location b lies in the tree at a
\* a read-only copy may have made the target an alias of the source: later copies keep out of both trees
Frozen(l) == \E t \in taint : t.view = "frozen" /\ t.st = l.st /\ (IsPrefix(t.p, l.p) \/ IsPrefix(l.p, t.p))
Freeze(ro, sl, tl) == IF ro THEN {[view |-> "frozen", st |-> sl.st, p |-> sl.p], [view |-> "frozen", st |-> tl.st, p |-> tl.p]} ELSE {}
Tainted(view, l) == \E t \in taint : t.view = view /\ t.st = l.st /\ (IsPrefix(t.p, l.p) \/ IsPrefix(l.p, t.p))

(* ----------------------------------------------------------------------------------------------- *)
Init ==
    /\ pc = "new"
    /\ env \in Envs
    /\ sc \in Tables
    /\ cuser \in BOOLEAN
    /\ cid = IF env.ext /\ env.given THEN ExtId ELSE NoneId
    /\ running = IF env.ext THEN {ExtId} ELSE {}
    /\ mine = {}
    /\ image = env.image
    /\ inst = NoInst
    /\ fs = InitFS(sc)
    /\ taint = {}
    /\ nops = 0
    /\ last = Quiet

Same(S) == UNCHANGED S

\* deploy(): the inner location is looked up, `docker` is found on PATH; external deployments need a containerId
DeployBegin ==
    /\ pc = "new"
    /\ pc' = IF env.ext THEN (IF env.given THEN "inspect" ELSE "failed") ELSE "prep"
    /\ last' = [op |-> "deploy_begin", ext |-> env.ext]
    /\ UNCHANGED <<env, sc, cuser, cid, running, mine, image, inst, fs, taint, nops>>

\* _prepare_volumes: every bind source named by `volume` / `mount` exists as a directory on the host
PrepareVolumes ==
    /\ pc = "prep"
    /\ pc' = "image"
    /\ fs' = fs \cup {[st |-> HostStore, p |-> m.src, c |-> "DIR"] : m \in Binds(Tab)}
    /\ last' = [op |-> "prepare"]
    /\ UNCHANGED <<env, sc, cuser, cid, running, mine, image, inst, taint, nops>>

ImageInspect ==
    /\ pc = "image"
    /\ pc' = IF image THEN "run" ELSE "pull"
    /\ last' = [op |-> "image_inspect", found |-> image]
    /\ UNCHANGED <<env, sc, cuser, cid, running, mine, image, inst, fs, taint, nops>>

Pull ==
    /\ pc = "pull"
    /\ pc' = "run"
    /\ image' = env.pullable
    /\ last' = [op |-> "pull", ok |-> env.pullable]
    /\ UNCHANGED <<env, sc, cuser, cid, running, mine, inst, fs, taint, nops>>

\* `docker run --detach ...`: the bind sources exist (PreparedBeforeRun); failure -> exception, nothing started
DockerRun ==
    /\ pc = "run"
    /\ LET ok == image /\ ~env.runfails IN
       /\ pc' = IF ok THEN "inspect" ELSE "failed"
       /\ running' = IF ok THEN running \cup {NewId} ELSE running
       /\ mine' = IF ok THEN mine \cup {NewId} ELSE mine
       /\ cid' = IF ok THEN NewId ELSE cid
       /\ last' = [op |-> "run", ok |-> ok]
    /\ UNCHANGED <<env, sc, cuser, image, inst, fs, taint, nops>>

Inspect ==
    /\ pc = "inspect"
    /\ pc' = IF cid \in running THEN "probe" ELSE "failed"
    /\ last' = [op |-> "inspect", ok |-> cid \in running]
    /\ UNCHANGED <<env, sc, cuser, cid, running, mine, image, inst, fs, taint, nops>>

\* commands inside the container (id -u, cgroup files, df): the instance is populated
Probe ==
    /\ pc = "probe"
    /\ cid \in running
    /\ pc' = "deployed"
    /\ inst' = [ok |-> TRUE, cuser |-> cuser, binds |-> {<<m.dst, m.src>> : m \in Binds(Tab)}]
    /\ last' = [op |-> "deploy_end", ok |-> TRUE]
    /\ UNCHANGED <<env, sc, cuser, cid, running, mine, image, fs, taint, nops>>

Ready == pc = "deployed" /\ cid \in running /\ nops < MaxOps

Locations ==
    /\ Ready
    /\ nops' = nops + 1
    /\ last' = [op |-> "locations", names |-> {cid}, binds |-> inst.binds]
    /\ UNCHANGED <<pc, env, sc, cuser, cid, running, mine, image, inst, fs, taint>>

\* run(): through the persistent shell (`docker exec --interactive <id> sh`, opened once) or, for a job,
\* `docker exec <id> sh -c <command>`
RunCmd(mode) ==
    /\ Ready
    /\ nops' = nops + 1
    /\ last' = [op |-> "run_cmd", mode |-> mode]
    /\ UNCHANGED <<pc, env, sc, cuser, cid, running, mine, image, inst, fs, taint>>

(* Copies.  A copy is specified for: an existing source, a destination that is an existing directory (the data goes
   to <dst>/<base name>) or a fresh name in an existing directory, no mount point at or below the container paths
   involved, a writable destination, and no end inside the part of a view that an earlier read-only copy left
   unspecified.  Everything else is outside the contract (not generated, nothing demanded).              *)
\* (the nested \E over singleton sets make TLC evaluate each intermediate value once)
CopyL2R(src, dst, ro) ==
    /\ Ready
    /\ Exists(fs, HostLoc(src))
    /\ \E T \in {Tab} : \E sl \in {HostLoc(src)} :
       \E tgt \in {IF IsDir(fs, Resolve(T, dst)) THEN dst \o <<Base(src)>> ELSE dst} :
       \E tl \in {Resolve(T, tgt)} :
          /\ ~Tainted("host", sl) /\ ~Inside(sl, tl) /\ ~Frozen(tl)
          /\ ~Exists(fs, tl) /\ IsDir(fs, Resolve(T, Parent(tgt)))
          /\ CleanHost(T, src) /\ CleanCtr(T, tgt) /\ WritableCtr(T, tgt)
          /\ \E g \in {Put(fs, tl, Tree(fs, sl))} : \E d \in {DecL2R(T, cuser, src, tgt, ro)} :
             /\ fs' = g
             /\ taint' = (IF ro /\ tl.st = HostStore THEN taint \cup {[view |-> "host", st |-> tl.st, p |-> tl.p]} ELSE taint)
                          \cup Freeze(ro, sl, tl)
             /\ last' = [op |-> "l2r", src |-> src, dst |-> dst, ro |-> ro, tgt |-> tgt, dec |-> d,
                         hadd |-> IF ro THEN {} ELSE HostAdd(fs, g), cadd |-> CtrAdd(T, fs, g),
                         hskip |-> IF ro /\ tl.st = HostStore THEN {tl.p} ELSE {}, cskip |-> {}]
    /\ nops' = nops + 1
    /\ UNCHANGED <<pc, env, sc, cuser, cid, running, mine, image, inst>>

CopyR2L(src, dst, ro) ==
    /\ Ready
    /\ \E T \in {Tab} : \E sl \in {Resolve(T, src)} : \E tl \in {HostLoc(dst)} :
          /\ Exists(fs, sl) /\ ~Tainted("ctr", sl) /\ ~Inside(sl, tl) /\ ~Frozen(tl)
          /\ ~Exists(fs, tl) /\ IsDir(fs, HostLoc(Parent(dst)))
          /\ CleanCtr(T, src) /\ CleanHost(T, dst)
          /\ \E seen \in {CtrNames(T, HostStore, dst)} :
             /\ \A c \in seen : WritableCtr(T, c)
             /\ \E g \in {Put(fs, tl, Tree(fs, sl))} : \E d \in {DecR2L(T, cuser, src, dst, ro)} :
                /\ fs' = g
                /\ taint' = (IF ro /\ seen # {} THEN taint \cup {[view |-> "ctr", st |-> tl.st, p |-> tl.p]} ELSE taint)
                             \cup Freeze(ro, sl, tl)
                /\ last' = [op |-> "r2l", src |-> src, dst |-> dst, ro |-> ro, tgt |-> dst, dec |-> d,
                            hadd |-> HostAdd(fs, g), cadd |-> IF ro THEN {} ELSE CtrAdd(T, fs, g),
                            hskip |-> {}, cskip |-> IF ro THEN seen ELSE {}]
    /\ nops' = nops + 1
    /\ UNCHANGED <<pc, env, sc, cuser, cid, running, mine, image, inst>>

CopyR2R(src, dst, ro) ==
    /\ Ready
    /\ src # dst
    /\ \E T \in {Tab} : \E sl \in {Resolve(T, src)} :
       /\ Exists(fs, sl)
       /\ \E tgt \in {IF IsDir(fs, Resolve(T, dst)) THEN dst \o <<Base(src)>> ELSE dst} :
          \E tl \in {Resolve(T, tgt)} :
          /\ ~IsPrefix(src, tgt) /\ ~Inside(sl, tl) /\ ~Tainted("ctr", sl) /\ ~Frozen(tl)
          /\ ~Exists(fs, tl) /\ IsDir(fs, Resolve(T, Parent(tgt)))
          /\ CleanCtr(T, src) /\ CleanCtr(T, tgt) /\ WritableCtr(T, tgt)
          /\ \E g \in {Put(fs, tl, Tree(fs, sl))} : \E d \in {DecR2R(T, cuser, src, dst, tgt, ro)} :
             /\ fs' = g
             /\ taint' = (IF ro /\ tl.st = HostStore THEN taint \cup {[view |-> "host", st |-> tl.st, p |-> tl.p]} ELSE taint)
                          \cup Freeze(ro, sl, tl)
             /\ last' = [op |-> "r2r", src |-> src, dst |-> dst, ro |-> ro, tgt |-> tgt, dec |-> d,
                         hadd |-> IF ro THEN {} ELSE HostAdd(fs, g), cadd |-> CtrAdd(T, fs, g),
                         hskip |-> IF ro /\ tl.st = HostStore THEN {tl.p} ELSE {}, cskip |-> {}]
    /\ nops' = nops + 1
    /\ UNCHANGED <<pc, env, sc, cuser, cid, running, mine, image, inst>>

Copy ==
    /\ Ready
    /\ \/ \E s \in HostSrc(sc), d \in CtrDst(sc), ro \in BOOLEAN : CopyL2R(s, d, ro)
       \/ \E s \in CtrSrc(sc), d \in HostDst(sc), ro \in BOOLEAN : CopyR2L(s, d, ro)
       \/ \E s \in CtrSrc(sc), d \in CtrDst(sc), ro \in BOOLEAN : CopyR2R(s, d, ro)

UndeployBegin ==
    /\ pc = "deployed"
    /\ pc' = IF env.ext THEN "undeployed" ELSE "stop"
    /\ last' = [op |-> "undeploy_begin", ext |-> env.ext]
    /\ UNCHANGED <<env, sc, cuser, cid, running, mine, image, inst, fs, taint, nops>>

Stop ==
    /\ pc = "stop"
    /\ pc' = "undeployed"
    /\ running' = running \ {cid}
    /\ last' = [op |-> "stop", id |-> cid]
    /\ UNCHANGED <<env, sc, cuser, cid, mine, image, inst, fs, taint, nops>>

Next ==
    \/ DeployBegin \/ PrepareVolumes \/ ImageInspect \/ Pull \/ DockerRun \/ Inspect \/ Probe
    \/ Locations \/ RunCmd("shell") \/ RunCmd("job") \/ Copy
    \/ UndeployBegin \/ Stop

Spec == Init /\ [][Next]_vars
FairSpec == Spec /\ WF_vars(DeployBegin \/ PrepareVolumes \/ ImageInspect \/ Pull \/ DockerRun \/ Inspect \/ Probe)
                 /\ WF_vars(Stop)

(* ------------------------------------------- properties --------------------------------------------------- *)
TypeOK ==
    /\ pc \in {"new", "prep", "image", "pull", "run", "inspect", "probe", "deployed", "stop", "undeployed", "failed"}
    /\ cid \in {NoneId, NewId, ExtId}
    /\ running \subseteq {NewId, ExtId} /\ mine \subseteq {NewId}
    /\ WellFormed(Tab)

\* commands are executed only in a running container, and it is the connector's own
ExecNeedsContainer == pc \in {"probe", "deployed"} => cid \in running
\* every container the connector started is stopped by undeploy
NoLeak == pc = "undeployed" => mine \cap running = {}
\* an external container is neither created nor stopped, no image is pulled for it
ExternalUntouched == env.ext => mine = {} /\ running = {ExtId} /\ image = env.image
\* `docker run` sees every bind source as an existing directory
PreparedBeforeRun == pc = "run" => \A m \in Binds(Tab) : IsDir(fs, HostLoc(m.src))
\* the instance describes the container: its binds are exactly the bind mounts, the user flag is the truth
InstanceFaithful == pc \in {"deployed", "stop", "undeployed"} =>
    inst = [ok |-> TRUE, cuser |-> cuser, binds |-> {<<m.dst, m.src>> : m \in Binds(Tab)}]
NoInstanceBefore == pc \in {"new", "prep", "image", "pull", "run", "inspect", "probe", "failed"} => ~inst.ok

IsCopy == last.op \in {"l2r", "r2l", "r2r"}
\* after a copy the destination (as seen on the destination side) holds exactly the source tree
ContentPreserved ==
    IsCopy =>
        LET T == Tab
            sl == IF last.op = "l2r" THEN HostLoc(last.src) ELSE Resolve(T, last.src)
            tl == IF last.op = "r2l" THEN HostLoc(last.tgt) ELSE Resolve(T, last.tgt)
        IN Tree(fs, tl) = Tree(fs, sl) /\ Tree(fs, sl) # {}
\* the chosen adjusted paths name the same files as the paths they replace
DecisionFaithful ==
    IsCopy =>
        LET T == Tab  d == last.dec IN
        CASE d.k = "hostcopy" /\ last.op = "l2r" -> HostLoc(d.b) = Resolve(T, last.tgt)
          [] d.k = "hostcopy" /\ last.op = "r2l" -> HostLoc(d.a) = Resolve(T, last.src)
          [] d.k = "hostcopy" /\ last.op = "r2r" -> HostLoc(d.b) = Resolve(T, last.tgt) /\ HostLoc(d.a) = Resolve(T, last.src)
          [] d.k = "hostlink" -> HostLoc(d.a) = Resolve(T, last.src)
          [] d.k \in {"ctrcopy", "ctrlink"} /\ last.op = "l2r" -> Resolve(T, d.a) = HostLoc(last.src)
          [] d.k \in {"ctrcopy", "ctrlink"} /\ last.op = "r2l" -> Resolve(T, d.b) = HostLoc(last.tgt)
          [] d.k \in {"ctrcopy", "ctrlink"} /\ last.op = "r2r" -> Resolve(T, d.a) = Resolve(T, last.src)
          [] OTHER -> TRUE
\* bytes go through `docker exec` only when neither end can be reached through a bind mount
StreamOnlyWhenHidden ==
    IsCopy /\ last.dec.k = "stream" =>
        CASE last.op = "l2r" -> ~ContainerPath(Tab, last.src).def /\ ~(cuser /\ HostPath(Tab, last.tgt).def)
          [] last.op = "r2l" -> ~ContainerPath(Tab, last.tgt).def /\ ~(cuser /\ HostPath(Tab, last.src).def)
          [] OTHER -> FALSE
\* a copy only adds files below its target: nothing else appears, nothing disappears or changes
FrameStep ==
    [][ (nops' # nops /\ last'.op \in {"l2r", "r2l", "r2r"})
        => LET tl == IF last'.op = "r2l" THEN HostLoc(last'.tgt) ELSE Resolve(Tab, last'.tgt) IN
           /\ fs \subseteq fs'
           /\ \A e \in fs' \ fs : e.st = tl.st /\ IsPrefix(tl.p, e.p) ]_vars
\* deploy terminates: deployed or failed
DeployTerminates == (pc = "new") ~> (pc \in {"deployed", "failed"})
UndeployTerminates == (pc = "stop") ~> (pc = "undeployed")
=============================================================================
