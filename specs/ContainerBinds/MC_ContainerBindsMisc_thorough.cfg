CONSTANTS
    Mode = "all"
    EffSrcLocs = {"", "l1", "l2", "l3"}
INIT Init
NEXT Next
INVARIANT MountOrderFree
INVARIANT Emit
