CONSTANTS
    Mode = "all"
    EffSrcLocs = {"", "l1", "l2", "l3"}
    ExtraItems = {"readonly", "bind-propagation"}
INIT Init
NEXT Next
INVARIANT MountOrderFree
INVARIANT Emit
