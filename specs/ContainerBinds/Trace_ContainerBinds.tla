------------------------ MODULE Trace_ContainerBinds ------------------------
(* Trace validation (code -> spec): a trace is what one real DockerConnector did on the fake docker, as recorded by
   the harness: the first event names the scenario (mount table, user flag, environment); then, in order,
     deploy_call / deploy_ret, undeploy_call / undeploy_ret     calls of the public API and their outcome
     cli                 one record per `docker` CLI invocation (image_inspect, pull, run, inspect, exec, stop) with
                         its exit status and whether it addressed the connector's own container
     locations, run_cmd  complete calls with the harness's verdict on the returned value
     copy                a complete copy with the transfer path the connector took (from its public methods)
   Every event must be explained by the action of ContainerBinds it belongs to (same outcome, same decision);
   _prepare_volumes is internal (its effect is observed by the fake `docker run`: `prepared`).  All invariants of
   the module are evaluated on the states of the real trace.                                                  *)
EXTENDS MC_ContainerBinds, TraceUtil

VARIABLES tid, l
tvars == <<tid, l>>

Tr == Traces[tid]
Ev == Tr[l]
More == l <= Len(Tr)
Consume == l' = l + 1 /\ UNCHANGED tid
SeqSet(s) == {s[i] : i \in 1..Len(s)}

TInit ==
    /\ tid \in 1..Len(Traces)
    /\ l = 2
    /\ Init
    /\ sc = Traces[tid][1].sc /\ cuser = Traces[tid][1].cuser /\ env = Traces[tid][1].env

Explained ==
    \/ /\ Ev.e = "deploy_call" /\ DeployBegin
    \/ /\ Ev.e = "cli" /\ Ev.cmd = "image_inspect" /\ ImageInspect /\ last'.found = Ev.ok
    \/ /\ Ev.e = "cli" /\ Ev.cmd = "pull" /\ Pull /\ last'.ok = Ev.ok
    \/ /\ Ev.e = "cli" /\ Ev.cmd = "run" /\ DockerRun /\ last'.ok = Ev.ok /\ Ev.prepared
    \/ /\ Ev.e = "cli" /\ Ev.cmd = "inspect" /\ Inspect /\ last'.ok = Ev.ok /\ Ev.mine
    \/ /\ Ev.e = "cli" /\ Ev.cmd = "exec" /\ pc \in {"probe", "deployed"} /\ cid \in running /\ Ev.mine /\ UNCHANGED vars
    \/ /\ Ev.e = "deploy_ret" /\ Ev.ok /\ Probe /\ inst'.binds = SeqSet(Ev.binds) /\ inst'.cuser = Ev.cuser
    \/ /\ Ev.e = "deploy_ret" /\ ~Ev.ok /\ pc = "failed" /\ Ev.exc = (IF env.ext THEN "definition" ELSE "execution")
       /\ UNCHANGED vars
    \/ /\ Ev.e = "locations" /\ Locations /\ Ev.ok
    \/ /\ Ev.e = "run_cmd" /\ RunCmd(Ev.mode) /\ Ev.ok
    \/ /\ Ev.e = "copy" /\ Ev.op = "l2r" /\ CopyL2R(Ev.src, Ev.dst, Ev.ro) /\ last'.dec = Ev.dec /\ Streams(last'.dec) = Ev.streams
    \/ /\ Ev.e = "copy" /\ Ev.op = "r2l" /\ CopyR2L(Ev.src, Ev.dst, Ev.ro) /\ last'.dec = Ev.dec /\ Streams(last'.dec) = Ev.streams
    \/ /\ Ev.e = "copy" /\ Ev.op = "r2r" /\ CopyR2R(Ev.src, Ev.dst, Ev.ro) /\ last'.dec = Ev.dec /\ Streams(last'.dec) = Ev.streams
    \/ /\ Ev.e = "undeploy_call" /\ UndeployBegin
    \/ /\ Ev.e = "cli" /\ Ev.cmd = "stop" /\ Stop /\ Ev.ok /\ Ev.mine
    \/ /\ Ev.e = "undeploy_ret" /\ pc = "undeployed" /\ Ev.ok /\ Ev.running = (cid \in running) /\ UNCHANGED vars

TNext ==
    \/ More /\ Explained /\ Consume
    \/ PrepareVolumes /\ UNCHANGED tvars

TSpec == TInit /\ [][TNext]_<<vars, tvars>>

Accept == (l > Len(Tr)) => TUAcceptMsg(tid)
Diag == TUDiagMsg(tid, l)
=============================================================================
