CONSTANTS
    Tables <- MCTables
    TableOf <- MCTableOf
    InitFS <- MCInitFS
    HostSrc <- MCHostSrc
    CtrSrc <- MCCtrSrc
    HostDst <- MCHostDst
    CtrDst <- MCCtrDst
    Envs <- AllEnvs
    Names = {"x1"}
    MaxOps = 0
SPECIFICATION FairSpec
PROPERTY DeployTerminates
PROPERTY UndeployTerminates
