CONSTANTS
    Tables <- MCTables
    TableOf <- MCTableOf
    InitFS <- MCInitFS
    HostSrc <- MCHostSrc
    CtrSrc <- MCCtrSrc
    HostDst <- MCHostDst
    CtrDst <- MCCtrDst
    Envs <- AllEnvs
    Names = {"x1", "x2"}
    MaxOps = 5
SPECIFICATION Spec
