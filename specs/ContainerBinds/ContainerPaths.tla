--------------------------- MODULE ContainerPaths ---------------------------
(* Bind mounts of container connectors (`streamflow/deployment/connector/container.py`): the pure part.

   A path is a sequence of components (<<"h","v1","f">> is written /h/v1/f by the harness); prefix means
   COMPONENT prefix.  A mount is a record [type, src, dst, ro]:
       type = "bind"    host directory `src` is visible in the container at `dst`
       type = "volume"  a docker-managed volume is mounted at `dst` (its files are neither on the host nor in
                        the container's own file system); `df` inside the container lists it
       type = "tmpfs"   like a volume, but `df -aT` reports type tmpfs, which the connector skips: the
                        connector cannot know about it
   A mount table is a set of mounts with pairwise different, non-root destinations (docker refuses others).

   Ground truth      Resolve(T, cp)        where the file named cp inside the container really lives
   The design        HostPath(T, cp)       _get_host_path: host name of a container path, if bind-mounted
                     ContainerPath(T, hp)  _get_container_path: container name of a host path, if visible
                     LongestPrefix(p, S)   _get_longest_prefix_path
   Requirements on an implementation's answer `ans` (what the check demands of the real functions):
                     HostPathOK / ContainerPathOK / EffectiveOK
   Parsers           ParseBind, ParseMount (transcribed case analysis of _parse_bind / _parse_mount)
   Transfer choice   DecL2R, DecR2L, DecR2R  (copy_local_to_remote / copy_remote_to_local / copy_remote_to_remote)
*)
EXTENDS Naturals, Sequences, FiniteSets

IsPrefix(p, q) == Len(p) <= Len(q) /\ SubSeq(q, 1, Len(p)) = p
Rest(p, q) == SubSeq(q, Len(p) + 1, Len(q))          \* q relative to its prefix p
Parent(p) == SubSeq(p, 1, Len(p) - 1)
Base(p) == p[Len(p)]

Some(p) == [def |-> TRUE, p |-> p]
NoPath == [def |-> FALSE, p |-> <<>>]

Binds(T) == {m \in T : m.type = "bind"}
Known(T) == {m \in T : m.type # "tmpfs"}             \* what `df -aT` minus FS_TYPES_TO_SKIP shows the connector
WellFormed(T) == \A m \in T : m.dst # <<>> /\ \A n \in T : m.dst = n.dst => m = n

MaxDst(S) == CHOOSE m \in S : \A n \in S : Len(n.dst) <= Len(m.dst)
MaxSrc(S) == CHOOSE m \in S : \A n \in S : Len(n.src) <= Len(m.src)
Over(T, cp) == {m \in T : IsPrefix(m.dst, cp)}

(* ---------------------------------------------------------------------------------------------
   Ground truth: the container's view.  The deepest mount over a path governs it.               *)
HostStore == [kind |-> "host", id |-> <<>>]
CtrStore == [kind |-> "ctr", id |-> <<>>]
VolStore(d) == [kind |-> "vol", id |-> d]
Loc(st, p) == [st |-> st, p |-> p]

Resolve(T, cp) ==
    IF Over(T, cp) = {} THEN Loc(CtrStore, cp)
    ELSE LET g == MaxDst(Over(T, cp)) IN
         IF g.type = "bind" THEN Loc(HostStore, g.src \o Rest(g.dst, cp))
         ELSE Loc(VolStore(g.dst), Rest(g.dst, cp))

(* ---------------------------------------------------------------------------------------------
   The design: deepest matching mount wins.                                                      *)
HostPath(T, cp) ==
    LET O == Over(Known(T), cp) IN
    IF O = {} THEN NoPath
    ELSE LET g == MaxDst(O) IN
         IF g.type = "bind" THEN Some(g.src \o Rest(g.dst, cp)) ELSE NoPath

SrcOver(T, hp) == {m \in Binds(T) : IsPrefix(m.src, hp)}
ContainerPath(T, hp) ==
    IF SrcOver(T, hp) = {} THEN NoPath
    ELSE LET g == MaxSrc(SrcOver(T, hp)) IN Some(g.dst \o Rest(g.src, hp))

\* the element of S that is the longest component prefix of p, the root when there is none
LongestPrefix(p, S) ==
    LET C == {s \in S : IsPrefix(s, p)} IN
    IF C = {} THEN <<>> ELSE CHOOSE s \in C : \A t \in C : Len(t) <= Len(s)

(* ---------------------------------------------------------------------------------------------
   Requirements.  `ans` is an optional path ([def, p]).
   Host path of cp: exactly the host file that cp denotes when a bind governs cp; nothing when the container's
   own file system or a volume governs it; unconstrained when a tmpfs (invisible to the connector) governs it. *)
HostPathOK(T, cp, ans) ==
    IF Over(T, cp) = {} THEN ans = NoPath
    ELSE LET g == MaxDst(Over(T, cp)) IN
         CASE g.type = "bind" -> ans = Some(g.src \o Rest(g.dst, cp))
           [] g.type = "volume" -> ans = NoPath
           [] OTHER -> TRUE

\* container names of hp through each bind whose source is a component prefix of hp
Cands(T, hp) == {m.dst \o Rest(m.src, hp) : m \in SrcOver(T, hp)}
Faithful(T, hp, c) == Resolve(T, c) = Loc(HostStore, hp)          \* c really denotes hp (no deeper mount hides it)
\* Container path of hp: nothing when hp is under no bind source; one of the candidates when none of them is
\* shadowed; unconstrained when a deeper mount shadows some candidate (which one to prefer is not promised).
ContainerPathOK(T, hp, ans) ==
    IF Cands(T, hp) = {} THEN ans = NoPath
    ELSE IF \A c \in Cands(T, hp) : Faithful(T, hp, c) THEN ans.def /\ ans.p \in Cands(T, hp)
    ELSE TRUE

(* _get_effective_locations: among the destination locations of a copy, keep one per group of locations that
   share the destination file through bind mounts of the same host directory.  TT: location -> mount table,
   locs: sequence of locations, dst: container path, srcLoc: "" or the location the data comes from.
   Demanded of an answer `eff` (a sequence of locations):
     - no duplicates, only given locations
     - a location where dst is not on a bind mount is kept (its copy reaches nobody else)
     - every dropped location sees, at dst, the same host file as some kept location (so the data arrives)
     - locations with one and the same governing bind (same source, same mount point) keep a single
       representative, which is srcLoc when it is one of them                                             *)
SameFile(TT, a, b, dst) ==
    /\ Resolve(TT[a], dst).st = HostStore
    /\ Resolve(TT[a], dst) = Resolve(TT[b], dst)
Governor(T, cp) == IF Over(T, cp) = {} THEN {} ELSE {MaxDst(Over(T, cp))}
EffectiveOK(TT, locs, dst, srcLoc, eff) ==
    LET L == {locs[i] : i \in 1..Len(locs)}
        E == {eff[i] : i \in 1..Len(eff)}
        tmpfsInvolved == \E l \in L : \E g \in Governor(TT[l], dst) : g.type = "tmpfs"
    IN  tmpfsInvolved \/
        (/\ E \subseteq L /\ Cardinality(E) = Len(eff)
         /\ \A l \in L : Resolve(TT[l], dst).st # HostStore => l \in E
         /\ \A l \in L \ E : \E k \in E : SameFile(TT, l, k, dst)
         /\ \A a \in E : \A b \in E : (a # b /\ Governor(TT[a], dst) = Governor(TT[b], dst)
                                         /\ Resolve(TT[a], dst).st = HostStore) => FALSE
         /\ \A a \in L : (a = srcLoc /\ Resolve(TT[a], dst).st = HostStore) => a \in E)

(* ---------------------------------------------------------------------------------------------
   Parsers.  Texts are atoms here; the harness joins the fields with ":" resp. "," .
   _parse_bind:  src[:dest[:opts]] ; dest defaults to src, opts to "rw" (also when the field is empty).      *)
ParseBind(f) ==
    [src  |-> f[1],
     dst  |-> IF Len(f) > 1 /\ f[2] # "" THEN f[2] ELSE f[1],
     opts |-> IF Len(f) > 2 /\ f[3] # "" THEN f[3] ELSE "rw"]

\* _parse_mount: items [k, v, kv] (kv = FALSE: a bare flag such as `readonly`); the last item of a class wins
DstKeys == {"dst", "destination", "target"}
SrcKeys == {"src", "source"}
LastOf(items, K) ==
    LET I == {i \in 1..Len(items) : items[i].kv /\ items[i].k \in K} IN
    IF I = {} THEN [def |-> FALSE, v |-> ""]
    ELSE [def |-> TRUE, v |-> items[CHOOSE i \in I : \A j \in I : j <= i].v]
ParseMount(items) ==
    LET ty == LastOf(items, {"type"})
        so == LastOf(items, SrcKeys)
        de == LastOf(items, DstKeys)
    IN  IF ~ty.def \/ ~de.def THEN [ok |-> FALSE, err |-> "incomplete", type |-> "", src |-> so, dst |-> ""]
        ELSE IF ty.v = "bind" /\ ~so.def THEN [ok |-> FALSE, err |-> "nosource", type |-> "", src |-> so, dst |-> ""]
        ELSE [ok |-> TRUE, err |-> "", type |-> ty.v, src |-> so, dst |-> de.v]

(* ---------------------------------------------------------------------------------------------
   Transfer choice (one destination location).  cu: the container user is the host user.
   kinds:  hostcopy   the inner (host) connector copies a -> b, both host paths
           hostlink   symbolic link b -> a made on the host
           ctrcopy    `cp -rf a b` run inside the container          ctrlink   `ln -snf a b` inside the container
           stream     tar stream through `docker exec`                                                        *)
Dec(k, a, b) == [k |-> k, a |-> a, b |-> b]

\* host path src -> container path tgt (tgt already extended with the base name when dst was a directory)
DecL2R(T, cu, src, tgt, ro) ==
    LET hd == HostPath(T, tgt)
        cs == ContainerPath(T, src)
    IN  IF cu /\ hd.def
        THEN IF ro /\ cs.def THEN Dec("ctrlink", cs.p, tgt) ELSE Dec("hostcopy", src, hd.p)
        ELSE IF cs.def THEN Dec(IF ro THEN "ctrlink" ELSE "ctrcopy", cs.p, tgt)
        ELSE Dec("stream", src, tgt)

\* container path src -> host path dst (dst does not exist)
DecR2L(T, cu, src, dst, ro) ==
    LET hs == HostPath(T, src)
        cd == ContainerPath(T, dst)
    IN  IF cu /\ hs.def
        THEN IF ro /\ cd.def THEN Dec("hostlink", hs.p, dst) ELSE Dec("hostcopy", hs.p, dst)
        \* never a link here: a link made inside the container names a container path, which does not exist locally
        ELSE IF cd.def THEN Dec("ctrcopy", src, cd.p)
        ELSE Dec("stream", src, dst)

\* container path src -> container path of the same container; tgt as for DecL2R, dst the path as given
DecR2R(T, cu, src, dst, tgt, ro) ==
    LET hs == HostPath(T, src) IN
    IF hs.def THEN DecL2R(T, cu, hs.p, tgt, ro)
    ELSE Dec(IF ro THEN "ctrlink" ELSE "ctrcopy", src, dst)

Streams(d) == IF d.k = "stream" THEN 1 ELSE 0

\* The promise about streaming: bytes go through `docker exec` only when neither end is reachable through a bind
\* mount (the destination side only counts when the container user owns the host files).
NoStreamL2R(T, cu, src, tgt, ro) ==
    (ContainerPath(T, src).def \/ (cu /\ HostPath(T, tgt).def)) => DecL2R(T, cu, src, tgt, ro).k # "stream"
NoStreamR2L(T, cu, src, dst, ro) ==
    (ContainerPath(T, dst).def \/ (cu /\ HostPath(T, src).def)) => DecR2L(T, cu, src, dst, ro).k # "stream"
=============================================================================
