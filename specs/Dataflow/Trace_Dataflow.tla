--------------------------- MODULE Trace_Dataflow ---------------------------
(* Trace specification: events recorded from a REAL run of the generated workflow (run-time wrappers on
   Port.put, BaseStep._persist_token, BaseStep.terminate; executor return/raise) are explained by the
   actions of Dataflow.  The instance module (generated) EXTENDS this one and defines cNets; every trace names its network

   Events (after a deterministic relabelling of database ids to token identities <<port, tag>>):
     [ev |-> "emit", step, port, k, tag, val, deps]   persist immediately followed by put of one token
     [ev |-> "rawput", step, port, ...]               a non-termination token put WITHOUT being persisted (never legal)
     [ev |-> "term", step, st]                        the termination tokens put by BaseStep.terminate (one atomic section)
     [ev |-> "return", outs] / [ev |-> "raise"]       StreamFlowExecutor.run returned / raised
   Consumption of tokens is SILENT (the completion of Port.get is not a linearization point): the reactions
   that put nothing are taken nondeterministically between events.  All invariants of Dataflow are evaluated
   on every state of every real trace.                                                               *)
EXTENDS Dataflow, TraceUtil

VARIABLES tid, l,
          pc      \* steps cancelled by the executor's close() whose termination event is still to come
tvars == <<vars, tid, l, pc>>

Tr == Traces[tid].events
Ev == Tr[l]
More == l <= Len(Tr)
Consume(n) == l' = l + n /\ UNCHANGED tid

TInit == Init /\ tid \in 1..Len(Traces) /\ net = Traces[tid].net /\ l = 1 /\ pc = {}

EvTok(e) == [k |-> e.k, tag |-> e.tag, val |-> e.val]
EvDeps(e) == {<<e.deps[i][1], e.deps[i][2]>> : i \in 1..Len(e.deps)}
\* IGNORE_DEPS=1 (second pass over rejected traces only) tells whether a rejection is due to provenance alone
DepsOK(e, deps) == IOEnv.IGNORE_DEPS = "1" \/ deps = EvDeps(e)
TermEvOf(k, s, st) == k <= Len(Tr) /\ Tr[k].ev = "term" /\ Tr[k].step = s /\ Tr[k].st = st

(* an emission by the main task of a step, or by one of the jobs of an ExecuteStep *)
TEmit ==
  /\ More /\ pc = {} /\ Ev.ev = "emit"
  /\ LET s == Ev.step IN
     /\ s \in Steps
     /\ \/ /\ outbox[s] # <<>>
           /\ Head(outbox[s]).port = Ev.port
           /\ Head(outbox[s]).tok = EvTok(Ev)
           /\ DepsOK(Ev, Head(outbox[s]).deps)
           /\ Emit(s)
           \* when this emission ends the step, the termination event follows in the same atomic section
           /\ IF done'[s] /\ ~done[s]
                THEN TermEvOf(l + 1, s, status'[s]) /\ Consume(2)
                ELSE Consume(1)
           /\ UNCHANGED xcancel
        \/ /\ \E j \in loc[s].jobs :
                /\ Out[s][1] = Ev.port /\ Tok(j.tag, j.val) = EvTok(Ev) /\ DepsOK(Ev, j.deps)
                /\ JobDone(s, j)
           /\ Consume(1) /\ UNCHANGED xcancel
  /\ UNCHANGED pc

(* a step terminates at the end of a reaction (no emission pending) *)
TTerm ==
  /\ More /\ pc = {} /\ Ev.ev = "term"
  /\ LET s == Ev.step IN
     /\ s \in Steps /\ ~done[s]
     /\ \/ RoundStep(s) \/ Scatter(s) \/ GatherRecv(s, 1) \/ GatherRecv(s, 2)
        \/ (\E i \in 1..Len(In[s]) : DotRecv(s, i) \/ CartRecv(s, i)) \/ ExecRound(s) \/ ExecPair(s) \/ ExecEnd(s)
     /\ done'[s] /\ status'[s] = Ev.st
  /\ Consume(1) /\ UNCHANGED <<pc, xcancel>>

(* the termination events of the steps cancelled by close() *)
TCancelled ==
  /\ More /\ pc # {} /\ Ev.ev = "term" /\ Ev.step \in pc /\ Ev.st = "cancelled"
  /\ pc' = pc \ {Ev.step}
  /\ Consume(1) /\ UNCHANGED vars

TEnd ==
  /\ More /\ pc = {}
  /\ \/ Ev.ev = "return" /\ xstate = "returned"
        /\ {<<Ev.outs[i][1], Ev.outs[i][2]>> : i \in 1..Len(Ev.outs)} = {<<o[1], o[3]>> : o \in outputs}
     \/ Ev.ev = "raise" /\ xstate = "raised"
  /\ Consume(1) /\ UNCHANGED <<vars, pc>>

(* silent steps: reactions that put nothing and terminate nobody; job failures; the executor *)
Silent ==
  /\ pc = {}
  /\ \/ /\ \E s \in Steps : \/ Urgent(s)
                            \/ \E j \in loc[s].jobs : JobFail(s, j)
        /\ done' = done
        /\ pc' = pc /\ UNCHANGED xcancel
     \/ /\ \E p \in OutPorts : XRecv(p)
        /\ pc' = {s \in Steps : done'[s] /\ ~done[s]}
  /\ UNCHANGED <<tid, l>>

TNext == (TEmit \/ TTerm \/ TCancelled \/ TEnd \/ Silent) /\ UNCHANGED net
TSpec == TInit /\ [][TNext]_tvars

Accept == (~More /\ pc = {}) => TUAcceptMsg(tid)
Diag == TUDiagMsg(tid, l)
=============================================================================
