CONSTANTS N = 2  P = 1  Loose = TRUE  WithRunning = TRUE  WithUndeploy = TRUE
INIT Init
NEXT Next
VIEW View
INVARIANT TypeOK
INVARIANT ReportedOnlyGone
INVARIANT OwnResult
INVARIANT CancelExact
INVARIANT Bookkeeping
INVARIANT LockDiscipline
