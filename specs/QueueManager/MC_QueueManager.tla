--------------------------- MODULE MC_QueueManager ---------------------------
EXTENDS QueueManager
(* `act` is a history variable: hidden from the fingerprint in the exhaustive configurations. *)
View == <<q, cancelled, pc, sched, cache, locked, waiters, sqAsk, sqRes, wake, cstep, ret, registered,
          collected, undep, scExec, cancelAsk, cancelExp>>
=============================================================================
