---------------------------- MODULE QueueManager ----------------------------
(* Batch jobs submitted through a queue-manager connector
   (`streamflow/deployment/connector/queue_manager.py`: QueueManagerConnector.run / undeploy and the
   SlurmConnector commands).

   Property C27: a job is reported finished only after it has left the queue, with that job's own
   output and exit code, for any interleaving of concurrent submissions and status polling;
   undeploying cancels exactly the jobs still registered (submitted and not yet collected).

   What is modelled
     cluster      q[j] \in {absent, queued, running, gone}; `cancelled` = jobs removed by scancel.  A job
                  that leaves normally produces its own output/exit code (abstractly: the value j); a
                  cancelled or not-yet-finished job shows an empty output and exit code 0 (value 0).
     connector    `_scheduled_jobs` (sched), the one-entry TTL cache (valid, val, exp), the asyncio lock
                  `_jobs_cache_lock` (locked + FIFO waiters, exactly CPython's asyncio.Lock: a task finds
                  the lock free only when it is unlocked AND nobody is queued; release wakes the head
                  waiter, which takes the lock when it runs), and one program counter per run() call.
     time         discrete ticks, kept as remaining times (no absolute clock, so the state space is finite
                  without a time bound): `asyncio.sleep(pollingInterval)` ends after P ticks (wake[j] = ticks
                  left); a cache entry lives P ticks (cache.exp = ticks left, dead at 0).  With Loose = TRUE
                  an entry may also be found dead earlier (real clocks: the binding cannot promise a hit),
                  never alive later.

   Atomicity (DESIGN.md 3.5): one action = one environment event (a command issued through the inner
   connector completes, a timer fires, the cluster changes) followed by the maximal run of the woken
   coroutine up to its next suspension point.  The commands are split in Exec (the instant the
   cluster answers / changes) and Done (the instant the answer reaches the coroutine), because other
   coroutines and the cluster move in between.  `Grant` is the queued lock waiter woken by a release:
   it is a separate action (CPython runs it in a later loop iteration; other completions that were
   already in the ready queue may run before it - a superset of the real interleavings).

   run() for job j, as coded:
     idle -Start-> sbatch -SbatchExec,SbatchDone-> [register in sched] -> lock{clear} -> loop:
       lock{ v := cached or squeue(-j sched at call time), stored with TTL } ;
       j \in v -> sleep P -> loop ;  j \notin v -> sched.pop(j) -> scontrol(StdOut) -> cat -> scontrol(ExitCode)
       -> return (out, rc)
   undeploy(): ask := keys(sched) ; scancel ask ; sched := {}                                         *)
EXTENDS Naturals, Sequences, FiniteSets, TLC

CONSTANTS N,        \* number of run() calls (one batch job each)
          P,        \* pollingInterval = TTL of the jobs cache, in ticks
          Loose,    \* TRUE: a live cache entry may be found dead (see above)
          WithRunning,  \* FALSE: the queued -> running step of the cluster is left out (smaller state space)
          WithUndeploy  \* FALSE: no undeploy

Jobs == 1..N
NoRes == {0}                            \* "squeue has not answered yet"
NoCache == [valid |-> FALSE, val |-> {}, exp |-> 0]
InQueue == {"queued", "running"}

VARIABLES q, cancelled,                 \* cluster
          pc, sched, cache, locked, waiters, sqAsk, sqRes, wake, cstep, ret,   \* connector + run() calls
          registered, collected,        \* ghosts: jobs whose submission returned / whose run() passed the pop
          undep, scExec, cancelAsk, cancelExp,   \* undeploy: no | scancel | done
          act                           \* history: last action (hidden by VIEW in exhaustive configs)

ivars == <<pc, sched, cache, locked, waiters, sqAsk, sqRes, wake, cstep, ret, registered, collected>>
vars == <<q, cancelled, ivars, undep, scExec, cancelAsk, cancelExp, act>>

St == [pc |-> pc, sched |-> sched, cache |-> cache, locked |-> locked, waiters |-> waiters,
       sqAsk |-> sqAsk, sqRes |-> sqRes, wake |-> wake, cstep |-> cstep, ret |-> ret,
       registered |-> registered, collected |-> collected]

Set(S) == /\ pc' = S.pc /\ sched' = S.sched /\ cache' = S.cache /\ locked' = S.locked
          /\ waiters' = S.waiters /\ sqAsk' = S.sqAsk /\ sqRes' = S.sqRes /\ wake' = S.wake
          /\ cstep' = S.cstep /\ ret' = S.ret /\ registered' = S.registered /\ collected' = S.collected

PCs == {"idle", "sbatch", "lw_clear", "lw_poll", "squeue", "sleep", "collect", "done", "raised"}

TypeOK ==
  /\ q \in [Jobs -> {"absent", "queued", "running", "gone"}]
  /\ cancelled \subseteq Jobs
  /\ pc \in [Jobs -> PCs]
  /\ sched \subseteq Jobs
  /\ cache \in [valid : BOOLEAN, val : SUBSET Jobs, exp : 0..P]
  /\ locked \in BOOLEAN
  /\ waiters \in Seq(Jobs)
  /\ sqAsk \in [Jobs -> SUBSET Jobs]
  /\ \A j \in Jobs : sqRes[j] = NoRes \/ sqRes[j] \subseteq Jobs
  /\ wake \in [Jobs -> 0..P]
  /\ cstep \in [Jobs -> 0..3]
  /\ ret \in [Jobs -> [out : 0..N, rc : 0..N]]
  /\ undep \in {"no", "scancel", "done"}

Init ==
  /\ q = [j \in Jobs |-> "absent"] /\ cancelled = {}
  /\ pc = [j \in Jobs |-> "idle"] /\ sched = {} /\ cache = NoCache /\ locked = FALSE /\ waiters = <<>>
  /\ sqAsk = [j \in Jobs |-> {}] /\ sqRes = [j \in Jobs |-> NoRes] /\ wake = [j \in Jobs |-> 0]
  /\ cstep = [j \in Jobs |-> 0] /\ ret = [j \in Jobs |-> [out |-> 0, rc |-> 0]]
  /\ registered = {} /\ collected = {}
  /\ undep = "no" /\ scExec = FALSE /\ cancelAsk = {} /\ cancelExp = {}
  /\ act = <<"Init">>

---------------------------------------------------------------------------
(* Sections of run(): functions from a state record to the SET of possible successor records. *)

\* what the cluster shows for a finished job (its own results) or for anything else (nothing)
Truth(j) == IF q[j] = "gone" /\ j \notin cancelled THEN j ELSE 0

\* after the lock is released with the listing v in hand
AfterPoll(S, j, v) ==
  IF j \in v
  THEN {[S EXCEPT !.pc[j] = "sleep", !.wake[j] = P]}
  ELSE IF j \in S.sched
       THEN {[S EXCEPT !.sched = @ \ {j}, !.collected = @ \cup {j}, !.pc[j] = "collect", !.cstep[j] = 1]}
       ELSE \* `_scheduled_jobs.pop(job_id)` after an undeploy reset wiped j: KeyError, run() raises.  (This
            \* is load-bearing: j may still be queued here - a listing restricted to the NEW registrations
            \* does not mention it - so continuing to the collection would report it finished too early.)
            {[S EXCEPT !.pc[j] = "raised"]}

CacheLive(S) == S.cache.valid /\ S.cache.exp > 0

\* j owns the lock (S.locked is FALSE on entry; the section sets it when it blocks under the lock)
EnterPoll(S, j) ==
  LET miss == [S EXCEPT !.locked = TRUE, !.pc[j] = "squeue", !.sqAsk[j] = S.sched, !.sqRes[j] = NoRes,
                        !.cache = NoCache]
  IN IF CacheLive(S)
     THEN AfterPoll(S, j, S.cache.val) \cup (IF Loose THEN {miss} ELSE {})
     ELSE {miss}

LockFree(S) == ~S.locked /\ S.waiters = <<>>

LockPoll(S, j) ==
  IF LockFree(S) THEN EnterPoll(S, j)
  ELSE {[S EXCEPT !.waiters = Append(@, j), !.pc[j] = "lw_poll"]}

LockClear(S, j) ==
  IF LockFree(S) THEN LockPoll([S EXCEPT !.cache = NoCache], j)
  ELSE {[S EXCEPT !.waiters = Append(@, j), !.pc[j] = "lw_clear"]}

---------------------------------------------------------------------------
(* Actions *)

Start(j) ==                                    \* the engine calls run(job j); calls start in index order
  /\ pc[j] = "idle" /\ (IF j = 1 THEN TRUE ELSE pc[j - 1] # "idle")
  /\ pc' = [pc EXCEPT ![j] = "sbatch"]
  /\ act' = <<"Start", j>>
  /\ UNCHANGED <<q, cancelled, sched, cache, locked, waiters, sqAsk, sqRes, wake, cstep, ret, registered,
                 collected, undep, scExec, cancelAsk, cancelExp>>

SbatchExec(j) ==                               \* the cluster accepts the job
  /\ pc[j] = "sbatch" /\ q[j] = "absent"
  /\ q' = [q EXCEPT ![j] = "queued"]
  /\ act' = <<"SbatchExec", j>>
  /\ UNCHANGED <<cancelled, ivars, undep, scExec, cancelAsk, cancelExp>>

SbatchDone(j) ==                               \* job id returned: register, clear the cache, first poll
  /\ pc[j] = "sbatch" /\ q[j] # "absent"
  /\ \E S2 \in LockClear([St EXCEPT !.sched = @ \cup {j}, !.registered = @ \cup {j}], j) : Set(S2)
  /\ act' = <<"SbatchDone", j>>
  /\ UNCHANGED <<q, cancelled, undep, scExec, cancelAsk, cancelExp>>

Listing(A) == {k \in (IF A = {} THEN Jobs ELSE A) : q[k] \in InQueue}

SqueueExec(j) ==                               \* the cluster answers the listing restricted to the asked ids
  /\ pc[j] = "squeue" /\ sqRes[j] = NoRes
  /\ sqRes' = [sqRes EXCEPT ![j] = Listing(sqAsk[j])]
  /\ act' = <<"SqueueExec", j>>
  /\ UNCHANGED <<q, cancelled, pc, sched, cache, locked, waiters, sqAsk, wake, cstep, ret, registered,
                 collected, undep, scExec, cancelAsk, cancelExp>>

SqueueDone(j) ==                               \* answer stored in the cache, lock released, decision
  /\ pc[j] = "squeue" /\ sqRes[j] # NoRes
  /\ \E S2 \in AfterPoll([St EXCEPT !.cache = [valid |-> TRUE, val |-> sqRes[j], exp |-> P],
                                    !.locked = FALSE, !.sqAsk[j] = {}, !.sqRes[j] = NoRes], j, sqRes[j]) : Set(S2)
  /\ act' = <<"SqueueDone", j>>
  /\ UNCHANGED <<q, cancelled, undep, scExec, cancelAsk, cancelExp>>

Grant ==                                       \* the head waiter, woken by a release, takes the lock
  /\ ~locked /\ waiters # <<>>
  /\ LET w == Head(waiters)
         S0 == [St EXCEPT !.waiters = Tail(@)]
     IN /\ \E S2 \in (IF pc[w] = "lw_clear" THEN LockPoll([S0 EXCEPT !.cache = NoCache], w)
                                            ELSE EnterPoll(S0, w)) : Set(S2)
        /\ act' = <<"Grant", w>>
  /\ UNCHANGED <<q, cancelled, undep, scExec, cancelAsk, cancelExp>>

Wake(j) ==                                     \* asyncio.sleep(pollingInterval) is over
  /\ pc[j] = "sleep" /\ wake[j] = 0
  /\ \E S2 \in LockPoll(St, j) : Set(S2)
  /\ act' = <<"Wake", j>>
  /\ UNCHANGED <<q, cancelled, undep, scExec, cancelAsk, cancelExp>>

CollectDone(j) ==                              \* scontrol(StdOut) -> cat -> scontrol(ExitCode) -> return
  /\ pc[j] = "collect"
  /\ \/ /\ cstep[j] = 1 /\ cstep' = [cstep EXCEPT ![j] = 2] /\ UNCHANGED <<ret, pc>>
     \/ /\ cstep[j] = 2 /\ cstep' = [cstep EXCEPT ![j] = 3] /\ ret' = [ret EXCEPT ![j].out = Truth(j)]
        /\ UNCHANGED pc
     \/ /\ cstep[j] = 3 /\ ret' = [ret EXCEPT ![j].rc = Truth(j)] /\ pc' = [pc EXCEPT ![j] = "done"]
        /\ UNCHANGED cstep
  /\ act' = <<"CollectDone", j>>
  /\ UNCHANGED <<q, cancelled, sched, cache, locked, waiters, sqAsk, sqRes, wake, registered, collected,
                 undep, scExec, cancelAsk, cancelExp>>

JobRuns(j) ==
  /\ WithRunning
  /\ q[j] = "queued" /\ q' = [q EXCEPT ![j] = "running"]
  /\ act' = <<"JobRuns", j>>
  /\ UNCHANGED <<cancelled, ivars, undep, scExec, cancelAsk, cancelExp>>

JobLeaves(j) ==
  /\ q[j] \in InQueue /\ q' = [q EXCEPT ![j] = "gone"]
  /\ act' = <<"JobLeaves", j>>
  /\ UNCHANGED <<cancelled, ivars, undep, scExec, cancelAsk, cancelExp>>

Tick ==                                        \* one tick: sleeps and the cache entry get one tick older
  /\ wake' = [j \in Jobs |-> IF wake[j] > 0 THEN wake[j] - 1 ELSE 0]
  /\ cache' = IF cache.valid /\ cache.exp > 1 THEN [cache EXCEPT !.exp = @ - 1] ELSE NoCache
  /\ act' = <<"Tick">>
  /\ UNCHANGED <<q, cancelled, pc, sched, locked, waiters, sqAsk, sqRes, cstep, ret, registered, collected,
                 undep, scExec, cancelAsk, cancelExp>>

UndeployStart ==                               \* undeploy(): scancel of the registered jobs
  /\ WithUndeploy
  /\ undep = "no"
  /\ cancelExp' = registered \ collected
  /\ cancelAsk' = sched
  /\ IF sched = {} THEN undep' = "done" ELSE undep' = "scancel"
  /\ scExec' = FALSE
  /\ act' = <<"UndeployStart">>
  /\ UNCHANGED <<q, cancelled, ivars>>

ScancelExec ==
  /\ undep = "scancel" /\ ~scExec /\ scExec' = TRUE
  /\ q' = [k \in Jobs |-> IF k \in cancelAsk /\ q[k] \in InQueue THEN "gone" ELSE q[k]]
  /\ cancelled' = cancelled \cup {k \in cancelAsk : q[k] \in InQueue}
  /\ act' = <<"ScancelExec">>
  /\ UNCHANGED <<ivars, undep, cancelAsk, cancelExp>>

ScancelDone ==                                 \* `self._scheduled_jobs = {}`
  /\ undep = "scancel" /\ scExec
  /\ undep' = "done" /\ sched' = {}
  /\ act' = <<"ScancelDone">>
  /\ UNCHANGED <<q, cancelled, pc, cache, locked, waiters, sqAsk, sqRes, wake, cstep, ret, registered,
                 collected, scExec, cancelAsk, cancelExp>>

Next == \/ \E j \in Jobs : \/ Start(j) \/ SbatchExec(j) \/ SbatchDone(j) \/ SqueueExec(j) \/ SqueueDone(j)
                           \/ Wake(j) \/ CollectDone(j) \/ JobRuns(j) \/ JobLeaves(j)
        \/ Grant \/ Tick \/ UndeployStart \/ ScancelExec \/ ScancelDone

Spec == Init /\ [][Next]_vars

---------------------------------------------------------------------------
(* Properties *)

\* (1) a job is reported finished (its run() stops polling and collects / returns) only after it left the queue
ReportedOnlyGone == \A j \in Jobs : pc[j] \in {"collect", "done"} => q[j] = "gone"

\* (2) the values returned are the job's own (a cancelled job has none: empty output, exit code 0)
OwnResult == \A j \in Jobs : pc[j] = "done" =>
                 ret[j] = [out |-> IF j \in cancelled THEN 0 ELSE j, rc |-> IF j \in cancelled THEN 0 ELSE j]

\* (3) undeploy asks the cluster to cancel exactly the jobs submitted and not yet collected
CancelExact == undep # "no" => cancelAsk = cancelExp
Bookkeeping == undep = "no" => sched = registered \ collected

\* the cache never makes a registered job look finished: a live entry lists every job that was asked
\* about and is still in the queue; a job registered after the listing is never judged by it
LockDiscipline == /\ Cardinality({j \in Jobs : pc[j] = "squeue"}) <= 1
                  /\ locked <=> \E j \in Jobs : pc[j] = "squeue"
                  /\ \A i \in 1..Len(waiters) : pc[waiters[i]] \in {"lw_clear", "lw_poll"}

\* every run() of a job that left the queue can finish: no state (before MaxTime) in which a started,
\* uncancelled call is stuck forever is checked as liveness in MC_QueueManager (Progress)
AllDone == \A j \in Jobs : pc[j] \in {"done", "raised"}
=============================================================================
