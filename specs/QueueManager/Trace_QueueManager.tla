------------------------- MODULE Trace_QueueManager -------------------------
(* Trace validation (code -> spec) for C27.  A trace is what one execution of the real SlurmConnector
   under the schedule driver produced (harness/vh/sut/queue_fake.py):

     driver events   Start, SbatchDone, SqueueDone, CollectDone, Wake, Tick, JobRuns, JobLeaves,
                     UndeployStart, ScancelDone, End     - each carries the observation made at
                     quiescence BEFORE it: pc (per call: idle/sbatch/squeue/sleep/collect/lw/done/raised)
                     and the keys of `_scheduled_jobs`; a *Done event that ended the call carries `fin`
                     (returned output/exit code mapped to the job they belong to, or the exception).
     cluster events  SbatchExec, SqueueExec (asked ids, listed ids), ScancelExec (ids) - lines of the
                     sequence-numbered log of the fake tools, in log order.

   Every event must be explained by the corresponding action of QueueManager; `Grant` (a queued lock
   waiter runs) is the only silent step, and the driver acts only at quiescence (no Grant pending).
   All invariants of QueueManager are evaluated on every state of every trace.                       *)
EXTENDS QueueManager, TraceUtil

VARIABLES tid, l
tvars == <<vars, tid, l>>

Tr == Traces[tid]
More == l <= Len(Tr)
Ev == Tr[l]
SetOf(s) == {s[i] : i \in 1..Len(s)}
Proj(p) == IF p \in {"lw_clear", "lw_poll"} THEN "lw" ELSE p

Quiet == ~(~locked /\ waiters # <<>>)
ObsOK(e) == /\ Quiet
            /\ \A j \in Jobs : Proj(pc[j]) = e.pc[j]
            /\ (e.hs => sched = SetOf(e.sched))
Consume == l' = l + 1 /\ UNCHANGED tid
Is(name) == More /\ Ev.e = name

\* the call of job j ended (or not) in this step exactly as observed
FinOK(e, j) ==
  IF "fin" \in DOMAIN e
  THEN IF e.fin.kind = "ret" THEN pc'[j] = "done" /\ ret'[j] = [out |-> e.fin.out, rc |-> e.fin.rc]
       ELSE pc'[j] = "raised"
  ELSE pc'[j] \notin {"done", "raised"}

TInit == Init /\ tid \in 1..Len(Traces) /\ l = 1

TStart == Is("Start") /\ ObsOK(Ev) /\ Start(Ev.j) /\ Consume
TSbatchExec == Is("SbatchExec") /\ SbatchExec(Ev.j) /\ Consume
TSbatchDone == Is("SbatchDone") /\ ObsOK(Ev) /\ SbatchDone(Ev.j) /\ FinOK(Ev, Ev.j) /\ Consume
TSqueueExec == /\ Is("SqueueExec") /\ Ev.j \in Jobs /\ SqueueExec(Ev.j)
               /\ sqAsk[Ev.j] = SetOf(Ev.ask) /\ sqRes'[Ev.j] = SetOf(Ev.got) /\ Consume
TSqueueDone == Is("SqueueDone") /\ ObsOK(Ev) /\ SqueueDone(Ev.j) /\ FinOK(Ev, Ev.j) /\ Consume
TWake == Is("Wake") /\ ObsOK(Ev) /\ Wake(Ev.j) /\ FinOK(Ev, Ev.j) /\ Consume
TCollectDone == Is("CollectDone") /\ ObsOK(Ev) /\ CollectDone(Ev.j) /\ FinOK(Ev, Ev.j) /\ Consume
TTick == Is("Tick") /\ ObsOK(Ev) /\ Tick /\ Consume
TJobRuns == Is("JobRuns") /\ ObsOK(Ev) /\ JobRuns(Ev.j) /\ Consume
TJobLeaves == Is("JobLeaves") /\ ObsOK(Ev) /\ JobLeaves(Ev.j) /\ Consume
TUndeployStart == Is("UndeployStart") /\ ObsOK(Ev) /\ UndeployStart /\ Consume
TScancelExec == Is("ScancelExec") /\ ScancelExec /\ cancelAsk = SetOf(Ev.ids) /\ Consume
TScancelDone == Is("ScancelDone") /\ ObsOK(Ev) /\ ScancelDone /\ Consume
TEnd == Is("End") /\ ObsOK(Ev) /\ UNCHANGED vars /\ Consume
TGrant == More /\ Grant /\ UNCHANGED <<tid, l>>

TNext == \/ TStart \/ TSbatchExec \/ TSbatchDone \/ TSqueueExec \/ TSqueueDone \/ TWake \/ TCollectDone
         \/ TTick \/ TJobRuns \/ TJobLeaves \/ TUndeployStart \/ TScancelExec \/ TScancelDone \/ TEnd
         \/ TGrant

TAccept == (l = Len(Tr) + 1) => TUAcceptMsg(tid)
TDiag == TUDiagMsg(tid, l)
=============================================================================
