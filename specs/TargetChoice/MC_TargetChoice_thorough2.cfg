CONSTANTS Deps = {"d1", "d2"}  TSvcs = {"s1"}  RSvcs = {}  NPorts = 2  Vals = {"1", "b"}
          FLens = {3}  FDistinct = TRUE  FChains = {"1", "2"}  FPreds = 2  FRestPreds = 0
          CLens = {}  CDistinct = TRUE  CChains = {"0"}  NJobs = 1  CapVals = {1}
          UseQueries = FALSE
INIT Init
NEXT GenNext
INVARIANT OrderPreserved
INVARIANT ChainIsConjunction
INVARIANT PlacedOnFirstAdmissible
INVARIANT EarlierTasksRefused
INVARIANT NeverOverAllocated
