---------------------------- MODULE TargetChoice ----------------------------
(* C13 - jobs go to the first admissible declared target.

   What `DefaultScheduler.schedule(job, binding_config, requirement)` does with one binding
   (streamflow/scheduling/scheduler.py:503, streamflow/deployment/filter/matching.py):

     targets = list(binding_config.targets)
     for f in filters: targets = await f.get_targets(job, targets)      -> ApplyFilter (one per filter)
     one _process_target task per target, created in order                -> Spawn
     every task: `async with wait_queue` (an asyncio.Condition: FIFO lock), then
        scheduled already -> return | target admissible -> _allocate_job, scheduled = True, return
        | otherwise wait() on the condition (releases the lock)           -> Eval (head of the lock queue)
     schedule() returns when the first task completes                     -> Return

   By the atomicity rule (DESIGN 3.5) a task holds the condition lock from its acquisition to its
   return or wait(), whatever it awaits in between (the connector call, the gather of the requirement
   tasks), and asyncio.Lock wakes waiters in FIFO order: one Eval per task, in spawn order.

   A configuration `cfg` is a record
     targets : sequence of [dep, svc]                     the declared order (svc = None: no service)
     filters : sequence of filters; a filter is a non-empty sequence of rules
               [dep, svc, preds]; svc = None: service not given; preds = sequence of <<port, match>>
     jobs    : sequence of [inputs, req]; inputs = sequence of <<port, value>> (every port present);
               the jobs are scheduled one after the other with the same binding (a job that was
               placed keeps its cores: later jobs see less free capacity)
     hosts   : sequence of [dep, svc, cores]: the location behind (deployment, service) and its cores
   Targets are identified by their position in cfg.targets (two targets may be equal as values).

   The declarative side (what the statement says) is `Survives`, `Survivors`, `Admissible`, `FirstAdmissible`;
   the invariants tie the operational side to it.                                                  *)
EXTENDS Integers, Sequences, FiniteSets

None == "none"

VARIABLES cfg,      \* the configuration (never changes)
          jn,       \* index of the job being scheduled
          pc,       \* "idle" | "filter" | "run" | "done"
          cur,      \* targets (positions) that survived the filters applied so far, in order
          k,        \* number of filters applied
          trail,    \* history: the sequence returned by each filter
          queue,    \* tasks (positions in cur) queued on the condition lock, FIFO
          parked,   \* tasks waiting on the condition
          sched,    \* job_context.scheduled
          chosen,   \* target of the allocation made for the current job (0: none)
          used,     \* used[h]: cores reserved on host h (index in cfg.hosts)
          out       \* one record per finished job

vars == <<cfg, jn, pc, cur, k, trail, queue, parked, sched, chosen, used, out>>

-----------------------------------------------------------------------------
(* lookups *)
RECURSIVE Lookup(_, _, _)
Lookup(pairs, key, i) == IF i > Len(pairs) THEN None
                         ELSE IF pairs[i][1] = key THEN pairs[i][2] ELSE Lookup(pairs, key, i + 1)
InputOf(job, port) == Lookup(job.inputs, port, 1)

RECURSIVE HostIdx(_, _, _, _)
HostIdx(hosts, dep, svc, i) == IF i > Len(hosts) THEN 0
                               ELSE IF hosts[i].dep = dep /\ hosts[i].svc = svc THEN i
                               ELSE HostIdx(hosts, dep, svc, i + 1)
HostOf(c, t) == HostIdx(c.hosts, c.targets[t].dep, c.targets[t].svc, 1)

-----------------------------------------------------------------------------
(* the filter chain *)
\* MatchingRule.eval: deployment matches, service matches when given, every predicate equals str(input)
Matches(rule, tgt, job) ==
    /\ rule.dep = tgt.dep
    /\ (rule.svc = None \/ rule.svc = tgt.svc)
    /\ \A i \in 1..Len(rule.preds) : rule.preds[i][2] = InputOf(job, rule.preds[i][1])

\* MatchingBindingFilter keeps a target iff some rule matches
Keeps(filter, tgt, job) == \E i \in 1..Len(filter) : Matches(filter[i], tgt, job)

\* order preserving: the kept targets in the order in which they were handed in
KeepSeq(filter, c, positions, job) ==
    LET Test(t) == Keeps(filter, c.targets[t], job) IN SelectSeq(positions, Test)

\* declaratively: a target survives iff every filter of the chain keeps it
Survives(c, job, t) == \A f \in 1..Len(c.filters) : Keeps(c.filters[f], c.targets[t], job)
Survivors(c, job) == LET Test(t) == Survives(c, job, t)
                     IN SelectSeq([i \in 1..Len(c.targets) |-> i], Test)

-----------------------------------------------------------------------------
(* hosting *)
Free(c, u, t) == LET h == HostOf(c, t) IN IF h = 0 THEN 0 ELSE c.hosts[h].cores - u[h]
Admissible(c, u, job, t) == HostOf(c, t) # 0 /\ Free(c, u, t) >= job.req

\* the first element of seq that is admissible (0: none)
RECURSIVE FirstAdmissibleFrom(_, _, _, _, _)
FirstAdmissibleFrom(c, u, job, seq, i) ==
    IF i > Len(seq) THEN 0
    ELSE IF Admissible(c, u, job, seq[i]) THEN seq[i] ELSE FirstAdmissibleFrom(c, u, job, seq, i + 1)
FirstAdmissible(c, u, job, seq) == FirstAdmissibleFrom(c, u, job, seq, 1)

-----------------------------------------------------------------------------
Job == cfg.jobs[jn]

InitWith(c) ==
    /\ cfg = c /\ jn = 1 /\ pc = "idle" /\ cur = <<>> /\ k = 0 /\ trail = <<>>
    /\ queue = <<>> /\ parked = {} /\ sched = FALSE /\ chosen = 0
    /\ used = [h \in 1..Len(c.hosts) |-> 0] /\ out = <<>>


\* schedule() is called for the next job
Request ==
    /\ pc = "idle" /\ jn <= Len(cfg.jobs)
    /\ cur' = [i \in 1..Len(cfg.targets) |-> i] /\ k' = 0 /\ trail' = <<>>
    /\ queue' = <<>> /\ parked' = {} /\ sched' = FALSE /\ chosen' = 0
    /\ pc' = "filter"
    /\ UNCHANGED <<cfg, jn, used, out>>

\* the next filter of the chain; a filter that keeps nothing raises (the job is not placed)
ApplyFilter ==
    /\ pc = "filter" /\ k < Len(cfg.filters)
    /\ cur' = KeepSeq(cfg.filters[k + 1], cfg, cur, Job)
    /\ k' = k + 1
    /\ trail' = Append(trail, cur')
    /\ UNCHANGED <<cfg, queue, parked, sched, chosen, used>>
    /\ IF cur' = <<>>
       THEN /\ out' = Append(out, [trail |-> trail', result |-> "nomatch", chosen |-> 0, usedAt |-> used])
            /\ jn' = jn + 1 /\ pc' = "idle"
       ELSE UNCHANGED <<jn, pc, out>>

\* one task per surviving target, in order; each queues on the condition lock
Spawn ==
    /\ pc = "filter" /\ k = Len(cfg.filters)
    /\ queue' = [i \in 1..Len(cur) |-> i]
    /\ pc' = "run"
    /\ UNCHANGED <<cfg, jn, cur, k, trail, parked, sched, chosen, used, out>>

\* the task at the head of the lock queue runs from the acquisition to its return or wait()
Eval ==
    /\ pc = "run" /\ queue # <<>>
    /\ LET t == Head(queue)
           tgt == cur[t]
       IN /\ queue' = Tail(queue)
          /\ IF sched THEN UNCHANGED <<parked, sched, chosen, used>>
             ELSE IF Admissible(cfg, used, Job, tgt)
             THEN /\ sched' = TRUE /\ chosen' = tgt
                  /\ used' = [used EXCEPT ![HostOf(cfg, tgt)] = @ + Job.req]
                  /\ UNCHANGED parked
             ELSE /\ parked' = parked \cup {t}
                  /\ UNCHANGED <<sched, chosen, used>>
    /\ UNCHANGED <<cfg, jn, pc, cur, k, trail, out>>

\* every task has returned or waits: schedule() has returned (allocation) or stays blocked (pending)
Return ==
    /\ pc = "run" /\ queue = <<>>
    /\ UNCHANGED <<cfg, cur, k, trail, queue, parked, sched, chosen>>
    /\ out' = Append(out, [trail |-> trail, result |-> IF sched THEN "alloc" ELSE "pending",
                           chosen |-> chosen,
                           usedAt |-> IF sched THEN [used EXCEPT ![HostOf(cfg, chosen)] = @ - Job.req] ELSE used])
    /\ jn' = jn + 1 /\ pc' = "idle"
    /\ UNCHANGED used

Done ==
    /\ pc = "idle" /\ jn > Len(cfg.jobs)
    /\ pc' = "done"
    /\ UNCHANGED <<cfg, jn, cur, k, trail, queue, parked, sched, chosen, used, out>>

Next == Request \/ ApplyFilter \/ Spawn \/ Eval \/ Return \/ Done

-----------------------------------------------------------------------------
(* Properties *)
IsIncreasing(seq) == \A i \in 1..(Len(seq) - 1) : seq[i] < seq[i + 1]
Range(seq) == {seq[i] : i \in 1..Len(seq)}

\* every filter returns a subsequence (same relative order, no duplicates) of what it was handed
OrderPreserved ==
    /\ IsIncreasing(cur)
    /\ \A i \in 1..Len(trail) : IsIncreasing(trail[i])
    /\ \A i \in 1..Len(trail) : Range(trail[i]) \subseteq (IF i = 1 THEN 1..Len(cfg.targets) ELSE Range(trail[i - 1]))

\* when the tasks are spawned, the targets are exactly the survivors of the whole chain, in declared order
ChainIsConjunction == pc = "run" => cur = Survivors(cfg, Job)

\* the statement: placed only on a surviving target, the first one (declared order) that can host the job
\* in the state in which the choice is made; not placed at all iff no surviving target can host it
PlacedOnFirstAdmissible ==
    \A j \in 1..Len(out) :
        LET o == out[j]
            job == cfg.jobs[j]
            surv == Survivors(cfg, job)
        IN /\ o.result = "nomatch" <=> surv = <<>>
           /\ o.result = "alloc" => /\ o.chosen \in Range(surv)
                                    /\ o.chosen = FirstAdmissible(cfg, o.usedAt, job, surv)
           /\ o.result = "pending" <=> (surv # <<>> /\ FirstAdmissible(cfg, o.usedAt, job, surv) = 0)
           /\ o.result # "alloc" => o.chosen = 0
           /\ (o.trail # <<>> /\ o.result # "nomatch") => o.trail[Len(o.trail)] = surv

\* at most one allocation per job, and it happens while no earlier task is still queued
\* (an earlier task either is parked - not admissible - or does not exist)
EarlierTasksRefused ==
    (pc = "run" /\ sched) =>
        \A t \in 1..Len(cur) : (cur[t] < chosen /\ t \notin Range(queue)) => t \in parked

NeverOverAllocated == \A h \in 1..Len(cfg.hosts) : used[h] >= 0 /\ used[h] <= cfg.hosts[h].cores
=============================================================================
