-------------------------- MODULE MC_TargetChoice --------------------------
(* Exhaustive runs of TargetChoice over bounded families of configurations, answers to configurations
   sent by the harness (QUERY_FILE), and emission of every finished behaviour (configuration, the
   sequence returned by each filter, result and chosen target of each job).  One run explores:

   Family "filters" (the chain): every target list of the lengths FLens over Deps x ({none} \cup TSvcs)
     (pairwise different targets when FDistinct), every chain of the shapes FChains - first filter over
     the rules with at most FPreds predicates, later filters over the rules with at most FRestPreds -,
     every input valuation of the NPorts ports, one job of 1 core, every host free.
   Family "capacity" (the choice): the target lists of the lengths CLens, the chains CChains over the rules
     without predicates, one input valuation, NJobs jobs of 1 core scheduled one after the other, every
     assignment of CapVals cores to the hosts (several targets admissible at once, only later ones
     admissible, none admissible, capacity taken by the previous job).
   Family "query" (UseQueries): the configurations of the JSON array in QUERY_FILE.                  *)
EXTENDS TargetChoice, TLC, Json, IOUtils, SequencesExt, FiniteSetsExt
CONSTANTS Deps, TSvcs,   \* deployments; services targets may name
          RSvcs,         \* services rules may name
          NPorts, Vals,  \* the job has the first NPorts ports of PortNames; the alphabet of values and matches
          FLens, FDistinct, FChains, FPreds, FRestPreds,
          CLens, CDistinct, CChains, NJobs, CapVals,
          UseQueries

PortNames == <<"p", "q">>
Ports == SubSeq(PortNames, 1, NPorts)
\* port sets a rule may constrain: {}, {p}, {q}, {p, q} limited by NPorts and the number of predicates
PredShapes(maxp) == {sh \in {<<>>, <<"p">>, <<"q">>, <<"p", "q">>} :
                       Len(sh) <= maxp /\ \A i \in 1..Len(sh) : \E j \in 1..NPorts : PortNames[j] = sh[i]}
\* chain shapes by name: "21" = a filter of 2 rules followed by a filter of 1 rule; "0" = no filter
ShapeOf(name) == CASE name = "1" -> <<1>> [] name = "2" -> <<2>> [] name = "3" -> <<3>>
                   [] name = "11" -> <<1, 1>> [] name = "21" -> <<2, 1>> [] name = "12" -> <<1, 2>>
                   [] name = "22" -> <<2, 2>> [] name = "0" -> <<>>

TKinds == [dep : Deps, svc : TSvcs \cup {None}]
RECURSIVE SeqsOver(_, _)
SeqsOver(S, n) == IF n = 0 THEN {<<>>} ELSE {Append(s, x) : s \in SeqsOver(S, n - 1), x \in S}
TargetLists(lens, distinct) == {s \in UNION {SeqsOver(TKinds, n) : n \in lens} :
                                  distinct => \A i, j \in 1..Len(s) : i # j => s[i] # s[j]}

\* predicates of a rule: for a shape <<p1, .., pn>> every assignment of values
RECURSIVE PredsOf(_)
PredsOf(shape) == IF shape = <<>> THEN {<<>>}
                  ELSE {<< <<Head(shape), v>> >> \o rest : v \in Vals, rest \in PredsOf(Tail(shape))}
RulesWith(maxp) == [dep : Deps, svc : RSvcs \cup {None}, preds : UNION {PredsOf(sh) : sh \in PredShapes(maxp)}]

\* the rules of one filter are an unordered collection: one representative sequence per set of rules
FiltersOf(n, R) == {SetToSeq(S) : S \in kSubset(n, R)}
RECURSIVE ChainsOf(_, _, _)
ChainsOf(shape, R1, Rrest) ==
    IF shape = <<>> THEN {<<>>}
    ELSE {<<f>> \o rest : f \in FiltersOf(Head(shape), R1), rest \in ChainsOf(Tail(shape), Rrest, Rrest)}
FilterChains == UNION {ChainsOf(ShapeOf(n), RulesWith(FPreds), RulesWith(FRestPreds)) : n \in FChains}
CapacityChains == UNION {ChainsOf(ShapeOf(n), RulesWith(0), RulesWith(0)) : n \in CChains}

RECURSIVE InputsOver(_)
InputsOver(ports) == IF ports = <<>> THEN {<<>>}
                     ELSE {<< <<Head(ports), v>> >> \o rest : v \in Vals, rest \in InputsOver(Tail(ports))}
Inputs == InputsOver(Ports)

KindSeq == SetToSeq(TKinds)
NK == Cardinality(TKinds)
HostsWith(cap) == [i \in 1..NK |-> [dep |-> KindSeq[i].dep, svc |-> KindSeq[i].svc, cores |-> cap[i]]]
AllFree == HostsWith([i \in 1..NK |-> 1])

\* configurations sent by the harness: a JSON array of records of the same shape
Queries == IF UseQueries THEN JsonDeserialize(IOEnv.QUERY_FILE) ELSE <<>>

Init ==
    \/ \E t \in TargetLists(FLens, FDistinct), c \in FilterChains, i \in Inputs :
          InitWith([targets |-> t, filters |-> c, jobs |-> << [inputs |-> i, req |-> 1] >>, hosts |-> AllFree])
    \/ \E t \in TargetLists(CLens, CDistinct), c \in CapacityChains, cap \in [1..NK -> CapVals] :
          LET i == CHOOSE x \in Inputs : TRUE
          IN InitWith([targets |-> t, filters |-> c, jobs |-> [n \in 1..NJobs |-> [inputs |-> i, req |-> 1]],
                       hosts |-> HostsWith(cap)])
    \/ \E q \in 1..Len(Queries) : InitWith(Queries[q])

\* emission: one JSON line per finished behaviour
EmitDone == Done /\ PrintT(ToJson([cfg |-> cfg, out |-> [j \in 1..Len(out) |->
                                      [trail |-> out[j].trail, result |-> out[j].result, chosen |-> out[j].chosen]]]))
GenNext == Request \/ ApplyFilter \/ Spawn \/ Eval \/ Return \/ EmitDone
=============================================================================
