CONSTANTS Deps = {"d1", "d2"}  TSvcs = {"s1"}  RSvcs = {"s1"}  NPorts = 1  Vals = {"1", "b"}
          FLens = {1, 2, 3, 4}  FDistinct = TRUE  FChains = {"1", "2", "3", "11"}  FPreds = 1  FRestPreds = 0
          CLens = {1, 2, 3, 4}  CDistinct = TRUE  CChains = {"0", "1"}  NJobs = 2  CapVals = {0, 1}
          UseQueries = TRUE
INIT Init
NEXT GenNext
INVARIANT OrderPreserved
INVARIANT ChainIsConjunction
INVARIANT PlacedOnFirstAdmissible
INVARIANT EarlierTasksRefused
INVARIANT NeverOverAllocated
