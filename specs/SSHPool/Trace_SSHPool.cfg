CONSTANTS NCtx = 2  NCl = 3  MaxSess = 1  Retries = 2  MaxFail = 50  MaxDrop = 50
          ConnKinds <- CK_all  OpenKinds <- OK_all  ExitAfterFail = TRUE  QOnly = TRUE
INIT TInit
NEXT TNext
INVARIANT Accept
INVARIANT TypeOK
INVARIANT SessionsBounded
INVARIANT ChansOnlyOnLive
INVARIANT HolderSound
INVARIANT AttemptsBounded
INVARIANT StreakIsAttempts
INVARIANT WfeOnlyWhenExhausted
INVARIANT NoImpossible
INVARIANT HandshakeSound
INVARIANT LockDiscipline
INVARIANT WaitersHaveNotifier
INVARIANT ClosedMeansNoConnection
CONSTRAINT Diag
