CONSTANTS NCtx = 1  NCl = 2  MaxSess = 1  Retries = 2  MaxFail = 2  MaxDrop = 1
          ConnKinds <- CK_all  OpenKinds <- OK_all  ExitAfterFail = FALSE  QOnly = FALSE
SPECIFICATION LiveSpec
PROPERTY EveryRequestServed
PROPERTY AllTerminate
