CONSTANTS NCtx = 2  NCl = 3  MaxSess = 1  Retries = 2  MaxFail = 3  MaxDrop = 1
          ConnKinds <- CK_conn  OpenKinds <- OK_all  ExitAfterFail = TRUE  QOnly = TRUE
INIT GenInit
NEXT GenNext
