---------------------------- MODULE Gen_SSHPool ----------------------------
(* Generation of behaviours for the replay binding (spec -> code): run with -simulate.  Every behaviour that reaches
   the end (all requests over, factory closed) is printed once as one JSON line: the sequence of steps, each with the
   action, whether the state reached is quiescent (no Grant pending) and the projection Obs of that state.       *)
EXTENDS SSHPool, Json
VARIABLES tr, printed
gvars == <<vars, tr, printed>>
GenInit == Init /\ tr = <<>> /\ printed = FALSE
GenNext == \/ /\ ~closed /\ (Grant \/ Env)
              /\ tr' = Append(tr, [a |-> act', q |-> Quiescent', o |-> Obs'])
              /\ UNCHANGED printed
           \/ /\ closed /\ ~printed
              /\ PrintT(ToJson(tr))
              /\ printed' = TRUE /\ UNCHANGED <<vars, tr>>
CK_conn == {"conn"}
CK_chan == {"conn", "chan"}
CK_all == {"conn", "chan", "other"}
CK_other == {"conn", "other"}
OK_all == {"chan_open", "lost", "err_open"}
=============================================================================
