------------------------------ MODULE SSHPool ------------------------------
(* The SSH connection / session pool of `streamflow/deployment/connector/ssh.py`:
   SSHContext (one connection slot), SSHContextManager (one request: `async with factory.get(cmd, env) as proc`)
   and SSHContextFactory (the pool of `maxConnections` slots sharing one asyncio.Condition).  Extension module X01.

   What the documentation promises (schemas/base/ssh.json) and the code evidently intends:
     maxConcurrentSessions  "Maximum number of concurrent session to open for a single SSH client connection"
     maxConnections         "Maximum number of concurrent connection to open for a single SSH node"
     retries                "Number of consecutive connection errors to consider the connection failed"
     retryDelay             "Time (in seconds) to wait before retrying to connect"
   => invariants SessionsBounded, ChansOnlyOnLive, AttemptsBounded, StreakIsAttempts, WfeOnlyWhenExhausted,
      HandshakeSound, NoImpossible, LockDiscipline, WaitersHaveNotifier; action properties ServedOnLive, AttemptsReset;
      liveness EveryRequestServed / AllTerminate under fairness (no lost wake-up).

   State
     per slot c      conn[c]  none | open | dead   (`_ssh_connection` is None / a live connection / a connection object
                                                    that is closed: dropped by the peer, or closed by close() and still
                                                    referenced until wait_closed() returns)
                     cing[c]  `_connecting`         evt[c]  `_connect_event.is_set()`
                     att[c]   `connection_attempts` chans[c] owners of the entries of `conn._channels`
                     streak[c] (ghost) consecutive connection errors on c since the last successful session
     per request k   pc[k], avail[k] (`available_contexts`, narrowed at every loop iteration), todo[k] (rest of the
                     `for context in free_contexts`), cur[k] (slot being tried), sel[k] (`_selected_context`),
                     proc[k] (slot hosting `_proc`), why[k] (what the task does once it owns the lock), res[k]
     condition       lock (holder or 0), lq (FIFO of tasks queued on the lock: exactly CPython's asyncio.Lock - a task finds
                     the lock free only when it is unlocked AND nobody is queued; release wakes the head), cw (tasks inside
                     condition.wait(), in order; notify_all moves them behind the tasks already queued on the lock)

   Atomicity (DESIGN.md 3.5): one action = one environment event (a request starts, asyncssh.connect / create_process /
   connection.wait_closed / process.__aexit__ completes or fails, the retry timer fires, a holder leaves its `async with`,
   the peer drops a connection) followed by the maximal run of the woken coroutine up to its next suspension point
   (operators LoopTop / TryFrom / ExitBody compose the run functionally over the state record).  `Grant` - the head of
   the lock queue, woken by a release, runs - is the only internal action.

   Environment outcomes
     connect      ok | "conn" (ConnectionError, ConnectionLost, DisconnectError, TimeoutError: the retry path)
                     | "chan" (ChannelOpenError out of asyncssh.connect: a tunnelled connect refused by the jump host;
                               a connection error like the others - the slot has no connection)
                     | "other" (an exception the pool does not handle, e.g. OSError EHOSTUNREACH / socket.gaierror: it
                               propagates to the caller, and the slot must stay usable)
     create_process ok | "chan_open" (ChannelOpenError, connection still open: not a connection error, no reset)
                     | "lost" (ConnectionLost / DisconnectError / ChannelOpenError and the connection is closed: reset,
                               wait_closed() returns at once)
                     | "err_open" (ConnectionError / TimeoutError with the connection still open: reset closes it and
                               suspends in wait_closed())
     create_process on a closed connection raises ChannelOpenError synchronously (asyncssh add_channel): no suspension.
   Failures are budgeted (MaxFail, MaxDrop) to keep the model finite; ConnKinds / OpenKinds select the classes.      *)
EXTENDS Naturals, Sequences, FiniteSets, TLC

CONSTANTS NCtx,          \* maxConnections
          NCl,           \* number of requests (client tasks), one `async with` each
          MaxSess,       \* maxConcurrentSessions
          Retries,       \* retries
          MaxFail,       \* budget of injected failures
          MaxDrop,       \* budget of connections dropped by the peer
          ConnKinds,     \* subset of {"conn", "chan", "other"}
          OpenKinds,     \* subset of {"chan_open", "lost", "err_open"}
          ExitAfterFail, \* TRUE: a request whose __aenter__ raised may still call __aexit__
          QOnly          \* TRUE: environment events happen only at quiescence (no Grant pending) - what a driver that
                         \* lets the loop run dry after every event observes; FALSE: every interleaving

Ctx == 1..NCtx
Cl == 1..NCl
AllCtx == [i \in 1..NCtx |-> i]          \* the list `self._contexts`
Range(q) == {q[i] : i \in 1..Len(q)}

VARIABLES conn, cing, evt, att, chans, streak,
          pc, avail, todo, cur, sel, proc, why, res,
          lock, lq, cw,
          nfail, ndrop, closed,
          act                             \* history: last action (hidden by VIEW in exhaustive configs)

svars == <<conn, cing, evt, att, chans, streak, pc, avail, todo, cur, sel, proc, why, res, lock, lq, cw>>
vars == <<svars, nfail, ndrop, closed, act>>

S == [conn |-> conn, cing |-> cing, evt |-> evt, att |-> att, chans |-> chans, streak |-> streak,
      pc |-> pc, avail |-> avail, todo |-> todo, cur |-> cur, sel |-> sel, proc |-> proc, why |-> why, res |-> res,
      lock |-> lock, lq |-> lq, cw |-> cw]

Set(t) == /\ conn' = t.conn /\ cing' = t.cing /\ evt' = t.evt /\ att' = t.att /\ chans' = t.chans
          /\ streak' = t.streak /\ pc' = t.pc /\ avail' = t.avail /\ todo' = t.todo /\ cur' = t.cur
          /\ sel' = t.sel /\ proc' = t.proc /\ why' = t.why /\ res' = t.res
          /\ lock' = t.lock /\ lq' = t.lq /\ cw' = t.cw

PCs == {"idle", "lockq", "wait", "connect", "evwait", "open", "closing", "sleep", "holding", "pexit", "raised", "done"}
LockPCs == {"connect", "evwait", "open", "closing", "sleep", "pexit"}     \* suspended while owning the lock
Results == {"none", "proc", "wfe", "wfe_impossible", "other"}

TypeOK ==
  /\ conn \in [Ctx -> {"none", "open", "dead"}]
  /\ cing \in [Ctx -> BOOLEAN] /\ evt \in [Ctx -> BOOLEAN]
  /\ att \in [Ctx -> 0..Retries] /\ streak \in [Ctx -> 0..Retries]
  /\ chans \in [Ctx -> SUBSET Cl]
  /\ pc \in [Cl -> PCs]
  /\ avail \in [Cl -> Seq(Ctx)] /\ todo \in [Cl -> Seq(Ctx)]
  /\ cur \in [Cl -> Ctx \cup {0}] /\ sel \in [Cl -> Ctx \cup {0}] /\ proc \in [Cl -> Ctx \cup {0}]
  /\ why \in [Cl -> {"enter", "rewait", "exit"}]
  /\ res \in [Cl -> Results]
  /\ lock \in Cl \cup {0} /\ lq \in Seq(Cl) /\ cw \in Seq(Cl)
  /\ nfail \in 0..MaxFail /\ ndrop \in 0..MaxDrop /\ closed \in BOOLEAN

Init ==
  /\ conn = [c \in Ctx |-> "none"] /\ cing = [c \in Ctx |-> FALSE] /\ evt = [c \in Ctx |-> FALSE]
  /\ att = [c \in Ctx |-> 0] /\ chans = [c \in Ctx |-> {}] /\ streak = [c \in Ctx |-> 0]
  /\ pc = [k \in Cl |-> "idle"] /\ avail = [k \in Cl |-> <<>>] /\ todo = [k \in Cl |-> <<>>]
  /\ cur = [k \in Cl |-> 0] /\ sel = [k \in Cl |-> 0] /\ proc = [k \in Cl |-> 0]
  /\ why = [k \in Cl |-> "enter"] /\ res = [k \in Cl |-> "none"]
  /\ lock = 0 /\ lq = <<>> /\ cw = <<>>
  /\ nfail = 0 /\ ndrop = 0 /\ closed = FALSE
  /\ act = [n |-> "Init", k |-> 0, x |-> ""]

---------------------------------------------------------------------------------------------------------------
(* The coroutine bodies, as functions from state record to state record (the run up to the next suspension). *)

Unlock(s) == [s EXCEPT !.lock = 0]

\* the request ends by raising out of __aenter__ (`async with self._condition` releases the lock)
Raise(s, k, r) == Unlock([s EXCEPT !.pc[k] = "raised", !.res[k] = r, !.cur[k] = 0, !.todo[k] = <<>>, !.avail[k] = <<>>])

\* SSHContext.full()
Full(s, c) == s.conn[c] # "none" /\ Cardinality(s.chans[c]) >= MaxSess

\* SSHContext.reset() once the connection (if any) is gone: close() leaves no connection and clears `_connecting`;
\* one more consecutive connection error; the connect event is cleared
ResetCtx(s, c) == [s EXCEPT !.conn[c] = "none", !.cing[c] = FALSE, !.chans[c] = {}, !.evt[c] = FALSE,
                            !.att[c] = @ + 1, !.streak[c] = @ + 1]

\* `for context in free_contexts:` from the head of `list`; falls through to `await asyncio.sleep(retry_delay)`
RECURSIVE TryFrom(_, _, _)
TryFrom(s, k, list) ==
  IF list = <<>>
  THEN [s EXCEPT !.pc[k] = "sleep", !.todo[k] = <<>>, !.cur[k] = 0]
  ELSE LET c == Head(list)
           rest == Tail(list)
       IN IF s.conn[c] = "none"
          THEN IF ~s.cing[c]
               THEN \* get_connection: `_connecting = True`, suspends in asyncssh.connect
                    [s EXCEPT !.cing[c] = TRUE, !.pc[k] = "connect", !.cur[k] = c, !.todo[k] = rest]
               ELSE IF s.evt[c]
                    THEN \* `await _connect_event.wait()` returns at once, no connection: WorkflowExecutionException
                         \* ("Impossible to connect"), which __aenter__ does not handle
                         Raise(s, k, "wfe_impossible")
                    ELSE [s EXCEPT !.pc[k] = "evwait", !.cur[k] = c, !.todo[k] = rest]
          ELSE IF s.conn[c] = "dead"
               THEN \* create_process on a closed connection raises ChannelOpenError synchronously, is_closed():
                    \* reset() (close + wait_closed return at once) and on to the next slot
                    TryFrom(ResetCtx([s EXCEPT !.sel[k] = 0], c), k, rest)
               ELSE \* `_selected_context = context`; create_process registers the channel and suspends
                    [s EXCEPT !.sel[k] = c, !.chans[c] = @ \cup {k}, !.pc[k] = "open", !.cur[k] = c, !.todo[k] = rest]

\* top of `while True:` in __aenter__ (lock owned)
LoopTop(s, k) ==
  LET av == SelectSeq(s.avail[k], LAMBDA c : s.att[c] < Retries)
      free == SelectSeq(av, LAMBDA c : ~Full(s, c))
      s1 == [s EXCEPT !.avail[k] = av]
  IN IF av = <<>> THEN Raise(s1, k, "wfe")
     ELSE IF free = <<>> THEN Unlock([s1 EXCEPT !.pc[k] = "wait", !.cw = Append(@, k)])
     ELSE TryFrom(s1, k, free)

\* notify_all() then leave `async with self._condition`: the waiters queue on the lock behind the tasks already queued
NotifyRelease(s, k) ==
  Unlock([s EXCEPT !.pc = [j \in Cl |-> IF j = k THEN "done" ELSE IF j \in Range(s.cw) THEN "lockq" ELSE s.pc[j]],
                   !.why = [j \in Cl |-> IF j \in Range(s.cw) THEN "rewait" ELSE s.why[j]],
                   !.lq = s.lq \o s.cw, !.cw = <<>>])

\* body of __aexit__ (lock owned)
ExitBody(s, k) ==
  IF s.sel[k] # 0
  THEN IF s.proc[k] # 0 /\ k \in s.chans[s.proc[k]]
       THEN [s EXCEPT !.pc[k] = "pexit"]              \* proc.__aexit__: close(), suspends in wait_closed()
       ELSE NotifyRelease(s, k)                        \* no process, or its channel is already gone: returns at once
  ELSE Unlock([s EXCEPT !.pc[k] = "done"])

Body(s, k, reason) == IF reason = "exit" THEN ExitBody(s, k) ELSE LoopTop(s, k)

\* `async with self._condition:` - asyncio.Lock.acquire
EnterLock(s, k, reason) ==
  IF s.lock = 0 /\ s.lq = <<>>
  THEN Body([s EXCEPT !.lock = k], k, reason)
  ELSE [s EXCEPT !.lq = Append(@, k), !.why[k] = reason, !.pc[k] = "lockq"]

---------------------------------------------------------------------------------------------------------------
A(n, k, x) == act' = [n |-> n, k |-> k, x |-> x]
Same == UNCHANGED <<nfail, ndrop, closed>>
Quiescent == ~(lock = 0 /\ lq # <<>>)
G == QOnly => Quiescent                  \* guard of every environment action

Start(k) ==
  /\ G /\ pc[k] = "idle" /\ ~closed
  /\ Set(EnterLock([S EXCEPT !.avail[k] = AllCtx], k, "enter"))
  /\ Same /\ A("Start", k, "")

Grant ==
  /\ lock = 0 /\ lq # <<>>
  /\ LET k == Head(lq) IN
       /\ Set(Body([S EXCEPT !.lock = k, !.lq = Tail(@)], k, why[k]))
       /\ A("Grant", k, "")
  /\ Same

ConnectOk(k) ==
  /\ G /\ pc[k] = "connect"
  /\ LET c == cur[k] IN
       Set([S EXCEPT !.conn[c] = "open", !.evt[c] = TRUE, !.sel[k] = c, !.chans[c] = {k}, !.pc[k] = "open"])
  /\ Same /\ A("ConnectOk", k, "")

ConnectFail(k, kind) ==
  /\ G /\ pc[k] = "connect" /\ nfail < MaxFail /\ kind \in ConnKinds
  /\ LET c == cur[k] IN
       IF kind = "other"
       THEN Set(Raise([S EXCEPT !.cing[c] = FALSE, !.evt[c] = TRUE], k, "other"))
       ELSE Set(TryFrom(ResetCtx([S EXCEPT !.sel[k] = 0], c), k, todo[k]))
  /\ nfail' = nfail + 1 /\ UNCHANGED <<ndrop, closed>> /\ A("ConnectFail", k, kind)

OpenOk(k) ==
  /\ G /\ pc[k] = "open" /\ conn[cur[k]] = "open"
  /\ LET c == cur[k] IN
       Set(Unlock([S EXCEPT !.proc[k] = c, !.att[c] = 0, !.streak[c] = 0, !.pc[k] = "holding", !.res[k] = "proc",
                            !.cur[k] = 0, !.todo[k] = <<>>, !.avail[k] = <<>>]))
  /\ Same /\ A("OpenOk", k, "")

OpenFail(k, kind) ==
  /\ G /\ pc[k] = "open" /\ kind \in OpenKinds
  /\ LET c == cur[k] IN
       \/ /\ kind = "chan_open" /\ conn[c] = "open" /\ nfail < MaxFail
          /\ Set(TryFrom([S EXCEPT !.chans[c] = @ \ {k}], k, todo[k]))
          /\ nfail' = nfail + 1
       \/ /\ kind = "lost" /\ (conn[c] = "dead" \/ nfail < MaxFail)
          /\ Set(TryFrom(ResetCtx([S EXCEPT !.sel[k] = 0], c), k, todo[k]))
          /\ nfail' = IF conn[c] = "dead" THEN nfail ELSE nfail + 1
       \/ /\ kind = "err_open" /\ conn[c] = "open" /\ nfail < MaxFail
          /\ Set([S EXCEPT !.sel[k] = 0, !.conn[c] = "dead", !.chans[c] = {}, !.pc[k] = "closing"])
          /\ nfail' = nfail + 1
  /\ UNCHANGED <<ndrop, closed>> /\ A("OpenFail", k, kind)

\* the connection under a pending create_process was dropped: the call can only fail
OpenFailDead(k) == pc[k] = "open" /\ conn[cur[k]] = "dead" /\ OpenFail(k, "lost")

CloseDone(k) ==
  /\ G /\ pc[k] = "closing"
  /\ Set(TryFrom(ResetCtx(S, cur[k]), k, todo[k]))
  /\ Same /\ A("CloseDone", k, "")

SleepDone(k) ==
  /\ G /\ pc[k] = "sleep"
  /\ Set(LoopTop(S, k))
  /\ Same /\ A("SleepDone", k, "")

Release(k) ==
  /\ G /\ pc[k] = "holding"
  /\ Set(EnterLock(S, k, "exit"))
  /\ Same /\ A("Release", k, "")

ExitFail(k) ==
  /\ G /\ ExitAfterFail /\ pc[k] = "raised"
  /\ Set(EnterLock(S, k, "exit"))
  /\ Same /\ A("ExitFail", k, "")

PExitDone(k) ==
  /\ G /\ pc[k] = "pexit"
  /\ Set(NotifyRelease([S EXCEPT !.chans[proc[k]] = @ \ {k}], k))
  /\ Same /\ A("PExitDone", k, "")

Drop(c) ==
  /\ G /\ conn[c] = "open" /\ ndrop < MaxDrop
  /\ Set([S EXCEPT !.conn[c] = "dead", !.chans[c] = {}])
  /\ ndrop' = ndrop + 1 /\ UNCHANGED <<nfail, closed>> /\ A("Drop", c, "")

\* SSHContextFactory.close() once every request is over
CloseAll ==
  /\ G /\ ~closed /\ lock = 0 /\ lq = <<>> /\ \A k \in Cl : pc[k] \in {"raised", "done"}
  /\ Set([S EXCEPT !.conn = [c \in Ctx |-> "none"], !.cing = [c \in Ctx |-> FALSE], !.chans = [c \in Ctx |-> {}]])
  /\ closed' = TRUE /\ UNCHANGED <<nfail, ndrop>> /\ A("CloseAll", 0, "")

Terminated == closed /\ UNCHANGED vars

Env == \/ \E k \in Cl : Start(k)
       \/ \E k \in Cl : ConnectOk(k)
       \/ \E k \in Cl, kind \in ConnKinds : ConnectFail(k, kind)
       \/ \E k \in Cl : OpenOk(k)
       \/ \E k \in Cl, kind \in OpenKinds : OpenFail(k, kind)
       \/ \E k \in Cl : CloseDone(k)
       \/ \E k \in Cl : SleepDone(k)
       \/ \E k \in Cl : Release(k)
       \/ \E k \in Cl : ExitFail(k)
       \/ \E k \in Cl : PExitDone(k)
       \/ \E c \in Ctx : Drop(c)
       \/ CloseAll

Next == Grant \/ Env \/ Terminated

Spec == Init /\ [][Next]_vars

\* fairness: everything but injected failures and drops eventually happens
Fair == /\ WF_vars(Grant) /\ WF_vars(CloseAll)
        /\ \A k \in Cl : /\ WF_vars(Start(k)) /\ WF_vars(ConnectOk(k)) /\ WF_vars(OpenOk(k)) /\ WF_vars(CloseDone(k))
                         /\ WF_vars(SleepDone(k)) /\ WF_vars(Release(k)) /\ WF_vars(PExitDone(k))
                         /\ WF_vars(OpenFailDead(k))
LiveSpec == Init /\ [][Next]_vars /\ Fair

---------------------------------------------------------------------------------------------------------------
(* Properties *)

\* maxConcurrentSessions
SessionsBounded == \A c \in Ctx : Cardinality(chans[c]) <= MaxSess
ChansOnlyOnLive == \A c \in Ctx : conn[c] # "open" => chans[c] = {}
\* a request that holds a process got it on the slot it selected
HolderSound == \A k \in Cl : pc[k] = "holding" => res[k] = "proc" /\ proc[k] # 0 /\ sel[k] = proc[k]
\* retries
AttemptsBounded == \A c \in Ctx : att[c] <= Retries
StreakIsAttempts == \A c \in Ctx : att[c] = streak[c]       \* attempts = CONSECUTIVE connection errors
WfeOnlyWhenExhausted == \A k \in Cl : res[k] = "wfe" => \A c \in Ctx : att[c] = Retries
NoImpossible == \A k \in Cl : res[k] # "wfe_impossible" /\ pc[k] # "evwait"
\* `_connecting` without a connection means a connect is really in flight
HandshakeSound == \A c \in Ctx : (conn[c] = "none" /\ cing[c]) => \E k \in Cl : pc[k] = "connect" /\ cur[k] = c
\* the condition's lock
LockDiscipline == /\ \A k \in Cl : pc[k] \in LockPCs <=> lock = k
                  /\ \A k \in Cl : pc[k] = "lockq" <=> k \in Range(lq)
                  /\ \A k \in Cl : pc[k] = "wait" <=> k \in Range(cw)
                  /\ \A i, j \in 1..Len(lq) : i # j => lq[i] # lq[j]
\* no lost wake-up, safety half: whoever waits on the condition still has somebody who will notify
WaitersHaveNotifier ==
  cw # <<>> => \E j \in Cl : sel[j] # 0 /\ (pc[j] \in {"holding", "pexit"} \/ (pc[j] = "lockq" /\ why[j] = "exit"))
ClosedMeansNoConnection == closed => \A c \in Ctx : conn[c] = "none"

\* action properties
ServedOnLive == [][\A k \in Cl : (pc[k] = "open" /\ pc'[k] = "holding") =>
                      (conn[cur[k]] = "open" /\ conn'[cur[k]] = "open" /\ k \in chans'[cur[k]])]_vars
AttemptsReset == [][\A c \in Ctx : att'[c] < att[c] =>
                      (att'[c] = 0 /\ \E k \in Cl : pc[k] = "open" /\ pc'[k] = "holding" /\ cur[k] = c)]_vars
DeadIsForever == [][\A c \in Ctx : att[c] = Retries => att'[c] = Retries]_vars

\* liveness (under Fair)
Served(k) == pc[k] \in {"holding", "pexit", "raised", "done"} \/ (pc[k] = "lockq" /\ why[k] = "exit")
EveryRequestServed == \A k \in Cl : (pc[k] # "idle") ~> Served(k)
AllTerminate == <>[](closed /\ \A k \in Cl : pc[k] \in {"raised", "done"})

---------------------------------------------------------------------------------------------------------------
(* What the binding compares at quiescence (the same projection is computed from the real objects). *)
Obs == [pc |-> pc, conn |-> conn, ncing |-> [c \in Ctx |-> conn[c] = "none" /\ cing[c]], att |-> att,
        chans |-> chans, lock |-> lock, lq |-> lq, cw |-> cw, res |-> res]
=============================================================================
