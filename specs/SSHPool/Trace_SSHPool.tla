--------------------------- MODULE Trace_SSHPool ---------------------------
(* Trace validation (code -> spec).  A trace is what one execution of the real SSHContextFactory / SSHContextManager /
   SSHContext under the schedule driver (harness/vh/sut/sshpool.py) produced: the environment events the driver
   applied (it acts only at quiescence), each carrying the observation `o` made on the real objects BEFORE it
   (pc per request, per slot: connection none/open/dead, `_connecting` without a connection, connection_attempts, owners
   of the open channels; lock holder, lock queue, condition waiters; outcome per request), closed by an End event.
   Every event must be explained by the corresponding action of SSHPool from a state whose projection equals the
   observation; `Grant` (the queued lock waiter runs) is the only silent step.  All invariants of SSHPool are
   evaluated on every state of every trace.                                                                      *)
EXTENDS SSHPool, TraceUtil

VARIABLES tid, l
tvars == <<vars, tid, l>>

Tr == Traces[tid]
More == l <= Len(Tr)
Ev == Tr[l]
SetOf(s) == {s[i] : i \in 1..Len(s)}

\* a comparison that names the field when the diagnostic pass is on
Chk(f, c) == c \/ (IOEnv.DIAG = "1" /\ PrintT("MISMATCH " \o ToString(tid) \o " " \o ToString(l) \o " " \o f) /\ FALSE)

ObsOK(e) ==
  /\ Quiescent
  /\ Chk("pc", \A k \in Cl : pc[k] = e.o.pc[k])
  /\ Chk("res", \A k \in Cl : res[k] = e.o.res[k])
  /\ Chk("conn", \A c \in Ctx : conn[c] = e.o.conn[c])
  /\ Chk("ncing", \A c \in Ctx : (conn[c] = "none" /\ cing[c]) = e.o.ncing[c])
  /\ Chk("att", \A c \in Ctx : att[c] = e.o.att[c])
  /\ Chk("chans", \A c \in Ctx : chans[c] = SetOf(e.o.chans[c]))
  /\ Chk("lock", lock = e.o.lock)
  /\ Chk("lq", lq = e.o.lq)
  /\ Chk("cw", cw = e.o.cw)

Consume == l' = l + 1 /\ UNCHANGED tid
Is(name) == More /\ Ev.n = name

TInit == Init /\ tid \in 1..Len(Traces) /\ l = 1

TStart == Is("Start") /\ ObsOK(Ev) /\ Start(Ev.k) /\ Consume
TConnectOk == Is("ConnectOk") /\ ObsOK(Ev) /\ ConnectOk(Ev.k) /\ Consume
TConnectFail == Is("ConnectFail") /\ ObsOK(Ev) /\ ConnectFail(Ev.k, Ev.x) /\ Consume
TOpenOk == Is("OpenOk") /\ ObsOK(Ev) /\ OpenOk(Ev.k) /\ Consume
TOpenFail == Is("OpenFail") /\ ObsOK(Ev) /\ OpenFail(Ev.k, Ev.x) /\ Consume
TCloseDone == Is("CloseDone") /\ ObsOK(Ev) /\ CloseDone(Ev.k) /\ Consume
TSleepDone == Is("SleepDone") /\ ObsOK(Ev) /\ SleepDone(Ev.k) /\ Consume
TRelease == Is("Release") /\ ObsOK(Ev) /\ Release(Ev.k) /\ Consume
TExitFail == Is("ExitFail") /\ ObsOK(Ev) /\ ExitFail(Ev.k) /\ Consume
TPExitDone == Is("PExitDone") /\ ObsOK(Ev) /\ PExitDone(Ev.k) /\ Consume
TDrop == Is("Drop") /\ ObsOK(Ev) /\ Drop(Ev.k) /\ Consume
TCloseAll == Is("CloseAll") /\ ObsOK(Ev) /\ CloseAll /\ Consume
TEnd == Is("End") /\ ObsOK(Ev) /\ UNCHANGED vars /\ Consume
TGrant == More /\ Grant /\ UNCHANGED <<tid, l>>

TNext == \/ TStart \/ TConnectOk \/ TConnectFail \/ TOpenOk \/ TOpenFail \/ TCloseDone \/ TSleepDone
         \/ TRelease \/ TExitFail \/ TPExitDone \/ TDrop \/ TCloseAll \/ TEnd \/ TGrant

Accept == (~More) => TUAcceptMsg(tid)
Diag == TUDiagMsg(tid, l)
CK_all == {"conn", "chan", "other"}
OK_all == {"chan_open", "lost", "err_open"}
=============================================================================
