CONSTANTS NCtx = 1  NCl = 3  MaxSess = 1  Retries = 2  MaxFail = 2  MaxDrop = 1
          ConnKinds <- CK_all  OpenKinds <- OK_all  ExitAfterFail = TRUE  QOnly = FALSE
INIT Init
NEXT Next
VIEW View
INVARIANT TypeOK
INVARIANT SessionsBounded
INVARIANT ChansOnlyOnLive
INVARIANT HolderSound
INVARIANT AttemptsBounded
INVARIANT StreakIsAttempts
INVARIANT WfeOnlyWhenExhausted
INVARIANT NoImpossible
INVARIANT HandshakeSound
INVARIANT LockDiscipline
INVARIANT WaitersHaveNotifier
INVARIANT ClosedMeansNoConnection
PROPERTY ServedOnLive
PROPERTY AttemptsReset
PROPERTY DeadIsForever
