CONSTANTS NCtx = 2  NCl = 3  MaxSess = 1  Retries = 2  MaxFail = 2  MaxDrop = 1
          ConnKinds <- CK_all  OpenKinds <- OK_all  ExitAfterFail = FALSE  QOnly = TRUE
INIT Init
NEXT Next
VIEW View
INVARIANT TypeOK
INVARIANT SessionsBounded
INVARIANT ChansOnlyOnLive
INVARIANT HolderSound
INVARIANT AttemptsBounded
INVARIANT StreakIsAttempts
INVARIANT WfeOnlyWhenExhausted
INVARIANT NoImpossible
INVARIANT HandshakeSound
INVARIANT LockDiscipline
INVARIANT WaitersHaveNotifier
INVARIANT ClosedMeansNoConnection
PROPERTY ServedOnLive
PROPERTY AttemptsReset
PROPERTY DeadIsForever
