----------------------------- MODULE MC_SSHPool -----------------------------
EXTENDS SSHPool
(* `act` is a history variable: hidden from the fingerprint in the exhaustive configurations. *)
View == <<svars, nfail, ndrop, closed>>
CK_conn == {"conn"}
CK_all == {"conn", "chan", "other"}
CK_chan == {"conn", "chan"}
CK_other == {"conn", "other"}
OK_all == {"chan_open", "lost", "err_open"}
OK_two == {"chan_open", "lost"}
=============================================================================
