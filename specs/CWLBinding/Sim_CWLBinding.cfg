CONSTANTS
  Families = {"seed"}
  MaxGrow = 9
  MinElems = 4
INIT Init
NEXT Next
INVARIANT InvWellFormed
INVARIANT InvDeclarationOrder
INVARIANT InvNullAddsNothing
INVARIANT InvSorted
INVARIANT InvStepWellFormed
INVARIANT InvRuntimeEnv
INVARIANT EmitInv
