---------------------------- MODULE MC_CWLBinding ----------------------------
(* The enumerated tool space of C30 and the model-level sanity theorems of the transcription.
   A state of this model is ONE tool description; TLC visits every tool of the selected families
   (Init) and may grow it by one bound input / argument (Next, bounded by MaxGrow; used with
   -simulate to draw larger random tools).  Invariants relate the expected argument vector of a tool
   to that of its variants (declaration order, shellQuote without the requirement, null inputs):
   they guard the transcription, the verdict on StreamFlow comes from the harness.               *)
EXTENDS CWLBinding
CONSTANTS Families,      \* subset of {"single", "noshellq", "order", "shell", "streams", "quirk", "jobs", "seed"}
          MaxGrow        \* how many Next steps may add elements (0 in exhaustive configs)

Tool0 == [shell |-> FALSE, args |-> <<>>, inputs |-> <<>>, stdin |-> "", stdout |-> "", stderr |-> "", env |-> <<>>]
In(name, sh, b) == [name |-> name, ty |-> sh.ty, opt |-> sh.opt, val |-> sh.val, b |-> b, ib |-> sh.ib]
Sh(ty, opt, val, ib) == [ty |-> ty, opt |-> opt, val |-> val, ib |-> ib]
ArgStr(sem) == [kind |-> "str", sem |-> sem, ref |-> "", b |-> NoB]
ArgExpr(ref) == [kind |-> "expr", sem |-> "", ref |-> ref, b |-> NoB]
ArgRec(b) == [kind |-> "rec", sem |-> "", ref |-> "", b |-> b]
EnvLit(name, sem) == [name |-> name, kind |-> "lit", sem |-> sem, ref |-> ""]
EnvRef(name, ref) == [name |-> name, kind |-> "ref", sem |-> "", ref |-> ref]
EnvRt(name, which) == [name |-> name, kind |-> "rt", sem |-> "", ref |-> which]

-----------------------------------------------------------------------------
(* value shapes over a set S of content classes *)
ScalarShapes(S) ==
    {Sh("string", FALSE, Str(s), NoB) : s \in S}
    \cup {Sh("string", TRUE, Null, NoB)} \cup {Sh("string", TRUE, Str(s), NoB) : s \in S}
    \cup {Sh("int", FALSE, IntV, NoB)}
    \cup {Sh("boolean", FALSE, BoolV(b), NoB) : b \in BOOLEAN}
    \cup {Sh("File", FALSE, FileV("any"), NoB)}
ArrayShapes(S) ==
    {Sh("string[]", FALSE, Arr(<<>>), NoB)}
    \cup {Sh("string[]", FALSE, Arr(<<Str(s)>>), NoB) : s \in S}
    \cup {Sh("string[]", FALSE, Arr(<<Str(s), Str(t)>>), NoB) : s, t \in S}
    \cup {Sh("string[]", TRUE, Null, NoB)}
    \cup {Sh("int[]", FALSE, Arr(<<IntV, IntV>>), NoB)}
    \cup {Sh("File[]", FALSE, Arr(<<FileV("any"), FileV("any")>>), NoB)}
ItemBindings == {Bnd(0, "", "default", "", "default"), Bnd(0, "any", "default", "", "default"),
                 Bnd(0, "any", "false", "", "default")}
NestedShapes(S) ==
    {Sh("string[]", FALSE, Arr(items), ib) : items \in {<<>>} \cup {<<Str(s)>> : s \in S} \cup {<<Str(s), Str(t)>> : s, t \in S},
                                            ib \in ItemBindings}

PreSep == {<<"", "default">>, <<"any", "default">>, <<"any", "false">>, <<"any", "true">>}
OuterBindings(sq) ==
    LET base == {Bnd(0, ps[1], ps[2], isep, sq) : ps \in PreSep, isep \in {"", "any"}}
    IN base \cup {WithLit(b, "any") : b \in base} \cup {WithSelf(b) : b \in base}

One(shell, f) == [Tool0 EXCEPT !.shell = shell, !.inputs = <<f>>]

\* "single": one input, every value shape x every binding option (no ShellCommandRequirement)
FamSingle ==
    {One(FALSE, In("a", sh, b)) : sh \in ScalarShapes({"any"}) \cup ArrayShapes({"any"}) \cup NestedShapes({"any"}),
                                   b \in {bb \in OuterBindings("default") : bb.isep # "" => bb.vf # "lit"}}
    \cup {One(FALSE, In("a", sh, NoB)) : sh \in ScalarShapes({"any"}) \cup ArrayShapes({"any"}) \cup NestedShapes({"any"})}
FamSingleOK == {t \in FamSingle : LET f == t.inputs[1] IN f.b.isep # "" => (f.val.t = "arr" \/ f.ty = "string")}

\* "noshellq": shellQuote without the requirement / the requirement with quoting left on: nothing may change
NoShellQFor(shell, sq) ==
    {One(shell, In("a", sh, b)) : sh \in {Sh("string", FALSE, Str("any"), NoB), Sh("int", FALSE, IntV, NoB),
                                          Sh("boolean", FALSE, BoolV(TRUE), NoB), Sh("File", FALSE, FileV("any"), NoB),
                                          Sh("string[]", FALSE, Arr(<<Str("any"), Str("any")>>), NoB),
                                          Sh("string[]", FALSE, Arr(<<Str("any"), Str("any")>>), Bnd(0, "any", "default", "", sq))},
                                  b \in {bb \in OuterBindings(sq) : bb.sep # "true" /\ (bb.isep # "" => bb.vf = "none")}}
FamNoShellQ == NoShellQFor(FALSE, "false") \cup NoShellQFor(FALSE, "true") \cup NoShellQFor(TRUE, "default") \cup NoShellQFor(TRUE, "true")
FamNoShellQOK == {t \in FamNoShellQ : LET f == t.inputs[1] IN f.b.isep # "" => f.val.t = "arr"}

\* "order": sort keys [position, name] / [position, index], ties, negative positions, arguments
Simple(name, pos, pre) == In(name, Sh("string", FALSE, Str("any"), NoB), Bnd(pos, pre, "default", "", "default"))
ArgSets == {<<>>, <<ArgStr("any")>>, <<ArgRec(WithLit(Bnd(1, "", "default", "", "default"), "any"))>>,
            <<ArgStr("any"), ArgRec(WithLit(Bnd(0, "any", "default", "", "default"), "any"))>>,
            <<ArgRec(WithLit(Bnd(2, "", "default", "", "default"), "any")), ArgStr("any")>>,
            <<ArgExpr("a"), ArgRec(WithRef(Bnd(-1, "any", "false", "", "default"), "a"))>>}
FamOrder ==
    {[Tool0 EXCEPT !.inputs = <<Simple(n[1], p1, ""), Simple(n[2], p2, "any")>>, !.args = as] :
        n \in {<<"a", "b">>, <<"b", "a">>, <<"a", "B">>}, p1 \in {-1, 0, 1}, p2 \in {0, 1, 2}, as \in ArgSets}
    \cup {[Tool0 EXCEPT !.inputs = <<Simple(n[1], p1, ""), Simple(n[2], p2, ""), Simple(n[3], p3, "any")>>, !.args = as] :
        n \in {<<"a", "b", "c">>, <<"c", "B", "a">>}, p1 \in {0, 1, 2}, p2 \in {0, 1, 2}, p3 \in {0, 1},
        as \in {<<>>, <<ArgRec(WithLit(Bnd(1, "", "default", "", "default"), "any"))>>}}
\* arrays among other inputs: the items of one parameter stay together, in index order
FamOrderArr ==
    {[Tool0 EXCEPT !.inputs = <<In("b", sh, Bnd(pb, pre, "default", isep, "default")), Simple("a", pa, ""), Simple("c", pc, "")>>] :
        sh \in {Sh("string[]", FALSE, Arr(<<Str("any"), Str("any")>>), NoB),
                Sh("string[]", FALSE, Arr(<<Str("any"), Str("any")>>), Bnd(0, "any", "default", "", "default"))},
        pb \in {0, 1}, pre \in {"", "any"}, isep \in {"", "any"}, pa \in {0, 1}, pc \in {0, 1, 2}}

\* "quirk": array parameter WITHOUT inputBinding whose item type has one, next to other bound inputs: the
\* reference uses the item index as the leading sort-key entry, so items interleave with other parameters
FamQuirk ==
    {[Tool0 EXCEPT !.inputs = <<In("b", Sh("string[]", FALSE, Arr(items), Bnd(0, pre, "default", "", "default")), NoB),
                                 Simple("a", pa, ""), Simple("c", pc, "")>>] :
        items \in {<<Str("any"), Str("any")>>, <<Str("any"), Str("any"), Str("any")>>},
        pre \in {"", "any"}, pa \in {0, 1}, pc \in {0, 1, 2}}

\* "shell": ShellCommandRequirement with shellQuote: false -- the words are lexed by sh
RefEnv == <<EnvLit("SFV_REF", "refval")>>
ShB == {Bnd(0, ps[1], ps[2], "", "false") : ps \in {<<"", "default">>, <<"plain", "default">>, <<"plain", "false">>}}
FamShell ==
    \* one unquoted string input next to a quoted one
    {[Tool0 EXCEPT !.shell = TRUE, !.env = RefEnv,
                   !.inputs = <<In("a", Sh("string", FALSE, Str(s), NoB), b), Simple("b", 1, "")>>] :
        s \in ShellSems, b \in ShB \cup {WithLit(bb, l) : bb \in ShB, l \in {"plain", "space"}}}
    \* arrays: joined by itemSeparator (one unquoted word) or item by item
    \cup {[Tool0 EXCEPT !.shell = TRUE, !.env = RefEnv,
                   !.inputs = <<In("a", Sh("string[]", FALSE, Arr(<<Str(p[1]), Str(p[2])>>), ib), Bnd(0, pre, "default", isep, "false"))>>] :
        p \in {<<"space", "plain">>, <<"empty", "space">>, <<"sqwrap", "envref">>}, pre \in {"", "plain"},
        isep \in {"", "plain"}, ib \in {NoB, Bnd(0, "plain", "default", "", "false")}}
    \* arguments
    \cup {[Tool0 EXCEPT !.shell = TRUE, !.env = RefEnv, !.inputs = <<Simple("b", 1, "any")>>,
                   !.args = <<ArgStr("any"), ArgRec(WithLit(b, l))>>] : b \in ShB, l \in ShellSems}
    \cup {[Tool0 EXCEPT !.shell = TRUE, !.env = RefEnv,
                   !.inputs = <<In("a", Sh("string", FALSE, Str(s), NoB), NoB)>>,
                   !.args = <<ArgRec(WithRef(b, "a")), ArgExpr("a")>>] : b \in ShB, s \in ShellSems}

\* "streams": stdin / stdout / stderr redirection and EnvVarRequirement, with and without the shell requirement
FamStreams ==
    {[Tool0 EXCEPT !.shell = sh, !.stdin = si, !.stdout = so, !.stderr = se, !.env = env, !.args = as,
                   !.inputs = <<Simple("a", 0, ""), In("f", Sh("File", FALSE, FileV("any"), NoB), fb)>>] :
        sh \in BOOLEAN, si \in {"", "f"}, so \in {"", "any"}, se \in {"", "any"},
        env \in {<<>>, <<EnvLit("SFV_1", "any")>>, <<EnvRef("SFV_1", "a")>>, <<EnvLit("SFV_1", "any"), EnvRef("SFV_2", "a")>>},
        as \in {<<>>}, fb \in {NoB, Bnd(1, "any", "default", "", "default")}}

-----------------------------------------------------------------------------
(* "jobs": STEPS -- one tool description executed for 2..3 jobs (CWLBinding "Steps").  The jobs differ in the
   VALUES of the inputs, and wherever the declared type allows it in their SHAPE (null / non-null, true /
   false, arrays of 0 / 1 / 2 items), so that anything carried over from an earlier job of the step
   (environment, evaluated expressions, bound tokens, redirection targets) shows in a later one.  All
   ordered pairs of alternatives are enumerated, and the triples whose neighbours differ.            *)
RtEnv == <<EnvRt("SFV_O", "outdir"), EnvRt("SFV_T", "tmpdir")>>
Step(t, more) == [tool |-> t, more |-> more]
\* what one input of the declared shape may hold in the different jobs of a step
Alts(sh) == CASE sh.ty = "string" /\ sh.opt -> {Null, Str("any")}
              [] sh.ty = "boolean" -> {BoolV(TRUE), BoolV(FALSE)}
              [] sh.ty = "string[]" -> {Arr(<<>>), Arr(<<Str("any")>>), Arr(<<Str("any"), Str("any")>>)}
              [] OTHER -> {sh.val}
JobSeqs(A) == {<<x, y>> : x, y \in A}
              \cup {s \in {<<x, y, z>> : x, y, z \in A} : Cardinality(A) > 1 => (s[1] # s[2] /\ s[2] # s[3])}
\* a step from a sequence js of 2..3 valuations (one value per declared input) of tool t
StepOf(t, js) == Step(WithVals(t, js[1]), Tail(js))

JobShapes == {Sh("string", FALSE, Str("any"), NoB), Sh("string", TRUE, Null, NoB), Sh("boolean", FALSE, BoolV(TRUE), NoB),
              Sh("int", FALSE, IntV, NoB), Sh("File", FALSE, FileV("any"), NoB), Sh("string[]", FALSE, Arr(<<>>), NoB),
              Sh("string[]", FALSE, Arr(<<>>), Bnd(0, "any", "default", "", "default"))}
JobBindings == {NoB, Bnd(0, "", "default", "", "default"), Bnd(0, "any", "default", "", "default"),
                Bnd(0, "any", "false", "", "default"), WithSelf(Bnd(0, "any", "default", "", "default")),
                Bnd(0, "any", "default", "any", "default")}
\* one input, every shape alternation x the main binding options; the tool also publishes its runtime directories
FamJobsSingle ==
    UNION {{StepOf([Tool0 EXCEPT !.env = RtEnv, !.inputs = <<In("a", sh, b)>>], [j \in 1..Len(vs) |-> <<vs[j]>>]) :
               b \in JobBindings, vs \in JobSeqs(Alts(sh))} : sh \in JobShapes}
FamJobsSingleOK ==
    {r \in FamJobsSingle : LET f == r.tool.inputs[1]
                           IN /\ (f.b.has \/ f.ib.has)                                \* something is bound
                              /\ (f.ty = "boolean" => f.b.prefix # "")                  \* (a flag without prefix adds nothing)
                              /\ (f.b.isep # "" => (f.ty = "string[]" /\ ~f.ib.has))}   \* (itemSeparator + item binding: a listed quirk)
\* redirections and the environment: stdin comes from the job's own File, the captured streams and every
\* EnvVarRequirement value (literal, $(inputs.a), $(runtime.*)) are the job's own
FamJobsStreams ==
    {Step([Tool0 EXCEPT !.shell = sh, !.stdin = si, !.stdout = so, !.stderr = so, !.env = env,
                        !.inputs = <<Simple("a", 0, ""), In("f", Sh("File", FALSE, FileV("any"), NoB), NoB)>>],
          [j \in 1..n |-> <<Str("any"), FileV("any")>>]) :
        sh \in BOOLEAN, si \in {"", "f"}, so \in {"", "any"}, n \in 1..2,
        env \in {<<>>, RtEnv, <<EnvRef("SFV_1", "a")>>, RtEnv \o <<EnvLit("SFV_1", "any"), EnvRef("SFV_2", "a")>>}}
\* arguments are evaluated per job: $(inputs.a) where a is null in some jobs, a flag that flips
JobArgSets == {<<ArgExpr("a")>>, <<ArgExpr("a"), ArgRec(WithRef(Bnd(-1, "any", "false", "", "default"), "a"))>>,
               <<ArgStr("any"), ArgRec(WithRef(Bnd(1, "any", "default", "", "default"), "a"))>>}
FamJobsArgs ==
    UNION {{StepOf([Tool0 EXCEPT !.args = as, !.inputs = <<In("a", sh, b), Simple("b", 2, "any")>>],
                   [j \in 1..Len(vs) |-> <<vs[j], Str("any")>>]) :
               b \in {NoB, Bnd(1, "any", "default", "", "default")}, as \in JobArgSets, vs \in JobSeqs(Alts(sh))} :
           sh \in {Sh("string", TRUE, Null, NoB), Sh("boolean", FALSE, BoolV(TRUE), NoB)}}
\* three inputs of different types change together; positions decide the order in every job
JobRows == {<<Str("any"), BoolV(TRUE), Arr(<<Str("any"), Str("any")>>)>>, <<Null, BoolV(FALSE), Arr(<<>>)>>,
            <<Str("any"), BoolV(FALSE), Arr(<<Str("any")>>)>>, <<Null, BoolV(TRUE), Arr(<<Str("any"), Str("any")>>)>>}
FamJobsMulti ==
    {StepOf([Tool0 EXCEPT !.env = env,
                          !.inputs = <<In("a", Sh("string", TRUE, Null, NoB), Bnd(1, "", "default", "", "default")),
                                       In("b", Sh("boolean", FALSE, BoolV(TRUE), NoB), Bnd(0, "any", "default", "", "default")),
                                       In("c", Sh("string[]", FALSE, Arr(<<>>), NoB), Bnd(2, "any", "default", "any", "default"))>>], js) :
        js \in JobSeqs(JobRows), env \in {<<>>, RtEnv \o <<EnvLit("SFV_1", "any")>>}}
\* ShellCommandRequirement: the unquoted word of every job is lexed on its own
FamJobsShell ==
    {Step([Tool0 EXCEPT !.shell = TRUE, !.env = RefEnv,
                        !.inputs = <<In("a", Sh("string", FALSE, Str(s1), NoB), b), Simple("b", 1, "")>>],
          << <<Str(s2), Str("any")>> >>) : s1 \in ShellSems, s2 \in ShellSems, b \in ShB}
FamJobsShellOK == {r \in FamJobsShell : r.more[1][1] # r.tool.inputs[1].val}
FamJobs == [single |-> FamJobsSingleOK, streams |-> FamJobsStreams, args |-> FamJobsArgs, multi |-> FamJobsMulti,
            shell |-> FamJobsShellOK]
AllJobs == UNION {FamJobs[k] : k \in DOMAIN FamJobs}

\* "seed": the tools the random walk starts from
FamSeed == {[Tool0 EXCEPT !.shell = sh] : sh \in BOOLEAN}

Tools == (IF "single" \in Families THEN FamSingleOK ELSE {})
         \cup (IF "noshellq" \in Families THEN FamNoShellQOK ELSE {})
         \cup (IF "order" \in Families THEN FamOrder \cup FamOrderArr ELSE {})
         \cup (IF "quirk" \in Families THEN FamQuirk ELSE {})
         \cup (IF "shell" \in Families THEN FamShell ELSE {})
         \cup (IF "streams" \in Families THEN FamStreams ELSE {})
         \cup (IF "seed" \in Families THEN FamSeed ELSE {})

-----------------------------------------------------------------------------
VARIABLES tool,     \* the tool description (with the input values of the first -- usually the only -- job)
          more,     \* the input values of the later jobs of the step (<<>>: the tool runs once)
          grown
vars == <<tool, more, grown>>

Init == /\ grown = 0
        /\ \/ tool \in Tools /\ more = <<>>
           \/ "jobs" \in Families /\ \E r \in AllJobs : tool = r.tool /\ more = r.more

(* growing a tool (simulation): add one more bound input or argument drawn from the option space *)
FreeNames == {NameOrder[i] : i \in 1..Len(NameOrder)} \ {tool.inputs[k].name : k \in 1..Len(tool.inputs)}
GrowBindings == {Bnd(p, ps[1], ps[2], isep, sq) : p \in -1..2, ps \in PreSep, isep \in {"", "any"}, sq \in {"default", "true"}}
GrowShapes == ScalarShapes({"any"}) \cup ArrayShapes({"any"}) \cup NestedShapes({"any"})
\* (RandomElement keeps the branching of the random walk small: one candidate per step and kind)
AddInput == /\ Len(tool.inputs) < 6 /\ FreeNames # {}
            /\ LET n == RandomElement(FreeNames)
                   sh == RandomElement(GrowShapes)
                   b0 == RandomElement(GrowBindings)
                   vf == RandomElement({"none", "nil", "lit", "self"})
                   b == IF vf = "lit" THEN WithLit(b0, "any") ELSE IF vf = "self" THEN WithSelf(b0) ELSE b0
               IN /\ b.isep # "" => (sh.val.t = "arr" /\ b.vf # "lit")
                  /\ tool' = [tool EXCEPT !.inputs = Append(@, In(n, sh, b))]
GrowArgs == {ArgStr("any")} \cup {ArgRec(WithLit(Bnd(p, ps[1], ps[2], "", "default"), "any")) : p \in -1..2, ps \in PreSep}
            \cup {ArgExpr(tool.inputs[k].name) : k \in 1..Len(tool.inputs)}
            \cup {ArgRec(WithRef(Bnd(p, ps[1], ps[2], "", "default"), tool.inputs[k].name)) :
                      p \in 0..1, ps \in PreSep, k \in 1..Len(tool.inputs)}
AddArg == /\ Len(tool.args) < 3
          /\ tool' = [tool EXCEPT !.args = Append(@, RandomElement(GrowArgs))]
AddStream == \/ tool.stdout = "" /\ tool' = [tool EXCEPT !.stdout = "any"]
             \/ tool.stderr = "" /\ tool' = [tool EXCEPT !.stderr = "any"]
             \/ /\ tool.env = <<>>
                /\ \E k \in 1..Len(tool.inputs) : tool.inputs[k].val.t = "str" /\ tool.inputs[k].val.s = "any"
                      /\ tool' = [tool EXCEPT !.env = <<EnvLit("SFV_1", "any"), EnvRef("SFV_2", tool.inputs[k].name)>>]
             \/ /\ tool.stdin = ""
                /\ \E k \in 1..Len(tool.inputs) : tool.inputs[k].val.t = "file"
                      /\ tool' = [tool EXCEPT !.stdin = tool.inputs[k].name]
Next == /\ grown < MaxGrow
        /\ grown' = grown + 1
        /\ (AddInput \/ AddArg \/ AddStream)
        /\ WellFormed(tool')
        /\ UNCHANGED more

Spec == Init /\ [][Next]_vars

-----------------------------------------------------------------------------
(* Sanity theorems of the transcription (checked on every enumerated tool) *)
InvWellFormed == WellFormed(tool)

Reverse(s) == [i \in 1..Len(s) |-> s[Len(s) + 1 - i]]
\* the order in which the inputs are DECLARED is irrelevant (sort keys of parameters are unique)
InvDeclarationOrder == Argv([tool EXCEPT !.inputs = Reverse(@)]) = Argv(tool)

\* shellQuote is only honoured under ShellCommandRequirement ...
ClearSq(b) == [b EXCEPT !.sq = "default"]
NoSq(t) == [t EXCEPT !.inputs = [k \in 1..Len(t.inputs) |-> [t.inputs[k] EXCEPT !.b = ClearSq(@), !.ib = ClearSq(@)]],
                     !.args = [k \in 1..Len(t.args) |-> [t.args[k] EXCEPT !.b = ClearSq(@)]]]
InvShellQuoteNeedsRequirement == ~tool.shell => Argv(NoSq(tool)) = Argv(tool)
\* ... and the requirement alone changes nothing: a tool without shellQuote: false gets the same words
InvRequirementAloneIsNeutral == NoSq(tool) = tool => Argv([tool EXCEPT !.shell = FALSE]) = Argv([tool EXCEPT !.shell = TRUE])

\* null inputs contribute nothing
NonNull(t) == [t EXCEPT !.inputs = SelectSeq(@, LAMBDA f : f.val.t # "null")]
RefsNonNull(t) == /\ \A k \in 1..Len(t.args) : t.args[k].kind = "expr" => InputByName(t, t.args[k].ref).val.t # "null"
                  /\ \A k \in 1..Len(t.args) : (t.args[k].kind = "rec" /\ t.args[k].b.vf = "ref") => InputByName(t, t.args[k].b.vfref).val.t # "null"
InvNullAddsNothing == RefsNonNull(tool) => Argv(NonNull(tool)) = Argv(tool)

\* the leaves are sorted and no two leaves share a key (so the order is fully determined)
InvSorted == LET s == Sorted(tool) IN \A i, j \in 1..Len(s) : i < j => KeyLess(s[i].key, s[j].key)

\* every word of a quoted leaf arrives as ONE argument
InvOwners == Len(Owners(tool)) = Len(Argv(tool))

(* Steps *)
InvStepWellFormed == StepWellFormed(tool, more)
\* a job's expectation is that of the job alone: the other jobs of the step (their values, their number, their
\* order) do not occur in it
InvJobAlone == \A j \in 1..NJobs(more) : ExpectedJob(tool, more, j) = ExpectedJob(JobTool(tool, more, j), <<>>, 1)
InvJobsSorted == \A n \in 1..NJobs(more) : LET s == Sorted(JobTool(tool, more, n))
                                            IN \A i, j \in 1..Len(s) : i < j => KeyLess(s[i].key, s[j].key)
\* the runtime environment is always expected, and is the job's own
InvRuntimeEnv == \A j \in 1..NJobs(more) :
                    LET e == ExpectedJob(tool, more, j)
                    IN e.cwd = ARt("outdir") /\ Len(e.rtenv) = 2 /\ e.rtenv[1].text = <<e.cwd>>
=============================================================================
