CONSTANTS
  Families = {"single", "noshellq", "order", "quirk", "shell", "streams", "jobs"}
  MaxGrow = 0
  MinElems = 99
INIT Init
NEXT Next
