---------------------------- MODULE Gen_CWLBinding ----------------------------
(* Generation: TLC evaluates the expected argument vector / environment / redirections of every tool
   of the enumerated families and serialises [family, tool, expected] as JSON (OUT_FILE); in the
   simulation config the same is printed for every visited state of the random growth.          *)
EXTENDS MC_CWLBinding, Json, IOUtils, SequencesExt

\* more / expmore: the values and the expectations of the later jobs of a step (<<>> for a tool that runs once)
Case(fam, t) == [fam |-> fam, tool |-> t, exp |-> Expected(t), more |-> <<>>, expmore |-> <<>>]
StepCase(fam, r) == [fam |-> fam, tool |-> r.tool, exp |-> ExpectedJob(r.tool, r.more, 1), more |-> r.more,
                     expmore |-> [j \in 1..Len(r.more) |-> ExpectedJob(r.tool, r.more, j + 1)]]
StepCasesOf(fam, S) == LET q == SetToSeq(S) IN [i \in 1..Len(q) |-> StepCase(fam, q[i])]
CasesOf(fam, S) == LET q == SetToSeq(S) IN [i \in 1..Len(q) |-> Case(fam, q[i])]
AllCases == (IF "single" \in Families THEN CasesOf("single", FamSingleOK) ELSE <<>>)
            \o (IF "noshellq" \in Families THEN CasesOf("noshellq", FamNoShellQOK) ELSE <<>>)
            \o (IF "order" \in Families THEN CasesOf("order", FamOrder \cup FamOrderArr) ELSE <<>>)
            \o (IF "quirk" \in Families THEN CasesOf("quirk", FamQuirk) ELSE <<>>)
            \o (IF "shell" \in Families THEN CasesOf("shell", FamShell) ELSE <<>>)
            \o (IF "streams" \in Families THEN CasesOf("streams", FamStreams) ELSE <<>>)
            \o (IF "jobs" \in Families
                THEN StepCasesOf("jobs-single", FamJobs.single) \o StepCasesOf("jobs-streams", FamJobs.streams)
                     \o StepCasesOf("jobs-args", FamJobs.args) \o StepCasesOf("jobs-multi", FamJobs.multi)
                     \o StepCasesOf("jobs-shell", FamJobs.shell)
                ELSE <<>>)

ASSUME "OUT_FILE" \in DOMAIN IOEnv => JsonSerialize(IOEnv.OUT_FILE, AllCases)

\* simulation: print every visited tool with at least MinInputs bound elements
CONSTANT MinElems
EmitInv == (Len(tool.inputs) + Len(tool.args) >= MinElems) => PrintT(ToJson(Case("sim", tool)))
=============================================================================
