---------------------------- MODULE Gen_CWLBinding ----------------------------
(* Generation: TLC evaluates the expected argument vector / environment / redirections of every tool
   of the enumerated families and serialises [family, tool, expected] as JSON (OUT_FILE); in the
   simulation config the same is printed for every visited state of the random growth.          *)
EXTENDS MC_CWLBinding, Json, IOUtils, SequencesExt

Case(fam, t) == [fam |-> fam, tool |-> t, exp |-> Expected(t)]
CasesOf(fam, S) == LET q == SetToSeq(S) IN [i \in 1..Len(q) |-> Case(fam, q[i])]
AllCases == (IF "single" \in Families THEN CasesOf("single", FamSingleOK) ELSE <<>>)
            \o (IF "noshellq" \in Families THEN CasesOf("noshellq", FamNoShellQOK) ELSE <<>>)
            \o (IF "order" \in Families THEN CasesOf("order", FamOrder \cup FamOrderArr) ELSE <<>>)
            \o (IF "quirk" \in Families THEN CasesOf("quirk", FamQuirk) ELSE <<>>)
            \o (IF "shell" \in Families THEN CasesOf("shell", FamShell) ELSE <<>>)
            \o (IF "streams" \in Families THEN CasesOf("streams", FamStreams) ELSE <<>>)

ASSUME "OUT_FILE" \in DOMAIN IOEnv => JsonSerialize(IOEnv.OUT_FILE, AllCases)

\* simulation: print every visited tool with at least MinInputs bound elements
CONSTANT MinElems
EmitInv == (Len(tool.inputs) + Len(tool.args) >= MinElems) => PrintT(ToJson(Case("sim", tool)))
=============================================================================
