----------------------------- MODULE CWLBinding -----------------------------
(* The CWL v1.2 command-line binding algorithm (CommandLineTool section 4.1 "Input binding",
   CommandLineBinding, ShellCommandRequirement, EnvVarRequirement, stdin/stdout/stderr) over
   ABSTRACT text, as the reference implementation (cwltool: Builder.bind_input / generate_arg,
   Process._init_job, CommandLineTool.job) executes it.  The StreamFlow code it is bound to:
   streamflow/cwl/command.py (CWLCommandTokenProcessor.bind, _merge_tokens,
   CWLCommand._get_executable_command / execute), streamflow/core/utils.py (create_command),
   streamflow/deployment/connector/local.py (LocalConnector.run -> sh -c).

   Text is never inspected by the algorithm: every piece of text (a string value, a prefix, an
   itemSeparator, a literal valueFrom, an environment value, a file name) is a SLOT of the tool
   description.  A word of the expected argument vector is a sequence of ATOMS that refer to slots;
   the harness gives every slot a concrete content (character classes: plain, space, quotes, $,
   backtick, backslash, newline, ;, *, non-ASCII, empty, leading dash ...) and concatenates.
   The only place where content matters is a word that is NOT shell-quoted (shellQuote: false under
   ShellCommandRequirement): there the slot carries a *shell class* ("plain", "space", "empty",
   "sqwrap", "envref") whose lexing by sh in unquoted context is given by Frags below.

   Value            [t |-> "str", s |-> sem] | [t |-> "int"] | [t |-> "bool", b |-> BOOLEAN]
                    | [t |-> "null"] | [t |-> "file", s |-> sem] | [t |-> "arr", v |-> <<Value>>]
   Binding          [has, pos, prefix, sep, isep, vf, vfsem, vfref, sq]   (see NoB)
   Input            [name, ty, opt, val, b, ib]        ib = inputBinding of the array's item type
   Argument         [kind \in {"str","expr","rec"}, sem, ref, b]
   EnvDef           [name, kind \in {"lit","ref","rt"}, sem, ref]   ("rt": $(runtime.outdir) / $(runtime.tmpdir))
   Tool             [shell, args, inputs, stdin, stdout, stderr, env]
   Atom             [k, o, of, i, s]   k \in {"val","path","pre","sep","lit","fix","rt"}
   Step             a tool + the values of its later jobs (section "Steps" below)                  *)
EXTENDS Integers, Sequences, FiniteSets, TLC

\* Input names in code-point order (upper case sorts before lower case): the rank is the order.
NameOrder == <<"B", "C", "a", "b", "c", "d", "e", "f">>
Rank(s) == CHOOSE i \in 1..Len(NameOrder) : NameOrder[i] = s

-----------------------------------------------------------------------------
(* Constructors *)
Str(sem) == [t |-> "str", s |-> sem]
IntV == [t |-> "int"]
BoolV(b) == [t |-> "bool", b |-> b]
Null == [t |-> "null"]
FileV(sem) == [t |-> "file", s |-> sem]
Arr(items) == [t |-> "arr", v |-> items]

NoB == [has |-> FALSE, pos |-> 0, prefix |-> "", sep |-> "default", isep |-> "", vf |-> "none",
        vfsem |-> "", vfref |-> "", sq |-> "default"]
Bnd(pos, prefix, sep, isep, sq) == [NoB EXCEPT !.has = TRUE, !.pos = pos, !.prefix = prefix, !.sep = sep,
                                               !.isep = isep, !.sq = sq]
WithLit(b, sem) == [b EXCEPT !.vf = "lit", !.vfsem = sem]
WithSelf(b) == [b EXCEPT !.vf = "self"]
WithRef(b, name) == [b EXCEPT !.vf = "ref", !.vfref = name]

Atom(k, o, of, i, s) == [k |-> k, o |-> o, of |-> of, i |-> i, s |-> s]
AFix(id) == Atom("fix", "none", id, 0, "plain")
Own(o, of, i) == [o |-> o, of |-> of, i |-> i]
APre(ow, sem) == Atom("pre", ow.o, ow.of, ow.i, sem)
ASep(ow, sem) == Atom("sep", ow.o, ow.of, ow.i, sem)
ALit(ow, sem) == Atom("lit", ow.o, ow.of, ow.i, sem)

-----------------------------------------------------------------------------
(* Sort keys: sequences of numbers and names; numeric entries sort before strings, a key that is a
   proper prefix of another sorts first (cwltool.utils.cmp_like_py2).                            *)
Num(n) == [num |-> TRUE, n |-> n, s |-> ""]
Nm(s) == [num |-> FALSE, n |-> 0, s |-> s]
PartEq(p, q) == p.num = q.num /\ (IF p.num THEN p.n = q.n ELSE p.s = q.s)
PartLess(p, q) == IF p.num /\ q.num THEN p.n < q.n
                  ELSE IF p.num THEN TRUE
                  ELSE IF q.num THEN FALSE
                  ELSE Rank(p.s) < Rank(q.s)
RECURSIVE KeyLessFrom(_, _, _)
KeyLessFrom(a, b, i) == IF i > Len(a) THEN i <= Len(b)
                        ELSE IF i > Len(b) THEN FALSE
                        ELSE IF PartEq(a[i], b[i]) THEN KeyLessFrom(a, b, i + 1)
                        ELSE PartLess(a[i], b[i])
KeyLess(a, b) == KeyLessFrom(a, b, 1)

\* stable insertion sort of leaves by key
RECURSIVE Insert(_, _)
Insert(sorted, x) == IF sorted = <<>> THEN <<x>>
                     ELSE IF KeyLess(x.key, sorted[1].key) THEN <<x>> \o sorted
                     ELSE <<sorted[1]>> \o Insert(Tail(sorted), x)
RECURSIVE SortLeaves(_)
SortLeaves(s) == IF s = <<>> THEN <<>> ELSE Insert(SortLeaves(SubSeq(s, 1, Len(s) - 1)), s[Len(s)])

RECURSIVE Flat(_)
Flat(ss) == IF ss = <<>> THEN <<>> ELSE ss[1] \o Flat(Tail(ss))

-----------------------------------------------------------------------------
(* CommandLineBinding -> words (cwltool Builder.generate_arg).  A word is a sequence of atoms.   *)
\* the text of a scalar value stored at input `of`, item i (0 = the value itself)
Tostr(v, of, i) == IF v.t = "file" THEN <<Atom("path", "in", of, i, v.s)>>
                   ELSE IF v.t = "int" THEN <<Atom("val", "in", of, i, "plain")>>
                   ELSE <<Atom("val", "in", of, i, v.s)>>

RECURSIVE JoinItems(_, _, _, _)
JoinItems(items, of, sepAtom, j) ==
    IF j > Len(items) THEN <<>>
    ELSE (IF j > 1 THEN <<sepAtom>> ELSE <<>>) \o Tostr(items[j], of, j) \o JoinItems(items, of, sepAtom, j + 1)

\* b: binding, ow: owner of the binding, v: the datum after valueFrom ("lit" handled here), of/i: where v lives
GenArg(b, ow, v, of, i) ==
    LET hasPre == b.prefix # ""
        pre == IF hasPre THEN <<APre(ow, b.prefix)>> ELSE <<>>                 \* 0 or 1 atoms
        preWord == IF hasPre THEN <<pre>> ELSE <<>>                             \* 0 or 1 words
        Scalar(atoms) == IF b.sep # "false" THEN preWord \o <<atoms>> ELSE <<pre \o atoms>>
    IN  IF b.vf = "lit" THEN Scalar(<<ALit(ow, b.vfsem)>>)
        ELSE CASE v.t = "arr" ->
                    IF b.isep # "" /\ Len(v.v) > 0 THEN Scalar(JoinItems(v.v, of, ASep(ow, b.isep), 1))
                    ELSE IF b.vf # "none" THEN preWord \o [j \in 1..Len(v.v) |-> Tostr(v.v[j], of, j)]
                    ELSE IF hasPre /\ Len(v.v) > 0 THEN preWord
                    ELSE <<>>
               [] v.t = "bool" -> IF v.b /\ hasPre THEN preWord ELSE <<>>
               [] v.t = "null" -> <<>>
               [] OTHER -> Scalar(Tostr(v, of, i))

Quoted(tool, b) == ~(tool.shell /\ b.sq = "false")

-----------------------------------------------------------------------------
(* Collecting the leaf bindings (cwltool Builder.bind_input on the inputs record, then baseCommand
   and arguments in Process._init_job).  A leaf: [key, words, q, ow].                            *)
InputByName(tool, name) == tool.inputs[CHOOSE k \in 1..Len(tool.inputs) : tool.inputs[k].name = name]

InputLeaves(tool, f) ==
    IF f.val.t = "null" THEN <<>>            \* a null (or missing) field of the input record is never bound
    ELSE
    LET ownKey == <<Num(f.b.pos), Nm(f.name)>>
        ow == Own("in", f.name, 0)
        own == [key |-> ownKey, words |-> GenArg(f.b, ow, f.val, f.name, 0), q |-> Quoted(tool, f.b), ow |-> ow]
        isArr == f.val.t = "arr"
        \* the item type gets a binding of its own when it declares one, or (an empty one) when the
        \* parameter is bound without itemSeparator; a valueFrom on the parameter discards them
        hasSt == isArr /\ (f.ib.has \/ (f.b.has /\ f.b.isep = "")) /\ ~(f.b.has /\ f.b.vf # "none")
        iow == Own("item", f.name, 0)
        items == IF hasSt
                 THEN [j \in 1..Len(f.val.v) |->
                        [key |-> (IF f.b.has THEN ownKey ELSE <<>>) \o <<Num(j - 1), Num(f.ib.pos), Nm(f.name), Nm(f.name)>>,
                         words |-> GenArg(f.ib, iow, f.val.v[j], f.name, j), q |-> Quoted(tool, f.ib), ow |-> iow]]
                 ELSE <<>>
    IN items \o (IF f.b.has THEN <<own>> ELSE <<>>)

ArgLeaf(tool, a, i) ==        \* i: 0-based index in `arguments`
    LET ow == Own("arg", "", i)
    IN CASE a.kind = "str" -> [key |-> <<Num(0), Num(i)>>, words |-> <<<<ALit(ow, a.sem)>>>>, q |-> TRUE, ow |-> ow]
         [] a.kind = "expr" -> LET f == InputByName(tool, a.ref)
                               IN [key |-> <<Num(0), Num(i)>>, words |-> GenArg(WithRef(NoB, a.ref), ow, f.val, f.name, 0),
                                   q |-> TRUE, ow |-> ow]
         [] OTHER -> LET v == IF a.b.vf = "ref" THEN InputByName(tool, a.b.vfref).val ELSE Null
                     IN [key |-> <<Num(a.b.pos), Num(i)>>, words |-> GenArg(a.b, ow, v, a.b.vfref, 0),
                         q |-> Quoted(tool, a.b), ow |-> ow]

Leaves(tool) == Flat([k \in 1..Len(tool.inputs) |-> InputLeaves(tool, tool.inputs[k])])
                \o [k \in 1..Len(tool.args) |-> ArgLeaf(tool, tool.args[k], k - 1)]
Sorted(tool) == SortLeaves(Leaves(tool))

-----------------------------------------------------------------------------
(* Words that are not shell-quoted are lexed by sh.  Frags(atom): the fragments the atom's text
   splits into in unquoted context; the first joins the text before it, the last the text after. *)
ShellSems == {"plain", "space", "empty", "sqwrap", "envref"}
Frags(a) == CASE a.s = "plain" -> << <<a>> >>
              [] a.s = "space" -> << <<AFix("sp.l")>>, <<AFix("sp.r")>> >>      \* "l r"
              [] a.s = "empty" -> << <<>> >>
              [] a.s = "sqwrap" -> << <<AFix("sq.in")>> >>                      \* 'q  w' -> q  w
              [] a.s = "envref" -> << <<AFix("envref.val")>> >>                 \* $SFV_REF -> its value
              [] OTHER -> Assert(FALSE, <<"text of unknown content in an unquoted word", a>>)
RECURSIVE LexFrom(_, _, _)
LexFrom(word, j, acc) ==      \* acc: non-empty sequence of fragments, the last one still open
    IF j > Len(word) THEN acc
    ELSE LET f == Frags(word[j])
             n == Len(acc)
         IN LexFrom(word, j + 1, SubSeq(acc, 1, n - 1) \o <<acc[n] \o f[1]>> \o Tail(f))
Lex(word) == SelectSeq(LexFrom(word, 1, << <<>> >>), LAMBDA fr : fr # <<>>)

LeafArgv(leaf) == IF leaf.q THEN leaf.words ELSE Flat([j \in 1..Len(leaf.words) |-> Lex(leaf.words[j])])
Argv(tool) == LET s == Sorted(tool) IN Flat([k \in 1..Len(s) |-> LeafArgv(s[k])])
\* which binding every word of Argv comes from (for diagnosis only)
Owners(tool) == LET s == Sorted(tool) IN Flat([k \in 1..Len(s) |-> [j \in 1..Len(LeafArgv(s[k])) |-> s[k].ow]])

(* The designated directories of ONE job (CommandLineTool "Runtime environment"): every job has an output
   directory and a temporary directory of its own.  ARt("outdir") / ARt("tmpdir") stand for the directories
   of the job whose expectation is being evaluated: the process starts in its output directory,
   HOME is that directory, TMPDIR is its temporary directory, and $(runtime.outdir) / $(runtime.tmpdir)
   evaluate to the same two directories.                                                          *)
RtDirs == {"outdir", "tmpdir"}
ARt(which) == Atom("rt", "none", which, 0, "plain")
RuntimeEnv == <<[name |-> "HOME", text |-> <<ARt("outdir")>>], [name |-> "TMPDIR", text |-> <<ARt("tmpdir")>>]>>

(* EnvVarRequirement: the process sees exactly the evaluated envValue *)
EnvOf(tool) == [k \in 1..Len(tool.env) |->
                  LET e == tool.env[k]
                  IN [name |-> e.name,
                      text |-> IF e.kind = "lit" THEN <<ALit(Own("env", e.name, k), e.sem)>>
                               ELSE IF e.kind = "rt" THEN <<ARt(e.ref)>>
                               ELSE Tostr(InputByName(tool, e.ref).val, e.ref, 0)]]

Expected(tool) == [argv |-> Argv(tool), owners |-> Owners(tool), env |-> EnvOf(tool),
                   stdin |-> tool.stdin, stdout |-> tool.stdout, stderr |-> tool.stderr,
                   rtenv |-> RuntimeEnv, cwd |-> ARt("outdir")]

-----------------------------------------------------------------------------
(* Well-formedness: the domain on which the reference is defined and the model's atoms make sense *)
RECURSIVE AllAtoms(_)
AllAtoms(words) == IF words = <<>> THEN {} ELSE {words[1][j] : j \in 1..Len(words[1])} \cup AllAtoms(Tail(words))

BindingOK(b) == (b.sep = "false" => b.prefix # "")         \* cwltool: 'separate' cannot be specified without prefix

WellFormed(tool) ==
    /\ \A k \in 1..Len(tool.inputs) : BindingOK(tool.inputs[k].b) /\ BindingOK(tool.inputs[k].ib)
    /\ \A k \in 1..Len(tool.args) : BindingOK(tool.args[k].b)
    /\ \A j, k \in 1..Len(tool.inputs) : j # k => tool.inputs[j].name # tool.inputs[k].name
    \* references point to declared inputs; environment values and stdin come from non-null strings / files
    /\ \A k \in 1..Len(tool.args) :
          /\ tool.args[k].kind = "expr" => \E f \in 1..Len(tool.inputs) : tool.inputs[f].name = tool.args[k].ref
          /\ tool.args[k].kind = "rec" => tool.args[k].b.vf \in {"lit", "ref"}
          /\ (tool.args[k].kind = "rec" /\ tool.args[k].b.vf = "ref")
                => \E f \in 1..Len(tool.inputs) : tool.inputs[f].name = tool.args[k].b.vfref
    /\ \A k \in 1..Len(tool.env) : tool.env[k].kind = "ref" =>
          \E f \in 1..Len(tool.inputs) : tool.inputs[f].name = tool.env[k].ref /\ tool.inputs[f].val.t = "str"
    /\ \A k \in 1..Len(tool.env) : tool.env[k].kind = "rt" => tool.env[k].ref \in RtDirs
    \* HOME and TMPDIR are the runtime's, not EnvVarRequirement's (the reference lets its own values win)
    /\ \A k \in 1..Len(tool.env) : tool.env[k].name \notin {"HOME", "TMPDIR"}
    /\ tool.stdin # "" => \E f \in 1..Len(tool.inputs) : tool.inputs[f].name = tool.stdin /\ tool.inputs[f].val.t = "file"
    \* unquoted words only contain text whose lexing is specified
    /\ LET lv == Leaves(tool)
           unq == {a \in UNION {AllAtoms(lv[k].words) : k \in {j \in 1..Len(lv) : ~lv[j].q}} : TRUE}
       IN /\ \A a \in unq : a.s \in ShellSems
          /\ (\E a \in unq : a.s = "envref")
                => \E k \in 1..Len(tool.env) : tool.env[k].name = "SFV_REF" /\ tool.env[k].kind = "lit" /\ tool.env[k].sem = "refval"

-----------------------------------------------------------------------------
(* Steps: ONE tool description serves a SEQUENCE of jobs (the elements of a scatter, the iterations of a
   loop, the retries of a failed job).  StreamFlow keeps one CWLCommand object per step and calls its
   execute() once per job -- concurrently for a scatter -- so anything that object (or the processors it
   owns) remembers from one call is state carried between jobs.  The specification has no such state:

     what the process of job j receives is what the reference gives that job when it runs ALONE.

   A step is (t, more): t is the tool with the input values of job 1, more[j - 1][k] is the value of the
   k-th declared input in job j.  Everything else (bindings, arguments, requirements, redirections) is the
   description shared by all jobs.  No term of ExpectedJob refers to another job of the step nor to the
   order in which the jobs execute: the order is free (scatter jobs run concurrently) and irrelevant.
   The runtime atoms (ARt) of ExpectedJob(t, more, j) denote the directories of job j; those of different
   jobs are different directories (DirsOfJobsDistinct is stated on the observations by the harness).     *)
WithVals(t, vals) == [t EXCEPT !.inputs = [k \in 1..Len(t.inputs) |-> [t.inputs[k] EXCEPT !.val = vals[k]]]]
NJobs(more) == 1 + Len(more)
JobTool(t, more, j) == IF j = 1 THEN t ELSE WithVals(t, more[j - 1])
ExpectedJob(t, more, j) == Expected(JobTool(t, more, j))
ExpectedStep(t, more) == [j \in 1..NJobs(more) |-> ExpectedJob(t, more, j)]

\* the value is one the declared type admits (all jobs of a step share the declaration)
ItemType(ty) == CASE ty = "string[]" -> "string" [] ty = "int[]" -> "int" [] ty = "File[]" -> "File" [] OTHER -> "none"
RECURSIVE ValueFits(_, _, _)
ValueFits(ty, opt, v) ==
    CASE v.t = "null" -> opt
      [] v.t = "arr" -> ty \in {"string[]", "int[]", "File[]"}
                        /\ \A j \in 1..Len(v.v) : ValueFits(ItemType(ty), FALSE, v.v[j])
      [] v.t = "str" -> ty = "string"
      [] v.t = "int" -> ty = "int"
      [] v.t = "bool" -> ty = "boolean"
      [] v.t = "file" -> ty = "File"
      [] OTHER -> FALSE
StepWellFormed(t, more) ==
    /\ \A j \in 1..Len(more) : Len(more[j]) = Len(t.inputs)
    /\ \A j \in 1..NJobs(more) :
          LET tj == JobTool(t, more, j)
          IN /\ WellFormed(tj)
             /\ \A k \in 1..Len(tj.inputs) : ValueFits(tj.inputs[k].ty, tj.inputs[k].opt, tj.inputs[k].val)
=============================================================================
