CONSTANTS
  Families = {"single", "noshellq", "order", "quirk", "shell", "streams", "jobs"}
  MaxGrow = 0
INIT Init
NEXT Next
INVARIANT InvWellFormed
INVARIANT InvDeclarationOrder
INVARIANT InvShellQuoteNeedsRequirement
INVARIANT InvRequirementAloneIsNeutral
INVARIANT InvNullAddsNothing
INVARIANT InvSorted
INVARIANT InvOwners
INVARIANT InvStepWellFormed
INVARIANT InvJobAlone
INVARIANT InvJobsSorted
INVARIANT InvRuntimeEnv
