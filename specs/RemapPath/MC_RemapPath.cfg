CONSTANTS
  Sigma = {"n", "/", "%", "4", "1", " ", ":", ".", "U", "#", "?", "+"}
  L = 4
  DEEP = 99
  EMIT = TRUE
INIT Init
NEXT Next
INVARIANT Laws
