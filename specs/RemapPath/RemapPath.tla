------------------------------ MODULE RemapPath ------------------------------
(* C32 - remapping CWL File/Directory values from one directory to another is lossless.

   Transcription of `streamflow/cwl/utils.py`:

     def remap_path(path_processor, path, old_dir, new_dir):
         if ":/" in path and (scheme := urllib.parse.urlsplit(path).scheme):
             if scheme == "file":
                 return "file://" + urllib.parse.quote(path_processor.join(new_dir,
                            *os.path.relpath(urllib.parse.unquote(path[7:]), old_dir).split(os.path.sep)))
             else:
                 return path
         else:
             return path_processor.join(new_dir, *os.path.relpath(path, old_dir).split(os.path.sep))

   Strings are sequences of one-character strings over a small alphabet; `Unquote`, `RelParts`
   (= relpath + split), `JoinDir` (= posixpath.join) are sequence rewritings written after the Python
   library functions.  `Ideal` replaces exactly the directory prefix.  The traversal of CWL values
   (`remap_token_value`) is `RemapValue`.                                                          *)
EXTENDS Naturals, Sequences, FiniteSets, TLC

\* ------------------------------------------------------------------ strings
Chars(str) == [i \in 1..Len(str) |-> SubSeq(str, i, i)]        \* "ab" -> <<"a","b">>  (TLC: strings are sequences)
RECURSIVE Flat(_)
Flat(s) == IF s = <<>> THEN "" ELSE Head(s) \o Flat(Tail(s))      \* <<"a","b">> -> "ab"

StartsWith(s, p) == Len(s) >= Len(p) /\ SubSeq(s, 1, Len(p)) = p
Drop(s, n) == SubSeq(s, n + 1, Len(s))
HasColonSlash(s) == \E i \in 1..(Len(s) - 1) : s[i] = ":" /\ s[i + 1] = "/"          \* ":/" in s
IndexOf(s, c) == IF \E i \in 1..Len(s) : s[i] = c THEN CHOOSE i \in 1..Len(s) : s[i] = c /\ \A j \in 1..(i - 1) : s[j] # c ELSE 0

\* split on "/" (like str.split: n separators give n+1 parts, possibly empty)
RECURSIVE SplitFrom(_, _, _)
SplitFrom(s, i, cur) ==
  IF i > Len(s) THEN <<cur>>
  ELSE IF s[i] = "/" THEN <<cur>> \o SplitFrom(s, i + 1, <<>>)
  ELSE SplitFrom(s, i + 1, Append(cur, s[i]))
Split(s) == SplitFrom(s, 1, <<>>)

\* ------------------------------------------------------------------ urllib.parse.unquote / quote
HexUpper == {"0", "1", "2", "3", "4", "5", "6", "7", "8", "9", "A", "B", "C", "D", "E", "F"}
\* the byte %XY as a character; bytes that are not printable ASCII are the tokens "<XY>"
Byte(h1, h2) == LET x == <<h1, h2>>
                IN CASE x = <<"2", "0">> -> " "
                     [] x = <<"2", "5">> -> "%"
                     [] x = <<"3", "A">> -> ":"
                     [] x = <<"2", "3">> -> "#"
                     [] x = <<"2", "B">> -> "+"
                     [] x = <<"3", "F">> -> "?"
                     [] x = <<"2", "F">> -> "/"
                     [] x = <<"2", "E">> -> "."
                     [] x = <<"4", "1">> -> "A"
                     [] x = <<"4", "4">> -> "D"
                     [] x = <<"3", "1">> -> "1"
                     [] x = <<"3", "4">> -> "4"
                     [] x = <<"6", "E">> -> "n"
                     [] OTHER -> "<" \o h1 \o h2 \o ">"
UMark == "U"                                 \* stands for one non-ASCII character (U+00E9), UTF-8 bytes C3 A9
UBytes == <<"%", "C", "3", "%", "A", "9">>

\* left-to-right scan: "%" followed by two hex digits is one byte, any other "%" stays;
\* this is unquote, NOT unquote_plus: "+" is an ordinary character
RECURSIVE UnquoteFrom(_, _)
UnquoteFrom(s, i) ==
  IF i > Len(s) THEN <<>>
  ELSE IF s[i] = "%" /\ i + 5 <= Len(s) /\ SubSeq(s, i, i + 5) = UBytes THEN <<UMark>> \o UnquoteFrom(s, i + 6)
  ELSE IF s[i] = "%" /\ i + 2 <= Len(s) /\ s[i + 1] \in HexUpper /\ s[i + 2] \in HexUpper
       THEN <<Byte(s[i + 1], s[i + 2])>> \o UnquoteFrom(s, i + 3)
  ELSE <<s[i]>> \o UnquoteFrom(s, i + 1)
Unquote(s) == UnquoteFrom(s, 1)

\* urllib.parse.quote(s) with the default safe="/": letters, digits and "_.-~/" stay
QuoteChar(c) == CASE c = " " -> <<"%", "2", "0">>
                  [] c = "%" -> <<"%", "2", "5">>
                  [] c = ":" -> <<"%", "3", "A">>
                  [] c = "#" -> <<"%", "2", "3">>
                  [] c = "+" -> <<"%", "2", "B">>
                  [] c = "?" -> <<"%", "3", "F">>
                  [] c = UMark -> UBytes
                  [] Len(c) = 4 -> <<"%", SubSeq(c, 2, 2), SubSeq(c, 3, 3)>>     \* a byte token "<XY>" (control character)
                  [] OTHER -> <<c>>
RECURSIVE Quote(_)
Quote(s) == IF s = <<>> THEN <<>> ELSE QuoteChar(Head(s)) \o Quote(Tail(s))

\* ------------------------------------------------------------------ posixpath
\* components of normpath(p) for an ABSOLUTE path p: "" and "." vanish, ".." removes the previous one
RECURSIVE NormFold(_, _, _)
NormFold(parts, i, acc) ==
  IF i > Len(parts) THEN acc
  ELSE LET c == parts[i]
       IN IF c = <<>> \/ c = <<".">> THEN NormFold(parts, i + 1, acc)
          ELSE IF c = <<".", ".">> THEN NormFold(parts, i + 1, IF acc = <<>> THEN acc ELSE SubSeq(acc, 1, Len(acc) - 1))
          ELSE NormFold(parts, i + 1, Append(acc, c))
NormParts(p) == NormFold(Split(p), 1, <<>>)

RECURSIVE CommonLen(_, _, _)
CommonLen(a, b, i) == IF i > Len(a) \/ i > Len(b) \/ a[i] # b[i] THEN i - 1 ELSE CommonLen(a, b, i + 1)

\* os.path.relpath(p, start).split("/")  for absolute p and start
RelParts(p, start) ==
  LET pl == NormParts(p)
      sl == NormParts(start)
      n  == CommonLen(sl, pl, 1)
      rl == [j \in 1..(Len(sl) - n) |-> <<".", ".">>] \o SubSeq(pl, n + 1, Len(pl))
  IN IF rl = <<>> THEN << <<".">> >> ELSE rl

\* posixpath.join(dir, *parts)   (no part starts with "/": they come out of a split on "/")
RECURSIVE JoinDir(_, _)
JoinDir(dir, parts) ==
  IF parts = <<>> THEN dir
  ELSE JoinDir(IF dir = <<>> \/ dir[Len(dir)] = "/" THEN dir \o Head(parts) ELSE dir \o <<"/">> \o Head(parts), Tail(parts))

\* urllib.parse.urlsplit(s).scheme, lower-cased letters only occur in this family
SchemeChars == {"n", "f", "i", "l", "e", "h", "t", "p", "s", "4", "1", "."}
Letters == {"n", "f", "i", "l", "e", "h", "t", "p", "s"}
Scheme(s) == LET i == IndexOf(s, ":")
             IN IF i > 1 /\ s[1] \in Letters /\ \A j \in 1..(i - 1) : s[j] \in SchemeChars THEN SubSeq(s, 1, i - 1) ELSE <<>>

FileScheme == Chars("file://")

\* ------------------------------------------------------------------ the function under study
Remap(s, old, new) ==
  IF HasColonSlash(s) /\ Scheme(s) # <<>>              \* a string is a URL only when urlsplit finds a scheme
  THEN IF Scheme(s) = Chars("file")
       \* path[7:], NOT urlsplit(path).path: a literal "#" or "?" is an ordinary character of the name
       \* decoded, remapped and encoded again
       THEN FileScheme \o Quote(JoinDir(new, RelParts(Unquote(Drop(s, 7)), old)))
       ELSE s
  ELSE JoinDir(new, RelParts(s, old))                 \* a plain path is not percent-decoded

RoundTrip(s, old, new) == Remap(Remap(s, old, new), new, old)

\* ------------------------------------------------------------------ what it should do
\* field kinds:  "path"  plain path                    old/r
\*               "loc"   file:// + path, not encoded   file://old/r        (streamflow/cwl/step.py, command.py)
\*               "locq"  file:// + quote(path)         file://quote(old/r) (get_file_token, cwltool)
\*               "http"  another scheme                http://host/old/r
Kinds == {"path", "loc", "locq", "http"}
Under(dir, r) == dir \o <<"/">> \o r
Value(kind, r, dir) == CASE kind = "path" -> Under(dir, r)
                         [] kind = "loc"  -> FileScheme \o Under(dir, r)
                         [] kind = "locq" -> FileScheme \o Quote(Under(dir, r))
                         [] kind = "http" -> Chars("http://h") \o Under(dir, r)
\* exactly the directory prefix is replaced
Ideal(kind, r, old, new) == IF kind = "http" THEN Value(kind, r, old) ELSE Value(kind, r, new)

\* a relative part in the domain of the statement: a normalised relative path
WellFormed(r) == r # <<>> /\ \A c \in {Split(r)[i] : i \in 1..Len(Split(r))} : c # <<>> /\ c # <<".">> /\ c # <<".", ".">>

\* a file:// URL is canonical when it is what urllib.parse.quote produces for the path it denotes
Canonical(u) == LET p == Drop(u, 7) IN Quote(Unquote(p)) = p
\* "the same value": character for character; a non-canonical file:// URL only up to percent-decoding
Same(kind, got, want) == IF kind \in {"loc", "locq"} /\ ~Canonical(want)
                         THEN StartsWith(got, FileScheme) /\ Unquote(Drop(got, 7)) = Unquote(Drop(want, 7))
                         ELSE got = want

\* where the transcribed function deviates from `Ideal` (characterisation checked by TLC on the model): nowhere
\* since the three repairs of remap_path (plain paths are not decoded, URLs are encoded again, a path with ":/"
\* is not a URL); the field stays so that a later transcription can name its classes again.
Class(kind, v) == "none"

\* everything about one (kind, relative part, directory pair), computed once
Case(kind, r, old, new) ==
  LET v  == Value(kind, r, old)
      m  == Remap(v, old, new)
      t  == Remap(m, new, old)
      id == Ideal(kind, r, old, new)
  IN [kind |-> kind, v |-> v, m |-> m, id |-> id, t |-> t,
      ok |-> Same(kind, m, id), rok |-> Same(kind, t, v), cl |-> Class(kind, v)]

\* ------------------------------------------------------------------ remap_token_value
\* CWL values: [k |-> "file", cls, fields: sequence of <<name, value>>]  with leaves
\*   [k |-> "leaf", field |-> "path"|"location"|..., slot |-> "P"|"L"|...]   a string slot
\*   [k |-> "prim"]  any non-file value;  [k |-> "list", items];  [k |-> "rec", fields]
Leaf(slot) == [k |-> "leaf", slot |-> slot, remapped |-> FALSE]
Prim(x) == [k |-> "prim", x |-> x]
List(items) == [k |-> "list", items |-> items]
Rec(fields) == [k |-> "rec", cls |-> "", fields |-> fields]
Obj(cls, fields) == [k |-> "rec", cls |-> cls, fields |-> fields]

RECURSIVE RemapValue(_)
RemapField(cls, nv) ==
  IF cls \in {"File", "Directory"}
  THEN IF nv[1] \in {"location", "path"} THEN <<nv[1], [nv[2] EXCEPT !.remapped = TRUE]>>
       ELSE IF nv[1] \in {"secondaryFiles", "listing"} THEN <<nv[1], List([i \in 1..Len(nv[2].items) |-> RemapValue(nv[2].items[i])])>>
       ELSE nv
  ELSE <<nv[1], RemapValue(nv[2])>>
RemapValue(v) ==
  CASE v.k = "list" -> List([i \in 1..Len(v.items) |-> RemapValue(v.items[i])])
    [] v.k = "rec"  -> [v EXCEPT !.fields = [i \in 1..Len(v.fields) |-> RemapField(v.cls, v.fields[i])]]
    [] OTHER -> v
=============================================================================
