--------------------------- MODULE Gen_RemapValue ---------------------------
(* remap_token_value: the traversal.  TLC applies `RemapValue` to a catalogue of value shapes whose
   string leaves are slots (P plain path, L file:// URL, Q quoted file:// URL, H http URL, X any other
   string) and prints, per shape, the value and the value with the remapped leaves marked.  The driver
   instantiates the slots with every enumerated string.                                            *)
EXTENDS RemapPath, Json
P == Leaf("P")  LL == Leaf("L")  Q == Leaf("Q")  H == Leaf("H")  X == Leaf("X")
File(fields) == Obj("File", fields)
Dir(fields)  == Obj("Directory", fields)
BareFile  == File(<< <<"path", P>>, <<"location", LL>>, <<"basename", Prim("b.txt")>>, <<"dirname", Prim("/old/dir")>>,
                     <<"size", Prim(3)>> >>)
PathOnly  == File(<< <<"path", P>> >>)
LocOnly   == File(<< <<"location", Q>> >>)
PlainLoc  == File(<< <<"location", P>> >>)                       \* a location without scheme is a path
HttpFile  == File(<< <<"location", H>>, <<"basename", Prim("b")>> >>)
SubDir    == Dir(<< <<"path", P>>, <<"listing", List(<< File(<< <<"path", P>>, <<"location", Q>> >>) >>)>> >>)
WithSecondary == File(<< <<"path", P>>, <<"location", LL>>,
                         <<"secondaryFiles", List(<< File(<< <<"path", P>>, <<"location", Q>> >>), SubDir >>)>> >>)
DirListing == Dir(<< <<"location", Q>>, <<"path", P>>,
                     <<"listing", List(<< BareFile, SubDir, WithSecondary >>)>> >>)
EmptyListing == Dir(<< <<"path", P>>, <<"listing", List(<<>>)>> >>)
Array     == List(<< BareFile, Prim("text"), X, List(<< PathOnly, HttpFile >>), Prim(7) >>)
Record    == Rec(<< <<"a", BareFile>>, <<"b", Prim(1)>>, <<"c", List(<< LocOnly >>)>>, <<"d", Rec(<< <<"e", WithSecondary>> >>)>> >>)
\* not File/Directory objects: nothing may change, even under keys called path/location
NotAFile  == Rec(<< <<"path", P>>, <<"location", LL>>, <<"x", X>> >>)
OtherClass == Obj("Other", << <<"path", P>>, <<"inner", PathOnly>> >>)      \* a record: only the inner File changes
Scalars   == List(<< X, Prim(1), Prim("null"), P >>)
Shapes == [bare_file |-> BareFile, path_only |-> PathOnly, location_only |-> LocOnly, plain_location |-> PlainLoc,
           http_location |-> HttpFile, secondary_files |-> WithSecondary, directory_listing |-> DirListing,
           empty_listing |-> EmptyListing, array |-> Array, record |-> Record, not_a_file |-> NotAFile,
           other_class |-> OtherClass, scalars |-> Scalars, single_leaf |-> P]
\* laws of the traversal itself
RECURSIVE Leaves(_)
Leaves(v) == CASE v.k = "leaf" -> {v}
               [] v.k = "list" -> UNION {Leaves(v.items[i]) : i \in 1..Len(v.items)}
               [] v.k = "rec"  -> UNION {Leaves(v.fields[i][2]) : i \in 1..Len(v.fields)}
               [] OTHER -> {}
ASSUME \A n \in DOMAIN Shapes : RemapValue(RemapValue(Shapes[n])) = RemapValue(Shapes[n])       \* marks are idempotent
ASSUME Leaves(RemapValue(NotAFile)) = Leaves(NotAFile) /\ RemapValue(Scalars) = Scalars /\ RemapValue(P) = P
ASSUME \A lf \in Leaves(RemapValue(DirListing)) : lf.slot \in {"P", "L", "Q"} => lf.remapped
ASSUME PrintT(ToJson([shapes |-> [n \in DOMAIN Shapes |-> [input |-> Shapes[n], output |-> RemapValue(Shapes[n])]]]))
VARIABLE z
Init == z = 0
Next == UNCHANGED z
=============================================================================
