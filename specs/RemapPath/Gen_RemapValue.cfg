INIT Init
NEXT Next
