---------------------------- MODULE MC_RemapPath ----------------------------
(* The state space is the set of all relative parts over Sigma up to length L, built one character at
   a time (a tree: every string is reached exactly once, all workers extend it in parallel).
   On every string, for every (directory pair, field kind), TLC checks that the transcribed function
   deviates from `Ideal` EXACTLY in the two characterised classes, and (EMIT) prints the case with
   both results for the binding.  One invariant evaluates the cases once and asserts every law.   *)
EXTENDS RemapPath, Json
CONSTANTS Sigma, L, DEEP, EMIT      \* strings of length >= DEEP: only the first case (plain path, first pair)
VARIABLE r

OLD1 == Chars("/old/dir")   NEW1 == Chars("/new")       \* unrelated directories
OLD2 == Chars("/w")         NEW2 == Chars("/w/x")       \* new inside old
OLD3 == Chars("/p/q/nn")    NEW3 == Chars("/p/s")       \* siblings below a common parent

Init == r = <<>>
Next == Len(r) < L /\ \E c \in Sigma : r' = Append(r, c)

Cases == IF Len(r) >= DEEP THEN << Case("path", r, OLD1, NEW1) >>
         ELSE << Case("path", r, OLD1, NEW1), Case("loc", r, OLD1, NEW1), Case("locq", r, OLD1, NEW1),
                 Case("http", r, OLD1, NEW1), Case("path", r, OLD2, NEW2), Case("path", r, OLD3, NEW3) >>
CaseDirs == << <<OLD1, NEW1>>, <<OLD1, NEW1>>, <<OLD1, NEW1>>, <<OLD1, NEW1>>, <<OLD2, NEW2>>, <<OLD3, NEW3>> >>

\* ---- laws of the model (the transcription of the code, NOT the code) ----
Characterisation(c)          == c.ok <=> (c.cl = "none")
RoundTripCharacterisation(c) == c.rok <=> (c.cl # "percent-sequence-decoded")
OtherSchemesUnchanged(c)     == c.kind = "http" => (c.m = c.v /\ c.t = c.v)
\* without "%", ":", "#", "?", "+", space and non-ASCII the function is exactly the prefix replacement
Plain == \A i \in 1..Len(r) : r[i] \notin {"%", ":", " ", "#", "?", "+", UMark}
PlainNamesExact(c)           == Plain => (c.m = c.id /\ c.t = c.v)

Json1(c) == [k |-> c.kind, s |-> Flat(c.v), m |-> Flat(c.m), i |-> Flat(c.id), t |-> Flat(c.t),
             ok |-> c.ok, rok |-> c.rok, cl |-> c.cl]

Laws ==
  LET cs == Cases
      wf == WellFormed(r)
  IN /\ \A j \in 1..Len(cs) :
          /\ Assert(OtherSchemesUnchanged(cs[j]), <<"OtherSchemesUnchanged", r, j>>)
          /\ wf => /\ Assert(Characterisation(cs[j]), <<"Characterisation", r, j>>)
                   /\ Assert(RoundTripCharacterisation(cs[j]), <<"RoundTripCharacterisation", r, j>>)
                   /\ Assert(PlainNamesExact(cs[j]), <<"PlainNamesExact", r, j>>)
     /\ EMIT => PrintT(ToJson([r |-> Flat(r), wf |-> wf, c |-> [j \in 1..Len(cs) |-> Json1(cs[j])]]))

ASSUME EMIT => PrintT(ToJson([dirs |-> [j \in 1..Len(CaseDirs) |-> <<Flat(CaseDirs[j][1]), Flat(CaseDirs[j][2])>>]]))
=============================================================================
