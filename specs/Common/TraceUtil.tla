------------------------------ MODULE TraceUtil ------------------------------
(* Shared plumbing of the trace specifications (code -> spec conformance).

   A Trace_<Mod> module EXTENDS <Mod> and TraceUtil, declares VARIABLES tid, l and uses:
     Traces            the batch read from the file named by the environment variable TRACE_FILE:
                       a sequence of traces, each a sequence of event records
     TUInitBatch       tid \in 1..Len(Traces) /\ l = 1            (conjoin with the module's Init)
     Ev                the next unconsumed event of the current trace
     More / Done       whether events remain
     Consume           l' = l + 1 /\ UNCHANGED tid
     TUAccept(cond)    INVARIANT body: prints "ACCEPT <tid>" when the whole trace has been consumed
                       and `cond` (a final-state condition) holds; always TRUE
     TUDiag            CONSTRAINT body: when DIAG=1 prints "L <tid> <l>" for every state (longest
                       matched prefix of a rejected trace); always TRUE
   All module invariants are evaluated by TLC on every state of every real trace.             *)
EXTENDS TLC, Naturals, Sequences, Json, IOUtils

Traces == JsonDeserialize(IOEnv.TRACE_FILE)
TUTraceOf(t) == Traces[t]
TULen(t) == Len(Traces[t])
TUAcceptMsg(t) == PrintT("ACCEPT " \o ToString(t))
TUDiagMsg(t, k) == IF IOEnv.DIAG = "1" THEN PrintT("L " \o ToString(t) \o " " \o ToString(k)) ELSE TRUE
=============================================================================
