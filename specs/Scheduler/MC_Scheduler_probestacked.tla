---- MODULE MC_Scheduler_probestacked ----
EXTENDS Scheduler, Json
c_Jobs == {"a", "b"}
c_Locs == {"C1", "H"}
c_Deps == {"DC", "DH"}
c_Mounts == {"r", "d"}
c_Root == "r"
c_LDep == ("C1" :> "DC" @@ "H" :> "DH")
c_LName == ("C1" :> "C1" @@ "H" :> "H")
c_LKind == ("C1" :> "hw" @@ "H" :> "hw")
c_LCap == ("C1" :> [c |-> 2, m |-> 2, s |-> ("r" :> 2 @@ "d" :> 2), u |-> ("r" :> 0 @@ "d" :> 0)] @@ "H" :> [c |-> 2, m |-> 2, s |-> ("r" :> 4 @@ "d" :> 2), u |-> ("r" :> 0 @@ "d" :> 0)])
c_LSlots == ("C1" :> 0 @@ "H" :> 0)
c_LWraps == ("C1" :> "H" @@ "H" :> "none")
c_LBind == ("C1" :> ("r" :> "none" @@ "d" :> "d") @@ "H" :> ("r" :> "none" @@ "d" :> "none"))
c_DLocs == ("DC" :> <<"C1">> @@ "DH" :> <<"H">>)
c_JCores == ("a" :> 1 @@ "b" :> 2)
c_JMem == ("a" :> 1 @@ "b" :> 1)
c_JSto == ("a" :> ("r" :> 1 @@ "d" :> 1) @@ "b" :> ("r" :> 0 @@ "d" :> 1))
c_JUse == ("a" :> ("r" :> 0 @@ "d" :> 1) @@ "b" :> ("r" :> 0 @@ "d" :> 1))
c_JTargets == ("a" :> <<[dep |-> "DC", k |-> 1]>> @@ "b" :> <<[dep |-> "DH", k |-> 1], [dep |-> "DC", k |-> 1]>>)
c_JStep == ("a" :> "s" @@ "b" :> "s")
c_JTag == ("a" :> 0 @@ "b" :> 1)
View == st
\* B-edge emission: one JSON line per transition of the complete graph (-workers 1)
EmitNext == Next /\ PrintT(ToJson([f |-> st, a |-> act', t |-> st']))
====
