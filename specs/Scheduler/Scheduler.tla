------------------------------ MODULE Scheduler ------------------------------
(* DefaultScheduler (streamflow/scheduling/scheduler.py) as a reactive component.

   What is modelled, AS CODED:
     schedule()          one task per declared target, started in declared order
     _process_target()   `async with wait_queue` (asyncio.Condition: lock + FIFO waiters, no barging),
                         `if job_context.scheduled: return`, `await connector.get_available_locations`
                         (the only real suspension under the lock: connector I/O), _is_valid on every
                         stacked level, the policy (first k valid locations, connector order),
                         _allocate_job on every stacked level, else Condition.wait()
     notify_status()     status change, _free_resources on RUNNING->* and FIREABLE->non RUNNING (per level,
                         with the measured storage usage), ROLLBACK list removal, notify_all
   Atomicity (DESIGN 3.5): one action = the maximal run from one suspension point to the next.  All scheduler
   state is mutated under the condition's lock, and the only place where the lock holder waits for the
   outside world is get_available_locations; so the state between two environment events is: "lock free"
   (quiescent) or "a task holds the lock and is parked in get_available_locations".  Releasing the lock
   hands it to the head of the FIFO, which runs until IT blocks: a task that finds its request already
   scheduled returns at once, a notifier runs its whole body (notify_all re-queues the condition waiters
   behind the current lock queue) -- operator Grant, recursive over the state record.

   Environment actions (the only nondeterminism): Request(j), Notify(j, s) (a call of notify_status entering the
   lock queue), EvalDone (completion of the lock holder's get_available_locations), UsageDone / UsageFail (completion /
   failure of the usage probe of a releasing notifier, when GateUsage).
   Engine = "contract" is the hostile environment of C11: besides FIREABLE -> CANCELLED/FAILED it sends ROLLBACK to a job
   that still HOLDS its resources (FIREABLE -> ROLLBACK, RUNNING -> ROLLBACK, no FAILED/RECOVERY in between): the
   release and the ROLLBACK bookkeeping (list removal, locations cleared) happen in ONE notify_status body.

   Hardware is [c, m, s, u]: cores, memory, s[mount] reserved size, u[mount] measured usage of the job's
   directories that live under that mount (what get_storage_usages will report at release time).          *)
EXTENDS Integers, Sequences, FiniteSets, TLC

CONSTANTS
  Jobs, Locs, Deps, Mounts, Root,
  LDep,      \* LDep[l]    deployment of location l
  LName,     \* LName[l]   location name: hardware_locations is keyed by NAME only
  LKind,     \* "hw" | "slots"
  LCap,      \* [c, m, s : Mounts -> Nat]     (hw locations)
  LSlots,    \* Nat                          (slot locations)
  LWraps,    \* wrapped location or "none"   (stacked = wraps # "none")
  LBind,     \* LBind[l][mount] = mount of the wrapped location the volume is bound to, or "none"
  DLocs,     \* DLocs[d]   sequence of locations returned by get_available_locations, in order
  JCores, JMem, JSto, JUse,     \* requirement of job j: cores, memory, JSto[j][mount], measured usage JUse[j][mount]
  JTargets,  \* JTargets[j] sequence of [dep, k] : declared targets (k = Target.locations)
  JStep, JTag,   \* step name and numeric tag of the job name (ROLLBACK priority rule)
  MaxGen,    \* how many times a job may be requested (1 + re-schedules after ROLLBACK)
  MaxDup,    \* how many duplicated notifications (same status again) per job
  Engine,    \* "engine": statuses the engine/failure manager send; "contract": + FIREABLE->FAILED/CANCELLED
  UsageFaults, \* TRUE (needs GateUsage): the parked usage measurement may also FAIL (connector fault: the `find` command of
             \* remotepath._size ends with a non-zero status -> WorkflowExecutionException caught by _free_resources):
             \* environment action UsageFail = the reservation is released with zero measured usage
  GateUsage  \* TRUE: the storage-usage measurement of _free_resources (connector I/O under the lock) is a suspension
             \* point of its own: the notifier parks holding the lock (status already changed, nothing released yet)
             \* and the environment action UsageDone completes the body; FALSE: notify_status is one atomic section

VARIABLES st, act
vars == <<st, act>>

None == "none"
Active(s) == s \in {"FIREABLE", "RUNNING"}
Terminal == {"COMPLETED", "FAILED", "CANCELLED"}

\* ---------------------------------------------------------------------------------------------
\* hardware arithmetic (what C10/C11 need of it; the laws themselves are C14's business)
ZeroM == [x \in Mounts |-> 0]
Zero == [c |-> 0, m |-> 0, s |-> ZeroM, u |-> ZeroM]
RECURSIVE SumF(_, _)
SumF(f, S) == IF S = {} THEN 0 ELSE LET x == CHOOSE x \in S : TRUE IN f[x] + SumF(f, S \ {x})
HAdd(a, b) == [c |-> a.c + b.c, m |-> a.m + b.m, s |-> [x \in Mounts |-> a.s[x] + b.s[x]], u |-> ZeroM]
HSub(a, b) == [c |-> a.c - b.c, m |-> a.m - b.m, s |-> [x \in Mounts |-> a.s[x] - b.s[x]], u |-> ZeroM]
UsageOf(h) == [c |-> 0, m |-> 0, s |-> h.u, u |-> ZeroM]
Fits(req, free) == /\ free.c >= req.c /\ free.m >= req.m /\ \A x \in Mounts : free.s[x] >= req.s[x]
NonNeg(h) == h.c >= 0 /\ h.m >= 0 /\ \A x \in Mounts : h.s[x] >= 0

JobHW(j) == [c |-> JCores[j], m |-> JMem[j], s |-> JSto[j], u |-> JUse[j]]
\* _resolve_hardware_requirement at one level: a location without hardware puts everything on os.sep, no paths
Cur(l, h) == IF LKind[l] = "hw" THEN h
             ELSE [h EXCEPT !.s = [x \in Mounts |-> IF x = Root THEN SumF(h.s, Mounts) ELSE 0], !.u = ZeroM]
\* bind_mount_point: only bound volumes reach the wrapped location
Bind(l, h) == LET tgt(y) == {x \in Mounts : LKind[l] = "hw" /\ LBind[l][x] = y}
              IN [c |-> h.c, m |-> h.m, s |-> [y \in Mounts |-> SumF(h.s, tgt(y))], u |-> [y \in Mounts |-> SumF(h.u, tgt(y))]]
Stacked(l) == LWraps[l] # None

RECURSIVE Chain(_)                   \* locations of the stack, outermost first
Chain(l) == IF Stacked(l) THEN <<l>> \o Chain(LWraps[l]) ELSE <<l>>
RECURSIVE ChainHW(_, _)              \* requirement per level (same length as Chain)
ChainHW(l, h) == LET cur == Cur(l, h) IN IF Stacked(l) THEN <<cur>> \o ChainHW(LWraps[l], Bind(l, cur)) ELSE <<cur>>
SeqSet(q) == {q[i] : i \in 1..Len(q)}
Idx(q, x) == CHOOSE i \in 1..Len(q) : q[i] = x

\* hardware_requirements[key] of _process_target: the entries of all available locations merged with `|=`
\* (Hardware.__ior__ ADDS cores and memory and keeps the max size per storage key): a level that is reached
\* from n available locations gets n times the cores/memory.
Mult(d, x) == Cardinality({i \in 1..Len(DLocs[d]) : x \in SeqSet(Chain(DLocs[d][i]))})
ReqAt(j, d, x) ==
  LET i == CHOOSE i \in 1..Len(DLocs[d]) : x \in SeqSet(Chain(DLocs[d][i]))
      l == DLocs[d][i]
      b == ChainHW(l, JobHW(j))[Idx(Chain(l), x)]
  IN [b EXCEPT !.c = Mult(d, x) * b.c, !.m = Mult(d, x) * b.m]

\* ---------------------------------------------------------------------------------------------
\* state record and its parts
TaskIds == {<<"t", j, g, t>> : j \in Jobs, g \in 1..MaxGen, t \in 1..3}
NoAlloc == [status |-> "NONE", tgt |-> 0, locs |-> <<>>, dep |-> None, hwkey |-> None]
Names == {LName[l] : l \in Locs}

Init0 == [alloc |-> [j \in Jobs |-> NoAlloc],
          res   |-> [n \in Names |-> Zero],
          lj    |-> [l \in Locs |-> <<>>],
          gen   |-> [j \in Jobs |-> 0],
          sched |-> [j \in Jobs |-> [g \in 1..MaxGen |-> FALSE]],
          tpc   |-> [j \in Jobs |-> [g \in 1..MaxGen |-> [t \in 1..3 |-> "idle"]]],
          lock  |-> <<>>,
          lockq |-> <<>>,
          condq |-> <<>>,
          npend |-> [j \in Jobs |-> None],
          dups  |-> [j \in Jobs |-> 0]]

\* _get_running_jobs(job_name, location): entries of the location's job list that count against the slots
Counts(S, j, x) ==
  \/ Active(S.alloc[x].status)
  \/ S.alloc[x].status = "ROLLBACK" /\ JStep[x] = JStep[j] /\ JTag[x] < JTag[j]
RunningOn(S, j, l) == SelectSeq(S.lj[l], LAMBDA x : Counts(S, j, x))

\* _is_valid: every level of the stack
ValidLevel(S, j, d, x) ==
  IF LKind[x] = "hw" THEN Fits(ReqAt(j, d, x), HSub(LCap[x], S.res[LName[x]]))
                     ELSE Len(RunningOn(S, j, x)) < LSlots[x]
IsValid(S, j, d, l) == \A x \in SeqSet(Chain(l)) : ValidLevel(S, j, d, x)
ValidLocs(S, j, d) == SelectSeq(DLocs[d], LAMBDA l : IsValid(S, j, d, l))
\* first-admissible-target interface (C13): target t of j can host j in state S
Admissible(S, j, t) == Len(ValidLocs(S, j, JTargets[j][t].dep)) >= JTargets[j][t].k
\* policy as coded (DataLocalityPolicy without file inputs): the first k valid locations in connector order
Selected(S, j, t) == SubSeq(ValidLocs(S, j, JTargets[j][t].dep), 1, JTargets[j][t].k)

\* _allocate_job: every selected location, every level
RECURSIVE AllocLevels(_, _, _, _)
AllocLevels(S, j, d, lv) ==
  IF lv = <<>> THEN S
  ELSE LET x == Head(lv)
           S1 == [S EXCEPT !.lj[x] = Append(@, j), !.res[LName[x]] = HAdd(@, ReqAt(j, d, x))]
       IN AllocLevels(S1, j, d, Tail(lv))
RECURSIVE AllocLocs(_, _, _, _)
AllocLocs(S, j, d, sel) ==
  IF sel = <<>> THEN S ELSE AllocLocs(AllocLevels(S, j, d, Chain(Head(sel))), j, d, Tail(sel))
Allocate(S, j, t) ==
  LET d == JTargets[j][t].dep
      sel == Selected(S, j, t)
      S1 == [S EXCEPT !.alloc[j] = [status |-> "FIREABLE", tgt |-> t, locs |-> sel, dep |-> d, hwkey |-> sel[1]]]
  IN AllocLocs(S1, j, d, sel)

\* _free_resources: level by level; job_hardware is the allocation's hardware (requirement of the FIRST selected
\* location's key) and is re-bound once per wrapped location
\* ok = FALSE: the usage probe failed (`except WorkflowExecutionException: storage_usage = Hardware()`): the reservation
\* is subtracted all the same, nothing is added back
RECURSIVE FreeSeq(_, _, _, _)
FreeSeq(S, locs, h, ok) ==
  IF locs = <<>> THEN S
  ELSE FreeSeq([S EXCEPT !.res[LName[Head(locs)]] = HAdd(HSub(@, h), IF ok THEN UsageOf(h) ELSE Zero)], Tail(locs), h, ok)
RECURSIVE BindAll(_, _)
BindAll(locs, h) == IF locs = <<>> THEN h ELSE BindAll(Tail(locs), Bind(Head(locs), h))
RECURSIVE FreeLevels(_, _, _, _)
FreeLevels(S, locs, h, ok) ==
  IF locs = <<>> THEN S
  ELSE LET S1 == FreeSeq(S, locs, h, ok)
           st_ == SelectSeq(locs, Stacked)
           inner == [i \in 1..Len(st_) |-> LWraps[st_[i]]]
       IN FreeLevels(S1, inner, BindAll(st_, h), ok)
FreeU(S, j, ok) ==
  LET a == S.alloc[j] IN
  IF a.locs = <<>> THEN S ELSE FreeLevels(S, a.locs, ReqAt(j, a.dep, a.hwkey), ok)
Free(S, j) == FreeU(S, j, TRUE)

RemoveFirst(q, x) ==
  IF x \notin SeqSet(q) THEN q
  ELSE LET i == CHOOSE i \in 1..Len(q) : q[i] = x /\ \A k \in 1..(i - 1) : q[k] # x
       IN SubSeq(q, 1, i - 1) \o SubSeq(q, i + 1, Len(q))

\* body of notify_status under the lock
NeedsFree(S, j, s) ==
  LET prev == S.alloc[j].status IN s # prev /\ (prev = "RUNNING" \/ (prev = "FIREABLE" /\ s # "RUNNING"))
\* the release reaches get_storage_usages -> connector.run only when the job has directories on the location,
\* i.e. on locations with hardware (all locations of a deployment are of one kind)
NeedsIO(S, j, s) ==
  GateUsage /\ NeedsFree(S, j, s) /\ S.alloc[j].locs # <<>> /\ LKind[S.alloc[j].locs[1]] = "hw"
\* ROLLBACK list removal: every allocated location, every stacked level (one entry per level, as _allocate_job added them)
RECURSIVE UnlistLevels(_, _, _)
UnlistLevels(S, j, lv) ==
  IF lv = <<>> THEN S ELSE UnlistLevels([S EXCEPT !.lj[Head(lv)] = RemoveFirst(@, j)], j, Tail(lv))
RECURSIVE UnlistLocs(_, _, _)
UnlistLocs(S, j, locs) ==
  IF locs = <<>> THEN S ELSE UnlistLocs(UnlistLevels(S, j, Chain(Head(locs))), j, Tail(locs))
\* after the release: ROLLBACK list removal, notify_all, return
NotifyTail(S2, j, s) ==
  LET S3 == IF s = "ROLLBACK"
              THEN [UnlistLocs(S2, j, S2.alloc[j].locs) EXCEPT !.alloc[j].locs = <<>>]
              ELSE S2
      woken == S3.condq
  IN [S3 EXCEPT !.lockq = @ \o woken,
                !.condq = <<>>,
                !.tpc = [jj \in Jobs |-> [g \in 1..MaxGen |-> [t \in 1..3 |->
                            IF <<"t", jj, g, t>> \in SeqSet(woken) THEN "lockq" ELSE @[jj][g][t]]]],
                !.npend[j] = None]
NotifyBody(S, j, s) ==
  LET S1 == [S EXCEPT !.alloc[j].status = s]
      S2 == IF NeedsFree(S, j, s) THEN Free(S1, j) ELSE S1
  IN NotifyTail(S2, j, s)

\* release of the lock: the head of the FIFO runs until it blocks
RECURSIVE Grant(_)
Grant(S) ==
  IF S.lockq = <<>> THEN [S EXCEPT !.lock = <<>>]
  ELSE LET h == Head(S.lockq)
           S1 == [S EXCEPT !.lockq = Tail(@)]
       IN IF h[1] = "t"
            THEN IF S1.sched[h[2]][h[3]]
                   THEN Grant([S1 EXCEPT !.tpc[h[2]][h[3]][h[4]] = "done"])        \* `if job_context.scheduled: return`
                   ELSE [S1 EXCEPT !.lock = h, !.tpc[h[2]][h[3]][h[4]] = "io"]     \* parked in get_available_locations
            ELSE IF NeedsIO(S1, h[2], h[3])
                   THEN [S1 EXCEPT !.lock = h, !.alloc[h[2]].status = h[3]]         \* parked in get_storage_usages
                   ELSE Grant(NotifyBody(S1, h[2], h[3]))
Arrive(S, entries) == LET S1 == [S EXCEPT !.lockq = @ \o entries] IN IF S.lock = <<>> THEN Grant(S1) ELSE S1

\* ---------------------------------------------------------------------------------------------
\* environment
ReqEn(S, j) == /\ S.gen[j] < MaxGen
               /\ S.npend[j] = None
               /\ S.gen[j] = 0 \/ S.alloc[j].status = "ROLLBACK"
Returned(S, j) == S.gen[j] > 0 /\ S.sched[j][S.gen[j]]
NextStatus(cur) ==
  CASE cur = "FIREABLE" -> IF Engine = "engine" THEN {"RUNNING"} ELSE {"RUNNING", "CANCELLED", "FAILED", "ROLLBACK"}
    [] cur = "RUNNING"  -> Terminal \cup {"RECOVERY"} \cup (IF Engine = "engine" THEN {} ELSE {"ROLLBACK"})
    [] cur = "RECOVERY" -> {"ROLLBACK"}
    [] OTHER -> {}
NotifyEn(S, j, s) ==
  /\ Returned(S, j)
  /\ S.npend[j] = None
  /\ \/ s \in NextStatus(S.alloc[j].status) /\ (s \in {"RECOVERY", "ROLLBACK"} => S.gen[j] < MaxGen)
     \/ s = S.alloc[j].status /\ S.dups[j] < MaxDup
EvalEn(S) == S.lock # <<>> /\ S.lock[1] = "t"
UseEn(S) == S.lock # <<>> /\ S.lock[1] = "n"

Request(j) ==
  /\ ReqEn(st, j)
  /\ LET g == st.gen[j] + 1
         n == Len(JTargets[j])
         S1 == [st EXCEPT !.gen[j] = g, !.tpc[j][g] = [t \in 1..3 |-> IF t <= n THEN "lockq" ELSE "idle"]]
     IN st' = Arrive(S1, [t \in 1..n |-> <<"t", j, g, t>>])
  /\ act' = [name |-> "Request", j |-> j, s |-> None]

Notify(j, s) ==
  /\ NotifyEn(st, j, s)
  /\ LET S1 == [st EXCEPT !.npend[j] = s, !.dups[j] = IF s = st.alloc[j].status THEN @ + 1 ELSE @]
     IN st' = Arrive(S1, << <<"n", j, s>> >>)
  /\ act' = [name |-> "Notify", j |-> j, s |-> s]

\* completion of get_available_locations of the lock holder: the rest of the loop body
EvalDone ==
  /\ EvalEn(st)
  /\ LET h == st.lock  j == h[2]  g == h[3]  t == h[4] IN
     /\ st' = IF Admissible(st, j, t)
                THEN Grant([Allocate(st, j, t) EXCEPT !.sched[j][g] = TRUE, !.tpc[j][g][t] = "done"])
                ELSE Grant([st EXCEPT !.tpc[j][g][t] = "cond", !.condq = Append(@, h)])
     /\ act' = [name |-> "EvalDone", j |-> j, s |-> None]

\* completion of the usage measurement of the notifier that holds the lock: release, ROLLBACK removal, notify_all
UsageDone ==
  /\ UseEn(st)
  /\ LET h == st.lock  j == h[2]  s == h[3] IN
     /\ st' = Grant(NotifyTail(Free(st, j), j, s))
     /\ act' = [name |-> "UsageDone", j |-> j, s |-> s]

\* failure of the usage measurement (fault of the connector at release time): the body goes on as coded -- the
\* reservation is released with ZERO measured usage on every level, then ROLLBACK removal, notify_all
UsageFail ==
  /\ UsageFaults
  /\ UseEn(st)
  /\ LET h == st.lock  j == h[2]  s == h[3] IN
     /\ st' = Grant(NotifyTail(FreeU(st, j, FALSE), j, s))
     /\ act' = [name |-> "UsageFail", j |-> j, s |-> s]

Init == st = Init0 /\ act = [name |-> "Init", j |-> None, s |-> None]
Next == \/ \E j \in Jobs : Request(j)
        \/ \E j \in Jobs, s \in {"RUNNING", "COMPLETED", "FAILED", "CANCELLED", "RECOVERY", "ROLLBACK"} : Notify(j, s)
        \/ EvalDone
        \/ UsageDone
        \/ UsageFail
AnyEnabled(S) == \/ EvalEn(S) \/ UseEn(S) \/ \E j \in Jobs : ReqEn(S, j)
                 \/ \E j \in Jobs, s \in {"RUNNING", "COMPLETED", "FAILED", "CANCELLED", "RECOVERY", "ROLLBACK"} : NotifyEn(S, j, s)

Spec == Init /\ [][Next]_vars
\* fairness for C12: the connector answers, every fireable job is started, every running job terminates
FairSpec == /\ Spec
            /\ WF_vars(EvalDone)
            /\ WF_vars(UsageDone)
            /\ \A j \in Jobs : WF_vars(Notify(j, "RUNNING"))
            /\ \A j \in Jobs : WF_vars(Notify(j, "COMPLETED"))
            /\ \A j \in Jobs : WF_vars(Request(j))

\* ---------------------------------------------------------------------------------------------
\* properties
Quiescent == st.lock = <<>>

\* what job j holds on level x (as _allocate_job reserved it), while it is fireable or running
HeldBy(j, x) ==
  LET a == st.alloc[j] IN
  IF ~Active(a.status) THEN Zero
  ELSE LET n == Cardinality({i \in 1..Len(a.locs) : x \in SeqSet(Chain(a.locs[i]))})
           r == ReqAt(j, a.dep, x)
       IN IF n = 0 THEN Zero ELSE [r EXCEPT !.c = n * r.c, !.m = n * r.m, !.s = [y \in Mounts |-> n * r.s[y]]]
RECURSIVE SumHW(_, _)
SumHW(S, x) == IF S = {} THEN Zero ELSE LET j == CHOOSE j \in S : TRUE IN HAdd(HeldBy(j, x), SumHW(S \ {j}, x))
ActiveOn(x) == {j \in Jobs : Active(st.alloc[j].status) /\ \E i \in 1..Len(st.alloc[j].locs) : x \in SeqSet(Chain(st.alloc[j].locs[i]))}

\* C10: on every location (every stacked level) the active jobs hold no more than the capacity / the slots
NoOverAllocation ==
  \A x \in Locs :
    IF LKind[x] = "hw" THEN Fits(SumHW(Jobs, x), LCap[x])
                       ELSE Cardinality(ActiveOn(x)) <= LSlots[x]
\* the reservation table never under-counts what the active jobs hold (the check _is_valid relies on), never negative
ReservedCoversHeld ==
  \A n \in Names : /\ NonNeg(st.res[n])
                   /\ LET held == SumHW(Jobs, CHOOSE x \in Locs : LName[x] = n)
                      IN (Cardinality({x \in Locs : LName[x] = n}) = 1) => Fits(held, st.res[n])

\* C11: once no job is fireable or running, cores and memory are back to zero everywhere
\* (storage keeps only measured usage: bounded by the sum of the usages of the jobs that ran)
ReleasedExactly ==
  (Quiescent /\ \A j \in Jobs : ~Active(st.alloc[j].status) /\ st.npend[j] = None)
     => \A n \in Names : st.res[n].c = 0 /\ st.res[n].m = 0
\* exactness at every moment for uniquely named locations: reserved cores/memory = what active jobs hold
ReservedExact ==
  Quiescent => \A x \in Locs : (Cardinality({y \in Locs : LName[y] = LName[x]}) = 1) =>
     LET held == SumHW(Jobs, x) IN st.res[LName[x]].c = held.c /\ st.res[LName[x]].m = held.m
\* a notification of the status the job already has changes nothing (action property)
DupIsNoop ==
  [][(act'.name = "Notify" /\ act'.s = st.alloc[act'.j].status /\ st.lock = <<>>)
        => (st'.alloc = st.alloc /\ st'.res = st.res /\ st'.lj = st.lj)]_vars

\* C12 (safety part): at quiescence no waiting request has a target that could host it
NoLostWakeup ==
  Quiescent => \A j \in Jobs : (st.gen[j] > 0 /\ ~st.sched[j][st.gen[j]]) =>
     \A t \in 1..Len(JTargets[j]) : ~Admissible(st, j, t)
\* C12 (liveness): a requested job whose requirement fits the total capacity of some target is eventually scheduled
FitsEmpty(j) == \E t \in 1..Len(JTargets[j]) : Admissible(Init0, j, t)
EventuallyScheduled == \A j \in Jobs : FitsEmpty(j) => [](st.gen[j] = 1 => <>(st.sched[j][1]))

\* C13 interface: when a request is granted target t, no earlier declared target was admissible in that state
FirstAdmissible ==
  [][\A j \in Jobs : (st'.alloc[j].tgt # st.alloc[j].tgt \/ st'.gen[j] # st.gen[j]) /\ act'.name = "EvalDone" /\ act'.j = j
        /\ st'.alloc[j].status = "FIREABLE" /\ st.alloc[j].status # "FIREABLE"
        => \A t \in 1..(st'.alloc[j].tgt - 1) : ~Admissible(st, j, t)]_vars

TypeOK == /\ st.lock = <<>> => st.lockq = <<>>
          /\ \A n \in Names : NonNeg(st.res[n])
=============================================================================
