---- MODULE Sim_Scheduler_basic ----
EXTENDS MC_Scheduler_basic
VARIABLE hist
SimInit == Init /\ hist = << [a |-> act, t |-> st] >>
SimNext == \/ /\ Len(hist) < 30 /\ hist[1].a.name # "END"
              /\ Next /\ hist' = Append(hist, [a |-> act', t |-> st'])
           \/ /\ (Len(hist) >= 30 \/ ~AnyEnabled(st)) /\ hist[1].a.name # "END"
              /\ PrintT(ToJson(hist))
              /\ hist' = << [a |-> [name |-> "END", j |-> None, s |-> None], t |-> st] >> /\ UNCHANGED <<st, act>>
====
