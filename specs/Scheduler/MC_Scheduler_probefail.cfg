CONSTANTS
  Jobs <- c_Jobs
  Locs <- c_Locs
  Deps <- c_Deps
  Mounts <- c_Mounts
  Root <- c_Root
  LDep <- c_LDep
  LName <- c_LName
  LKind <- c_LKind
  LCap <- c_LCap
  LSlots <- c_LSlots
  LWraps <- c_LWraps
  LBind <- c_LBind
  DLocs <- c_DLocs
  JCores <- c_JCores
  JMem <- c_JMem
  JSto <- c_JSto
  JUse <- c_JUse
  JTargets <- c_JTargets
  JStep <- c_JStep
  JTag <- c_JTag
  MaxGen = 1
  MaxDup = 1
  Engine = "engine"
  GateUsage = TRUE
  UsageFaults = TRUE
INIT Init
NEXT Next
VIEW View
INVARIANT TypeOK
INVARIANT NoOverAllocation
INVARIANT ReservedCoversHeld
INVARIANT ReleasedExactly
INVARIANT ReservedExact
INVARIANT NoLostWakeup
PROPERTY DupIsNoop
