---- MODULE MC_Scheduler_rbactive ----
EXTENDS Scheduler, Json
c_Jobs == {"a", "b"}
c_Locs == {"L1"}
c_Deps == {"D1"}
c_Mounts == {"r", "d"}
c_Root == "r"
c_LDep == ("L1" :> "D1")
c_LName == ("L1" :> "L1")
c_LKind == ("L1" :> "hw")
c_LCap == ("L1" :> [c |-> 2, m |-> 2, s |-> ("r" :> 2 @@ "d" :> 2), u |-> ("r" :> 0 @@ "d" :> 0)])
c_LSlots == ("L1" :> 0)
c_LWraps == ("L1" :> "none")
c_LBind == ("L1" :> ("r" :> "none" @@ "d" :> "none"))
c_DLocs == ("D1" :> <<"L1">>)
c_JCores == ("a" :> 2 @@ "b" :> 1)
c_JMem == ("a" :> 1 @@ "b" :> 1)
c_JSto == ("a" :> ("r" :> 1 @@ "d" :> 1) @@ "b" :> ("r" :> 1 @@ "d" :> 0))
c_JUse == ("a" :> ("r" :> 1 @@ "d" :> 0) @@ "b" :> ("r" :> 0 @@ "d" :> 0))
c_JTargets == ("a" :> <<[dep |-> "D1", k |-> 1]>> @@ "b" :> <<[dep |-> "D1", k |-> 1]>>)
c_JStep == ("a" :> "s" @@ "b" :> "s")
c_JTag == ("a" :> 0 @@ "b" :> 1)
View == st
\* B-edge emission: one JSON line per transition of the complete graph (-workers 1)
EmitNext == Next /\ PrintT(ToJson([f |-> st, a |-> act', t |-> st']))
====
