\* expected to violate I_Exact: known finding C02-cartesian-mixed-depth-order-dependent
CONSTANTS TreeKind = "cart1"  NP = 2  MaxPer = 2  MaxTotal = 3  Mix = "mixed"  MinDepth = 2  MaxDepth = 3
  Tree <- MCTree
  StreamSet <- MCStreams
  Record = FALSE
INIT Init
NEXT Next
INVARIANT I_Exact
INVARIANT I_NoDup
INVARIANT I_Sound
