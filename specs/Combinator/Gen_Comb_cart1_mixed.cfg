CONSTANTS TreeKind = "cart1"  NP = 2  MaxPer = 2  MaxTotal = 3  Mix = "mixed"  MinDepth = 2  MaxDepth = 3
  Tree <- MCTree
  StreamSet <- MCStreams
  Record = TRUE
INIT Init
NEXT GenNext
