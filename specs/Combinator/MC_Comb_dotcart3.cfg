CONSTANTS TreeKind = "dotcart"  NP = 3  MaxPer = 2  MaxTotal = 4  Mix = "innersame"  MinDepth = 2  MaxDepth = 3
  Tree <- MCTree
  StreamSet <- MCStreams
  Record = FALSE
INIT Init
NEXT Next
INVARIANT I_Exact
INVARIANT I_NoDup
INVARIANT I_Sound
