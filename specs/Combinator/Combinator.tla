------------------------------ MODULE Combinator ------------------------------
(* C02 - combinators emit exactly the right combinations, whatever the arrival order.

   Literal transcription of (streamflow/workflow/step.py, streamflow/workflow/combinator.py)
     Combinator._add_to_list          parent/child propagation between the keys of _token_values
     Combinator._add_to_port          append          (DotProductCombinator)
     CartesianProductCombinator._add_to_port   append unless a token with the same tag is there
     DotProductCombinator._product    LIFO pop of one element per item for every complete key,
                                      including the re-binding of the loop variable `tag`
     CartesianProductCombinator._product   products of the NEW token with what the key holds,
                                      suffix tags, retag
     <X>Combinator.combine            recursion into the inner combinator that owns the port
     utils.get_tag                    first longest tag
   One action Arrive(tok) per incoming token: the atomic section of CombinatorStep.run is the whole
   reaction to one token (the awaits inside only persist the emitted tokens of this step).

   Python dictionaries are ordered; every ordered dictionary is a SEQUENCE of pairs here because
   iteration orders are observable (schema order decides get_tag ties and the suffix order).

   Exceptions of the real code are part of the model: `err` names the exception the literal
   algorithm raises (the step then dies: no further arrival is processed).

   Separately, `Expected` states the rule of the property declaratively (no algorithm).          *)
EXTENDS Naturals, Sequences, FiniteSets, TLC

CONSTANTS Tree,        \* the combinator tree (records, see MC_Combinator)
          StreamSet,   \* the input streams explored: set of functions port -> set of tags
          Record       \* TRUE: keep the arrivals and the bag after each of them in `hist` (generation)

VARIABLES stream,      \* chosen in Init, never changed
          expect,      \* ExpectedSet of the stream, computed once in Init (a constant of the behaviour)
          tv,          \* combinator name -> its _token_values (ordered dict of ordered dicts)
          pending,     \* tokens not yet arrived: set of <<port, tag>>
          emitted,     \* bag (function schema -> count) of emitted combinations
          err,         \* "none" or the exception raised by the literal algorithm
          hist         \* arrivals so far with the emitted bag after each (generation)

vars == <<stream, expect, tv, pending, emitted, err, hist>>

---------------------------------------------------------------------------
(* Tags and tokens *)
\* _is_parent_tag(tag, parent) on "."-joined strings; the empty string (<<>>) only matches itself
IsParent(tag, parent) == IF parent = <<>> \/ tag = <<>> THEN tag = parent
                         ELSE Len(parent) <= Len(tag) /\ SubSeq(tag, 1, Len(parent)) = parent
Chop(tag, d) == SubSeq(tag, 1, Len(tag) - d)          \* ".".join(tag.split(".")[:-d])
Tok(p, t) == [port |-> p, src |-> t, tag |-> t]       \* a token: its port and original tag identify the value
\* utils.get_tag over the tokens of a schema (in dict order): first longest tag; "0" if empty.
\* (string length = depth order as long as components are single digits, which the streams respect)
RECURSIVE GetTagFrom(_, _)
GetTagFrom(s, best) == IF s = <<>> THEN best
                       ELSE GetTagFrom(Tail(s), IF best = <<>> \/ Len(Head(s).tag) > Len(best) THEN Head(s).tag ELSE best)
GetTag(schema) == IF schema = <<>> THEN <<0>> ELSE GetTagFrom(Tail(schema), Head(schema).tag)

(* Tree accessors.  node = [name, kind ("dot" | "cart"), depth, items]; item = [name, comb, node] *)
RECURSIVE PortsOf(_)
PortsOf(node) == UNION {IF node.items[i].comb THEN PortsOf(node.items[i].node) ELSE {node.items[i].name}
                        : i \in 1..Len(node.items)}
RECURSIVE NamesOf(_)
NamesOf(node) == {node.name} \cup UNION {IF node.items[i].comb THEN NamesOf(node.items[i].node) ELSE {}
                                         : i \in 1..Len(node.items)}
IsComb(node, itemName) == \E i \in 1..Len(node.items) : node.items[i].name = itemName /\ node.items[i].comb
HasInner(node) == \E i \in 1..Len(node.items) : node.items[i].comb
\* get_combinator(port): index of the inner item owning the port, 0 if none
OwnerIdx(node, port) == IF \E i \in 1..Len(node.items) : node.items[i].comb /\ port \in PortsOf(node.items[i].node)
                        THEN CHOOSE i \in 1..Len(node.items) : node.items[i].comb /\ port \in PortsOf(node.items[i].node)
                        ELSE 0
IsItem(node, port) == \E i \in 1..Len(node.items) : node.items[i].name = port /\ ~node.items[i].comb

---------------------------------------------------------------------------
(* Ordered dictionaries: d = Seq([tag, ports]) ; ports = Seq([item, els]) *)
KeyIdx(d, tag) == IF \E i \in 1..Len(d) : d[i].tag = tag THEN CHOOSE i \in 1..Len(d) : d[i].tag = tag ELSE 0
PortIdx(ps, item) == IF \E i \in 1..Len(ps) : ps[i].item = item THEN CHOOSE i \in 1..Len(ps) : ps[i].item = item ELSE 0
SetDefault(d, tag) == IF KeyIdx(d, tag) = 0 THEN Append(d, [tag |-> tag, ports |-> <<>>]) ELSE d

\* _add_to_port.  Returns [ports, err]
AddToPort(kind, ps, item, el, isSchema) ==
  LET ps1 == IF PortIdx(ps, item) = 0 THEN Append(ps, [item |-> item, els |-> <<>>]) ELSE ps
      i == PortIdx(ps1, item)
  IN IF kind = "cart"
     THEN IF ps1[i].els # <<>> /\ isSchema
          THEN [ports |-> ps1, err |-> "AttributeError"]                 \* `token.tag` on a dict
          ELSE IF \E j \in 1..Len(ps1[i].els) : ps1[i].els[j].tag = el.tag
               THEN [ports |-> ps1, err |-> "none"]                      \* de-duplication by tag
               ELSE [ports |-> [ps1 EXCEPT ![i].els = Append(@, el)], err |-> "none"]
     ELSE [ports |-> [ps1 EXCEPT ![i].els = Append(@, el)], err |-> "none"]

\* pour every token of every port of entry `src` into the entry of `tag` (created on demand)
RECURSIVE PourEls(_, _, _, _, _, _)
PourEls(node, d, tag, item, els, e) ==          \* returns [d, err]
  IF els = <<>> \/ e # "none" THEN [d |-> d, err |-> e]
  ELSE LET d1 == SetDefault(d, tag)
           k == KeyIdx(d1, tag)
           \* poured elements of an inner-combinator item are schemas (the cartesian de-duplication raises on them)
           r == AddToPort(node.kind, d1[k].ports, item, Head(els), IsComb(node, item))
       IN PourEls(node, [d1 EXCEPT ![k].ports = r.ports], tag, item, Tail(els), r.err)
RECURSIVE PourPorts(_, _, _, _, _)
PourPorts(node, d, tag, ps, e) ==
  IF ps = <<>> \/ e # "none" THEN [d |-> d, err |-> e]
  ELSE LET r == PourEls(node, d, tag, Head(ps).item, Head(ps).els, e)
       IN PourPorts(node, r.d, tag, Tail(ps), r.err)

\* the `for key in list(self._token_values.keys())` loop of _add_to_list
RECURSIVE Propagate(_, _, _, _, _, _, _, _)
Propagate(node, d, keys, tag, item, el, isSchema, e) ==
  IF keys = <<>> \/ e # "none" THEN [d |-> d, err |-> e]
  ELSE LET key == Head(keys)
       IN IF tag = key THEN Propagate(node, d, Tail(keys), tag, item, el, isSchema, e)
          ELSE IF IsParent(key, tag)                                   \* existing deeper key receives the token
               THEN LET k == KeyIdx(d, key)
                        r == AddToPort(node.kind, d[k].ports, item, el, isSchema)
                    IN Propagate(node, [d EXCEPT ![k].ports = r.ports], Tail(keys), tag, item, el, isSchema, r.err)
          ELSE IF IsParent(tag, key)                                   \* existing shallower key pours into tag
               THEN LET r == PourPorts(node, d, tag, d[KeyIdx(d, key)].ports, e)
                    IN Propagate(node, r.d, Tail(keys), tag, item, el, isSchema, r.err)
          ELSE Propagate(node, d, Tail(keys), tag, item, el, isSchema, e)

\* _add_to_list(token | schema, item, depth, propagate = True).  Returns [d, err]
AddToList(node, d, el, item, isSchema) ==
  LET tag0 == IF isSchema THEN GetTag(el) ELSE el.tag
      depth == IF node.kind = "cart" THEN node.depth ELSE 0
      tag == IF depth > 0 THEN Chop(tag0, depth) ELSE tag0
      r == Propagate(node, d, [i \in 1..Len(d) |-> d[i].tag], tag, item, el, isSchema, "none")
  IN IF r.err # "none" THEN r
     ELSE LET d1 == SetDefault(r.d, tag)
              k == KeyIdx(d1, tag)
              a == AddToPort(node.kind, d1[k].ports, item, el, isSchema)
          IN [d |-> [d1 EXCEPT ![k].ports = a.ports], err |-> a.err]

---------------------------------------------------------------------------
(* DotProductCombinator._product *)
Min(S) == CHOOSE x \in S : \A y \in S : x <= y
\* pop one element of every item of the entry; returns [ports, schema, err]
RECURSIVE PopEach(_, _, _, _, _)
PopEach(node, ps, i, schema, e) ==
  IF i > Len(ps) \/ e # "none" THEN [ports |-> ps, schema |-> schema, err |-> e]
  ELSE IF ps[i].els = <<>> THEN [ports |-> ps, schema |-> schema, err |-> "IndexError"]     \* pop from an empty deque
  ELSE LET el == ps[i].els[Len(ps[i].els)]                                                    \* deque.pop(): LIFO
           ps1 == [ps EXCEPT ![i].els = SubSeq(@, 1, Len(@) - 1)]
       IN PopEach(node, ps1, i + 1, schema \o (IF IsComb(node, ps[i].item) THEN el ELSE <<el>>), e)
\* `for _ in range(num_items)` with the loop variable `tag` re-bound by get_tag
RECURSIVE PopLoop(_, _, _, _, _, _)
PopLoop(node, d, cur, n, outs, e) ==          \* returns [d, out, err]
  IF n = 0 \/ e # "none" THEN [d |-> d, out |-> outs, err |-> e]
  ELSE LET k == KeyIdx(d, cur)
       IN IF k = 0 THEN [d |-> d, out |-> outs, err |-> "KeyError"]
          ELSE LET r == PopEach(node, d[k].ports, 1, <<>>, "none")
                   newtag == GetTag(r.schema)
                   sch == [j \in 1..Len(r.schema) |-> [r.schema[j] EXCEPT !.tag = newtag]]      \* retag
               IN IF r.err # "none" THEN [d |-> d, out |-> outs, err |-> r.err]
                  ELSE PopLoop(node, [d EXCEPT ![k].ports = r.ports], newtag, n - 1, Append(outs, sch), "none")
RECURSIVE DotProduct(_, _, _, _, _)
DotProduct(node, d, keys, outs, e) ==
  IF keys = <<>> \/ e # "none" THEN [d |-> d, out |-> outs, err |-> e]
  ELSE LET k == KeyIdx(d, Head(keys))
       IN IF Len(d[k].ports) = Len(node.items)
          THEN LET n == Min({Len(d[k].ports[j].els) : j \in 1..Len(d[k].ports)})
                   r == PopLoop(node, d, Head(keys), n, outs, "none")
               IN DotProduct(node, r.d, Tail(keys), r.out, r.err)
          ELSE DotProduct(node, d, Tail(keys), outs, e)

(* CartesianProductCombinator._product(port_name, token) *)
\* all ways of picking one element per list (itertools.product), as sequences aligned with `lists`
RECURSIVE Picks(_)
Picks(lists) == IF lists = <<>> THEN {<<>>}
                ELSE {<<x>> \o rest : x \in {lists[1][j] : j \in 1..Len(lists[1])}, rest \in Picks(Tail(lists))}
SeqOfSet(S) == LET RECURSIVE F(_)
                   F(X) == IF X = {} THEN <<>> ELSE LET m == CHOOSE x \in X : TRUE IN <<m>> \o F(X \ {m})
               IN F(S)
CartProduct(node, d, portName, tok) ==          \* returns [out, err]
  LET tag == Chop(tok.tag, node.depth)
      k == KeyIdx(d, tag)
  IN IF k = 0 THEN [out |-> <<>>, err |-> "KeyError"]
     ELSE IF Len(d[k].ports) # Len(node.items) THEN [out |-> <<>>, err |-> "none"]
     ELSE IF HasInner(node) THEN [out |-> <<>>, err |-> "AttributeError"]      \* `t.tag` on the schema dict of an inner combinator
     ELSE LET ps == d[k].ports
              lists == [i \in 1..Len(ps) |-> IF ps[i].item = portName THEN <<tok>> ELSE ps[i].els]
              \* one schema per configuration, tokens in the order of self.items
              Schema(cfg) == [i \in 1..Len(node.items) |-> cfg[PortIdx(ps, node.items[i].name)]]
              Suffix(s) == [i \in 1..Len(s) |-> s[i].tag[Len(s[i].tag)]]
              Retag(s) == [i \in 1..Len(s) |-> [s[i] EXCEPT !.tag = Chop(s[i].tag, 1) \o Suffix(s)]]
          IN [out |-> SeqOfSet({Retag(Schema(cfg)) : cfg \in Picks(lists)}), err |-> "none"]

---------------------------------------------------------------------------
(* combine(port, token), recursively.  TV: name -> ordered dict.  Returns [tv, out, err] *)
RECURSIVE Combine(_, _, _, _)
\* outer reaction to the schemas yielded by the inner combinator, one at a time
RECURSIVE FeedSchemas(_, _, _, _, _, _, _, _)
FeedSchemas(node, TV, innerName, schemas, port, tok, outs, e) ==
  IF schemas = <<>> \/ e # "none" THEN [tv |-> TV, out |-> outs, err |-> e]
  ELSE LET a == AddToList(node, TV[node.name], Head(schemas), innerName, TRUE)
       IN IF a.err # "none" THEN [tv |-> TV, out |-> outs, err |-> a.err]
          ELSE IF node.kind = "dot"
               THEN LET p == DotProduct(node, a.d, [i \in 1..Len(a.d) |-> a.d[i].tag], <<>>, "none")
                    IN FeedSchemas(node, [TV EXCEPT ![node.name] = p.d], innerName, Tail(schemas), port, tok, outs \o p.out, p.err)
               ELSE LET p == CartProduct(node, a.d, port, tok)
                    IN FeedSchemas(node, [TV EXCEPT ![node.name] = a.d], innerName, Tail(schemas), port, tok, outs \o p.out, p.err)
Combine(node, TV, port, tok) ==
  LET oi == OwnerIdx(node, port)
  IN IF oi # 0
     THEN LET inner == Combine(node.items[oi].node, TV, port, tok)
          IN IF inner.err # "none" THEN inner
             ELSE FeedSchemas(node, inner.tv, node.items[oi].name, inner.out, port, tok, <<>>, "none")
     ELSE IF IsItem(node, port)
     THEN LET a == AddToList(node, TV[node.name], tok, port, FALSE)
          IN IF a.err # "none" THEN [tv |-> TV, out |-> <<>>, err |-> a.err]
             ELSE IF node.kind = "dot"
                  THEN LET p == DotProduct(node, a.d, [i \in 1..Len(a.d) |-> a.d[i].tag], <<>>, "none")
                       IN [tv |-> [TV EXCEPT ![node.name] = p.d], out |-> p.out, err |-> p.err]
                  ELSE LET p == CartProduct(node, a.d, port, tok)
                       IN [tv |-> [TV EXCEPT ![node.name] = a.d], out |-> p.out, err |-> p.err]
     ELSE [tv |-> TV, out |-> <<>>, err |-> "WorkflowExecutionException"]

---------------------------------------------------------------------------
\* a schema as emitted: what the output ports receive = per port (original token, new tag)
Canon(s) == {<<s[i].port, s[i].src, s[i].tag>> : i \in 1..Len(s)}
Bump(bag, x) == IF x \in DOMAIN bag THEN [bag EXCEPT ![x] = @ + 1] ELSE bag @@ (x :> 1)
RECURSIVE AddAll(_, _)
AddAll(bag, outs) == IF outs = <<>> THEN bag ELSE AddAll(Bump(bag, Canon(Head(outs))), Tail(outs))
BagSeq(bag) == SeqOfSet({[schema |-> SeqOfSet(x), n |-> bag[x]] : x \in DOMAIN bag})

Tokens(st) == UNION {{<<p, t>> : t \in st[p]} : p \in DOMAIN st}

Arrive(x) ==
  /\ err = "none" /\ x \in pending
  /\ pending' = pending \ {x}
  /\ LET r == Combine(Tree, tv, x[1], Tok(x[1], x[2]))
     IN /\ tv' = r.tv
        /\ emitted' = AddAll(emitted, r.out)
        /\ err' = r.err
  /\ hist' = IF Record THEN Append(hist, [port |-> x[1], tag |-> x[2], bag |-> BagSeq(emitted'), err |-> err']) ELSE hist
  /\ UNCHANGED <<stream, expect>>

---------------------------------------------------------------------------
(* The rule of the property, declaratively.  A candidate is <<tag, set of <<port, src>> >>.       *)
IsPrefix(a, b) == Len(a) <= Len(b) /\ SubSeq(b, 1, Len(a)) = a
RECURSIVE ExpCands(_, _)
\* candidates offered by an item: a port offers its tokens, an inner combinator what it must emit
ItemCands(item, st) == IF item.comb THEN ExpCands(item.node, st)
                       ELSE {<<t, {<<item.name, t, t>>}>> : t \in st[item.name]}
\* Dot product: one combination for every tag present on some item for which EVERY item has a candidate with
\* that tag or, failing that, a shallower parent tag (broadcast: the deepest such parent); all tokens get the tag.
\* Cartesian product of depth d: every way of picking one candidate per item such that the group keys (tags minus
\* their last d components) are pairwise parent/child related (equal, for items of the same depth); every picked
\* candidate is retagged with its own tag minus the last component, followed by the last components of all picked
\* candidates in item order.
\* A candidate's token set is {<<port, src, currentTag>>}.
Retagged(c, newtag) == {<<x[1], x[2], newtag>> : x \in c[2]}
ExpCands(node, st) ==
  LET n == Len(node.items)
      cands == [i \in 1..n |-> ItemCands(node.items[i], st)]
  IN IF node.kind = "dot"
     THEN LET allTags == UNION {{c[1] : c \in cands[i]} : i \in 1..n}
              Contrib(i, t) == LET ok == {c \in cands[i] : IsPrefix(c[1], t)}
                               IN IF ok = {} THEN {} ELSE {CHOOSE c \in ok : \A c2 \in ok : Len(c2[1]) <= Len(c[1])}
              full == {t \in allTags : \A i \in 1..n : Contrib(i, t) # {}}
          IN {<<t, UNION {Retagged(CHOOSE c \in Contrib(i, t) : TRUE, t) : i \in 1..n}>> : t \in full}
     ELSE LET picks == {f \in [1..n -> UNION {cands[i] : i \in 1..n}] :
                          /\ \A i \in 1..n : f[i] \in cands[i]
                          /\ \A i, j \in 1..n : LET ki == Chop(f[i][1], node.depth) kj == Chop(f[j][1], node.depth)
                                                IN IsPrefix(ki, kj) \/ IsPrefix(kj, ki)}
              Suffix(f) == [i \in 1..n |-> f[i][1][Len(f[i][1])]]
              NewTag(f, i) == Chop(f[i][1], 1) \o Suffix(f)
              Deepest(f) == CHOOSE i \in 1..n : \A j \in 1..n : Len(f[j][1]) <= Len(f[i][1])
          IN {<<NewTag(f, Deepest(f)), UNION {Retagged(f[i], NewTag(f, i)) : i \in 1..n}>> : f \in picks}
ExpectedSet == expect
Expected == [s \in ExpectedSet |-> 1]

Init == /\ stream \in StreamSet
        /\ expect = {c[2] : c \in ExpCands(Tree, stream)}
        /\ tv = [n \in NamesOf(Tree) |-> <<>>]
        /\ pending = Tokens(stream)
        /\ emitted = <<>>
        /\ err = "none"
        /\ hist = <<>>
Next == \E x \in pending : Arrive(x)
Spec == Init /\ [][Next]_vars

Quiescent == pending = {} \/ err # "none"
\* (I) at quiescence the emitted bag is exactly Expected (hence the same for every arrival order); no exception
I_Exact == Quiescent => (err = "none" /\ emitted = Expected)
\* (I') no combination is ever emitted twice
I_NoDup == \A s \in DOMAIN emitted : emitted[s] = 1
\* nothing outside Expected is ever emitted, even before quiescence
I_Sound == DOMAIN emitted \subseteq ExpectedSet
=============================================================================
