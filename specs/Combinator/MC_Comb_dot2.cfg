CONSTANTS TreeKind = "dot"  NP = 2  MaxPer = 3  MaxTotal = 6  Mix = "any"  MinDepth = 1  MaxDepth = 3
  Tree <- MCTree
  StreamSet <- MCStreams
  Record = FALSE
INIT Init
NEXT Next
INVARIANT I_Exact
INVARIANT I_NoDup
INVARIANT I_Sound
