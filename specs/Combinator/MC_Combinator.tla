---------------------------- MODULE MC_Combinator ----------------------------
(* Trees, stream families and generation for Combinator.
   Domain of C02 (DESIGN.md): every port carries tags of ONE depth and at most one token per tag; ports
   of different depths are mixed freely.  Tags come from a small prefix-closed universe with two
   roots so that siblings, parent/child pairs and unrelated tags all occur.
   Mix = "same": all ports have the same depth; "mixed": at least two depths; "any": both;
   "innersame"/"innermixed": the ports A, B of the inner combinator have the same / different depths;
   "offdomain": some port carries two depths (explored and reported as `extra` only);
   "innerbroadcast": (trees with an inner combinator over A, B and a sibling port C) every tag of C is
   strictly DEEPER than the tags of the schemas the inner combinator emits, so that what the outer
   combinator stores for its inner item - a schema, i.e. a mutable dictionary in the code, not an immutable
   token - is the element that _add_to_list broadcasts from a shallow key to every deeper key (and pours
   from a shallow key into a new deeper one).  With two or more tokens on C one inner schema is shared by
   several keys of the outer combinator.  The inner schema of dot(A,B) is as deep as the deeper of A, B;
   that of cartesian(A,B) one level deeper than A, B (which agree: different depths there are the known
   finding), hence MaxDepth = 4 for dot(cartesian(A,B),C).
   "innershared": the streams of "innerbroadcast" with at least two tokens on C.                     *)
EXTENDS Combinator, Json
CONSTANTS TreeKind, NP, MaxPer, MaxTotal, Mix, MinDepth,
          MaxDepth     \* deepest tags of the universe (3; 4 where the sibling of an inner cartesian product must be deeper than its schemas)

PortNames == <<"A", "B", "C">>
Ports == {PortNames[i] : i \in 1..NP}
P(n) == [name |-> n, comb |-> FALSE, node |-> <<>>]
C(node) == [name |-> node.name, comb |-> TRUE, node |-> node]
Dot(name, items) == [name |-> name, kind |-> "dot", depth |-> 0, items |-> items]
Cart(name, d, items) == [name |-> name, kind |-> "cart", depth |-> d, items |-> items]
Leafs == [i \in 1..NP |-> P(PortNames[i])]
Rest == [i \in 1..(NP - 2) |-> P(PortNames[i + 2])]
MCTree == CASE TreeKind = "dot" -> Dot("c", Leafs)
            [] TreeKind = "cart1" -> Cart("c", 1, Leafs)
            [] TreeKind = "cart2" -> Cart("c", 2, Leafs)
            [] TreeKind = "dotcart" -> Dot("c", <<C(Cart("i", 1, <<P("A"), P("B")>>))>> \o Rest)
            [] TreeKind = "dotdot" -> Dot("c", <<C(Dot("i", <<P("A"), P("B")>>))>> \o Rest)
            [] TreeKind = "cartdot" -> Cart("c", 1, <<C(Dot("i", <<P("A"), P("B")>>))>> \o Rest)
            [] TreeKind = "cartcart" -> Cart("c", 1, <<C(Cart("i", 1, <<P("A"), P("B")>>))>> \o Rest)

U(d) == CASE d = 1 -> {<<0>>, <<1>>}
          [] d = 2 -> {<<0, 0>>, <<0, 1>>, <<1, 0>>}
          [] d = 3 -> {<<0, 0, 0>>, <<0, 0, 1>>, <<0, 1, 0>>}
          [] d = 4 -> {<<0, 0, 0, 0>>, <<0, 0, 0, 1>>, <<0, 0, 1, 0>>}
AllU == U(1) \cup U(2) \cup U(3)
Small(S) == {X \in SUBSET S : X # {} /\ Cardinality(X) <= MaxPer}
OneDepth == UNION {Small(U(d)) : d \in MinDepth..MaxDepth}
DepthsOf(X) == {Len(t) : t \in X}
Total(f) == LET RECURSIVE Sum(_)
                Sum(S) == IF S = {} THEN 0 ELSE LET p == CHOOSE p \in S : TRUE IN Cardinality(f[p]) + Sum(S \ {p})
            IN Sum(Ports)
OnDomain == {f \in [Ports -> OneDepth] : Total(f) <= MaxTotal}
\* depth of the tags of the schemas emitted by the inner combinator over A, B (trees with an inner combinator)
MaxOf(S) == CHOOSE x \in S : \A y \in S : y <= x
InnerIsCart == TreeKind \in {"dotcart", "cartcart"}
InnerDepth(f) == MaxOf(DepthsOf(f["A"]) \cup DepthsOf(f["B"])) + (IF InnerIsCart THEN 1 ELSE 0)
InnerBroadcast == {f \in OnDomain : (InnerIsCart => (DepthsOf(f["A"]) = DepthsOf(f["B"])))
                                     /\ (\A d \in DepthsOf(f["C"]) : d > InnerDepth(f))}
MCStreams ==
  CASE Mix = "same" -> {f \in OnDomain : Cardinality(UNION {DepthsOf(f[p]) : p \in Ports}) = 1}
    [] Mix = "mixed" -> {f \in OnDomain : Cardinality(UNION {DepthsOf(f[p]) : p \in Ports}) > 1}
    [] Mix = "any" -> OnDomain
    [] Mix = "innersame" -> {f \in OnDomain : DepthsOf(f["A"]) = DepthsOf(f["B"])}     \* the two ports of the inner combinator agree
    [] Mix = "innermixed" -> {f \in OnDomain : DepthsOf(f["A"]) # DepthsOf(f["B"])}
    [] Mix = "innerbroadcast" -> InnerBroadcast
    [] Mix = "innershared" -> {f \in InnerBroadcast : Cardinality(f["C"]) >= 2}
    [] Mix = "offdomain" -> {f \in [Ports -> Small(AllU)] : Total(f) <= MaxTotal /\ \E p \in Ports : Cardinality(DepthsOf(f[p])) > 1}

\* generation: print every complete behaviour once (hist is part of the state)
StreamJ == [i \in 1..NP |-> [port |-> PortNames[i], tags |-> SeqOfSet(stream[PortNames[i]])]]
Dump ==
  /\ Quiescent /\ hist # <<>>
  /\ PrintT(ToJson([tree |-> TreeKind, stream |-> StreamJ, hist |-> hist,
                    expected |-> SeqOfSet({SeqOfSet(s) : s \in ExpectedSet}),
                    ok |-> (err = "none" /\ emitted = Expected)]))
  /\ hist' = <<>>
  /\ UNCHANGED <<stream, expect, tv, pending, emitted, err>>
GenNext == Next \/ Dump
===============================================================================
