---------------------------- MODULE MC_Combinator ----------------------------
(* Trees, stream families and generation for Combinator.
   Domain of C02 (DESIGN.md): every port carries tags of ONE depth and at most one token per tag; ports
   of different depths are mixed freely.  Tags come from a small prefix-closed universe with two
   roots so that siblings, parent/child pairs and unrelated tags all occur.
   Mix = "same": all ports have the same depth; "mixed": at least two depths; "any": both;
   "innersame"/"innermixed": the ports A, B of the inner combinator have the same / different depths;
   "offdomain": some port carries two depths (explored and reported as `extra` only).          *)
EXTENDS Combinator, Json
CONSTANTS TreeKind, NP, MaxPer, MaxTotal, Mix, MinDepth

PortNames == <<"A", "B", "C">>
Ports == {PortNames[i] : i \in 1..NP}
P(n) == [name |-> n, comb |-> FALSE, node |-> <<>>]
C(node) == [name |-> node.name, comb |-> TRUE, node |-> node]
Dot(name, items) == [name |-> name, kind |-> "dot", depth |-> 0, items |-> items]
Cart(name, d, items) == [name |-> name, kind |-> "cart", depth |-> d, items |-> items]
Leafs == [i \in 1..NP |-> P(PortNames[i])]
Rest == [i \in 1..(NP - 2) |-> P(PortNames[i + 2])]
MCTree == CASE TreeKind = "dot" -> Dot("c", Leafs)
            [] TreeKind = "cart1" -> Cart("c", 1, Leafs)
            [] TreeKind = "cart2" -> Cart("c", 2, Leafs)
            [] TreeKind = "dotcart" -> Dot("c", <<C(Cart("i", 1, <<P("A"), P("B")>>))>> \o Rest)
            [] TreeKind = "dotdot" -> Dot("c", <<C(Dot("i", <<P("A"), P("B")>>))>> \o Rest)
            [] TreeKind = "cartdot" -> Cart("c", 1, <<C(Dot("i", <<P("A"), P("B")>>))>> \o Rest)
            [] TreeKind = "cartcart" -> Cart("c", 1, <<C(Cart("i", 1, <<P("A"), P("B")>>))>> \o Rest)

U(d) == CASE d = 1 -> {<<0>>, <<1>>}
          [] d = 2 -> {<<0, 0>>, <<0, 1>>, <<1, 0>>}
          [] d = 3 -> {<<0, 0, 0>>, <<0, 0, 1>>, <<0, 1, 0>>}
AllU == U(1) \cup U(2) \cup U(3)
Small(S) == {X \in SUBSET S : X # {} /\ Cardinality(X) <= MaxPer}
OneDepth == UNION {Small(U(d)) : d \in MinDepth..3}
DepthsOf(X) == {Len(t) : t \in X}
Total(f) == LET RECURSIVE Sum(_)
                Sum(S) == IF S = {} THEN 0 ELSE LET p == CHOOSE p \in S : TRUE IN Cardinality(f[p]) + Sum(S \ {p})
            IN Sum(Ports)
OnDomain == {f \in [Ports -> OneDepth] : Total(f) <= MaxTotal}
MCStreams ==
  CASE Mix = "same" -> {f \in OnDomain : Cardinality(UNION {DepthsOf(f[p]) : p \in Ports}) = 1}
    [] Mix = "mixed" -> {f \in OnDomain : Cardinality(UNION {DepthsOf(f[p]) : p \in Ports}) > 1}
    [] Mix = "any" -> OnDomain
    [] Mix = "innersame" -> {f \in OnDomain : DepthsOf(f["A"]) = DepthsOf(f["B"])}     \* the two ports of the inner combinator agree
    [] Mix = "innermixed" -> {f \in OnDomain : DepthsOf(f["A"]) # DepthsOf(f["B"])}
    [] Mix = "offdomain" -> {f \in [Ports -> Small(AllU)] : Total(f) <= MaxTotal /\ \E p \in Ports : Cardinality(DepthsOf(f[p])) > 1}

\* generation: print every complete behaviour once (hist is part of the state)
StreamJ == [i \in 1..NP |-> [port |-> PortNames[i], tags |-> SeqOfSet(stream[PortNames[i]])]]
Dump ==
  /\ Quiescent /\ hist # <<>>
  /\ PrintT(ToJson([tree |-> TreeKind, stream |-> StreamJ, hist |-> hist,
                    expected |-> SeqOfSet({SeqOfSet(s) : s \in ExpectedSet}),
                    ok |-> (err = "none" /\ emitted = Expected)]))
  /\ hist' = <<>>
  /\ UNCHANGED <<stream, expect, tv, pending, emitted, err>>
GenNext == Next \/ Dump
===============================================================================
