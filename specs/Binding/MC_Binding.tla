----------------------------- MODULE MC_Binding -----------------------------
EXTENDS Binding, Json
A == "a"
B_ == "b"
D1 == << <<>>, <<A>>, <<B_>> >>
D2 == D1 \o << <<A,A>>, <<A,B_>>, <<B_,A>>, <<B_,B_>> >>
D3 == D2 \o << <<A,A,A>>, <<A,A,B_>>, <<A,B_,A>>, <<A,B_,B_>>, <<B_,A,A>>, <<B_,A,B_>>, <<B_,B_,A>>, <<B_,B_,B_>> >>
D4 == D3 \o << <<A,A,A,A>>, <<A,A,B_,A>>, <<A,B_,A,B_>>, <<B_,A,A,A>>, <<B_,B_,B_,B_>>, <<A,A,A,B_>> >>
MCDeps == {"D1", "D2", "D3"}

\* one line per state, printed when TLC evaluates the invariant on a new state
Code(v) == IF v.k = "local" THEN 0 ELSE (CHOOSE i \in 1..Len(PathSeq) : PathSeq[i] = v.p)
EmitTree == LET bs == B IN PrintT(ToJson([b |-> BI, r |-> [i \in 1..Len(PathSeq) |-> Code(Resolve(bs, PathSeq[i]))]]))
DepSeq == <<"D1", "D2", "D3">>
EmitWraps == PrintT(ToJson([w |-> [i \in 1..3 |-> wraps[DepSeq[i]]], h |-> [i \in 1..3 |-> hasWd[DepSeq[i]]],
                            cyc |-> Cyclic(wraps),
                            wd |-> IF Cyclic(wraps) THEN <<>> ELSE [i \in 1..3 |-> Workdir(wraps, hasWd, DepSeq[i])]]))
=============================================================================
