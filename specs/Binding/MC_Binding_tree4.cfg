CONSTANTS MaxB = 4  Deps <- MCDeps  PathSeq <- D3
INIT TreeInit
NEXT TreeNext
INVARIANT CodeComputesResolve
INVARIANT PropagateAloneSuffices
INVARIANT EmitTree
