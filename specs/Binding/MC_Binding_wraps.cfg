CONSTANTS MaxB = 0  Deps <- MCDeps  PathSeq <- D1
INIT WrapsInit
NEXT WrapsNext
INVARIANT CheckRejectsExactlyCycles
INVARIANT CodeComputesWorkdir
INVARIANT EmitWraps
