CONSTANTS MaxB = 3  Deps <- MCDeps  PathSeq <- D3
INIT TreeInit
NEXT TreeNext
INVARIANT CodeComputesResolve
INVARIANT PropagateAloneSuffices
INVARIANT EmitTree
