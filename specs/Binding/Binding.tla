------------------------------- MODULE Binding -------------------------------
(* Resolution of deployment targets for workflow steps (`streamflow/config/config.py`:
   WorkflowConfig.put / set_targets / propagate / _check_stacked_deployments;
   `streamflow/deployment/utils.py`: get_binding_config / _get_workdir).

   Part 1 (binding tree).  The StreamFlow file declares bindings on posix-like paths, each either a
   `step` binding or a `port` binding.  The state is the set B of declared (path, kind) pairs; a
   binding is identified by its own (path, kind) -- the harness gives each its own target.
   The code is TRANSCRIBED (the trie built by put, the top-down pass of set_targets that skips
   nodes carrying a port binding, the walk of propagate with its early return) and compared, in
   every reachable state and for every query path, with the DECLARATIVE meaning of the statement
   (C28): the step binding of the longest prefix of the path that has one, local execution otherwise.

   Part 2 (stacked deployments).  wraps : deployment -> deployment or "none", hasWd : deployment ->
   BOOLEAN.  _check_stacked_deployments and _get_workdir are transcribed and compared with
   Cyclic(wraps) (some deployment reaches itself) and with "its own working directory, or else the
   first one found along the wraps chain".                                                      *)
EXTENDS Integers, Sequences, FiniteSets, TLC

CONSTANTS PathSeq,      \* all paths (sequences of letters, <<>> = "/"), prefix closed, in a fixed order
          MaxB,         \* at most MaxB bindings
          Deps          \* deployments of part 2

VARIABLES BI,           \* part 1: the declared bindings, as a set of indices into Keys
          wraps, hasWd  \* part 2
vars == <<BI, wraps, hasWd>>

Paths == {PathSeq[i] : i \in 1..Len(PathSeq)}
Kinds == <<"step", "port">>
Keys == [i \in 1..(2 * Len(PathSeq)) |-> <<PathSeq[((i - 1) \div 2) + 1], Kinds[((i - 1) % 2) + 1]>>]
B == {Keys[i] : i \in BI}                        \* the declared bindings as <<path, kind>> pairs
AncSelf(p) == {SubSeq(p, 1, k) : k \in 0..Len(p)}
IsChild(c, p) == Len(c) = Len(p) + 1 /\ SubSeq(c, 1, Len(p)) = p

---------------------------------------------------------------------------
(* Part 1, declarative. *)
Local == [k |-> "local", p |-> <<>>]
Bind(p) == [k |-> "binding", p |-> p]              \* the step binding declared on path p
Longest(S) == CHOOSE q \in S : \A r \in S : Len(r) <= Len(q)
Resolve(bs, p) == LET S == {q \in AncSelf(p) : <<q, "step">> \in bs}
                  IN IF S = {} THEN Local ELSE Bind(Longest(S))

(* Part 1, as coded. *)
Absent == [k |-> "absent", p |-> <<>>]
None == [k |-> "none", p |-> <<>>]
\* put(): a node for every part of the path ('/' first); the value is stored in the last one
Nodes(bs) == UNION {AncSelf(b[1]) : b \in bs}
HasPort(bs, n) == <<n, "port">> \in bs
Step0(bs) == [n \in Nodes(bs) |-> IF <<n, "step">> \in bs THEN Bind(n) ELSE Absent]
\* set_targets(current_node, target): children carrying a port binding are skipped together with their subtree
RECURSIVE SetTargets(_, _, _, _)
SetTargets(bs, sv, kids, target) ==
  IF kids = {} THEN sv
  ELSE LET c == CHOOSE x \in kids : TRUE
           sv2 == IF HasPort(bs, c) THEN sv
                  ELSE LET sv1 == IF sv[c] = Absent THEN [sv EXCEPT ![c] = target] ELSE sv
                       IN SetTargets(bs, sv1, {x \in Nodes(bs) : IsChild(x, c)}, sv1[c])
       IN SetTargets(bs, sv2, kids \ {c}, target)
\* WorkflowConfig.__init__: every binding is put, then set_targets(self.filesystem, None)
Tree(bs) == SetTargets(bs, Step0(bs), IF Nodes(bs) = {} THEN {} ELSE {<<>>}, None)
\* propagate(path, "step"): early return at the first missing node, the last value seen wins
Propagate(bs, sv, p) ==
  LET RECURSIVE Walk(_, _)
      Walk(k, value) == IF k > Len(p) THEN value
                        ELSE LET n == SubSeq(p, 1, k)
                             IN IF n \notin Nodes(bs) THEN value
                                ELSE Walk(k + 1, IF sv[n] # Absent THEN sv[n] ELSE value)
  IN Walk(0, None)
\* get_binding_config: `if config is not None` ... else LocalTarget
AsCodedT(bs, t, p) == LET v == Propagate(bs, t, p) IN IF v = None THEN Local ELSE v
AsCoded(bs, p) == AsCodedT(bs, Tree(bs), p)

---------------------------------------------------------------------------
(* Part 2, declarative. *)
RECURSIVE ChainFrom(_, _, _)          \* d, wraps(d), ... at most n elements
ChainFrom(w, d, n) == IF n = 0 \/ d = "none" THEN <<>> ELSE <<d>> \o ChainFrom(w, w[d], n - 1)
Cyclic(w) == \E d \in Deps : LET c == ChainFrom(w, w[d], Cardinality(Deps)) IN \E i \in 1..Len(c) : c[i] = d
Workdir(w, h, d) ==                  \* the deployment whose working directory d uses ("none": the default)
  LET c == ChainFrom(w, d, Cardinality(Deps))
      I == {i \in 1..Len(c) : h[c[i]]}
  IN IF I = {} THEN "none" ELSE c[CHOOSE i \in I : \A j \in I : i <= j]
TargetWorkdir(w, h, d, own) == IF own THEN "target" ELSE Workdir(w, h, d)

(* Part 2, as coded. *)
\* _check_stacked_deployments: for every deployment follow `wraps`, raising when a name comes back
CheckRaises(w) ==
  LET RECURSIVE Follow(_, _)
      Follow(cur, seen) == IF w[cur] = "none" THEN FALSE
                           ELSE IF w[cur] \in seen THEN TRUE ELSE Follow(w[cur], seen \cup {w[cur]})
  IN \E d \in Deps : Follow(d, {d})
\* _get_workdir: while workdir is None and wraps is not None: deployment = wrapped one (only evaluated when the
\* constructor did not raise)
RECURSIVE GetWorkdir(_, _, _)
GetWorkdir(w, h, d) == IF h[d] THEN d ELSE IF w[d] = "none" THEN "none" ELSE GetWorkdir(w, h, w[d])

---------------------------------------------------------------------------
(* Part 1 as a state machine: bindings are declared one at a time, in the order of Keys (the harness
   shuffles the list it writes to the file: put() does not depend on the order of distinct keys). *)
TreeInit == BI = {} /\ wraps = [d \in Deps |-> "none"] /\ hasWd = [d \in Deps |-> FALSE]
Put(i) == /\ Cardinality(BI) < MaxB
          /\ \A j \in BI : j < i
          /\ BI' = BI \cup {i}
          /\ UNCHANGED <<wraps, hasWd>>
TreeNext == \E i \in 1..Len(Keys) : Put(i)

CodeComputesResolve == LET bs == B  t == Tree(bs) IN \A p \in Paths : AsCodedT(bs, t, p) = Resolve(bs, p)
\* the same without the top-down pass: what set_targets adds is never observable through propagate
PropagateAloneSuffices == LET bs == B  t == Step0(bs) IN \A p \in Paths : AsCodedT(bs, t, p) = Resolve(bs, p)

(* Part 2: every configuration is an initial state. *)
WrapsInit == /\ BI = {}
             /\ wraps \in [Deps -> Deps \cup {"none"}]
             /\ hasWd \in [Deps -> BOOLEAN]
WrapsNext == UNCHANGED vars
CheckRejectsExactlyCycles == CheckRaises(wraps) = Cyclic(wraps)
CodeComputesWorkdir == ~Cyclic(wraps) => \A d \in Deps : GetWorkdir(wraps, hasWd, d) = Workdir(wraps, hasWd, d)
=============================================================================
