\* static "single": one input of every kind, recorded or unrecorded size 0 or 2, copies of every data type, also on a
\* location of another deployment that bears the name of location 2; <= 2 registry entries
CONSTANTS
  NLocs = 3
  MaxTokens = 1
  Kinds = {"plain", "file", "file2", "list"}
  Weights = {0, 2}
  UnsizedOK = TRUE
  ExtOK = TRUE
  MixedOK = TRUE
  CellTypes = {"P", "S", "I"}
  MaxEntries = 2
  MaxEnv = 0
  ListMode = "ignored"
  Fallback = "first"
INIT Init
NEXT GenNext
VIEW View
INVARIANT TypeOK
INVARIANT MixedRaises
INVARIANT NoneIffNoneAvailable
INVARIANT AnswerAvailable
INVARIANT LocalityHonoured
INVARIANT HeaviestFirst
INVARIANT OnlyLocalPrimaryCounts
INVARIANT Refines
INVARIANT WeightsJustified
INVARIANT WeightsStatic
INVARIANT Confluent
