\* static, thorough: four locations, <= 2 inputs (file / list), <= 2 PRIMARY copies
CONSTANTS
  NLocs = 4
  MaxTokens = 2
  Kinds = {"file", "list"}
  Weights = {1, 2}
  UnsizedOK = FALSE
  ExtOK = FALSE
  MixedOK = FALSE
  CellTypes = {"P"}
  MaxEntries = 2
  MaxEnv = 0
  ListMode = "ignored"
  Fallback = "first"
INIT Init
NEXT GenNext
VIEW View
INVARIANT TypeOK
INVARIANT MixedRaises
INVARIANT NoneIffNoneAvailable
INVARIANT AnswerAvailable
INVARIANT LocalityHonoured
INVARIANT HeaviestFirst
INVARIANT OnlyLocalPrimaryCounts
INVARIANT Refines
INVARIANT WeightsJustified
INVARIANT WeightsStatic
INVARIANT Confluent
