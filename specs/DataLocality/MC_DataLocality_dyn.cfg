\* dynamic (quick): calls that park on the size I/O of 1..2 file inputs without a recorded size (2 locations, <= 2 PRIMARY
\* copies), one registry change by the environment while parked, every completion order; the complete graph is written
\* transition by transition (-workers 1)
CONSTANTS
  NLocs = 2
  MaxTokens = 2
  Kinds = {"file"}
  Weights = {1, 2}
  UnsizedOK = TRUE
  ExtOK = FALSE
  MixedOK = FALSE
  CellTypes = {"P"}
  MaxEntries = 2
  MaxEnv = 1
  ListMode = "ignored"
  Fallback = "first"
INIT DynInit
NEXT EmitNext
VIEW View
INVARIANT TypeOK
INVARIANT MixedRaises
INVARIANT NoneIffNoneAvailable
INVARIANT AnswerAvailable
INVARIANT LocalityHonoured
INVARIANT HeaviestFirst
INVARIANT OnlyLocalPrimaryCounts
INVARIANT Refines
INVARIANT WeightsJustified
INVARIANT WeightsStatic
INVARIANT Confluent
