\* static, thorough: <= 2 inputs of every kind with recorded sizes, copies of every data type, <= 2 registry entries
CONSTANTS
  NLocs = 3
  MaxTokens = 2
  Kinds = {"plain", "file", "file2", "list"}
  Weights = {1, 2}
  UnsizedOK = FALSE
  ExtOK = FALSE
  MixedOK = TRUE
  CellTypes = {"P", "S", "I"}
  MaxEntries = 2
  MaxEnv = 0
  ListMode = "ignored"
  Fallback = "first"
INIT Init
NEXT GenNext
VIEW View
INVARIANT TypeOK
INVARIANT MixedRaises
INVARIANT NoneIffNoneAvailable
INVARIANT AnswerAvailable
INVARIANT LocalityHonoured
INVARIANT HeaviestFirst
INVARIANT OnlyLocalPrimaryCounts
INVARIANT Refines
INVARIANT WeightsJustified
INVARIANT WeightsStatic
INVARIANT Confluent
