\* static "pairs": every job with <= 2 inputs (plain / file / list, recorded sizes 1..2) over 3 locations,
\* <= 2 PRIMARY or INVALID copies, every set of available locations; no environment
CONSTANTS
  NLocs = 3
  MaxTokens = 2
  Kinds = {"plain", "file", "list"}
  Weights = {1, 2}
  UnsizedOK = FALSE
  ExtOK = FALSE
  MixedOK = TRUE
  CellTypes = {"P", "I"}
  MaxEntries = 2
  MaxEnv = 0
  ListMode = "ignored"
  Fallback = "first"
INIT Init
NEXT GenNext
VIEW View
INVARIANT TypeOK
INVARIANT MixedRaises
INVARIANT NoneIffNoneAvailable
INVARIANT AnswerAvailable
INVARIANT LocalityHonoured
INVARIANT HeaviestFirst
INVARIANT OnlyLocalPrimaryCounts
INVARIANT Refines
INVARIANT WeightsJustified
INVARIANT WeightsStatic
INVARIANT Confluent
