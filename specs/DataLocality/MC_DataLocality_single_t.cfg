\* static, thorough: one input of every kind, size 0 or 2, recorded or not, <= 3 registry entries of every type, also in another deployment
CONSTANTS
  NLocs = 3
  MaxTokens = 1
  Kinds = {"plain", "file", "file2", "list"}
  Weights = {0, 2}
  UnsizedOK = TRUE
  ExtOK = TRUE
  MixedOK = TRUE
  CellTypes = {"P", "S", "I"}
  MaxEntries = 3
  MaxEnv = 0
  ListMode = "ignored"
  Fallback = "first"
INIT Init
NEXT GenNext
VIEW View
INVARIANT TypeOK
INVARIANT MixedRaises
INVARIANT NoneIffNoneAvailable
INVARIANT AnswerAvailable
INVARIANT LocalityHonoured
INVARIANT HeaviestFirst
INVARIANT OnlyLocalPrimaryCounts
INVARIANT Refines
INVARIANT WeightsJustified
INVARIANT WeightsStatic
INVARIANT Confluent
