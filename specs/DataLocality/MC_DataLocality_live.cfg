\* liveness: every call returns once the size I/O completes (weak fairness of Call and of every StatDone)
CONSTANTS
  NLocs = 2
  MaxTokens = 2
  Kinds = {"file", "list"}
  Weights = {1}
  UnsizedOK = TRUE
  ExtOK = FALSE
  MixedOK = TRUE
  CellTypes = {"P"}
  MaxEntries = 1
  MaxEnv = 1
  ListMode = "ignored"
  Fallback = "first"
SPECIFICATION FairSpec
PROPERTY Terminates
