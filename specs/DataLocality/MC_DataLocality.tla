--------------------------- MODULE MC_DataLocality ---------------------------
(* Exhaustive configurations of DataLocality (constants in the .cfg files) and the emission wrappers:
     GenNext   Next + one JSON line per INSTANCE (static binding: instance, structural weights, acceptable answers)
     EmitNext  one JSON line per TRANSITION of the complete graph (dynamic binding: behaviours with
               environment changes and every completion order, replayed step by step on the real policy) *)
EXTENDS DataLocality, Json

\* `act` is a label, not state
View == <<inst, reg, pc, pend, weight, envleft, outcome, results, regRet, seen>>

StaticW == WeightsOf(inst.reg, inst.toks)
Describe ==
  [inst     |-> InstJ,
   w        |-> StaticW,
   stat     |-> {i \in 1..Len(inst.toks) : NeedsStat(inst.reg, inst.toks, i)},
   expect   |-> IF inst.mixed THEN "raise" ELSE IF inst.avail = {} THEN "none" ELSE "loc",
   coded    |-> Acc(inst.avail, inst.reg, inst.toks, StaticW, "ignored", "first"),
   contract |-> Contract(inst.avail, inst.reg, inst.toks, StaticW),
   sched    |-> SchedulerAssumption(inst.avail, inst.reg, inst.toks, StaticW),
   bydata   |-> ByData(inst.avail, inst.reg, inst.toks, StaticW, "ignored") # {},
   bylist   |-> /\ ByData(inst.avail, inst.reg, inst.toks, StaticW, "ignored")
                     # ByData(inst.avail, inst.reg, inst.toks, StaticW, "honoured")]

\* static runs: the invariants are checked on the complete graph AND every instance is written once (Call is
\* enabled exactly once per instance and has one successor)
GenNext == \/ Call /\ PrintT(ToJson(Describe))
           \/ \E i \in 1..Len(inst.toks) : StatDone(i)

\* dynamic runs: only instances in which the call really parks on I/O and some location is available
Parks == {i \in 1..Len(inst.toks) : NeedsStat(inst.reg, inst.toks, i)} # {}
DynInit == Init /\ Parks /\ inst.avail # {}

\* what the driver needs besides the state to judge the real answer: the contract for the registry at the scan, what
\* specs/Scheduler assumes, and the conservative bound (any registry that existed during the call)
Judge == [contract |-> IF outcome = "loc" THEN Contract(inst.avail, regRet, inst.toks, weight) ELSE {},
          sched    |-> IF outcome = "loc" THEN SchedulerAssumption(inst.avail, regRet, inst.toks, weight) ELSE {},
          loose    |-> IF outcome = "loc" THEN UNION {Contract(inst.avail, r, inst.toks, weight) : r \in seen} ELSE {},
          wj       |-> [i \in 1..Len(inst.toks) |-> {TokW(r, inst.toks, i) : r \in seen}]]
EmitNext == Next /\ PrintT(ToJson([i |-> InstJ, f |-> StateJ, a |-> act', t |-> StateJ', j |-> Judge']))
=============================================================================
