\* dynamic, thorough (1): 1..2 inputs (file / list of files) without recorded size, <= 2 PRIMARY copies, one registry change while parked; complete graph written transition by transition
CONSTANTS
  NLocs = 2
  MaxTokens = 2
  Kinds = {"file", "list"}
  Weights = {1, 2}
  UnsizedOK = TRUE
  ExtOK = FALSE
  MixedOK = FALSE
  CellTypes = {"P"}
  MaxEntries = 2
  MaxEnv = 1
  ListMode = "ignored"
  Fallback = "first"
INIT DynInit
NEXT EmitNext
VIEW View
INVARIANT TypeOK
INVARIANT MixedRaises
INVARIANT NoneIffNoneAvailable
INVARIANT AnswerAvailable
INVARIANT LocalityHonoured
INVARIANT HeaviestFirst
INVARIANT OnlyLocalPrimaryCounts
INVARIANT Refines
INVARIANT WeightsJustified
INVARIANT WeightsStatic
INVARIANT Confluent
