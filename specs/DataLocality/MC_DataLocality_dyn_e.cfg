\* dynamic, thorough (2): 1..2 file inputs (one with a secondary file) without recorded size, one PRIMARY copy, possibly in another deployment, TWO registry changes while parked
CONSTANTS
  NLocs = 2
  MaxTokens = 2
  Kinds = {"file", "file2"}
  Weights = {1}
  UnsizedOK = TRUE
  ExtOK = TRUE
  MixedOK = FALSE
  CellTypes = {"P"}
  MaxEntries = 1
  MaxEnv = 2
  ListMode = "ignored"
  Fallback = "first"
INIT DynInit
NEXT EmitNext
VIEW View
INVARIANT TypeOK
INVARIANT MixedRaises
INVARIANT NoneIffNoneAvailable
INVARIANT AnswerAvailable
INVARIANT LocalityHonoured
INVARIANT HeaviestFirst
INVARIANT OnlyLocalPrimaryCounts
INVARIANT Refines
INVARIANT WeightsJustified
INVARIANT WeightsStatic
INVARIANT Confluent
