CONSTANTS
  NLocs = 4
  MaxTokens = 3
  Kinds = {"plain", "file", "file2", "list"}
  Weights = {0, 1, 2, 3}
  UnsizedOK = TRUE
  ExtOK = TRUE
  MixedOK = TRUE
  CellTypes = {"P", "S", "I"}
  MaxEntries = 6
  MaxEnv = 0
  ListMode = "ignored"
  Fallback = "first"
INIT QInit
NEXT QNext
