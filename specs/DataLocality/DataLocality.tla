---------------------------- MODULE DataLocality ----------------------------
(* The default scheduling policy of StreamFlow (`DataLocalityPolicy.get_location`,
   streamflow/scheduling/policy/data_locality.py) together with what it relies on:
   token weights (`Token/FileToken/ListToken/ObjectToken.get_weight`, `CWLFileToken.get_weight`,
   `CWLFileToken.get_paths`) and the data-location registry
   (`DefaultDataManager.get_data_locations(path, deployment, data_type=PRIMARY)`).

   Extension module X02.  It composes with `specs/Scheduler`: that module models the policy only for
   jobs WITHOUT file inputs ("the first k valid locations in connector order", operator `Selected`);
   this module specifies ONE call of the policy for a job WITH inputs and leaves the scheduler's
   state machine (locks, validity, allocation) to `Scheduler`.

   One call of the policy, as a state machine under the asyncio atomicity rule (DESIGN 3.5; one
   action = the maximal run up to the point where every task of the call is parked on I/O):

     Call          the deployments check, the creation of one weight task per input and the first
                   run of each of them.  A token whose weight is recorded (`size`) or needs no I/O
                   is weighed here; a file token WITHOUT a recorded size reads the registry now
                   (`get_data_locations(path, data_type=PRIMARY)`, every deployment): no PRIMARY
                   copy => weight 0, otherwise the size of that copy is asked from its connector
                   (`StreamFlowPath.size()` -> `connector.run`), the only genuine suspension point.
                   If nothing is parked the run continues through the scan to the return.
     StatDone(i)   completion of the size I/O of input i, in any order.  The last one resumes the
                   policy coroutine (gather), which runs the scan to the return without suspending
                   (`get_paths` and the registry look-ups are synchronous).
     Env(c, t)     the environment (transfers and recoveries of OTHER jobs) changes one cell of the
                   registry while the call is parked.  The scheduler's own state cannot change: the
                   policy runs under `wait_queue` and the job lock.

   The contract is the relation `Contract` = the set of acceptable answers; `Acc(..., ListMode,
   Fallback)` is the same relation with the two choices the documentation leaves open resolved as
   coded.  The answer is kept as the SET `results` of acceptable answers (iteration over a python set
   of location names is nondeterministic: hash order), so the model is deterministic given the
   environment actions.

   Abstraction.  Locations of the target deployment: 1..NLocs in connector order (= the order of
   the `available_locations` mapping the scheduler passes).  Site 0 (`Ext`) is a location of ANOTHER
   deployment that bears the NAME of location 2.  A token is [kind, w, sized]:
     "plain"  Token             weight w                                  no path
     "file"   CWLFileToken      weight w (recorded size or size of a copy) path 1
     "file2"  CWLFileToken with one secondary file of recorded size SecW   paths 1, 2
     "list"   ListToken/ObjectToken of two file tokens (w ; SecW sized)    paths 1, 2 (not a FileToken)
   The registry maps cells <<input, path, site>> to a data type: "P" PRIMARY, "S" SYMBOLIC_LINK,
   "I" INVALID, absent = nothing registered.  All copies of one path have the same size.          *)
EXTENDS Naturals, Sequences, FiniteSets, FiniteSetsExt, TLC

CONSTANTS
  NLocs,       \* number of locations of the target deployment
  MaxTokens,   \* the job has 0..MaxTokens inputs
  Kinds,       \* subset of {"plain", "file", "file2", "list"}
  Weights,     \* base weights (model units; the harness multiplies by a unit of bytes)
  UnsizedOK,   \* file tokens without a recorded size (weight = size of a PRIMARY copy, 0 if none)
  ExtOK,       \* copies on a location of another deployment
  MixedOK,     \* calls whose available locations come from two deployments
  CellTypes,   \* data types of the initial registry entries, subset of {"P", "S", "I"}
  MaxEntries,  \* the initial registry has at most MaxEntries entries
  MaxEnv,      \* registry changes by the environment during the call
  ListMode,    \* do list/object tokens of files count for locality?  "ignored" (as coded) | "honoured"
  Fallback     \* without data-driven choice: "first" available in mapping order (as coded) | "any"

VARIABLES
  inst,      \* the instance: [avail, mixed, toks, reg]; never changes
  reg,       \* the registry now
  pc,        \* "idle" | "weighing" | "done"
  pend,      \* inputs whose size I/O is in flight
  weight,    \* weight per input (0 while unknown)
  envleft,
  outcome,   \* "pending" | "loc" | "none" | "raise"
  results,   \* the set of locations the call may return (outcome = "loc")
  regRet,    \* the registry at the time of the scan
  seen,      \* every registry that existed during the call
  act        \* label of the last action (for emission)

vars == <<inst, reg, pc, pend, weight, envleft, outcome, results, regRet, seen, act>>

Locs == 1..NLocs
Ext == 0
Sites == IF ExtOK THEN Locs \cup {Ext} ELSE Locs
SecW == 1

NP(kind) == IF kind = "plain" THEN 0 ELSE IF kind = "file" THEN 1 ELSE 2
IsFile(kind) == kind \in {"file", "file2"}          \* isinstance(token, FileToken)
IsBox(kind) == kind = "list"

TokenSet == {t \in [kind : Kinds, w : Weights, sized : BOOLEAN] :
               /\ t.kind = "plain" => (t.sized /\ t.w >= 1)
               /\ ~UnsizedOK => t.sized}
TokSeqs == UNION {[1..n -> TokenSet] : n \in 0..MaxTokens}
CellsOf(toks) == {c \in (1..Len(toks)) \X (1..2) \X Sites : c[2] <= NP(toks[c[1]].kind)}
RegsOf(toks) == LET C == CellsOf(toks)
                    top == IF Cardinality(C) < MaxEntries THEN Cardinality(C) ELSE MaxEntries
                IN UNION {UNION {[E -> CellTypes] : E \in kSubset(n, C)} : n \in 0..top}

Type(r, c) == IF c \in DOMAIN r THEN r[c] ELSE "N"
SetCell(r, c, t) == [x \in DOMAIN r \cup {c} |-> IF x = c THEN t ELSE r[x]]

-----------------------------------------------------------------------------
(* Weights *)
AnyPrimary(r, i, k) == \E s \in Sites : Type(r, <<i, k, s>>) = "P"
\* _get_file_token_weight on the first path: recorded size, else the size of a PRIMARY copy, else 0
FirstW(r, toks, i) == IF toks[i].sized \/ AnyPrimary(r, i, 1) THEN toks[i].w ELSE 0
\* secondaryFiles are added; ListToken/ObjectToken: sum of the members
TokW(r, toks, i) == IF toks[i].kind = "plain" THEN toks[i].w
                    ELSE IF toks[i].kind = "file" THEN FirstW(r, toks, i)
                    ELSE FirstW(r, toks, i) + SecW
NeedsStat(r, toks, i) == toks[i].kind # "plain" /\ ~toks[i].sized /\ AnyPrimary(r, i, 1)
StatW(toks, i) == IF toks[i].kind = "file" THEN toks[i].w ELSE toks[i].w + SecW
WeightsOf(r, toks) == [i \in 1..Len(toks) |-> TokW(r, toks, i)]

-----------------------------------------------------------------------------
(* The policy's answer as a relation *)
\* locations of the target deployment that hold a PRIMARY copy of some path of input i
Holders(r, toks, i) == {l \in Locs : \E k \in 1..NP(toks[i].kind) : Type(r, <<i, k, l>>) = "P"}
Counting(toks, lm) == {i \in 1..Len(toks) : IsFile(toks[i].kind) \/ (lm = "honoured" /\ IsBox(toks[i].kind))}
WithData(avail, r, toks, lm) == {i \in Counting(toks, lm) : Holders(r, toks, i) \cap avail # {}}
Heaviest(S, W) == {i \in S : \A j \in S : W[j] <= W[i]}
\* the heaviest input that has data on an available location decides (equal weights: any of them)
ByData(avail, r, toks, W, lm) ==
  UNION {Holders(r, toks, i) \cap avail : i \in Heaviest(WithData(avail, r, toks, lm), W)}
FallbackSet(avail, fb) == IF avail = {} THEN {} ELSE IF fb = "first" THEN {Min(avail)} ELSE avail
Acc(avail, r, toks, W, lm, fb) ==
  LET B == ByData(avail, r, toks, W, lm) IN IF B # {} THEN B ELSE FallbackSet(avail, fb)
\* what the documentation promises: both readings of "file input tokens", any location as fallback
Contract(avail, r, toks, W) ==
  Acc(avail, r, toks, W, "ignored", "any") \cup Acc(avail, r, toks, W, "honoured", "any")
\* what specs/Scheduler assumes when there is no data-driven choice (operator Selected there)
SchedulerAssumption(avail, r, toks, W) ==
  Acc(avail, r, toks, W, "ignored", "first") \cup Acc(avail, r, toks, W, "honoured", "first")

-----------------------------------------------------------------------------
(* One call *)
Init ==
  \E t \in TokSeqs : \E r \in RegsOf(t) : \E a \in SUBSET Locs :
  \E m \in (IF MixedOK THEN BOOLEAN ELSE {FALSE}) :
    /\ m => (a # {} /\ Cardinality(DOMAIN r) <= 1)      \* the rest is irrelevant when the call raises
    /\ inst = [avail |-> a, mixed |-> m, toks |-> t, reg |-> r]
    /\ reg = r /\ regRet = r /\ seen = {r}
    /\ pc = "idle" /\ pend = {} /\ weight = [i \in 1..Len(t) |-> 0]
    /\ envleft = MaxEnv /\ outcome = "pending" /\ results = {}
    /\ act = [name |-> "Init", i |-> 0, c |-> <<0, 0, 0>>, t |-> "N"]

\* the scan of the inputs by decreasing weight, run to the return statement
Finish(W) ==
  LET A == Acc(inst.avail, reg, inst.toks, W, ListMode, Fallback) IN
  /\ pc' = "done" /\ regRet' = reg /\ results' = A
  /\ outcome' = IF A = {} THEN "none" ELSE "loc"

Call ==
  /\ pc = "idle"
  /\ act' = [name |-> "Call", i |-> 0, c |-> <<0, 0, 0>>, t |-> "N"]
  /\ UNCHANGED <<inst, reg, envleft, seen>>
  /\ IF inst.mixed
     THEN /\ pc' = "done" /\ outcome' = "raise"
          /\ UNCHANGED <<pend, weight, results, regRet>>
     ELSE LET P == {i \in 1..Len(inst.toks) : NeedsStat(reg, inst.toks, i)}
              W == [i \in 1..Len(inst.toks) |-> IF i \in P THEN 0 ELSE TokW(reg, inst.toks, i)]
          IN /\ pend' = P /\ weight' = W
             /\ IF P = {} THEN Finish(W)
                ELSE pc' = "weighing" /\ UNCHANGED <<outcome, results, regRet>>

StatDone(i) ==
  /\ pc = "weighing" /\ i \in pend
  /\ act' = [name |-> "StatDone", i |-> i, c |-> <<0, 0, 0>>, t |-> "N"]
  /\ UNCHANGED <<inst, reg, envleft, seen>>
  /\ LET W == [weight EXCEPT ![i] = StatW(inst.toks, i)] IN
     /\ weight' = W /\ pend' = pend \ {i}
     /\ IF pend = {i} THEN Finish(W)
        ELSE UNCHANGED <<pc, outcome, results, regRet>>

\* what the public API of the data manager can do to one cell: register a copy (PRIMARY or link),
\* invalidate it, register it again after a recovery
EnvMoves == {<<"N", "P">>, <<"N", "S">>, <<"P", "I">>, <<"S", "I">>, <<"I", "P">>}
Env(c, t) ==
  /\ pc = "weighing" /\ envleft > 0
  /\ <<Type(reg, c), t>> \in EnvMoves
  /\ reg' = SetCell(reg, c, t) /\ seen' = seen \cup {reg'} /\ envleft' = envleft - 1
  /\ act' = [name |-> "Env", i |-> 0, c |-> c, t |-> t]
  /\ UNCHANGED <<inst, pc, pend, weight, outcome, results, regRet>>

Next == \/ Call
        \/ \E i \in 1..Len(inst.toks) : StatDone(i)
        \/ \E c \in CellsOf(inst.toks) : \E t \in {"P", "S", "I"} : Env(c, t)

Spec == Init /\ [][Next]_vars
FairSpec == Spec /\ WF_vars(Call) /\ \A i \in 1..MaxTokens : WF_vars(StatDone(i))

-----------------------------------------------------------------------------
(* Properties.  X02-1 .. X02-8 of notes/X02.md *)
Done == pc = "done"
Toks == inst.toks
Avail == inst.avail
FileInputs == {i \in 1..Len(Toks) : IsFile(Toks[i].kind)}
FileLike == {i \in 1..Len(Toks) : Toks[i].kind # "plain"}
HoldAv(i) == Holders(regRet, Toks, i) \cap Avail

TypeOK ==
  /\ pc \in {"idle", "weighing", "done"} /\ outcome \in {"pending", "loc", "none", "raise"}
  /\ pend \subseteq 1..Len(Toks) /\ results \subseteq Locs /\ envleft \in 0..MaxEnv
  /\ (pc = "weighing") => pend # {}
  /\ (outcome = "pending") <=> ~Done
  /\ (outcome = "loc") <=> results # {}

\* X02-1  locations from more than one deployment are refused
MixedRaises == Done => ((outcome = "raise") <=> inst.mixed)
\* X02-2  None iff there is no available location
NoneIffNoneAvailable == (Done /\ ~inst.mixed) => ((outcome = "none") <=> (Avail = {}))
\* X02-3  the answer is one of the available locations
AnswerAvailable == results \subseteq Avail
\* X02-4  if some file input has a PRIMARY copy on an available location, the answer holds a PRIMARY
\*        copy of a path of some input
LocalityHonoured ==
  (outcome = "loc" /\ \E i \in FileInputs : HoldAv(i) # {}) =>
     \A l \in results : \E j \in FileLike : l \in HoldAv(j)
\* X02-5  ... and no strictly heavier file input with data on an available location was passed over
HeaviestFirst ==
  (outcome = "loc") => \A l \in results :
     \/ \A i \in FileInputs : HoldAv(i) = {}
     \/ \E j \in FileLike : /\ l \in HoldAv(j)
                            /\ \A i \in FileInputs : HoldAv(i) # {} => weight[i] <= weight[j]
\* X02-6  only PRIMARY copies in the target deployment count: links, invalidated copies and copies on a
\*        location of another deployment (even one with the same name) never change the answer
OnlyPrimary(r) == [c \in {x \in DOMAIN r : r[x] = "P" /\ x[3] # Ext} |-> "P"]
OnlyLocalPrimaryCounts ==
  Done => \A lm \in {"ignored", "honoured"} : \A fb \in {"first", "any"} :
     Acc(Avail, regRet, Toks, weight, lm, fb) = Acc(Avail, OnlyPrimary(regRet), Toks, weight, lm, fb)
\* X02-7  the answer (as coded) is inside the contract, for the registry at the time of the scan, and inside
\*        what the Scheduler module assumes
Refines == Done => /\ results \subseteq Contract(Avail, regRet, Toks, weight)
                   /\ results \subseteq SchedulerAssumption(Avail, regRet, Toks, weight)
                   /\ regRet \in seen
\* X02-8  weights: every weight is the weight for a registry that existed during the call; without
\*        environment changes it is the structural weight (sum over the members, recorded size or size of a copy)
WeightsJustified == Done /\ ~inst.mixed =>
  \A i \in 1..Len(Toks) : \E r \in seen : weight[i] = TokW(r, Toks, i)
WeightsStatic == (Done /\ ~inst.mixed /\ envleft = MaxEnv) => weight = WeightsOf(inst.reg, Toks)
\* the order in which the size I/O completes does not matter
Confluent == (Done /\ ~inst.mixed /\ envleft = MaxEnv) =>
  results = Acc(Avail, inst.reg, Toks, WeightsOf(inst.reg, Toks), ListMode, Fallback)
\* the call returns (liveness, under fairness of the I/O completions)
Terminates == <>Done

\* JSON-friendly views
RegJ(r) == {[i |-> c[1], k |-> c[2], s |-> c[3], t |-> r[c]] : c \in DOMAIN r}
StateJ == [reg |-> RegJ(reg), pc |-> pc, pend |-> pend, weight |-> weight, outcome |-> outcome,
           results |-> results, envleft |-> envleft, regRet |-> RegJ(regRet), seen |-> {RegJ(r) : r \in seen}]
InstJ == [avail |-> inst.avail, mixed |-> inst.mixed, toks |-> inst.toks, reg |-> RegJ(inst.reg)]
=============================================================================
