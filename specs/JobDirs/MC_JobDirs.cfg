CONSTANTS Jobs <- cJobs  LocsOf <- cLocsOf  Dirs <- cDirs  Pinned <- cPinned
SPECIFICATION Spec
INVARIANT DirsExist
INVARIANT DirsRegistered
INVARIANT DirsDistinct
