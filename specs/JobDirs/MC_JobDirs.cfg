CONSTANTS Jobs <- cJobs  LocsOf <- cLocsOf  Dirs <- cDirs  Pinned <- cPinned
INIT Init
NEXT MCNext
INVARIANT DirsExist
INVARIANT DirsRegistered
INVARIANT DirsDistinct
