CONSTANTS Jobs <- tJobs  LocsOf <- tLocsOf  Dirs <- tDirs  Pinned <- tPinned
INIT TInit
NEXT TNext
INVARIANT Accept
INVARIANT DirsExist
INVARIANT DirsRegistered
INVARIANT DirsDistinct
CONSTRAINT Diag
