------------------------------- MODULE JobDirs -------------------------------
(* Working directories of scheduled jobs (`ScheduleStep._schedule/_set_job_directories`,
   `streamflow/workflow/step.py`; registration in the data manager, `streamflow/data/manager.py`).

   Schedule(j): for each of the three directories (input, output, tmp) take the directory pinned by the
   binding, or a FRESH name under the target's workdir (`random_name()` is modelled as a choice among the
   names not handed out yet -- that is the assumption the code relies on), `mkdir -p` it on every allocated
   location, resolve it, register it as available there.

   Lose(l, d): directory d is lost on location l and the data manager is told so (`invalidate_location`, what
   FileToken.is_available does when a path has gone): it neither exists nor is registered there any more.  A step
   scheduled again afterwards (rollback, a new run in the same context) must get existing, REGISTERED directories
   again -- with a directory pinned by the binding that is the same path on the same location.          *)
EXTENDS Naturals, FiniteSets, Sequences, TLC

CONSTANTS Jobs,      \* set of job names
          LocsOf,    \* LocsOf[j] : set of locations allocated to j
          Dirs,      \* universe of directory names
          Pinned     \* Pinned[j] : <<in, out, tmp>> with "" for "not pinned by the binding"

VARIABLES dirs,      \* dirs[j] : <<in, out, tmp>> once scheduled, <<>> before
          used,      \* directories handed out so far (unpinned ones)
          fs,        \* fs : set of <<location, directory>> that exist
          reg,       \* reg : set of <<location, directory>> registered as available in the data manager
          live       \* jobs none of whose directories has been lost since they were scheduled
vars == <<dirs, used, fs, reg, live>>

AllLocs == UNION {LocsOf[j] : j \in Jobs}
Init == dirs = [j \in Jobs |-> <<>>] /\ used = {} /\ fs = {} /\ reg = {} /\ live = {}

Fresh(d, k, j) == IF Pinned[j][k] # "" THEN d = Pinned[j][k] ELSE d \notin used
Schedule(j, d) ==       \* d = <<din, dout, dtmp>>
  /\ dirs[j] = <<>>
  /\ \A k \in 1..3 : d[k] \in Dirs /\ Fresh(d[k], k, j)
  /\ \A k1, k2 \in 1..3 : (k1 # k2 /\ Pinned[j][k1] = "" /\ Pinned[j][k2] = "") => d[k1] # d[k2]
  /\ dirs' = [dirs EXCEPT ![j] = d]
  /\ used' = used \cup {d[k] : k \in {x \in 1..3 : Pinned[j][x] = ""}}
  /\ fs' = fs \cup {<<l, d[k]>> : l \in LocsOf[j], k \in 1..3}
  /\ reg' = reg \cup {<<l, d[k]>> : l \in LocsOf[j], k \in 1..3}
  /\ live' = live \cup {j}
Lose(l, d) ==
  /\ <<l, d>> \in fs
  /\ fs' = fs \ {<<l, d>>}
  /\ reg' = reg \ {<<l, d>>}
  /\ live' = {j \in live : ~(l \in LocsOf[j] /\ \E k \in 1..3 : dirs[j][k] = d)}
  /\ UNCHANGED <<dirs, used>>
Next == \/ \E j \in Jobs, d \in Dirs \X Dirs \X Dirs : Schedule(j, d)
        \/ \E l \in AllLocs, d \in Dirs : Lose(l, d)
Spec == Init /\ [][Next]_vars

Scheduled == {j \in Jobs : dirs[j] # <<>>}
\* I1: the three directories exist on each allocated location (until one of them is lost)
DirsExist == \A j \in live : \A l \in LocsOf[j], k \in 1..3 : <<l, dirs[j][k]>> \in fs
\* I2: each is registered as available there
DirsRegistered == \A j \in live : \A l \in LocsOf[j], k \in 1..3 : <<l, dirs[j][k]>> \in reg
\* I3: directories not fixed by the binding are pairwise different across jobs and within a job
DirsDistinct == \A j1, j2 \in Scheduled : \A k1, k2 \in 1..3 :
                  (Pinned[j1][k1] = "" /\ Pinned[j2][k2] = "" /\ <<j1, k1>> # <<j2, k2>>) => dirs[j1][k1] # dirs[j2][k2]
=============================================================================
