--------------------------- MODULE Trace_JobDirs ---------------------------
(* Recorded at the put of each JobToken of real runs: job name, the three directories, and -- observed on the
   real locations at that moment -- whether each exists and is registered.  Jobs, locations and directory names
   are taken from the trace itself (the constants are functions of the trace batch).                       *)
EXTENDS JobDirs, TraceUtil
VARIABLES tid, l
tvars == <<vars, tid, l>>
Tr == Traces[tid]
Ev == Tr[l]
More == l <= Len(Tr)
TInit == Init /\ tid \in 1..Len(Traces) /\ l = 1
TSchedule ==
  /\ More
  /\ Schedule(Ev.job, <<Ev.dirs[1], Ev.dirs[2], Ev.dirs[3]>>)       \* guard fails on a re-used directory
  /\ \A i \in 1..Len(Ev.exists) : Ev.exists[i]                       \* observed: mkdir happened on every location
  /\ \A i \in 1..Len(Ev.registered) : Ev.registered[i]               \* observed: registered on every location
  /\ l' = l + 1 /\ UNCHANGED tid
TNext == TSchedule
Accept == (~More) => TUAcceptMsg(tid)
Diag == TUDiagMsg(tid, l)
\* constants derived from the batch
AllEvents == UNION {{Traces[t][i] : i \in 1..Len(Traces[t])} : t \in 1..Len(Traces)}
tJobs == {e.job : e \in AllEvents}
tDirs == UNION {{e.dirs[1], e.dirs[2], e.dirs[3]} : e \in AllEvents}
tLocsOf == [j \in tJobs |-> UNION {{e.locs[i] : i \in 1..Len(e.locs)} : e \in {x \in AllEvents : x.job = j}}]
tPinned == [j \in tJobs |-> LET e == CHOOSE x \in AllEvents : x.job = j IN <<e.pinned[1], e.pinned[2], e.pinned[3]>>]
=============================================================================
