---- MODULE MC_JobDirs ----
EXTENDS JobDirs
cJobs == {"j1", "j2"}
cLocsOf == [j \in cJobs |-> IF j = "j2" THEN {"l1", "l2"} ELSE {"l1"}]
cDirs == {"a", "b", "c", "d", "e", "f", "g", "p"}
cPinned == [j \in cJobs |-> IF j = "j2" THEN <<"", "p", "">> ELSE <<"", "", "">>]
\* only the directory pinned by the binding is lost (losing the fresh ones only multiplies states: they are never
\* handed out again)
MCNext == \/ \E j \in Jobs, d \in Dirs \X Dirs \X Dirs : Schedule(j, d)
          \/ \E l \in AllLocs : Lose(l, "p")
====
