---- MODULE MC_JobDirs ----
EXTENDS JobDirs
cJobs == {"j1", "j2"}
cLocsOf == [j \in cJobs |-> IF j = "j2" THEN {"l1", "l2"} ELSE {"l1"}]
cDirs == {"a", "b", "c", "d", "e", "f", "g", "p"}
cPinned == [j \in cJobs |-> IF j = "j2" THEN <<"", "p", "">> ELSE <<"", "", "">>]
====
