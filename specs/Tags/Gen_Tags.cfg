CONSTANTS D = 3  M = 12
INIT Init
NEXT Next
