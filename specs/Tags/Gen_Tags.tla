------------------------------ MODULE Gen_Tags ------------------------------
(* Generation: TLC evaluates the sorted sequence of all tags of depth <= D over 0..M with the
   module's own order and writes it as JSON; it also answers the comparison/selection queries
   the harness sends in QUERY_FILE (random deeper tags with multi-digit components), so that
   the expected sign always comes from the specification.                                      *)
EXTENDS Tags, TLC, Json, IOUtils, SequencesExt
CONSTANTS D, M
Sorted == SortSeq(SetToSeq(TagsUpTo(D, M)), Less)
Queries == JsonDeserialize(IOEnv.QUERY_FILE)
AnswerCmp == [i \in 1..Len(Queries.cmp) |-> Cmp(Queries.cmp[i][1], Queries.cmp[i][2])]
AnswerDeepest == [i \in 1..Len(Queries.chains) |-> Deepest(ToSet(Queries.chains[i]))]
AnswerSorted == [i \in 1..Len(Queries.sort) |-> SortSeq(Queries.sort[i], Less)]
ASSUME JsonSerialize(IOEnv.OUT_FILE, [sorted |-> Sorted, cmp |-> AnswerCmp,
                                      deepest |-> AnswerDeepest, sortq |-> AnswerSorted])
VARIABLE x
Init == x = 0
Next == UNCHANGED x
=============================================================================
