CONSTANTS D = 3  M = 3
INIT Init
NEXT Next
INVARIANT Total
INVARIANT Antisym
INVARIANT EqIffSame
INVARIANT Transitive
INVARIANT StrictTransitive
INVARIANT DepthFirst
INVARIANT Numeric
INVARIANT DeepestOfChain
INVARIANT SplitJoin
