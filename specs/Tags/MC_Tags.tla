------------------------------ MODULE MC_Tags ------------------------------
(* Exhaustive check of the order laws on every triple of tags of depth <= D over 0..M.
   The "state machine" is the enumeration: one initial state per triple, no transitions.      *)
EXTENDS Tags, TLC
CONSTANTS D, M
VARIABLES a, b, c
T == TagsUpTo(D, M)
Init == a \in T /\ b \in T /\ c \in T
Next == UNCHANGED <<a, b, c>>

Total == Cmp(a, b) \in {-1, 0, 1}
Antisym == Cmp(a, b) = -Cmp(b, a)
EqIffSame == (Cmp(a, b) = 0) <=> (a = b)
Transitive == (Leq(a, b) /\ Leq(b, c)) => Leq(a, c)
StrictTransitive == (Less(a, b) /\ Less(b, c)) => Less(a, c)
DepthFirst == Len(a) < Len(b) => Less(a, b)
Numeric == (Len(a) = Len(b) /\ a # b) =>
             LET i == FirstDiff(a, b, 1) IN Less(a, b) <=> a[i] < b[i]
DeepestOfChain == IsChain({a, b, c}) =>
                    /\ Deepest({a, b, c}) \in {a, b, c}
                    /\ \A u \in {a, b, c} : IsPrefixTag(u, Deepest({a, b, c}))
\* step paths of 0 (the root step "/" of a bare tool), 1 and 2 segments
SplitJoin == \A step \in {<<>>, <<"s">>, <<"s", a>>} : SplitJob(JoinJob(step, b)) = <<step, b>>
=============================================================================
