-------------------------------- MODULE Tags --------------------------------
(* Tags of StreamFlow tokens (`streamflow/core/utils.py`): a tag is a non-empty sequence of
   naturals, written "0.3.12" in the code.  This module is the single definition of the tag
   order and is EXTENDed/INSTANCEd by the modules that sort or select by tag
   (ScatterGather, Combinator, Loop, Dataflow, Scheduler).

   compare_tags  -> Cmp / Less      depth first, then components numerically
   get_tag       -> Deepest         the deepest tag of a prefix chain ("0" when no token)
   get_job_tag / get_job_step_name  -> SplitJob(JoinJob(step, tag)) = <<step, tag>>            *)
EXTENDS Naturals, Integers, Sequences, FiniteSets

Sign(n) == IF n < 0 THEN -1 ELSE IF n > 0 THEN 1 ELSE 0

\* first index at which a and b (same length) differ, 0 when equal
RECURSIVE FirstDiff(_, _, _)
FirstDiff(a, b, i) == IF i > Len(a) THEN 0
                      ELSE IF a[i] # b[i] THEN i ELSE FirstDiff(a, b, i + 1)

Cmp(a, b) == IF Len(a) # Len(b) THEN Sign(Len(a) - Len(b))
             ELSE LET i == FirstDiff(a, b, 1) IN IF i = 0 THEN 0 ELSE Sign(a[i] - b[i])

Less(a, b) == Cmp(a, b) < 0
Leq(a, b) == Cmp(a, b) <= 0

IsPrefixTag(a, b) == Len(a) <= Len(b) /\ SubSeq(b, 1, Len(a)) = a
IsChain(S) == \A a, b \in S : IsPrefixTag(a, b) \/ IsPrefixTag(b, a)

\* get_tag: the tag of a combination of tokens.  Defined (by the property) on prefix chains.
Deepest(S) == IF S = {} THEN <<0>>
              ELSE CHOOSE t \in S : \A u \in S : Len(u) <= Len(t)

\* Job names: step names are absolute paths = sequences of segments (the empty sequence is the root step "/", the
\* name the CWL translator gives to a top-level CommandLineTool / ExpressionTool); the job of a step
\* for a tag is the step path extended with the tag as its last segment.
JoinJob(step, tag) == Append(step, tag)
SplitJob(job) == <<SubSeq(job, 1, Len(job) - 1), job[Len(job)]>>

\* All tags of depth 1..d over components 0..m
RECURSIVE TagsOfDepth(_, _)
TagsOfDepth(d, m) == IF d = 0 THEN {<<>>}
                     ELSE {Append(t, c) : t \in TagsOfDepth(d - 1, m), c \in 0..m}
TagsUpTo(d, m) == UNION {TagsOfDepth(k, m) : k \in 1..d}
=============================================================================
