CONSTANTS
  Scn = "filter1"  AdmitTags = {"a"}  RuleTagSel = "one"  PutSel = "first"  GetSel = "all"
  Ports <- ScnPorts  Kind <- ScnKind  Admit <- ScnAdmit  RuleTargets <- ScnTargets
  PutPorts <- ScnPutPorts  GetPorts <- ScnGetPorts  RuleTags <- ScnRuleTags  RuleActs <- ScnRuleActs
  Consumers = {"c1"}
  Tags = {"a", "b"}
  MaxPuts = 4  MaxTerm = 1  MaxRules = 0  MaxCloses = 1
  SelfReplay = FALSE
INIT GenInit
NEXT GenNext
VIEW GenView
