-------------------------------- MODULE Port --------------------------------
(* Token ports of StreamFlow (property C03).

   Transcribed from  streamflow/core/workflow.py  (class Port: put, get, _init_consumer, close, empty)
   and  streamflow/workflow/port.py  (FilterTokenPort.put, InterWorkflowPort.put / add_inter_port /
   _execute_boundary_action, BoundaryRule).  ConnectorPort and JobPort are plain ports with value
   helpers; InterWorkflowJobPort is an InterWorkflowPort.

   Atomicity (DESIGN.md 3.5).  put, add_inter_port and close are synchronous: one action each, including
   every nested put performed by boundary rules.  `await port.get(c)` runs synchronously up to
   `await queue.get()`; asyncio.Queue.get returns without suspending when the queue holds an item
   (action Get completes the get at once) and otherwise parks a getter future (Get leaves the get
   "blocked").  Queue.put_nowait resolves the parked future ("woken"); the coroutine resumes only in a later
   iteration of the event loop (action Wake = one loop iteration: every woken get completes), so further
   synchronous actions of the running task may come between the put and the completion of the get.

   Concrete state = what the code keeps (token_list, queues, boundaries) + what each consumer has received.
   Ghost state (arr, hist, rule0, emitted) only records *what was asked of a port* (which tokens were handed to
   its put, which rules were added when); the properties I2/I3 recompute from these histories, with a
   counting formulation (no tag list is mutated), what the port must contain and what each rule must have
   sent, and compare with the state produced by the transcribed algorithm.                                  *)
EXTENDS Naturals, Sequences, FiniteSets, TLC

CONSTANTS
  Ports,        \* set of port names (strings)
  Kind,         \* [Ports -> {"plain", "filter", "inter"}]
  Consumers,    \* set of consumer names (strings)
  Tags,         \* set of token tags (strings other than "T" and "R")
  Admit,        \* [Ports -> SUBSET Tags]: the filter predicate of a filter port (ignored for the other kinds)
  PutPorts,     \* ports on which the environment calls put
  GetPorts,     \* ports on which consumers call get / close
  MaxPuts,      \* number of environment puts (token identities 1..MaxPuts), terminations included
  MaxTerm,      \* number of environment termination puts
  MaxRules,     \* number of add_inter_port calls
  MaxCloses,    \* number of close calls (at most one per port and consumer: Step.terminate closes once)
  RuleTags,     \* set of tag sequences usable as boundary_tags
  RuleActs,     \* set of <<propagate, terminate>> pairs of booleans usable as boundary_action
  RuleTargets,  \* [Ports -> SUBSET Ports]: admissible targets of the rules of each inter port
  SelfReplay    \* TRUE: a self-targeting rule may be added to a port that already holds tokens

VARIABLES
  tl,       \* [Ports -> Seq(Token)]                    Port.token_list
  subs,     \* [Ports -> SUBSET Consumers]              keys of Port.queues
  q,        \* [Ports -> [Consumers -> Seq(Token)]]     contents of Port.queues[c]  (<<>> when not subscribed)
  dl,       \* [Ports -> [Consumers -> Seq(Token)]]     tokens returned so far by get(c)
  pd,       \* [Ports -> [Consumers -> {"none","blocked","woken"}]]  state of the outstanding get(c)
  rules,    \* [Ports -> Seq([target, prop, term, tags])]   InterWorkflowPort.boundaries
  closed,   \* set of <<p, c>> on which close was called
  nid,      \* identity of the next token created by the environment
  nterm,    \* environment terminations so far
  nrules,   \* add_inter_port calls so far
  \* ghost (history) variables
  arr,      \* [Ports -> Seq(Token)]   every token handed to the (virtual) put of the port, in order
  hist,     \* [Ports -> Seq(event)]   arrivals and rule additions of the port, in order
  rule0,    \* [Ports -> Seq([target, prop, term, tags, seen0])]  rules as they were added
  emitted   \* [Ports -> Seq(Seq(Token))]  what each rule handed to its target, in order

cvars == <<tl, subs, q, dl, pd, rules, closed, nid, nterm, nrules>>
gvars == <<arr, hist, rule0, emitted>>
vars == <<tl, subs, q, dl, pd, rules, closed, nid, nterm, nrules, arr, hist, rule0, emitted>>

---------------------------------------------------------------------------
(* Tokens.  An environment token has a fresh identity; a termination token has tag "T"; the
   TerminationToken(Status.RECOVERED) created by a TERMINATE rule is RTok (identity 0, a fresh object in
   the code: the binding checks class and status).                                                      *)
Tok(i, g) == [id |-> i, tag |-> g]
RTok == [id |-> 0, tag |-> "R"]
IsTerm(t) == t.tag \in {"T", "R"}
NoTok == [id |-> 0, tag |-> ""]

InterPorts == {p \in Ports : Kind[p] = "inter"}

NonTerm(s) == SelectSeq(s, LAMBDA t : ~IsTerm(t))
TagsOf(s) == [j \in 1..Len(s) |-> s[j].tag]
Count(s, x) == Cardinality({i \in 1..Len(s) : s[i] = x})
IsPrefix(s, t) == Len(s) <= Len(t) /\ SubSeq(t, 1, Len(s)) = s

\* list.remove(x) guarded by `x in list` (BoundaryRule.remove_tag): drops the first occurrence
RemoveFirst(s, x) ==
  IF \E i \in 1..Len(s) : s[i] = x
  THEN LET i == CHOOSE k \in 1..Len(s) : s[k] = x /\ \A j \in 1..(k - 1) : s[j] # x
       IN SubSeq(s, 1, i - 1) \o SubSeq(s, i + 1, Len(s))
  ELSE s

---------------------------------------------------------------------------
(* The algorithms, over a working record S = [tl, q, pd, rules, arr, hist, emitted] (the part of the
   state that a put can change; `subs` never changes inside a put).                                     *)

\* Port.put: append to token_list and to the queue of every subscribed consumer; put_nowait resolves
\* the future of a parked getter
BasePut(S, p, t) ==
  [S EXCEPT !.tl[p] = Append(@, t),
            !.q[p] = [c \in Consumers |-> IF c \in subs[p] THEN Append(@[c], t) ELSE @[c]],
            !.pd[p] = [c \in Consumers |-> IF @[c] = "blocked" THEN "woken" ELSE @[c]]]

RECURSIVE PutOn(_, _, _), RuleLoop(_, _, _, _, _), Exec(_, _, _, _)

\* InterWorkflowPort._execute_boundary_action(boundary i of p, t):
\*   target = boundary.port if boundary.port is not self else super()
Exec(S, p, i, t) ==
  LET r == S.rules[p][i]
      out == (IF r.prop THEN <<t>> ELSE <<>>) \o (IF r.term THEN <<RTok>> ELSE <<>>)
      S0 == [S EXCEPT !.emitted[p][i] = @ \o out]
      S1 == IF ~r.prop THEN S0
            ELSE IF r.target = p THEN BasePut(S0, p, t) ELSE PutOn(S0, r.target, t)
      S2 == IF ~r.term THEN S1
            ELSE IF r.target = p THEN BasePut(S1, p, RTok) ELSE PutOn(S1, r.target, RTok)
  IN S2

\* the loop `for boundary in self.boundaries` of InterWorkflowPort.put, from rule i on
RuleLoop(S, p, t, i, matchedSelf) ==
  IF i > Len(S.rules[p])
  THEN IF matchedSelf THEN S ELSE BasePut(S, p, t)
  ELSE LET S1 == [S EXCEPT !.rules[p][i].tags = RemoveFirst(@, t.tag)]
       IN IF S1.rules[p][i].tags = <<>>
          THEN RuleLoop(Exec(S1, p, i, t), p, t, i + 1, matchedSelf \/ S1.rules[p][i].target = p)
          ELSE RuleLoop(S1, p, t, i + 1, matchedSelf)

\* p.put(t) with dynamic dispatch on the class of p
PutOn(S, p, t) ==
  LET S0 == [S EXCEPT !.arr[p] = Append(@, t),
                      !.hist[p] = Append(@, [k |-> "arr", t |-> t, i |-> 0])]
  IN CASE Kind[p] = "plain"  -> BasePut(S0, p, t)
       [] Kind[p] = "filter" -> IF IsTerm(t) \/ t.tag \in Admit[p] THEN BasePut(S0, p, t) ELSE S0
       [] Kind[p] = "inter"  -> IF IsTerm(t) THEN BasePut(S0, p, t) ELSE RuleLoop(S0, p, t, 1, FALSE)

\* the replay loop of add_inter_port over a copy of the non-termination tokens.  A self-targeting rule does not
\* hand a replayed token to the port again (it is already on the port): only the RECOVERED termination of a
\* TERMINATE rule is put (`if port is self:` branch of add_inter_port); any other target gets _execute_boundary_action
ExecReplay(S, p, i, t) ==
  LET r == S.rules[p][i]
  IN IF r.target # p THEN Exec(S, p, i, t)
     ELSE IF r.term THEN BasePut([S EXCEPT !.emitted[p][i] = @ \o <<RTok>>], p, RTok)
     ELSE S
RECURSIVE Replay(_, _, _, _)
Replay(S, p, i, toks) ==
  IF toks = <<>> THEN S
  ELSE LET t == Head(toks)
           S1 == [S EXCEPT !.rules[p][i].tags = RemoveFirst(@, t.tag)]
           S2 == IF S1.rules[p][i].tags = <<>> THEN ExecReplay(S1, p, i, t) ELSE S1
       IN Replay(S2, p, i, Tail(toks))

Work == [tl |-> tl, q |-> q, pd |-> pd, rules |-> rules, arr |-> arr, hist |-> hist, emitted |-> emitted]
Commit(S) == /\ tl' = S.tl /\ q' = S.q /\ pd' = S.pd /\ rules' = S.rules
             /\ arr' = S.arr /\ hist' = S.hist /\ emitted' = S.emitted

---------------------------------------------------------------------------
Init ==
  /\ tl = [p \in Ports |-> <<>>]
  /\ subs = [p \in Ports |-> {}]
  /\ q = [p \in Ports |-> [c \in Consumers |-> <<>>]]
  /\ dl = [p \in Ports |-> [c \in Consumers |-> <<>>]]
  /\ pd = [p \in Ports |-> [c \in Consumers |-> "none"]]
  /\ rules = [p \in Ports |-> <<>>]
  /\ closed = {}
  /\ nid = 1 /\ nterm = 0 /\ nrules = 0
  /\ arr = [p \in Ports |-> <<>>]
  /\ hist = [p \in Ports |-> <<>>]
  /\ rule0 = [p \in Ports |-> <<>>]
  /\ emitted = [p \in Ports |-> <<>>]

\* the environment hands a fresh token with tag g to p.put
Put(p, g) ==
  /\ p \in PutPorts /\ g \in Tags /\ nid <= MaxPuts
  /\ Commit(PutOn(Work, p, Tok(nid, g)))
  /\ nid' = nid + 1
  /\ UNCHANGED <<subs, dl, closed, nterm, nrules, rule0>>

\* the environment hands a fresh TerminationToken to p.put (Step.terminate)
PutTermination(p) ==
  /\ p \in PutPorts /\ nid <= MaxPuts /\ nterm < MaxTerm
  /\ Commit(PutOn(Work, p, Tok(nid, "T")))
  /\ nid' = nid + 1 /\ nterm' = nterm + 1
  /\ UNCHANGED <<subs, dl, closed, nrules, rule0>>

\* consumer c starts `await p.get(c)` (one outstanding get per consumer).  The first get subscribes:
\* _init_consumer creates the queue and replays token_list into it.
Get(p, c) ==
  /\ p \in GetPorts /\ c \in Consumers /\ pd[p][c] = "none"
  /\ LET qq == IF c \in subs[p] THEN q[p][c] ELSE tl[p]
     IN /\ subs' = [subs EXCEPT ![p] = @ \cup {c}]
        /\ IF qq # <<>>
           THEN /\ dl' = [dl EXCEPT ![p][c] = Append(@, Head(qq))]
                /\ q' = [q EXCEPT ![p][c] = Tail(qq)]
                /\ pd' = pd
           ELSE /\ q' = [q EXCEPT ![p][c] = <<>>]
                /\ pd' = [pd EXCEPT ![p][c] = "blocked"]
                /\ dl' = dl
  /\ UNCHANGED <<tl, rules, closed, nid, nterm, nrules, arr, hist, rule0, emitted>>

\* one iteration of the event loop: every get whose future was resolved by a put completes
Wake ==
  /\ \E p \in Ports, c \in Consumers : pd[p][c] = "woken"
  /\ dl' = [p \in Ports |-> [c \in Consumers |-> IF pd[p][c] = "woken" THEN Append(dl[p][c], Head(q[p][c])) ELSE dl[p][c]]]
  /\ q' = [p \in Ports |-> [c \in Consumers |-> IF pd[p][c] = "woken" THEN Tail(q[p][c]) ELSE q[p][c]]]
  /\ pd' = [p \in Ports |-> [c \in Consumers |-> IF pd[p][c] = "woken" THEN "none" ELSE pd[p][c]]]
  /\ UNCHANGED <<tl, subs, rules, closed, nid, nterm, nrules, arr, hist, rule0, emitted>>

\* p.add_inter_port(x, tags, action)
AddInterPort(p, x, tags, prop, term) ==
  /\ p \in InterPorts /\ x \in RuleTargets[p] /\ nrules < MaxRules
  /\ (x = p) => (SelfReplay \/ NonTerm(tl[p]) = <<>>)
  /\ (x = p) => ~\E i \in 1..Len(rules[p]) : rules[p][i].target = p     \* one self rule per port (the engine adds one)
  /\ LET i == Len(rules[p]) + 1
         snapshot == NonTerm(tl[p])
         S0 == [Work EXCEPT !.rules[p] = Append(@, [target |-> x, prop |-> prop, term |-> term, tags |-> tags]),
                            !.emitted[p] = Append(@, <<>>),
                            !.hist[p] = Append(@, [k |-> "rule", t |-> NoTok, i |-> i])]
     IN /\ Commit(Replay(S0, p, i, snapshot))
        /\ rule0' = [rule0 EXCEPT ![p] = Append(@, [target |-> x, prop |-> prop, term |-> term,
                                                     tags |-> tags, seen0 |-> snapshot])]
  /\ nrules' = nrules + 1
  /\ UNCHANGED <<subs, dl, closed, nid, nterm>>

\* p.close(c): task_done bookkeeping only; never changes what is or will be delivered
Close(p, c) ==
  /\ p \in GetPorts /\ c \in Consumers /\ <<p, c>> \notin closed /\ Cardinality(closed) < MaxCloses
  /\ closed' = closed \cup {<<p, c>>}
  /\ UNCHANGED <<tl, subs, q, dl, pd, rules, nid, nterm, nrules, arr, hist, rule0, emitted>>

Next ==
  \/ \E p \in Ports, g \in Tags : Put(p, g)
  \/ \E p \in Ports : PutTermination(p)
  \/ \E p \in Ports, c \in Consumers : Get(p, c)
  \/ Wake
  \/ \E p \in Ports, x \in Ports, tags \in RuleTags, a \in RuleActs : AddInterPort(p, x, tags, a[1], a[2])
  \/ \E p \in Ports, c \in Consumers : Close(p, c)

Spec == Init /\ [][Next]_vars
Fairness == /\ \A p \in GetPorts, c \in Consumers : WF_vars(Get(p, c))
            /\ WF_vars(Wake)
FairSpec == Spec /\ Fairness

---------------------------------------------------------------------------
(* Properties *)
TypeOK ==
  /\ \A p \in Ports : subs[p] \subseteq Consumers
  /\ \A p \in Ports, c \in Consumers : pd[p][c] \in {"none", "blocked", "woken"}
  /\ \A p \in Ports : Len(rules[p]) = Len(rule0[p]) /\ Len(rules[p]) = Len(emitted[p])
  /\ \A p \in Ports \ InterPorts : rules[p] = <<>>

\* I1  every consumer has received a prefix of the token list (each token once, in order, including what was
\*     put before it subscribed), and what it has not received yet is exactly what its queue holds
DeliveredIsPrefix == \A p \in Ports, c \in Consumers : IsPrefix(dl[p][c], tl[p])
NothingLostOrDuplicated ==
  \A p \in Ports, c \in Consumers :
    IF c \in subs[p] THEN dl[p][c] \o q[p][c] = tl[p] ELSE dl[p][c] = <<>> /\ q[p][c] = <<>>

\* I2  plain port: the token list is exactly the sequence of puts; filter port: exactly the admitted
\*     subsequence, termination tokens always admitted
PlainKeepsEverything == \A p \in Ports : Kind[p] = "plain" => tl[p] = arr[p]
FilterAdmitsExactly ==
  \A p \in Ports : Kind[p] = "filter" =>
     tl[p] = SelectSeq(arr[p], LAMBDA t : IsTerm(t) \/ t.tag \in Admit[p])

\* I3  counting formulation of the boundary rules
CompleteBy(tags0, seenTags) == \A j \in 1..Len(tags0) : Count(tags0, tags0[j]) <= Count(seenTags, tags0[j])
Contribution(r, t) == (IF r.prop THEN <<t>> ELSE <<>>) \o (IF r.term THEN <<RTok>> ELSE <<>>)
RuleEv(p, i) == CHOOSE k \in 1..Len(hist[p]) : hist[p][k].k = "rule" /\ hist[p][k].i = i
ArrBetween(p, a, b) ==      \* non-termination tokens that arrived at p with the events a+1..b
  LET F[k \in a..b] == IF k = a THEN <<>>
                       ELSE IF hist[p][k].k = "arr" /\ ~IsTerm(hist[p][k].t) THEN Append(F[k - 1], hist[p][k].t)
                       ELSE F[k - 1]
  IN F[b]
Seen(p, i, k) == rule0[p][i].seen0 \o ArrBetween(p, RuleEv(p, i), k)   \* tokens rule i has seen up to event k
FiresAt(p, i, k) == CompleteBy(rule0[p][i].tags, TagsOf(Seen(p, i, k)))
\* what a rule must have sent after having seen `all`: for every token by which its tag multiset is complete,
\* the token (PROPAGATE) and a RECOVERED termination right after (TERMINATE); nothing for the others
\* the first n0 tokens of `all` were already on the port when a self-targeting rule was added (replay of
\* add_inter_port): they stay where they are and are not handed to the port a second time, only the termination is owed
OwedFrom(r, all, n0) ==
  LET F[j \in 0..Len(all)] ==
        IF j = 0 THEN <<>>
        ELSE F[j - 1] \o (IF CompleteBy(r.tags, TagsOf(SubSeq(all, 1, j)))
                            THEN (IF j <= n0 THEN (IF r.term THEN <<RTok>> ELSE <<>>) ELSE Contribution(r, all[j]))
                            ELSE <<>>)
  IN F[Len(all)]
Owed(r, all) == OwedFrom(r, all, 0)
OnPortAtAdd(p, i) == IF rule0[p][i].target = p THEN Len(rule0[p][i].seen0) ELSE 0
RuleFiresExactlyWhenComplete ==
  \A p \in InterPorts : \A i \in 1..Len(rule0[p]) :
     emitted[p][i] = OwedFrom(rule0[p][i], Seen(p, i, Len(hist[p])), OnPortAtAdd(p, i))

IsSubseq(s, t) ==       \* s is a (not necessarily contiguous) subsequence of t
  LET F[a \in 0..Len(s), b \in 0..Len(t)] ==
        IF a = 0 THEN TRUE
        ELSE IF b = 0 THEN FALSE
        ELSE (s[a] = t[b] /\ F[a - 1, b - 1]) \/ F[a, b - 1]
  IN F[Len(s), Len(t)]
TargetReceivesWhatRulesSend ==
  \A p \in InterPorts : \A i \in 1..Len(rule0[p]) :
     rule0[p][i].target # p => IsSubseq(emitted[p][i], arr[rule0[p][i].target])

\* what an inter-workflow port must hold, recomputed from its history: a termination token always; a token
\* that completes no self-targeting rule as it is; a token that completes self-targeting rules only through them
SelfFiring(p, k) == {i \in 1..Len(rule0[p]) : rule0[p][i].target = p /\ RuleEv(p, i) < k /\ FiresAt(p, i, k)}
RECURSIVE ConcatRules(_, _, _, _)
ConcatRules(p, i, firing, t) ==
  IF i > Len(rule0[p]) THEN <<>>
  ELSE (IF i \in firing THEN Contribution(rule0[p][i], t) ELSE <<>>) \o ConcatRules(p, i + 1, firing, t)
ExpectedTL(p) ==
  LET F[k \in 0..Len(hist[p])] ==
        IF k = 0 THEN <<>>
        ELSE LET e == hist[p][k]
             IN IF e.k = "arr"
                THEN IF IsTerm(e.t) THEN Append(F[k - 1], e.t)
                     ELSE IF SelfFiring(p, k) = {} THEN Append(F[k - 1], e.t)
                     ELSE F[k - 1] \o ConcatRules(p, 1, SelfFiring(p, k), e.t)
                ELSE IF rule0[p][e.i].target = p
                     THEN F[k - 1] \o OwedFrom(rule0[p][e.i], rule0[p][e.i].seen0, Len(rule0[p][e.i].seen0))
                     ELSE F[k - 1]
  IN F[Len(hist[p])]
InterHoldsExactlyWhatRulesAdmit == \A p \in InterPorts : tl[p] = ExpectedTL(p)

\* a port never holds a token more often than the token was handed to its put: a token matched by a
\* self-targeting rule is not enqueued a second time by the default path
NoDoubleEnqueue ==
  \A p \in Ports : \A a \in 1..Len(tl[p]) :
     tl[p][a].id > 0 => Count(tl[p], tl[p][a]) <= Count(arr[p], tl[p][a])

\* remaining tags of a rule = original tags minus what it has seen (the mutated list agrees with the counts)
RemainingTagsAgree ==
  \A p \in InterPorts : \A i \in 1..Len(rules[p]) :
     \A g \in Tags : Count(rules[p][i].tags, g) =
        LET c0 == Count(rule0[p][i].tags, g)
            cs == Count(TagsOf(Seen(p, i, Len(hist[p]))), g)
        IN IF c0 > cs THEN c0 - cs ELSE 0

\* I4  a get that found its queue empty stays pending until a put on that port; it completes with the head
PendingConsistent ==
  \A p \in Ports, c \in Consumers :
     /\ pd[p][c] = "blocked" => c \in subs[p] /\ q[p][c] = <<>>
     /\ pd[p][c] = "woken" => c \in subs[p] /\ q[p][c] # <<>>
BlockedGetNeedsPut ==
  [][\A p \in Ports, c \in Consumers :
       /\ (pd[p][c] = "blocked" /\ pd'[p][c] # "blocked") => (pd'[p][c] = "woken" /\ Len(tl'[p]) > Len(tl[p]))
       /\ (pd[p][c] = "blocked") => dl'[p][c] = dl[p][c]
       /\ (pd[p][c] = "woken" /\ pd'[p][c] # "woken") => (pd'[p][c] = "none" /\ dl'[p][c] = Append(dl[p][c], Head(q[p][c])))]_vars

\* Close changes nothing that is or will be delivered
CloseIsNeutral ==
  [][closed' # closed => <<tl, subs, q, dl, pd, rules>>' = <<tl, subs, q, dl, pd, rules>>]_vars

\* L  under fair gets every consumer eventually holds the whole token list
EventuallyEverythingDelivered ==
  <>[](\A p \in GetPorts, c \in Consumers : dl[p][c] = tl[p])
=============================================================================
