CONSTANTS
  Scn = "filter1"  AdmitTags = {"a", "c"}  RuleTagSel = "one"  PutSel = "first"  GetSel = "all"
  Ports <- ScnPorts  Kind <- ScnKind  Admit <- ScnAdmit  RuleTargets <- ScnTargets
  PutPorts <- ScnPutPorts  GetPorts <- ScnGetPorts  RuleTags <- ScnRuleTags  RuleActs <- ScnRuleActs
  Consumers = {"c1", "c2", "c3"}
  Tags = {"a", "b", "c"}
  MaxPuts = 5  MaxTerm = 2  MaxRules = 0  MaxCloses = 1
  SelfReplay = FALSE
INIT GenInit
NEXT GenNext
VIEW GenView
