------------------------------ MODULE MC_Port ------------------------------
(* Model-checking and generation harness of Port.

   Scenarios (constant Scn) fix the ports, their kinds and the admissible rule targets:
     plain1       one plain port
     filter1      one FilterTokenPort admitting the tags of AdmitTags
     inter_plain  p1 inter-workflow port whose rules target itself or the plain port p2
     inter_inter  p1 inter-workflow port whose rules target itself or the inter-workflow port p2, whose own
                  rules target itself (nested dispatch; no cycle between ports)
     inter_filter p1 inter-workflow port whose rules target itself or the filter port p2
   The exhaustive configs keep the ghost variables of Port in the fingerprint (no VIEW), so that the invariants
   over them are checked on every history; consumers are interchangeable (SYMMETRY ConsumerSym) in the safety
   configs.  Gen_Port (generation for the binding) extends this module.                                    *)
EXTENDS Port

CONSTANTS Scn, AdmitTags, RuleTagSel, PutSel, GetSel

TwoPorts == Scn \in {"inter_plain", "inter_inter", "inter_filter"}
ScnPorts == IF TwoPorts THEN {"p1", "p2"} ELSE {"p1"}
ScnKind == [p \in ScnPorts |->
              IF p = "p1" THEN (CASE Scn = "plain1" -> "plain" [] Scn = "filter1" -> "filter" [] OTHER -> "inter")
              ELSE (CASE Scn = "inter_plain" -> "plain" [] Scn = "inter_inter" -> "inter" [] OTHER -> "filter")]
ScnAdmit == [p \in ScnPorts |-> AdmitTags]
ScnTargets == [p \in ScnPorts |->
                 IF p = "p1" THEN (IF TwoPorts THEN {"p1", "p2"} ELSE {})
                 ELSE (IF Scn = "inter_inter" THEN {"p2"} ELSE {})]
\* ports the environment puts on: "first" = p1 only, "all" = every port (a second producer on the target port)
ScnPutPorts == IF PutSel = "all" THEN ScnPorts ELSE {"p1"}
\* ports consumers read: "all", "first" = p1 only, "second" = p2 only
ScnGetPorts == CASE GetSel = "first" -> {"p1"} [] GetSel = "second" -> ScnPorts \ {"p1"} [] OTHER -> ScnPorts
\* boundary_tags: one tag, two tags, a repeated tag; "full": every sequence of length <= 2 over Tags
ScnRuleTags ==
  CASE RuleTagSel = "one"   -> {<<"a">>}
    [] RuleTagSel = "small" -> {<<"a">>, <<"a", "b">>}
    [] RuleTagSel = "mid"   -> {<<"a">>, <<"b">>, <<"a", "b">>, <<"a", "a">>}
    [] OTHER                -> UNION {[1..k -> Tags] : k \in 0..2}
\* boundary_action: PROPAGATE, TERMINATE, PROPAGATE | TERMINATE
ScnRuleActs == {<<TRUE, FALSE>>, <<FALSE, TRUE>>, <<TRUE, TRUE>>}

ConsumerSym == Permutations(Consumers)
=============================================================================
