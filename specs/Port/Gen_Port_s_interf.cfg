CONSTANTS
  Scn = "inter_filter"  AdmitTags = {"a", "b"}  RuleTagSel = "mid"  PutSel = "all"  GetSel = "all"
  Ports <- ScnPorts  Kind <- ScnKind  Admit <- ScnAdmit  RuleTargets <- ScnTargets
  PutPorts <- ScnPutPorts  GetPorts <- ScnGetPorts  RuleTags <- ScnRuleTags  RuleActs <- ScnRuleActs
  Consumers = {"c1", "c2"}
  Tags = {"a", "b", "c"}
  MaxPuts = 5  MaxTerm = 1  MaxRules = 2  MaxCloses = 1
  SelfReplay = FALSE
INIT GenInit
NEXT GenNext
VIEW GenView
