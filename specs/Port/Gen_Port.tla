------------------------------ MODULE Gen_Port ------------------------------
(* B-edge generation for the binding: one JSON line per transition = the action path from Init to the source
   state extended with the action, and the target state.  `path` is a history variable hidden by VIEW GenView
   together with the ghost variables of Port (they do not influence the concrete transitions).  With
   -workers 1 (breadth-first) the path of a state is the path of the first transition that reached it, so every
   proper prefix of an emitted path is itself an emitted path.  With -simulate every generated successor is
   printed (each line is still a valid path from Init).                                                   *)
EXTENDS MC_Port, Json

VARIABLE path

GenInit == Init /\ path = <<>>
GenView == cvars
A(op, p, c, g, x, tags, prop, term) ==
  [op |-> op, p |-> p, c |-> c, tag |-> g, x |-> x, tags |-> tags, prop |-> prop, term |-> term]
StateJ == [tl |-> tl', subs |-> subs', q |-> q', dl |-> dl', pd |-> pd', rules |-> rules']
Emit(a, print) == /\ path' = Append(path, a)
                  /\ print => PrintT(ToJson([path |-> path', to |-> StateJ]))
GenStep(pr) ==
  \/ \E p \in Ports, g \in Tags : Put(p, g) /\ Emit(A("put", p, "", g, "", <<>>, FALSE, FALSE), pr)
  \/ \E p \in Ports : PutTermination(p) /\ Emit(A("term", p, "", "T", "", <<>>, FALSE, FALSE), pr)
  \/ \E p \in Ports, c \in Consumers : Get(p, c) /\ Emit(A("get", p, c, "", "", <<>>, FALSE, FALSE), pr)
  \/ Wake /\ Emit(A("wake", "", "", "", "", <<>>, FALSE, FALSE), pr)
  \/ \E p \in Ports, x \in Ports, tags \in RuleTags, a \in RuleActs :
        AddInterPort(p, x, tags, a[1], a[2]) /\ Emit(A("rule", p, "", "", x, tags, a[1], a[2]), pr)
  \/ \E p \in Ports, c \in Consumers : Close(p, c) /\ Emit(A("close", p, c, "", "", <<>>, FALSE, FALSE), pr)
GenNext == GenStep(TRUE)
GenNextQuiet == GenStep(FALSE)      \* same graph without printing (used to obtain the path of a counterexample)
=============================================================================
