CONSTANTS
  Scn = "plain1"  AdmitTags = {}  RuleTagSel = "one"  PutSel = "first"  GetSel = "all"
  Ports <- ScnPorts  Kind <- ScnKind  Admit <- ScnAdmit  RuleTargets <- ScnTargets
  PutPorts <- ScnPutPorts  GetPorts <- ScnGetPorts  RuleTags <- ScnRuleTags  RuleActs <- ScnRuleActs
  Consumers = {"c1", "c2"}
  Tags = {"a"}
  MaxPuts = 3  MaxTerm = 1  MaxRules = 0  MaxCloses = 0
  SelfReplay = FALSE
SPECIFICATION FairSpec
PROPERTY EventuallyEverythingDelivered
