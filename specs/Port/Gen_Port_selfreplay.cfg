CONSTANTS
  Scn = "inter_plain"  AdmitTags = {}  RuleTagSel = "small"  PutSel = "first"  GetSel = "first"
  Ports <- ScnPorts  Kind <- ScnKind  Admit <- ScnAdmit  RuleTargets <- ScnTargets
  PutPorts <- ScnPutPorts  GetPorts <- ScnGetPorts  RuleTags <- ScnRuleTags  RuleActs <- ScnRuleActs
  Consumers = {"c1"}
  Tags = {"a", "b"}
  MaxPuts = 2  MaxTerm = 0  MaxRules = 2  MaxCloses = 0
  SelfReplay = TRUE
INIT GenInit
NEXT GenNext
VIEW GenView
