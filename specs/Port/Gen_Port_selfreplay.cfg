CONSTANTS
  Scn = "inter_plain"  AdmitTags = {}  RuleTagSel = "one"  PutSel = "first"  GetSel = "first"
  Ports <- ScnPorts  Kind <- ScnKind  Admit <- ScnAdmit  RuleTargets <- ScnTargets
  PutPorts <- ScnPutPorts  GetPorts <- ScnGetPorts  RuleTags <- ScnRuleTags  RuleActs <- ScnRuleActs
  Consumers = {"c1"}
  Tags = {"a"}
  MaxPuts = 1  MaxTerm = 0  MaxRules = 1  MaxCloses = 0
  SelfReplay = TRUE
INIT GenInit
NEXT GenNextQuiet
VIEW GenView
INVARIANT NoDoubleEnqueue
