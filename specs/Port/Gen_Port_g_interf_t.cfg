CONSTANTS
  Scn = "inter_filter"  AdmitTags = {"b"}  RuleTagSel = "small"  PutSel = "first"  GetSel = "second"
  Ports <- ScnPorts  Kind <- ScnKind  Admit <- ScnAdmit  RuleTargets <- ScnTargets
  PutPorts <- ScnPutPorts  GetPorts <- ScnGetPorts  RuleTags <- ScnRuleTags  RuleActs <- ScnRuleActs
  Consumers = {"c1"}
  Tags = {"a", "b"}
  MaxPuts = 3  MaxTerm = 0  MaxRules = 2  MaxCloses = 0
  SelfReplay = FALSE
INIT GenInit
NEXT GenNext
VIEW GenView
