CONSTANTS
  Scn = "plain1"  AdmitTags = {}  RuleTagSel = "one"  PutSel = "first"  GetSel = "all"
  Ports <- ScnPorts  Kind <- ScnKind  Admit <- ScnAdmit  RuleTargets <- ScnTargets
  PutPorts <- ScnPutPorts  GetPorts <- ScnGetPorts  RuleTags <- ScnRuleTags  RuleActs <- ScnRuleActs
  Consumers = {c1, c2}
  Tags = {"a", "b"}
  MaxPuts = 5  MaxTerm = 2  MaxRules = 0  MaxCloses = 1
  SelfReplay = FALSE
INIT Init
NEXT Next
SYMMETRY ConsumerSym
INVARIANT TypeOK
INVARIANT DeliveredIsPrefix
INVARIANT NothingLostOrDuplicated
INVARIANT PlainKeepsEverything
INVARIANT FilterAdmitsExactly
INVARIANT RuleFiresExactlyWhenComplete
INVARIANT TargetReceivesWhatRulesSend
INVARIANT InterHoldsExactlyWhatRulesAdmit
INVARIANT NoDoubleEnqueue
INVARIANT RemainingTagsAgree
INVARIANT PendingConsistent
PROPERTY BlockedGetNeedsPut
PROPERTY CloseIsNeutral
