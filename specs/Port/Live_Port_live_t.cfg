CONSTANTS
  Scn = "inter_plain"  AdmitTags = {}  RuleTagSel = "small"  PutSel = "first"  GetSel = "all"
  Ports <- ScnPorts  Kind <- ScnKind  Admit <- ScnAdmit  RuleTargets <- ScnTargets
  PutPorts <- ScnPutPorts  GetPorts <- ScnGetPorts  RuleTags <- ScnRuleTags  RuleActs <- ScnRuleActs
  Consumers = {"c1"}
  Tags = {"a", "b"}
  MaxPuts = 3  MaxTerm = 1  MaxRules = 1  MaxCloses = 0
  SelfReplay = FALSE
SPECIFICATION FairSpec
PROPERTY EventuallyEverythingDelivered
