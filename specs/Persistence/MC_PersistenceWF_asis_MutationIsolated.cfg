CONSTANTS DeepCopy = FALSE  Family = "none"  MaxMut = 2  ResaveEdges = TRUE  MaxOps = 2  Contexts = {"L1", "L2", "L3", "B"}
INIT Init
NEXT Next
INVARIANT MutationIsolated
