CONSTANTS Waiting = "never"  Guard = "always"  SFamily = "quick"
INIT Init
NEXT Next
INVARIANT RefsResolved
