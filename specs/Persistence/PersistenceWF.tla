----------------------------- MODULE PersistenceWF -----------------------------
(* C08 - save/load of whole workflows (streamflow/core/workflow.py, workflow/step.py, workflow/token.py,
   workflow/combinator.py, cwl/*.py, persistence/loading_context.py) on top of the row/cache semantics of
   module Persistence.

   Part 1, SHAPES: which built-in step / port / token / combinator / processor / command types appear in a
   workflow and how they are wired.  For every shape the module says which mutable FIELDS of the loaded
   objects exist and how the `_load` methods obtain them from the row that the (cached or uncached) getter
   returned:
       byref  - the loaded object keeps the very object found in the row   (combinator.items = row["params"]["items"])
       copied - `_load` builds a new container from the row's             ({k: v for ...}, [SecondaryFile(..) for ..])
       fresh  - the row comes from an uncached getter (get_workflow), so it is private anyway
   `SharedFields(shape)` = byref fields of rows served by @cached getters: the fields that two loads (and the cache)
   hold in common in the code as it is.  The driver compares this prediction with an identity scan of real loads.

   Part 2, HISTORIES: Save, Load through three default loading contexts and the builder (deep copy), a caller
   mutating a loaded object, over the aliasing PROFILE of a shape (which of the three classes of field it has).
   Part 3, RE-SAVE: the wiring (steps, ports, step-port dependencies) in memory and in the database under
   save / modify a saved workflow / save again / load; property: the load reproduces the workflow as last saved.
   The heap makes aliasing explicit, exactly as in module Persistence: a cached row holds a reference (cell) to the
   parsed nested object; a cache hit (or miss) hands out a shallow copy, i.e. the same cell, unless DeepCopy.      *)
EXTENDS Naturals, Sequences, FiniteSets, TLC

CONSTANTS DeepCopy,     \* FALSE: cachebox default post-processing (as is); TRUE: deep copy (proposed repair)
          Family,       \* which family of shapes the generation run enumerates: "one", "pairs", "tokens", "all"
          MaxMut,       \* caller mutations per history
          Contexts,     \* loading contexts: default ones ("L1", "L2", "L3") and the builder with deep copy ("B")
          ResaveEdges,  \* Part 3: TRUE: Step.save (re)declares the step's dependency rows on EVERY save (the code as it is);
                        \*         FALSE: only a step that is being inserted writes them (defect model)
          MaxOps        \* Part 3: modifications of the in-memory workflow per history

VARIABLES shape,     \* generation runs: the shape; exhaustive runs: "none"
          profile,   \* set of field classes the workflow has
          saved,     \* the workflow is in the database
          rowcell,   \* class -> cell held by the cached row (0: the row is not in the cache yet)
          loads,     \* context -> [cells: class -> cell, ids: BOOLEAN]   (domain = contexts that loaded)
          heap,      \* cell -> "orig" | "mut"
          loadok,    \* context -> the load reproduced the saved workflow (evaluated when the load happened)
          muts       \* set of <<context, class>>: what callers changed in their own copies
hvars == <<shape, profile, saved, rowcell, loads, heap, loadok, muts>>
\* Part 3 (save / modify / save again / load): the wiring of the workflow in memory and in the database
VARIABLES mem,        \* [steps, ports, edges]: the Workflow object; an edge is <<step, port, "in"|"out">>
          db,         \* [steps, ports, edges]: rows of the step / port / dependency tables
          lastsaved,  \* mem as it was at the last Workflow.save (NoGraph before the first)
          nops,       \* modifications so far
          late,       \* edges / ports that were added when their step / the workflow was already in the database
                      \* (history variable: keeps apart histories that end in the same rows but re-saved different things)
          reload      \* [ctx, ok]: the last load (ctx "none": none since the last change) and whether it reproduced the workflow as last saved
gvars == <<mem, db, lastsaved, nops, late, reload>>
vars == <<shape, profile, saved, rowcell, loads, heap, loadok, muts, mem, db, lastsaved, nops, late, reload>>

---------------------------------------------------------------------------
(* Part 1: shapes *)
Combs     == {"Cartesian", "Dot", "Loop", "LoopTermination", "ListMerge"}
Commands  == {"none", "cwl", "cwl:cwl", "cwl:map", "cwl:object", "cwl:union", "cwl:forward", "cwlexpr"}
OutProcs  == {"none", "default", "cwl", "cwlexpr", "cwlobject", "object", "map", "union"}
SimpleT   == {"Forward", "AllNonNull", "FirstNonNull", "OnlyNonNull", "ListToElement", "CartesianProductSize",
              "DotProductSize", "Clone", "Default", "DefaultRetag"}
ProcT     == {"CWLToken", "ValueFrom", "LoopValueFrom"}
Procs     == {"cwl", "null", "map", "object", "union"}
TokenKinds == {"Token", "ScalarToken", "File", "List", "EmptyList", "Object", "Job", "Termination", "IterationTermination"}

StepChoices ==
        [kind : {"Combinator"}, comb : Combs, inner : 0..2]
  \cup  [kind : {"Deploy"}, wraps : BOOLEAN]
  \cup  [kind : {"Schedule"}, targets : {"local", "remote", "wrapped"}, filters : {0, 2}, hw : BOOLEAN]
  \cup  [kind : {"Execute"}, command : Commands, outproc : OutProcs]
  \cup  [kind : {"Gather", "Scatter", "Transfer", "InputInjector"}]
  \cup  [kind : {"Conditional"}, variant : {"when", "loop", "empty_scatter"}]
  \cup  [kind : {"LoopOutput"}, variant : {"all", "last"}]
  \cup  [kind : {"Transformer"}, t : SimpleT]
  \cup  [kind : {"Transformer"}, t : ProcT, proc : Procs]

\* one representative per step class, used when two steps are combined
Coarse == {[kind |-> "Combinator", comb |-> "Dot", inner |-> 1], [kind |-> "Combinator", comb |-> "Loop", inner |-> 0],
           [kind |-> "Deploy", wraps |-> TRUE], [kind |-> "Schedule", targets |-> "remote", filters |-> 2, hw |-> TRUE],
           [kind |-> "Execute", command |-> "cwl:cwl", outproc |-> "cwl"], [kind |-> "Execute", command |-> "none", outproc |-> "union"],
           [kind |-> "Gather"], [kind |-> "Scatter"], [kind |-> "Transfer"], [kind |-> "InputInjector"],
           [kind |-> "Conditional", variant |-> "when"], [kind |-> "LoopOutput", variant |-> "all"],
           [kind |-> "Transformer", t |-> "Forward"], [kind |-> "Transformer", t |-> "Clone"],
           [kind |-> "Transformer", t |-> "LoopValueFrom", proc |-> "union"]}

\* classes that need a CWLWorkflow (they read cwl_version / format_graph of their workflow)
CWLOnly(s) == \/ s.kind \in {"Transfer", "InputInjector", "Conditional", "LoopOutput", "Transformer"}
              \/ s.kind = "Combinator" /\ s.comb = "ListMerge"
              \/ s.kind = "Schedule" /\ s.hw
              \/ s.kind = "Execute" /\ (s.command # "none" \/ s.outproc \in {"cwl", "cwlexpr", "cwlobject"})

DeploymentFields == {"DeploymentConfig.config", "DeploymentConfig.scheduling_policy.config"}
CommandFields == {"command.base_command", "command.environment", "command.expression_lib", "command.failure_codes", "command.success_codes"}
ProcessorFields(prefix) == {prefix \o ".enum_symbols", prefix \o ".expression_lib", prefix \o ".token_type"}

\* byref fields of rows served by cached getters (get_step, get_deployment, get_filter, get_token), per step
SharedOfStep(s, cwl) ==
  CASE s.kind = "Combinator" -> {"combinator.items", "combinator.combinators_map"}
                                \cup (IF s.comb = "ListMerge" THEN {"combinator.input_names"} ELSE {})
    [] s.kind = "Deploy"     -> DeploymentFields
    [] s.kind = "Schedule"   -> (IF s.targets # "local" THEN DeploymentFields ELSE {})
                                \cup (IF s.filters > 0 THEN {"FilterConfig.config"} ELSE {})
                                \cup (IF s.hw THEN {"hardware_requirement.expression_lib"} ELSE {})
    [] s.kind = "Execute"    -> {"output_connectors"} \cup (IF cwl THEN {"expression_lib"} ELSE {})
                                \cup (IF s.command = "none" THEN {}
                                      ELSE IF s.command = "cwlexpr" THEN {"command.expression_lib", "command.initial_work_dir"}
                                      ELSE CommandFields)
                                \cup (IF s.outproc \in {"cwl", "cwlobject"} THEN ProcessorFields("output_processors")
                                      ELSE IF s.outproc = "cwlexpr"
                                           THEN {"output_processors.enum_symbols", "output_processors.token_type"} \cup DeploymentFields
                                      ELSE {})
    [] s.kind = "Conditional" -> IF s.variant = "empty_scatter" THEN {} ELSE {"expression_lib"}
    [] s.kind = "Transformer" -> IF s.t \in SimpleT THEN {}
                                 ELSE (IF s.proc # "null" THEN ProcessorFields("processor") ELSE {})
                                      \cup (IF s.t # "CWLToken" THEN {"expression_lib"} ELSE {})
                                      \cup (IF s.t = "LoopValueFrom" THEN {"loop_input_ports"} ELSE {})
    [] OTHER -> {}

SharedOfToken(k) == CASE k = "Token" -> {"Token.value"}
                      [] k = "File" -> {"CWLFileToken.value"}
                      [] k = "List" -> {"Token.value", "CWLFileToken.value"}
                      [] OTHER -> {}

\* fields that every load builds for itself (copied from a cached row) / gets from an uncached row
CopiedOfStep(s) == {"input_ports", "output_ports"}
                   \cup (IF s.kind = "Combinator" THEN {"combinator.combinators"} ELSE {})
                   \cup (IF s.kind = "Schedule" THEN {"binding_config.targets", "binding_config.filters"} ELSE {})
                   \cup (IF s.kind = "Execute" THEN {"output_processors"} ELSE {})
FreshFields == {"Workflow.config", "Workflow.input_ports", "Workflow.output_ports", "Workflow.steps", "Workflow.ports"}

IsCwl(sh) == sh.wf = "CWLWorkflow"
StepsOf(sh) == {sh.steps[i] : i \in 1..Len(sh.steps)}
SharedFields(sh) == UNION {SharedOfStep(s, IsCwl(sh)) : s \in StepsOf(sh)} \cup UNION {SharedOfToken(k) : k \in sh.tokens}
CopiedFields(sh) == UNION {CopiedOfStep(s) : s \in StepsOf(sh)}
ProfileOf(sh) == (IF SharedFields(sh) # {} THEN {"shared"} ELSE {}) \cup (IF CopiedFields(sh) # {} THEN {"copied"} ELSE {}) \cup {"fresh"}

WellFormed(sh) == \A s \in StepsOf(sh) : CWLOnly(s) => IsCwl(sh)

\* every single step with every option, under both workflow classes
ShapesOne == {sh \in [wf : {"Workflow", "CWLWorkflow"}, steps : {<<s>> : s \in StepChoices}, wiring : {"chain"}, tokens : {{}}] : WellFormed(sh)}
\* every ordered pair of step classes, chained through a common port or side by side
ShapesPairs == [wf : {"CWLWorkflow"}, steps : {<<p[1], p[2]>> : p \in Coarse \X Coarse}, wiring : {"chain", "separate"}, tokens : {{}}]
\* every set of at most two token types on the input port of a scatter step
ShapesTokens == [wf : {"Workflow", "CWLWorkflow"}, steps : {<<[kind |-> "Scatter"]>>}, wiring : {"chain"},
                 tokens : {T \in SUBSET TokenKinds : Cardinality(T) \in 1..2}]
Shapes == CASE Family = "one" -> ShapesOne
            [] Family = "pairs" -> ShapesPairs
            [] Family = "tokens" -> ShapesTokens
            [] Family = "all" -> ShapesOne \cup ShapesPairs \cup ShapesTokens
            [] OTHER -> {}

---------------------------------------------------------------------------
(* Part 2: histories over the aliasing profile *)
Classes == {"shared", "copied", "fresh"}
Ctx == Contexts
CachedClass(k) == k \in {"shared", "copied"}   \* the row comes from a @cached getter
NewCell(h) == CHOOSE n \in 1..(Cardinality(DOMAIN h) + 1) : n \notin DOMAIN h

InitHist == /\ saved = FALSE /\ rowcell = [k \in Classes |-> 0] /\ loads = <<>> /\ heap = <<>>
            /\ loadok = <<>> /\ muts = {}
GSteps == {"s1", "s2"}
GPorts == {"p1", "p2", "p3"}
EmptyGraph == [steps |-> {}, ports |-> {}, edges |-> {}]
NoGraph == [steps |-> {"-"}, ports |-> {}, edges |-> {}]        \* "never saved"
NoLoad == [ctx |-> "none", ok |-> TRUE]
InitGraphN(n) == /\ mem = [steps |-> {"s1"}, ports |-> {"p1", "p2"}, edges |-> {<<"s1", "p1", "in">>, <<"s1", "p2", "out">>}]
                 /\ db = EmptyGraph /\ lastsaved = NoGraph /\ nops = n /\ late = {} /\ reload = NoLoad
InitGraph == InitGraphN(0)
Init == shape = "none" /\ profile \in (SUBSET Classes) \ {{}} /\ InitHist /\ InitGraph

Save == /\ ~saved /\ saved' = TRUE
        /\ UNCHANGED <<shape, profile, rowcell, loads, heap, loadok, muts>> /\ UNCHANGED gvars

\* one class of field of one load: returns [h, rc, cell]: new heap, new cached-row cell, the cell the object keeps
LoadClass(k, h, rc) ==
  LET miss   == CachedClass(k) /\ rc = 0
      rowc   == IF CachedClass(k) /\ ~miss THEN rc ELSE NewCell(h)            \* the parsed object in the row / cache
      h1     == IF CachedClass(k) /\ ~miss THEN h ELSE (rowc :> "orig") @@ h   \* parsed from the stored record
      rc1    == IF CachedClass(k) THEN rowc ELSE 0
      \* what the getter hands out: the cached object itself, or a deep copy of it
      outc   == IF CachedClass(k) /\ DeepCopy THEN NewCell(h1) ELSE rowc
      h2     == IF CachedClass(k) /\ DeepCopy THEN (outc :> h1[rowc]) @@ h1 ELSE h1
      \* what `_load` stores in the object
      objc   == IF k = "copied" THEN NewCell(h2) ELSE outc
      h3     == IF k = "copied" THEN (objc :> h2[outc]) @@ h2 ELSE h2
  IN [h |-> h3, rc |-> rc1, cell |-> objc]

Load(c) ==
  /\ saved /\ c \notin DOMAIN loads
  /\ LET Skip(h, k) == [h |-> h, rc |-> rowcell[k], cell |-> 0]
         a == IF "shared" \in profile THEN LoadClass("shared", heap, rowcell["shared"]) ELSE Skip(heap, "shared")
         b == IF "copied" \in profile THEN LoadClass("copied", a.h, rowcell["copied"]) ELSE Skip(a.h, "copied")
         f == IF "fresh" \in profile THEN LoadClass("fresh", b.h, 0) ELSE Skip(b.h, "fresh")
         cells == [k \in profile |-> CASE k = "shared" -> a.cell [] k = "copied" -> b.cell [] OTHER -> f.cell]
     IN /\ heap' = f.h
        /\ rowcell' = [k \in Classes |-> CASE k = "shared" -> a.rc [] k = "copied" -> b.rc [] OTHER -> 0]
        /\ loads' = (c :> [cells |-> cells, ids |-> (c # "B")]) @@ loads
        /\ loadok' = (c :> (\A k \in profile : f.h[cells[k]] = "orig")) @@ loadok
  /\ UNCHANGED <<shape, profile, saved, muts>> /\ UNCHANGED gvars

MutateLoaded(c, k) ==
  /\ c \in DOMAIN loads /\ k \in profile /\ Cardinality(muts) < MaxMut /\ <<c, k>> \notin muts
  /\ heap' = [heap EXCEPT ![loads[c].cells[k]] = "mut"]
  /\ muts' = muts \cup {<<c, k>>}
  /\ UNCHANGED <<shape, profile, saved, rowcell, loads, loadok>> /\ UNCHANGED gvars

Next == \/ Save
        \/ \E c \in Ctx : Load(c)
        \/ \E c \in Ctx, k \in Classes : MutateLoaded(c, k)
Spec == Init /\ [][Next]_vars

---------------------------------------------------------------------------
(* Part 3: save, modify the saved workflow, save again, load.
   Workflow.save is re-entrant: it skips the workflow row when it exists and then saves every port and every step.
   Port.save inserts a port that has no id.  Step.save inserts the step row when the step has no id and then
   declares ALL its step-port dependencies (INSERT OR IGNORE) - on every call, because the wiring lives in its own
   table and may have grown since the step row was written.  Step.load rebuilds input_ports / output_ports from that
   table only.  Nothing is ever deleted (modifications are additions: the API only adds).                         *)
InitRe == shape = "none" /\ profile = {"fresh"} /\ InitHist /\ InitGraph

Modify(m, l) == /\ nops < MaxOps /\ m # mem /\ mem' = m /\ nops' = nops + 1 /\ reload' = NoLoad
                /\ late' = late \cup l
                /\ UNCHANGED <<db, lastsaved>> /\ UNCHANGED hvars
\* workflow.create_port()
AddPort(p) == p \notin mem.ports /\ Modify([mem EXCEPT !.ports = @ \cup {p}], IF lastsaved # NoGraph THEN {<<"port", p, "-", "-">>} ELSE {})
\* step.add_input_port / add_output_port on a step of the workflow (a port that is not yet in workflow.ports is registered)
\* (assumption: a port is not both an input and an output of the same step - the dependency table is keyed by (step, port))
AddWire(st, p, d) == /\ st \in mem.steps /\ \A d2 \in {"in", "out"} : <<st, p, d2>> \notin mem.edges
                     /\ Modify([mem EXCEPT !.ports = @ \cup {p}, !.edges = @ \cup {<<st, p, d>>}],
                               IF st \in db.steps THEN {<<"edge", st, p, d>>} ELSE {})
\* workflow.create_step(...) consuming an existing port
AddStep(st, p) == /\ st \notin mem.steps /\ p \in mem.ports
                  /\ Modify([mem EXCEPT !.steps = @ \cup {st}, !.edges = @ \cup {<<st, p, "in">>}],
                            IF lastsaved # NoGraph THEN {<<"step", st, "-", "-">>} ELSE {})

SaveWf == /\ LET newsteps == mem.steps \ db.steps
             IN db' = [steps |-> db.steps \cup mem.steps, ports |-> db.ports \cup mem.ports,
                       edges |-> db.edges \cup {e \in mem.edges : ResaveEdges \/ e[1] \in newsteps}]
          /\ lastsaved' = mem /\ lastsaved # mem /\ reload' = NoLoad
          /\ UNCHANGED <<mem, nops, late>> /\ UNCHANGED hvars

\* load through a default context ("L") or the builder's deep copy ("B"): both rebuild the graph from the rows
LoadWf(c) == /\ lastsaved # NoGraph /\ reload.ctx # c
             /\ reload' = [ctx |-> c, ok |-> (db = lastsaved)]
             /\ UNCHANGED <<mem, db, lastsaved, nops, late>> /\ UNCHANGED hvars

NextRe == \/ \E p \in GPorts : AddPort(p)
          \/ \E st \in GSteps, p \in GPorts, d \in {"in", "out"} : AddWire(st, p, d)
          \/ \E st \in GSteps, p \in GPorts : AddStep(st, p)
          \/ SaveWf
          \/ \E c \in {"L", "B"} : LoadWf(c)

\* the load reproduces the workflow as last saved
LoadReproducesLastSaved == reload.ok
GraphTypeOK == /\ mem.steps \subseteq GSteps /\ mem.ports \subseteq GPorts /\ db.steps \subseteq mem.steps /\ db.ports \subseteq mem.ports
               /\ \A e \in mem.edges \cup db.edges : e[1] \in mem.steps /\ e[2] \in mem.ports

---------------------------------------------------------------------------
(* Properties (statement of C08) *)
TypeOK == /\ DOMAIN loads \subseteq Ctx /\ DOMAIN loadok = DOMAIN loads
          /\ \A c \in DOMAIN loads : DOMAIN loads[c].cells = profile /\ \A k \in profile : loads[c].cells[k] \in DOMAIN heap

\* (I1) save ; load reproduces the workflow - whenever the load happens
LoadReproduces == \A c \in DOMAIN loadok : loadok[c]

\* (I2) the builder's deep copy carries no persistent identity, ordinary loads do
BuilderHasNoIds == \A c \in DOMAIN loads : loads[c].ids = (c # "B")

\* (I3) separation: no mutable object is reachable from two loads, or from a load and a cached row
Separation == /\ \A c1, c2 \in DOMAIN loads : c1 # c2 => \A k \in profile : loads[c1].cells[k] # loads[c2].cells[k]
              /\ \A c \in DOMAIN loads : \A k \in profile : rowcell[k] = 0 \/ loads[c].cells[k] # rowcell[k]

\* ... hence a mutation is seen only by the load that made it, and never by the cached row
MutationIsolated == /\ \A c \in DOMAIN loads : \A k \in profile : heap[loads[c].cells[k]] = "mut" => <<c, k>> \in muts
                    /\ \A k \in Classes : rowcell[k] = 0 \/ heap[rowcell[k]] = "orig"
================================================================================
