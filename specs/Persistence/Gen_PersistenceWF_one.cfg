CONSTANTS DeepCopy = TRUE  Family = "one"  MaxMut = 2  ResaveEdges = TRUE  MaxOps = 2  Contexts = {"L1", "L2", "L3", "B"}
INIT GenInit
NEXT GenNext
