CONSTANTS Waiting = "always"  Guard = "never"  SFamily = "quick"
INIT Init
NEXT Next
INVARIANT OneRow
