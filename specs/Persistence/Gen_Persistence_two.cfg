CONSTANTS Tables = {"a", "b"}  Cached = {"a", "b"}  Updatable = {"a", "b"}  Bulk = {"a", "b"}  BulkFills = {}  MaxId = 2  MaxRets = 2  MaxDepth = 4  DeepCopy = TRUE
CONSTANT Pops <- PopsSelf
INIT InitAll
NEXT GenNextAll
VIEW ViewGenF
INVARIANT TypeOK
