CONSTANTS Waiting = "any"  Guard = "any"  SFamily = "none"
INIT TInit
NEXT TNext
INVARIANT Accept
INVARIANT Judge
INVARIANT SaveTypeOK
CONSTRAINT Diag
