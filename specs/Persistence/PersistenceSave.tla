---------------------------- MODULE PersistenceSave ----------------------------
(* C08, Part 4 - CONCURRENT saves of shared persistable entities.

   Every PersistableEntity.save (Token, Port, Step, Workflow, DeploymentConfig, FilterConfig, Target:
   streamflow/core/workflow.py, core/deployment.py) follows the same protocol around the row it writes:

       if self.persistent_id is not None: <already persisted>
       elif self._saving is not None:     await self._saving.wait()          # somebody else is writing my row
       else: self._saving = Event(); <save what my row refers to>; self.persistent_id = await database.add_X(...ids...)
             self._saving.set()

   and a container saves its children CONCURRENTLY (asyncio.gather over create_task(child.save)) and reads their
   persistent ids immediately afterwards.  The value graph is a DAG, not a tree: one Token referenced by two sibling
   ListToken / ObjectToken / Job.inputs, one DeploymentConfig under two Targets, one Target under two bindings or
   output processors, one Workflow saved by two tasks.  So several calls of save() on the SAME entity are in progress
   at once; all but the first must wait for the first one's row and only then return (their callers read the id).

   The module models that protocol on an entity graph (a `shape`):
     kind[n]   Token / Container (ListToken, ObjectToken, JobToken) / Workflow / Port / Step / Target / Deployment / Filter,
               or Inline (an object without a row of its own that saves other entities: a CommandOutputProcessor)
     pre[n]    the stages saved BEFORE the row of n is written, under n's guard (a stage = the entities handed to one
               asyncio.gather / one awaited save; stage k+1 starts when stage k has returned)
     post[n]   the stages every caller of n.save runs AFTER the row exists (Workflow.save: all ports, then all steps)
     reads[n]  the entities whose persistent id is stored in the row of n (read when the INSERT is issued)
     tops[t]   top-level callers: T1 starts first, the others arrive at any time
   A call is identified by its path <<top, n1, ..., nk>>; one action per atomic section of the code (asyncio: from one
   suspension point to the next).  The only real nondeterminism is the completion order of the database calls
   (DbComplete) and the arrival of further top-level callers (Start); the order in which ready tasks run is left
   open (a superset of asyncio's FIFO order).

   Constants select the model of the code as it is (Waiting = Guard = "always"), the defect models (vacuity guards:
   "never" = a second caller returns at once / writes the row again) and the permissive model used to explain real
   traces ("any"), on which the clauses over OBSERVED events are judged.                                          *)
EXTENDS Naturals, Sequences, FiniteSets, TLC

CONSTANTS Waiting,   \* "always": a caller that finds a save of the same entity in flight waits for it; "never": it returns at once; "any"
          Guard,     \* "always": such a caller never writes the row itself; "never": it saves the entity again; "any"
          SFamily    \* family of shapes enumerated by Init: "quick", "full", "none"

VARIABLES shape,     \* the entity graph (see above)
          pid,       \* entity -> persistent id (0 = None)
          saving,    \* entity -> "none" | "inflight" | "set"      (the _saving event: absent / created / set)
          nrows,     \* entity -> rows written for it
          calls,     \* call path -> [ph, i, refs, seen]
          started,   \* top-level callers that have arrived
          nextid     \* next row id (= 1 + number of completed INSERTs)
svars == <<shape, pid, saving, nrows, calls, started, nextid>>

SetOf(q) == {q[i] : i \in 1..Len(q)}
Nodes == DOMAIN shape.kind
Tops == DOMAIN shape.tops
IsTop(c) == Len(c) = 1
NodeOf(c) == c[Len(c)]
HasRow(n) == shape.kind[n] # "Inline"
Updates(n) == shape.kind[n] = "Step"      \* Step.save of a persisted step re-writes its params (UPDATE) before the dependencies

NoRefs == [m \in Nodes |-> 0]
Rec(ph, i, refs, seen) == [ph |-> ph, i |-> i, refs |-> refs, seen |-> seen]
Ready == Rec("ready", 0, NoRefs, 0)
StagesOf(n, part) == IF part = "post" THEN shape.post[n] ELSE shape.pre[n]
Capture(pd, n) == [m \in Nodes |-> IF m \in SetOf(shape.reads[n]) THEN pd[m] ELSE 0]

(* The calls after call c begins stage i of `part` ("pre": first save, under the guard; "upd": re-save of a persisted
   step; "post"), or - no stage left - finishes the part: the INSERT / UPDATE is issued with the ids read NOW, an
   Inline object or a post part returns. *)
Goto(cs, pd, c, part, i) ==
  LET n == NodeOf(c)
      st == StagesOf(n, part)
  IN IF i <= Len(st)
     THEN LET subs == {Append(c, m) : m \in SetOf(st[i])}
          IN IF Assert(subs \cap DOMAIN cs = {}, <<"sub-call path used twice", c, st[i]>>)
             THEN [p \in DOMAIN cs \cup subs |-> IF p = c THEN Rec(part, i, NoRefs, 0)
                                               ELSE IF p \in subs THEN Ready ELSE cs[p]]
             ELSE cs
     ELSE IF part = "post" THEN [cs EXCEPT ![c] = Rec("done", 0, NoRefs, pd[n])]
     ELSE IF ~HasRow(n) THEN [cs EXCEPT ![c] = Rec("done", 0, NoRefs, 0)]
     ELSE [cs EXCEPT ![c] = Rec(IF part = "pre" THEN "db" ELSE "upddb", 0, Capture(pd, n), 0)]

\* a task starts running entity.save(): the three guards at the top of the method
Enter(c) ==
  /\ c \in DOMAIN calls /\ calls[c].ph = "ready"
  /\ LET n == NodeOf(c) IN
       \/ /\ ~HasRow(n)
          /\ calls' = Goto(calls, pid, c, "pre", 1) /\ UNCHANGED saving
       \/ /\ HasRow(n) /\ pid[n] # 0                                   \* already persisted
          /\ calls' = Goto(calls, pid, c, IF Updates(n) THEN "upd" ELSE "post", 1) /\ UNCHANGED saving
       \/ /\ HasRow(n) /\ pid[n] = 0 /\ saving[n] = "none"             \* the first saver takes the guard
          /\ saving' = [saving EXCEPT ![n] = "inflight"]
          /\ calls' = Goto(calls, pid, c, "pre", 1)
       \/ /\ HasRow(n) /\ pid[n] = 0 /\ saving[n] # "none"             \* somebody else is writing the row
          /\ \/ /\ Waiting \in {"always", "any"} /\ Guard \in {"always", "any"}
                /\ calls' = [calls EXCEPT ![c] = Rec("wait", 0, NoRefs, 0)]
             \/ /\ Waiting \in {"never", "any"} /\ Guard \in {"always", "any"}     \* defect: "someone else is doing it"
                /\ calls' = Goto(calls, pid, c, "post", 1)
             \/ /\ Guard \in {"never", "any"}                                       \* defect: no guard, saved again
                /\ calls' = Goto(calls, pid, c, "pre", 1)
          /\ UNCHANGED saving
  /\ UNCHANGED <<shape, pid, nrows, started, nextid>>

\* the gather / awaited save of the current stage has returned
StageDone(c) ==
  /\ c \in DOMAIN calls /\ calls[c].ph \in {"pre", "upd", "post"}
  /\ LET st == StagesOf(NodeOf(c), calls[c].ph)[calls[c].i]
     IN /\ \A m \in SetOf(st) : calls[Append(c, m)].ph = "done"
        /\ calls' = Goto(calls, pid, c, calls[c].ph, calls[c].i + 1)
  /\ UNCHANGED <<shape, pid, saving, nrows, started, nextid>>

\* the database call of c completes: the row exists, the id is assigned, the event is set; every caller goes on with post
DbComplete(c) ==
  /\ c \in DOMAIN calls
  /\ LET n == NodeOf(c) IN
       \/ /\ calls[c].ph = "db"
          /\ pid' = [pid EXCEPT ![n] = nextid] /\ nextid' = nextid + 1
          /\ saving' = [saving EXCEPT ![n] = "set"]
          /\ nrows' = [nrows EXCEPT ![n] = @ + 1]
          /\ calls' = Goto(calls, pid', c, "post", 1)
       \/ /\ calls[c].ph = "upddb"
          /\ calls' = Goto(calls, pid, c, "post", 1)
          /\ UNCHANGED <<pid, nextid, saving, nrows>>
  /\ UNCHANGED <<shape, started>>

\* a waiter is woken by the event
Wake(c) ==
  /\ c \in DOMAIN calls /\ calls[c].ph = "wait" /\ saving[NodeOf(c)] = "set"
  /\ calls' = Goto(calls, pid, c, "post", 1)
  /\ UNCHANGED <<shape, pid, saving, nrows, started, nextid>>

\* a top-level caller arrives: `await entity.save(database)`
Start(t) ==
  /\ t \in Tops \ started /\ (t = "T1" \/ "T1" \in started)
  /\ LET sub == <<t, shape.tops[t]>>
     IN calls' = [p \in DOMAIN calls \cup {<<t>>, sub} |-> IF p = <<t>> THEN Rec("top", 0, NoRefs, 0)
                                                           ELSE IF p = sub THEN Ready ELSE calls[p]]
  /\ started' = started \cup {t}
  /\ UNCHANGED <<shape, pid, saving, nrows, nextid>>

\* ... and gets control back: it sees the persistent id of the entity it saved
TopReturn(t) ==
  /\ t \in started /\ calls[<<t>>].ph = "top" /\ calls[<<t, shape.tops[t]>>].ph = "done"
  /\ calls' = [calls EXCEPT ![<<t>>] = Rec("done", 0, pid, pid[shape.tops[t]])]      \* refs: every id as the caller finds it
  /\ UNCHANGED <<shape, pid, saving, nrows, started, nextid>>

AllDone == started = Tops /\ \A c \in DOMAIN calls : calls[c].ph = "done"
Terminated == AllDone /\ UNCHANGED svars

Internal(c) == Enter(c) \/ StageDone(c) \/ Wake(c)
DoEnter == \E c \in DOMAIN calls : Enter(c)
DoStageDone == \E c \in DOMAIN calls : StageDone(c)
DoWake == \E c \in DOMAIN calls : Wake(c)
DoDbComplete == \E c \in DOMAIN calls : DbComplete(c)
DoStart == \E t \in Tops : Start(t)
DoTopReturn == \E t \in Tops : TopReturn(t)
Next == DoEnter \/ DoStageDone \/ DoWake \/ DoDbComplete \/ DoStart \/ DoTopReturn \/ Terminated

\* every task is blocked on a database call or on an event (the driver acts only then)
Quiescent == \A c \in DOMAIN calls :
               /\ calls[c].ph # "ready"
               /\ ~(calls[c].ph = "wait" /\ saving[NodeOf(c)] = "set")
               /\ ~(calls[c].ph \in {"pre", "upd", "post"}
                    /\ \A m \in SetOf(StagesOf(NodeOf(c), calls[c].ph)[calls[c].i]) : calls[Append(c, m)].ph = "done")
               /\ ~(calls[c].ph = "top" /\ calls[Append(c, shape.tops[c[1]])].ph = "done")
InFlight == {c \in DOMAIN calls : calls[c].ph \in {"db", "upddb"}}

\* the schedules the conformance driver explores: database completions and late callers only when every task is blocked
QDbComplete == Quiescent /\ DoDbComplete
QStart == Quiescent /\ DoStart
NextQ == DoEnter \/ DoStageDone \/ DoWake \/ DoTopReturn \/ QDbComplete \/ QStart \/ Terminated

InitOf(sh) == /\ shape = sh
              /\ pid = [n \in DOMAIN sh.kind |-> 0]
              /\ saving = [n \in DOMAIN sh.kind |-> "none"]
              /\ nrows = [n \in DOMAIN sh.kind |-> 0]
              /\ calls = [p \in {} |-> 0]
              /\ started = {} /\ nextid = 1

---------------------------------------------------------------------------
(* Shapes *)
InjSeqs(S) == {q \in UNION {[1..k -> S] : k \in 0..Cardinality(S)} : \A i, j \in 1..Len(q) : i # j => q[i] # q[j]}
\* one order per subset (the order in which the members appear in `order`)
Sorted(q, order) == \A i, j \in 1..Len(q) : i < j =>
                      (CHOOSE k \in 1..Len(order) : order[k] = q[i]) < (CHOOSE k \in 1..Len(order) : order[k] = q[j])

(* Token values: an outer container o over the containers a, b and the leaf s; a and b over the leaves s and x.
   `oc`, `ac`, `bc` are the member lists.  Only graphs in which some token has two parents, or that are saved by two
   callers, are kept (trees saved once are Part 1).                                                              *)
TokShape(oc, ac, bc, tp) ==
  LET ch == [n \in {"o", "a", "b", "s", "x"} |-> CASE n = "o" -> oc [] n = "a" -> ac [] n = "b" -> bc [] OTHER -> <<>>]
      R == {"o"} \cup SetOf(oc) \cup (IF "a" \in SetOf(oc) THEN SetOf(ac) ELSE {}) \cup (IF "b" \in SetOf(oc) THEN SetOf(bc) ELSE {})
  IN [name  |-> "tokens",
      kind  |-> [n \in R |-> IF n \in {"o", "a", "b"} THEN "Container" ELSE "Token"],
      pre   |-> [n \in R |-> IF ch[n] = <<>> THEN <<>> ELSE <<ch[n]>>],
      post  |-> [n \in R |-> <<>>],
      reads |-> [n \in R |-> ch[n]],
      tops  |-> tp]
Parents(sh, n) == {p \in DOMAIN sh.kind : n \in SetOf(sh.reads[p])}
SharedNodes(sh) == {n \in DOMAIN sh.kind : Cardinality(Parents(sh, n)) >= 2}
\* ordered: every order of the members (the first task created becomes the saver); otherwise one order per member set.
\* small2: the two-caller graphs are limited to those without the private leaf x.
TokShapes(ordered, small2) ==
  LET OC(ord) == {q \in InjSeqs({"a", "b", "s"}) : q # <<>> /\ (ord \/ Sorted(q, <<"a", "b", "s">>))}
      IC(ord) == {q \in InjSeqs({"s", "x"}) : ord \/ Sorted(q, <<"s", "x">>)}
      Raw(ord) == {r \in OC(ord) \X IC(ord) \X IC(ord) : /\ ("a" \notin SetOf(r[1]) => r[2] = <<>>)
                                                         /\ ("b" \notin SetOf(r[1]) => r[3] = <<>>)}
      One == {TokShape(r[1], r[2], r[3], [T1 |-> "o"]) : r \in Raw(ordered)}
      Two == {TokShape(r[1], r[2], r[3], [T1 |-> "o", T2 |-> m]) :
                r \in {q \in Raw(FALSE) : small2 => "x" \notin SetOf(q[2]) \cup SetOf(q[3])}, m \in {"o", "a", "s"}}
  IN {sh \in One : SharedNodes(sh) # {}} \cup {sh \in Two : sh.tops["T2"] \in DOMAIN sh.kind}

(* Workflows (an explicit catalogue; pre / post / reads transcribe the save methods of the classes named in `cls`) *)
\* two tasks save the same workflow: guards of Workflow, Port and Step; the late caller re-writes a persisted step
WfSavers ==
  LET D == {"w", "p1", "p2", "s1"}
  IN [name |-> "savers", kind |-> [w |-> "Workflow", p1 |-> "Port", p2 |-> "Port", s1 |-> "Step"],
      pre |-> [n \in D |-> <<>>],
      post |-> [n \in D |-> IF n = "w" THEN << <<"p1", "p2">>, <<"s1">> >> ELSE <<>>],
      reads |-> [n \in D |-> IF n = "w" THEN <<>> ELSE <<"w">>],
      tops |-> [T1 |-> "w", T2 |-> "w"]]
\* two ScheduleSteps whose bindings share a Target and a FilterConfig; two Targets of one binding share a DeploymentConfig
WfBinding ==
  LET D == {"w", "pj1", "pc1", "pj2", "pc2", "sc1", "sc2", "t1", "t2", "d", "f"}
  IN [name |-> "binding",
      kind |-> [n \in D |-> CASE n = "w" -> "Workflow" [] n \in {"pj1", "pc1", "pj2", "pc2"} -> "Port"
                              [] n \in {"sc1", "sc2"} -> "Step" [] n \in {"t1", "t2"} -> "Target"
                              [] n = "d" -> "Deployment" [] OTHER -> "Filter"],
      pre |-> [n \in D |-> CASE n = "sc1" -> << <<"pj1">>, <<"t1", "t2", "f">> >>
                             [] n = "sc2" -> << <<"pj2">>, <<"t2", "f">> >>
                             [] n \in {"t1", "t2"} -> << <<"d">> >>
                             [] OTHER -> <<>>],
      post |-> [n \in D |-> IF n = "w" THEN << <<"pj1", "pc1", "pj2", "pc2">>, <<"sc1", "sc2">> >> ELSE <<>>],
      reads |-> [n \in D |-> CASE n = "sc1" -> <<"w", "pc1", "pj1", "t1", "t2", "f">>
                               [] n = "sc2" -> <<"w", "pc2", "pj2", "t2", "f">>
                               [] n \in {"t1", "t2"} -> <<"d">>
                               [] n \in {"pj1", "pc1", "pj2", "pc2"} -> <<"w">>
                               [] OTHER -> <<>>],
      tops |-> [T1 |-> "w"]]
\* a DeployStep and the Target of a ScheduleStep share the DeploymentConfig
WfDeploy ==
  LET D == {"w", "pc", "pj", "dp", "sc", "t", "d"}
  IN [name |-> "deploy",
      kind |-> [n \in D |-> CASE n = "w" -> "Workflow" [] n \in {"pc", "pj"} -> "Port" [] n \in {"dp", "sc"} -> "Step"
                              [] n = "t" -> "Target" [] OTHER -> "Deployment"],
      pre |-> [n \in D |-> CASE n = "dp" -> << <<"d">> >> [] n = "sc" -> << <<"pj">>, <<"t">> >>
                             [] n = "t" -> << <<"d">> >> [] OTHER -> <<>>],
      post |-> [n \in D |-> IF n = "w" THEN << <<"pc", "pj">>, <<"dp", "sc">> >> ELSE <<>>],
      reads |-> [n \in D |-> CASE n = "dp" -> <<"w", "d", "pc">> [] n = "sc" -> <<"w", "pc", "pj", "t">>
                               [] n = "t" -> <<"d">> [] n \in {"pc", "pj"} -> <<"w">> [] OTHER -> <<>>],
      tops |-> [T1 |-> "w"]]
\* two output processors of one ExecuteStep (objects without a row) share the Target
WfOutproc ==
  LET D == {"w", "pj", "po1", "po2", "ex", "op1", "op2", "t", "d"}
  IN [name |-> "outproc",
      kind |-> [n \in D |-> CASE n = "w" -> "Workflow" [] n \in {"pj", "po1", "po2"} -> "Port" [] n = "ex" -> "Step"
                              [] n \in {"op1", "op2"} -> "Inline" [] n = "t" -> "Target" [] OTHER -> "Deployment"],
      pre |-> [n \in D |-> CASE n = "ex" -> << <<"op1", "op2">> >> [] n \in {"op1", "op2"} -> << <<"t">> >>
                             [] n = "t" -> << <<"d">> >> [] OTHER -> <<>>],
      post |-> [n \in D |-> IF n = "w" THEN << <<"pj", "po1", "po2">>, <<"ex">> >> ELSE <<>>],
      reads |-> [n \in D |-> CASE n = "ex" -> <<"w", "pj", "t">> [] n = "t" -> <<"d">>
                               [] n \in {"pj", "po1", "po2"} -> <<"w">> [] OTHER -> <<>>],
      tops |-> [T1 |-> "w"]]
WfShapes == {WfSavers, WfBinding, WfDeploy, WfOutproc}

SaveShapes == CASE SFamily = "quick" -> TokShapes(FALSE, TRUE) \cup WfShapes
                [] SFamily = "full" -> TokShapes(TRUE, FALSE) \cup WfShapes
                [] SFamily = "tokens" -> TokShapes(FALSE, TRUE)
                [] SFamily = "tokensfull" -> TokShapes(TRUE, FALSE)
                [] SFamily = "wf" -> WfShapes
                [] OTHER -> {}

Init == \E sh \in SaveShapes : InitOf(sh)
Spec == Init /\ [][Next]_svars

---------------------------------------------------------------------------
(* Properties *)
SaveTypeOK == /\ \A n \in Nodes : pid[n] \in 0..(nextid - 1) /\ saving[n] \in {"none", "inflight", "set"}
              /\ \A c \in DOMAIN calls : calls[c].ph \in {"ready", "wait", "pre", "upd", "post", "db", "upddb", "top", "done"}
              /\ started \subseteq Tops

\* save() gives control back only when the entity has its persistent id (every caller reads it straight away)
SaveReturnsWithId == \A c \in DOMAIN calls : calls[c].ph = "done" /\ (IsTop(c) \/ HasRow(NodeOf(c))) => calls[c].seen # 0
\* ... and everything the entity saves along with itself is persisted too (the caller may load it straight away)
RECURSIVE ReachSet(_)
ReachSet(S) == LET T == S \cup {m \in Nodes : \E p \in S : \E part \in {"pre", "post"} :
                                               \E i \in 1..Len(StagesOf(p, part)) : m \in SetOf(StagesOf(p, part)[i])}
               IN IF T = S THEN S ELSE ReachSet(T)
TopReturnsWithId == \A t \in started : calls[<<t>>].ph = "done" =>
                      /\ calls[<<t>>].seen # 0
                      /\ \A m \in ReachSet({shape.tops[t]}) : HasRow(m) => calls[<<t>>].refs[m] # 0

\* the row of an entity refers to the rows of the entities it holds: no null / stale reference is ever written
RefsResolved == \A c \in InFlight : \A m \in SetOf(shape.reads[NodeOf(c)]) : calls[c].refs[m] # 0 /\ calls[c].refs[m] = pid[m]

\* one record per entity, however many callers
OneRow == \A n \in Nodes : nrows[n] <= 1

\* when everybody has returned the whole graph is in the database (so that a load can reproduce it)
SavedAll == AllDone => \A n \in Nodes : HasRow(n) => nrows[n] = 1 /\ pid[n] # 0
================================================================================
