CONSTANTS DeepCopy = TRUE  Family = "all"  MaxMut = 2  ResaveEdges = TRUE  MaxOps = 2  Contexts = {"L1", "L2", "L3", "B"}
INIT GenInitAll
NEXT GenNextAll
INVARIANT GraphTypeOK
INVARIANT LoadReproducesLastSaved
