CONSTANTS Tables = {"A", "B", "C", "D"}  Cached = {"A", "C"}  Updatable = {"A", "B"}  Bulk = {"A", "B", "C"}  BulkFills = {}  MaxId = 2  MaxRets = 2  MaxDepth = 6  DeepCopy = FALSE
CONSTANT Pops <- PopsSelf
INIT InitF
NEXT NextF
VIEW ViewF
INVARIANT GetReturnsDbRow
