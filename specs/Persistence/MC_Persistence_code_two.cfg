CONSTANTS Tables = {"a", "b"}  Cached = {"a", "b"}  Updatable = {"a", "b"}  Bulk = {"a", "b"}  BulkFills = {}  MaxId = 2  MaxRets = 2  MaxDepth = 5  DeepCopy = TRUE
CONSTANT Pops <- PopsSelf
INIT InitAll
NEXT NextAll
VIEW ViewF
INVARIANT TypeOK
INVARIANT GetReturnsDbRow
INVARIANT CacheCoherent
INVARIANT RetsSeparate
