-------------------------- MODULE MC_PersistenceSave --------------------------
EXTENDS PersistenceSave, Json
(* Exhaustive runs over every shape of the family and every interleaving; the same run emits the shapes (one JSON line
   per initial state) for the conformance driver. *)
GenInitS == \E sh \in SaveShapes : InitOf(sh) /\ PrintT(ToJson([saveshape |-> sh]))
=============================================================================
