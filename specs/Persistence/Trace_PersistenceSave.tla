------------------------ MODULE Trace_PersistenceSave ------------------------
(* Trace validation (code -> spec) of concurrent saves.  A trace is what one execution of the real save methods
   produced under the gated database of harness/vh/sut/persist_save.py (every INSERT / UPDATE of an entity row is
   parked when the real statement has been executed and completes when the driver says so; the driver acts only when
   every task is blocked):
     shape                          the entity graph that was built (one of the shapes emitted by MC_PersistenceSave)
     Start(t, o)                    driver: the top-level caller t calls entity.save()
     Issue(node, upd, refs)         code: add_<table>(...) / update_step(...) is called for the row of `node` with these ids
                                    of the entities it refers to (0 = None; ids are numbered in completion order)
     Complete(node, upd, o)         driver: that database call returns
     Return(t, id, pids)            code: the top-level save() returned, the entity's persistent id is `id` (0 = None) and
                                    the ids of all entities are `pids`
     End(o, rows)                   nothing is parked any more; rows = records found in the database per entity
   `o` is the observation made before a driver event: the parked calls and the persistent id of every entity.
   The trace is explained with the PERMISSIVE protocol (Waiting = Guard = "any": a second caller may wait, return at
   once or save again) - hidden steps are the guards, the stage changes and the wake-ups - and the clauses of C08 are
   judged on the states reached by OBSERVED events only (an INSERT enters the model only through Issue, a return
   through Return, a row through Complete), so that a speculative hidden step never accuses the code:
     RefsResolved, TopReturnsWithId, OneRow;   End additionally demands the database rows the model counts.
   A failing clause is printed ("BAD <tid> <l> <clause>") instead of stopping TLC: one run judges the whole batch.   *)
EXTENDS PersistenceSave, TraceUtil

VARIABLES tid, l
tvars == <<svars, tid, l>>

Tr == Traces[tid].events
More == l <= Len(Tr)
Ev == Tr[l]
Consume == l' = l + 1 /\ UNCHANGED tid
Is(name) == More /\ Ev.n = name

ObsOK(o) ==
  /\ Quiescent
  /\ Cardinality(InFlight) = Len(o.parked)
  /\ {<<NodeOf(c), IF calls[c].ph = "upddb" THEN 1 ELSE 0>> : c \in InFlight} = {<<o.parked[i][1], o.parked[i][2]>> : i \in 1..Len(o.parked)}
  /\ \A i \in 1..Len(o.pid) : pid[o.pid[i][1]] = o.pid[i][2]

TInit == /\ tid \in 1..Len(Traces) /\ l = 1 /\ InitOf(Traces[tid].shape)

InDb(cs, c) == cs[c].ph \in {"db", "upddb"}
THidden == /\ More
           /\ \E c \in DOMAIN calls : Internal(c) /\ ~InDb(calls', c)
           /\ UNCHANGED <<tid, l>>
TIssue == /\ Is("Issue")
          /\ \E c \in DOMAIN calls :
               /\ NodeOf(c) = Ev.node /\ ~IsTop(c)
               /\ Enter(c) \/ StageDone(c)
               /\ calls'[c].ph = (IF Ev.upd = 1 THEN "upddb" ELSE "db")
               /\ \A i \in 1..Len(Ev.refs) : calls'[c].refs[Ev.refs[i][1]] = Ev.refs[i][2]
          /\ Consume
TComplete == /\ Is("Complete") /\ ObsOK(Ev.o)
             /\ \E c \in InFlight : /\ NodeOf(c) = Ev.node
                                    /\ calls[c].ph = (IF Ev.upd = 1 THEN "upddb" ELSE "db")
                                    /\ DbComplete(c)
             /\ Consume
TStart == Is("Start") /\ ObsOK(Ev.o) /\ Start(Ev.t) /\ Consume
TReturn == /\ Is("Return") /\ TopReturn(Ev.t) /\ calls'[<<Ev.t>>].seen = Ev.id
           /\ \A i \in 1..Len(Ev.pids) : calls'[<<Ev.t>>].refs[Ev.pids[i][1]] = Ev.pids[i][2]
           /\ Consume
TEnd == /\ Is("End") /\ ObsOK(Ev.o) /\ AllDone
        /\ \A i \in 1..Len(Ev.rows) : nrows[Ev.rows[i][1]] = Ev.rows[i][2]
        /\ UNCHANGED svars /\ Consume

TNext == TStart \/ TIssue \/ TComplete \/ TReturn \/ TEnd \/ THidden

Bad(clause) == PrintT("BAD " \o ToString(tid) \o " " \o ToString(l) \o " " \o clause)
Judge == /\ RefsResolved \/ Bad("RefsResolved")
         /\ TopReturnsWithId \/ Bad("TopReturnsWithId")
         /\ OneRow \/ Bad("OneRow")
Accept == (~More) => TUAcceptMsg(tid)
Diag == TUDiagMsg(tid, l)
=============================================================================
