--------------------------- MODULE MC_Persistence ---------------------------
EXTENDS Persistence, Json
(* Model-checking and generation wrapper for Persistence.
   - the cache each update_<t> pops, as in sqlite.py: its own
   - `obs` is an observation of the last step: hidden from the fingerprint in GENERATION runs only (an invariant
     over a hidden variable is not evaluated on states that are duplicates under the view)
   - B-edge generation: one JSON line per transition with the keys of the source and target states,
     the call, what the call returned (obs), what every get_<t>(i) WOULD return afterwards according
     to the model (reads), what the database holds (truth) and the value of each property in the target
     state (so that the as-is model's counterexamples come out of the same run).                    *)
PopsSelf == [t \in Updatable |-> t]
PopsNone == [t \in Updatable |-> "none"]

View    == <<rows, heap, cache, rets, ver, depth, obs>>
ViewGen == <<rows, heap, cache, rets, ver>>        \* generation runs are strict BFS (-workers 1)

VARIABLE focus       \* the table a history works on ("all": histories that mix tables)

\* canonical, order-independent rendering of a state (ToString is not canonical for functions/records)
MaxCell(h) == IF DOMAIN h = {} THEN 0 ELSE CHOOSE n \in DOMAIN h : \A m \in DOMAIN h : m <= n
Key(r, h, c, rt, v) ==
  <<r,
    [x \in 1..MaxCell(h) |-> IF x \in DOMAIN h THEN h[x] ELSE 99],
    [t \in Tables |-> [i \in 1..MaxId |-> IF i \in DOMAIN c[t] THEN <<c[t][i].top, c[t][i].cell>> ELSE <<>>]],
    [k \in 1..Len(rt) |-> <<rt[k].t, rt[k].id, rt[k].top, rt[k].cell, rt[k].alias>>],
    v>>
Emit(name, args) ==
  PrintT(ToJson([from  |-> Key(rows, heap, cache, rets, ver),
                 to    |-> Key(rows', heap', cache', rets', ver'),
                 act   |-> name, args |-> args, focus |-> focus, depth |-> depth', obs |-> obs',
                 reads |-> [t \in Tables |-> [i \in 1..Len(rows'[t]) |-> Read(t, i)']],
                 truth |-> rows',
                 getok |-> GetReturnsDbRow', coherent |-> CacheCoherent', separate |-> RetsSeparate']))

GenNext == \/ \E t \in Tables : Add(t) /\ Emit("add", <<t>>)
           \/ \E t \in Tables, i \in 1..MaxId, f \in Fields : Update(t, i, f) /\ Emit("update", <<t, i, f>>)
           \/ \E t \in Tables, i \in 1..MaxId : Get(t, i) /\ Emit("get", <<t, i>>)
           \/ \E t \in Tables : GetAll(t) /\ Emit("getall", <<t>>)
           \/ \E k \in 1..MaxRets : MutTop(k) /\ Emit("mut_top", <<k>>)
           \/ \E k \in 1..MaxRets : MutNested(k) /\ Emit("mut_nested", <<k>>)

(* Several kinds of table in ONE run without their product: the history works on a single table chosen
   at the start (`focus`), so the state graph is the disjoint union of the one-table graphs.          *)
InitF == Init /\ focus \in Tables
AddF       == Add(focus) /\ UNCHANGED focus
UpdateF    == (\E i \in 1..MaxId, f \in Fields : Update(focus, i, f)) /\ UNCHANGED focus
GetF       == (\E i \in 1..MaxId : Get(focus, i)) /\ UNCHANGED focus
GetAllF    == GetAll(focus) /\ UNCHANGED focus
MutTopF    == (\E k \in 1..MaxRets : MutTop(k)) /\ UNCHANGED focus
MutNestedF == (\E k \in 1..MaxRets : MutNested(k)) /\ UNCHANGED focus
NextF == AddF \/ UpdateF \/ GetF \/ GetAllF \/ MutTopF \/ MutNestedF
GenNextF == /\ UNCHANGED focus
            /\ \/ Add(focus) /\ Emit("add", <<focus>>)
               \/ \E i \in 1..MaxId, f \in Fields : Update(focus, i, f) /\ Emit("update", <<focus, i, f>>)
               \/ \E i \in 1..MaxId : Get(focus, i) /\ Emit("get", <<focus, i>>)
               \/ GetAll(focus) /\ Emit("getall", <<focus>>)
               \/ \E k \in 1..MaxRets : MutTop(k) /\ Emit("mut_top", <<k>>)
               \/ \E k \in 1..MaxRets : MutNested(k) /\ Emit("mut_nested", <<k>>)
ViewF    == <<rows, heap, cache, rets, ver, depth, focus, obs>>   \* exhaustive runs: obs stays visible, GetReturnsDbRow reads it
ViewGenF == <<rows, heap, cache, rets, ver, focus>>
\* histories that mix tables (no focus)
InitAll    == Init /\ focus = "all"
NextAll    == Next /\ UNCHANGED focus
GenNextAll == GenNext /\ UNCHANGED focus
=============================================================================
