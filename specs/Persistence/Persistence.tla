------------------------------ MODULE Persistence ------------------------------
(* The workflow database as its callers see it (streamflow/persistence/sqlite.py, base.py):
   tables of rows, the per-table LRU caches filled by the `@cached` getters, and the rows that
   were handed to callers.

   A row is [top, nested]: `top` stands for the scalar columns (status, name, tag, workdir ...),
   `nested` for the value of a JSON column (params / config / value) once it has been parsed into
   python objects.  Parsed objects are mutable and can be shared, so they live in a HEAP: the cache
   entry and every returned row hold a *reference* (cell) to the nested object.  The database
   itself holds values (JSON text), never references.

   One action per database call (every call awaits the sqlite thread, nothing interleaves inside
   the wrapper that matters for a single caller; C09 quantifies over histories, not schedules):

     Add(t)           add_<t>      INSERT, a fresh id
     Update(t,i,f)    update_<t>   UPDATE of a scalar (f = "top") or of the JSON column (f = "nested"),
                                   then `<Pops[t]>_cache.pop(i)`
     Get(t,i)         get_<t>      uncached table: SELECT + json.loads -> a fresh object
                                   cached table  : hit -> the cached object, miss -> SELECT, parse, store;
                                   in BOTH cases the wrapper of cachebox.cached returns
                                   postprocess(result): by default a SHALLOW copy of the dict, i.e. a
                                   new top level that still references the cached nested objects
                                   (DeepCopy = FALSE, the code as it is); DeepCopy = TRUE models
                                   `postprocess_deepcopy_mutables` (the proposed repair).
     GetAll(t)        the bulk / relational readers that return rows of table t by another path
                      (get_workflow_steps, get_workflow_ports, get_port_from_token, get_workflows_by_name,
                      get_executions_by_step, get_port_tokens ...): SELECT + json.loads -> fresh objects, the
                      caches are not consulted and not filled (BulkFills = {}, the code as it is).  A reader that
                      "warms" the cache with the rows it returns (t \in BulkFills) stores the very objects it hands
                      to the caller: those returned rows ARE the cache entries (alias), top level included.
     MutTop(k)        the caller assigns row["status"] = ... on the k-th row it still holds
     MutNested(k)     the caller assigns row["params"][...] = ... on that row

   Values written by the database API are fresh version numbers (1, 2, ...); the caller's own
   garbage is 0, so a read that returns 0 has leaked a caller mutation and a read that returns an
   older version is stale.                                                                        *)
EXTENDS Naturals, Sequences, FiniteSets, TLC

CONSTANTS Tables,      \* table names
          Cached,      \* tables whose getter is decorated with @cached
          Updatable,   \* tables that have an update_<t> method
          Pops,        \* Pops[t], t \in Updatable: the table whose cache update_<t> pops ("none": no pop)
          Bulk,        \* tables that have bulk / relational readers besides get_<t>
          BulkFills,   \* tables whose bulk reader stores the returned rows in the cache (none in the code as it is)
          MaxId,       \* at most MaxId rows per table
          MaxRets,     \* the caller keeps the MaxRets most recent rows it was given
          MaxDepth,    \* histories of at most MaxDepth calls
          DeepCopy     \* post-processing of the cached getters: FALSE shallow (as is), TRUE deep

VARIABLES rows,    \* rows[t]  : sequence (index = id) of [top, nested]        -- what SELECT returns
          heap,    \* heap[c]  : the nested python object behind reference c
          cache,   \* cache[t] : function  id -> [top, cell]  (domain = cached ids)
          rets,    \* rows in the hands of the caller: sequence of [t, id, top, cell, alias]
                   \*   alias: the row object itself is the cache entry of (t, id)
          ver,     \* next fresh value
          depth,   \* number of calls so far
          obs      \* the last call and what it returned (history variable)
vars == <<rows, heap, cache, rets, ver, depth, obs>>

Ids(t) == 1..Len(rows[t])
Fields == {"top", "nested"}
NoObs == [kind |-> "none"]
Caller == 0                                   \* the value a caller writes into what it was given

---------------------------------------------------------------------------
(* heap helpers *)
NewCell(h) == CHOOSE n \in 1..(Cardinality(DOMAIN h) + 1) : n \notin DOMAIN h /\ \A m \in 1..(n - 1) : m \in DOMAIN h
Restrict(f, S) == [x \in S |-> f[x]]
Live(c, r) == {c[t][i].cell : <<t, i>> \in {p \in Tables \X (1..MaxId) : p[2] \in DOMAIN c[p[1]]}}
              \cup {r[k].cell : k \in 1..Len(r)}
Push(r, x) == LET s == Append(r, x) IN IF Len(s) > MaxRets THEN Tail(s) ELSE s
RECURSIVE PushAll(_, _)
PushAll(r, xs) == IF xs = <<>> THEN r ELSE PushAll(Push(r, Head(xs)), Tail(xs))
\* the cache entry of (t, i) is dropped or replaced: rows that were that entry are ordinary objects from now on
Unalias(r, t, S) == [k \in 1..Len(r) |-> IF r[k].t = t /\ r[k].id \in S THEN [r[k] EXCEPT !.alias = FALSE] ELSE r[k]]

\* every action ends here: unreachable objects are garbage (keeps the state canonical)
Commit(rows2, heap2, cache2, rets2, ver2, obs2) ==
  /\ depth < MaxDepth
  /\ rows' = rows2 /\ cache' = cache2 /\ rets' = rets2 /\ ver' = ver2 /\ obs' = obs2
  /\ heap' = Restrict(heap2, Live(cache2, rets2) \cap DOMAIN heap2)
  /\ depth' = depth + 1

\* what get_<t>(i) would return in the current state, without performing it
Read(t, i) == IF t \in Cached /\ i \in DOMAIN cache[t]
              THEN [top |-> cache[t][i].top, nested |-> heap[cache[t][i].cell]]
              ELSE rows[t][i]

---------------------------------------------------------------------------
Init == /\ rows = [t \in Tables |-> <<>>]
        /\ heap = <<>>
        /\ cache = [t \in Tables |-> <<>>]
        /\ rets = <<>>
        /\ ver = 1 /\ depth = 0 /\ obs = NoObs

Add(t) ==
  /\ Len(rows[t]) < MaxId
  /\ Commit([rows EXCEPT ![t] = Append(@, [top |-> ver, nested |-> ver])], heap, cache, rets, ver + 1,
            [kind |-> "add", t |-> t, id |-> Len(rows[t]) + 1])

Update(t, i, f) ==
  /\ t \in Updatable /\ i \in Ids(t) /\ f \in Fields
  /\ LET p == Pops[t]
         cache2 == IF p \in Tables
                   THEN [cache EXCEPT ![p] = Restrict(@, (DOMAIN @) \ {i})]
                   ELSE cache
         rets2  == IF p \in Tables THEN Unalias(rets, p, {i}) ELSE rets
     IN Commit([rows EXCEPT ![t][i][f] = ver], heap, cache2, rets2, ver + 1,
               [kind |-> "update", t |-> t, id |-> i, f |-> f])

Get(t, i) ==
  /\ i \in Ids(t)
  /\ LET hit  == t \in Cached /\ i \in DOMAIN cache[t]
         \* the object the wrapped coroutine produced, or the one found in the cache
         c1   == IF hit THEN cache[t][i].cell ELSE NewCell(heap)
         h1   == IF hit THEN heap ELSE (c1 :> rows[t][i].nested) @@ heap
         top1 == IF hit THEN cache[t][i].top ELSE rows[t][i].top
         cache2 == IF t \in Cached /\ ~hit
                   THEN [cache EXCEPT ![t] = (i :> [top |-> top1, cell |-> c1]) @@ @]
                   ELSE cache
         \* post-processing: a copy of the top level; the nested object is copied only when DeepCopy
         deep == t \in Cached /\ DeepCopy
         c2   == IF deep THEN NewCell(h1) ELSE c1
         h2   == IF deep THEN (c2 :> h1[c1]) @@ h1 ELSE h1
     IN Commit(rows, h2, cache2, Push(rets, [t |-> t, id |-> i, top |-> top1, cell |-> c2, alias |-> FALSE]), ver,
               [kind |-> "get", t |-> t, id |-> i, top |-> top1, nested |-> h2[c2]])

\* rows i..n of table t read afresh: [h |-> heap, out |-> the returned rows]
RECURSIVE BulkRead(_, _, _, _)
BulkRead(t, i, h, out) ==
  IF i > Len(rows[t]) THEN [h |-> h, out |-> out]
  ELSE LET c == NewCell(h)
       IN BulkRead(t, i + 1, (c :> rows[t][i].nested) @@ h,
                   Append(out, [t |-> t, id |-> i, top |-> rows[t][i].top, cell |-> c, alias |-> t \in BulkFills]))

GetAll(t) ==
  /\ t \in Bulk /\ Len(rows[t]) > 0
  /\ LET b == BulkRead(t, 1, heap, <<>>)
         fills  == t \in BulkFills
         cache2 == IF fills THEN [cache EXCEPT ![t] = [i \in Ids(t) |-> [top |-> rows[t][i].top, cell |-> b.out[i].cell]]]
                   ELSE cache
         rets1  == IF fills THEN Unalias(rets, t, Ids(t)) ELSE rets
     IN Commit(rows, b.h, cache2, PushAll(rets1, b.out), ver,
               [kind |-> "getall", t |-> t, ret |-> [i \in Ids(t) |-> [top |-> b.out[i].top, nested |-> b.h[b.out[i].cell]]]])

MutTop(k) ==
  /\ k \in 1..Len(rets) /\ rets[k].top # Caller
  /\ LET r == rets[k]
         cache2 == IF r.alias /\ r.id \in DOMAIN cache[r.t] THEN [cache EXCEPT ![r.t][r.id].top = Caller] ELSE cache
     IN Commit(rows, heap, cache2, [rets EXCEPT ![k].top = Caller], ver, [kind |-> "mut_top", k |-> k])

MutNested(k) ==
  /\ k \in 1..Len(rets) /\ heap[rets[k].cell] # Caller
  /\ Commit(rows, [heap EXCEPT ![rets[k].cell] = Caller], cache, rets, ver, [kind |-> "mut_nested", k |-> k])

Next == \/ \E t \in Tables : Add(t)
        \/ \E t \in Tables, i \in 1..MaxId, f \in Fields : Update(t, i, f)
        \/ \E t \in Tables, i \in 1..MaxId : Get(t, i)
        \/ \E t \in Tables : GetAll(t)
        \/ \E k \in 1..MaxRets : MutTop(k)
        \/ \E k \in 1..MaxRets : MutNested(k)
Spec == Init /\ [][Next]_vars

---------------------------------------------------------------------------
(* Properties (the statement of C09; the row-level half of C08's separation) *)
TypeOK == /\ \A t \in Tables : Len(rows[t]) <= MaxId /\ DOMAIN cache[t] \subseteq Ids(t)
          /\ \A t \in Tables : (t \notin Cached) => DOMAIN cache[t] = {}
          /\ Live(cache, rets) = DOMAIN heap
          /\ Len(rets) <= MaxRets

\* every read returns exactly what an uncached database would return at that point
GetReturnsDbRow == /\ obs.kind = "get" => /\ obs.top = rows[obs.t][obs.id].top
                                          /\ obs.nested = rows[obs.t][obs.id].nested
                   /\ obs.kind = "getall" => obs.ret = rows[obs.t]

\* ... now and for any later read: whatever the cache holds is the database row
CacheCoherent == \A t \in Cached : \A i \in DOMAIN cache[t] :
                    /\ cache[t][i].top = rows[t][i].top
                    /\ heap[cache[t][i].cell] = rows[t][i].nested

\* a returned row shares no mutable object with the cache or with another returned row
RetsSeparate == /\ \A k \in 1..Len(rets) : \A t \in Tables : \A i \in DOMAIN cache[t] : cache[t][i].cell # rets[k].cell
                /\ \A k1, k2 \in 1..Len(rets) : k1 # k2 => rets[k1].cell # rets[k2].cell
================================================================================
