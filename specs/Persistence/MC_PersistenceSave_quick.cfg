CONSTANTS Waiting = "always"  Guard = "always"  SFamily = "quick"
INIT GenInitS
NEXT Next
INVARIANT SaveTypeOK
INVARIANT SaveReturnsWithId
INVARIANT RefsResolved
INVARIANT OneRow
INVARIANT SavedAll
