CONSTANTS Waiting = "always"  Guard = "always"  SFamily = "quick"
INIT GenInitS
NEXT NextQ
INVARIANT SaveTypeOK
INVARIANT SaveReturnsWithId
INVARIANT TopReturnsWithId
INVARIANT RefsResolved
INVARIANT OneRow
INVARIANT SavedAll
