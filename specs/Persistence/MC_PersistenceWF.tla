-------------------------- MODULE MC_PersistenceWF --------------------------
EXTENDS PersistenceWF, Json
(* Generation: the shapes of one family, one JSON line each, with what the model says about them (which fields two
   loads share in the code as it is, which they own, the aliasing profile).  No transitions.                    *)
GenInit == /\ shape \in Shapes /\ profile = ProfileOf(shape) /\ InitHist
           /\ PrintT(ToJson([shape |-> shape, shared |-> SharedFields(shape), copied |-> CopiedFields(shape),
                             fresh |-> FreshFields, profile |-> profile]))
GenNext == FALSE /\ UNCHANGED vars
=============================================================================
