-------------------------- MODULE MC_PersistenceWF --------------------------
EXTENDS PersistenceWF, Json
(* Generation: the shapes of one family, one JSON line each, with what the model says about them: which fields two
   loads share (`shared`: none when the cached getters deep-copy, DeepCopy = TRUE, the code since fix 1d9dc38;
   `shared_if_shallow`: the byref fields of cached rows, shared under cachebox' default post-processing), which
   fields every load owns, the aliasing profile.  No transitions.                                               *)
GenInit == /\ shape \in Shapes /\ profile = ProfileOf(shape) /\ InitHist /\ InitGraphN(99)     \* 99: a shape, not a re-save history
           /\ PrintT(ToJson([shape |-> shape, shared |-> (IF DeepCopy THEN {} ELSE SharedFields(shape)),
                             shared_if_shallow |-> SharedFields(shape), copied |-> CopiedFields(shape),
                             fresh |-> FreshFields, profile |-> profile]))
GenNext == FALSE /\ UNCHANGED vars

(* Part 3, B-edge: one JSON line per transition of the re-save graph (sets rendered as sorted sequences by the driver) *)
GraphJ(g) == [steps |-> g.steps, ports |-> g.ports, edges |-> g.edges]
KeyRe(m, d, l, n, lt, r) == [mem |-> GraphJ(m), db |-> GraphJ(d), lastsaved |-> GraphJ(l), nops |-> n, late |-> lt,
                         reload |-> r.ctx]
EmitRe(name, args) == PrintT(ToJson([from |-> KeyRe(mem, db, lastsaved, nops, late, reload), to |-> KeyRe(mem', db', lastsaved', nops', late', reload'),
                                    act |-> name, args |-> args, ok |-> LoadReproducesLastSaved']))
GenNextRe == \/ \E p \in GPorts : AddPort(p) /\ EmitRe("add_port", <<p>>)
             \/ \E st \in GSteps, p \in GPorts, d \in {"in", "out"} : AddWire(st, p, d) /\ EmitRe("add_wire", <<st, p, d>>)
             \/ \E st \in GSteps, p \in GPorts : AddStep(st, p) /\ EmitRe("add_step", <<st, p>>)
             \/ SaveWf /\ EmitRe("save", <<>>)
             \/ \E c \in {"L", "B"} : LoadWf(c) /\ EmitRe("load", <<c>>)

\* both generations in one run: the shapes (initial states without successors) and the re-save graph
GenInitAll == GenInit \/ InitRe
GenNextAll == nops < 99 /\ GenNextRe
=============================================================================
