-------------------------- MODULE MC_PersistenceWF --------------------------
EXTENDS PersistenceWF, Json
(* Generation: the shapes of one family, one JSON line each, with what the model says about them: which fields two
   loads share (`shared`: none when the cached getters deep-copy, DeepCopy = TRUE, the code since fix 1d9dc38;
   `shared_if_shallow`: the byref fields of cached rows, shared under cachebox' default post-processing), which
   fields every load owns, the aliasing profile.  No transitions.                                               *)
GenInit == /\ shape \in Shapes /\ profile = ProfileOf(shape) /\ InitHist
           /\ PrintT(ToJson([shape |-> shape, shared |-> (IF DeepCopy THEN {} ELSE SharedFields(shape)),
                             shared_if_shallow |-> SharedFields(shape), copied |-> CopiedFields(shape),
                             fresh |-> FreshFields, profile |-> profile]))
GenNext == FALSE /\ UNCHANGED vars
=============================================================================
