CONSTANTS Waiting = "always"  Guard = "always"  SFamily = "full"
INIT GenInitS
NEXT Next
INVARIANT SaveTypeOK
INVARIANT SaveReturnsWithId
INVARIANT TopReturnsWithId
INVARIANT RefsResolved
INVARIANT OneRow
INVARIANT SavedAll
