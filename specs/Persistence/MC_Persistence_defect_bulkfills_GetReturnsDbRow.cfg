CONSTANTS Tables = {"A", "B", "C", "D"}  Cached = {"A", "C"}  Updatable = {"A", "B"}  Bulk = {"A", "B", "C"}  BulkFills = {"A"}  MaxId = 2  MaxRets = 2  MaxDepth = 6  DeepCopy = TRUE
CONSTANT Pops <- PopsSelf
INIT InitF
NEXT NextF
VIEW ViewF
INVARIANT GetReturnsDbRow
