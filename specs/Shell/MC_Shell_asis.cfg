CONSTANTS N = 3  Shapes = {"empty", "nonl", "multi", "mlike"}  Statuses = {0, 3}  Pres = {"none"}
CONSTANTS AllowTimeout = TRUE  AllowKill = TRUE
CONSTANTS FallbackShell = FALSE  CloseOnFailure = FALSE  FallbackOnTimeout = TRUE  PreambleInShell = FALSE
CONSTANTS UtfLen = 2  UtfWidths = {1, 2, 3, 4}  IncrementalDecode = TRUE
INIT MCInit
NEXT MCNext
VIEW View
INVARIANT TypeOK
INVARIANT NoSpuriousTimeout
