CONSTANTS L = 3
CONSTANT SiteCtx <- Fixed
INIT Init
NEXT Next
INVARIANT QuoteTransparent
INVARIANT NestedTransparent
INVARIANT BlameConsistent
INVARIANT SitesVerbatim
