------------------------------ MODULE MC_Shell ------------------------------
(* Exhaustive configurations of Shell (history variable `hist` hidden by the VIEW) and the generation
   step: in Gen_* configs every behaviour that reaches a quiet final state prints itself once as JSON
   (attributes, actions taken, what the specification says every call returns, how often every command
   ran), to be replayed on the real BaseConnector/BaseShell.                                        *)
EXTENDS Shell, Json
VARIABLE fin
View == <<attr, pc, ret, runs, garbled, sh, buf, killed>>

MCInit == Init /\ fin = FALSE
MCNext == Next /\ UNCHANGED fin

Finish == /\ Quiet /\ ~fin
          /\ fin' = TRUE
          /\ UNCHANGED vars
          /\ PrintT(ToJson([attr |-> attr, hist |-> hist, ret |-> ret, runs |-> runs, garbled |-> garbled,
                            expected |-> [k \in Cmd |-> Expected(k)]]))
GenNext == (~fin /\ Next /\ UNCHANGED fin) \/ Finish
=============================================================================
