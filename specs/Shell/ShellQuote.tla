----------------------------- MODULE ShellQuote -----------------------------
(* Quoting contexts of the command renderers (property C25, part b).

   A VALUE (an environment value, a working directory name, an argument) is a sequence of
   character classes.  A RENDERING SITE of StreamFlow writes the value into shell source text in
   some lexical CONTEXT:

     UNQ   written as is                                   create_command:        cd {workdir}
     DQ    written between double quotes                   create_command:        export K="{value}"
                                                           CommandTemplateMap:    export K="{value}"
     SQ    written through shlex.quote                     (argument quoted by the caller)
     SQ2   shlex.quote'd inside a command line that is     _build_shell_command:  sh -c '<cd 'wd'; export K='v'; cmd>'
           itself shlex.quote'd and handed to `sh -c`      LocalConnector.run:    sh -c '<command>'

   `Scan` is the word lexer of the POSIX shell (dash) restricted to these classes: it returns the
   word the shell hands to the command (kind "word"), or says why no exact word is predicted:
     open   a quote opened by/because of the value is not closed inside the fragment
     split  an unquoted blank / newline / `;` / trailing backslash ends the word early
     subst  a command substitution or `$$`: the result depends on the environment
     glob   an unquoted `*`: the result depends on the directory
   and BLAMES the first class of the value that was not taken literally.  The property is
   Received(context of the site, v) = word v for every value; the module also proves the two
   lemmas that make shlex.quote a correct fix: QuoteTransparent and NestedTransparent.          *)
EXTENDS Naturals, Sequences, FiniteSets, TLC

Classes == {"plain", "space", "squote", "dquote", "dollar", "btick", "bslash", "newline",
            "semi", "nonascii", "star"}
\* characters written by the renderer itself (never blamed): qs = ' and qd = "
IsSq(c) == c \in {"squote", "qs"}
IsDq(c) == c \in {"dquote", "qd"}
Lit(c) == IF c = "qs" THEN "squote" ELSE IF c = "qd" THEN "dquote" ELSE c
Demote(s) == [i \in 1..Len(s) |-> Lit(s[i])]
Bl(b, c) == IF b = "none" /\ c \in Classes THEN c ELSE b

Res(kind, word, blame) == [kind |-> kind, word |-> word, blame |-> blame]

RECURSIVE NameLen(_, _)
NameLen(src, j) == IF j <= Len(src) /\ src[j] = "plain" THEN 1 + NameLen(src, j + 1) ELSE 0
\* backslash-newline pairs are removed before `$` looks at what follows it (found by the binding at length 4:
\* "$\<newline>$" is $$)
RECURSIVE SkipLC(_, _)
SkipLC(src, j) == IF j + 1 <= Len(src) /\ src[j] = "bslash" /\ src[j + 1] = "newline" THEN SkipLC(src, j + 2) ELSE j

(* mode: "U" unquoted, "S" inside '...', "D" inside "..." *)
RECURSIVE Scan(_, _, _, _, _)
Scan(src, i, mode, acc, blame) ==
  IF i > Len(src)
  THEN IF mode = "U" THEN Res("word", acc, blame)
       ELSE Res("open", acc, IF blame = "none" THEN "unknown" ELSE blame)
  ELSE
  LET c == src[i]
      nx == IF i < Len(src) THEN src[i + 1] ELSE "end"
      \* `$` in modes U and D (what follows is looked at after line continuations have been removed)
      dj == SkipLC(src, i + 1)
      dx == IF dj <= Len(src) THEN src[dj] ELSE "end"
      Dollar ==
        IF dx = "plain"                 \* $name : unset variable, expands to nothing
        THEN Scan(src, dj + NameLen(src, dj), mode, acc, Bl(blame, c))
        ELSE IF dx = "dollar"           \* $$ : process id
        THEN Res("subst", acc, Bl(blame, c))
        ELSE IF dx = "star"             \* $* : positional parameters (none)
        THEN Scan(src, dj + 1, mode, acc, Bl(blame, c))
        ELSE Scan(src, i + 1, mode, Append(acc, "dollar"), blame)      \* a lone $ is literal
  IN
  CASE mode = "S" ->
         IF IsSq(c) THEN Scan(src, i + 1, "U", acc, Bl(blame, c))
         ELSE Scan(src, i + 1, "S", Append(acc, Lit(c)), blame)
    [] mode = "D" ->
         IF IsDq(c) THEN Scan(src, i + 1, "U", acc, Bl(blame, c))
         ELSE IF c = "bslash" THEN
              IF nx \in {"dollar", "btick", "dquote", "qd", "bslash"}
              THEN Scan(src, i + 2, "D", Append(acc, Lit(nx)), Bl(blame, c))
              ELSE IF nx = "newline" THEN Scan(src, i + 2, "D", acc, Bl(blame, c))
              ELSE Scan(src, i + 1, "D", Append(acc, c), blame)         \* literal backslash
         ELSE IF c = "dollar" THEN Dollar
         ELSE IF c = "btick" THEN Res("subst", acc, Bl(blame, c))
         ELSE Scan(src, i + 1, "D", Append(acc, Lit(c)), blame)
    [] mode = "U" ->
         IF IsSq(c) THEN Scan(src, i + 1, "S", acc, Bl(blame, c))
         ELSE IF IsDq(c) THEN Scan(src, i + 1, "D", acc, Bl(blame, c))
         ELSE IF c = "bslash" THEN
              IF nx = "end" THEN Res("split", acc, Bl(blame, c))       \* escapes what follows the value
              ELSE IF nx = "newline" THEN Scan(src, i + 2, "U", acc, Bl(blame, c))
              ELSE Scan(src, i + 2, "U", Append(acc, Lit(nx)), Bl(blame, c))
         ELSE IF c = "dollar" THEN Dollar
         ELSE IF c = "btick" THEN Res("subst", acc, Bl(blame, c))
         ELSE IF c = "star" THEN Res("glob", acc, Bl(blame, c))
         ELSE IF c \in {"space", "newline", "semi"} THEN Res("split", acc, Bl(blame, c))
         ELSE Scan(src, i + 1, "U", Append(acc, Lit(c)), blame)         \* plain, nonascii

Lex(src) == Scan(src, 1, "U", <<>>, "none")

---------------------------------------------------------------------------
(* shlex.quote:  '' for the empty string, the string itself when it only has safe characters,
   otherwise ' + s.replace("'", "'\"'\"'") + '                                                *)
Safe(v) == v # <<>> /\ \A i \in 1..Len(v) : v[i] = "plain"
RECURSIVE EscSq(_)
EscSq(v) == IF v = <<>> THEN <<>>
            ELSE (IF v[1] = "squote" THEN <<"qs", "qd", "squote", "qd", "qs">> ELSE <<v[1]>>) \o EscSq(Tail(v))
ShlexQuote(v) == IF v = <<>> THEN <<"qs", "qs">>
                 ELSE IF Safe(v) THEN v ELSE <<"qs">> \o EscSq(v) \o <<"qs">>

Contexts == {"UNQ", "DQ", "SQ", "SQ2"}

Received(ctx, v) ==
  CASE ctx = "UNQ" -> Lex(v)
    [] ctx = "DQ"  -> Lex(<<"qd">> \o v \o <<"qd">>)
    [] ctx = "SQ"  -> Lex(ShlexQuote(v))
    [] ctx = "SQ2" ->
         \* the inner command line  `k '<v>'; k`  is quoted once more and given to sh -c
         LET inner == Demote(<<"plain", "space">> \o ShlexQuote(v) \o <<"semi", "space", "plain">>)
             outer == Lex(ShlexQuote(inner))
         IN IF outer.kind = "word" /\ outer.word = inner THEN Lex(ShlexQuote(v))
            ELSE Res("nested", outer.word, "none")

Verbatim(ctx, v) == LET r == Received(ctx, v) IN r.kind = "word" /\ r.word = v

RECURSIVE SeqsOfLen(_)
SeqsOfLen(n) == IF n = 0 THEN {<<>>} ELSE {Append(s, c) : s \in SeqsOfLen(n - 1), c \in Classes}
SeqsUpTo(n) == UNION {SeqsOfLen(k) : k \in 0..n}
=============================================================================
