CONSTANTS N = 3  Shapes = {"empty", "nonl", "multi", "mlike"}  Statuses = {0, 3}
CONSTANTS AllowTimeout = TRUE  AllowKill = TRUE
CONSTANTS FallbackShell = FALSE  CloseOnFailure = FALSE  FallbackOnTimeout = TRUE
INIT MCInit
NEXT GenNext
