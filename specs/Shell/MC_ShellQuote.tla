--------------------------- MODULE MC_ShellQuote ---------------------------
(* Exhaustive enumeration: one initial state per value of length <= L, no transitions.
   SiteCtx maps every rendering site of the code to its lexical context:
     AsIs   what the code does today            Fixed  with shlex.quote in create_command/get_command
   Gen (generation config): every value is printed with the received word of every context, so that
   the expected answers of the binding come from the specification.                              *)
EXTENDS ShellQuote, Json
CONSTANTS L, SiteCtx
VARIABLE v

Sites == {"create_command:export", "create_command:cd", "get_command:export",
          "_build_shell_command:export", "_build_shell_command:cd", "argv"}
\* as coded at /repo 6780471: create_command quotes the working directory and exported values with shlex.quote
\* (it rendered  cd {workdir}  = UNQ and  export K="{value}"  = DQ before that commit)
AsIs == [s \in Sites |->
           CASE s = "get_command:export" -> "DQ"
             [] OTHER -> "SQ2"]
Fixed == [s \in Sites |-> "SQ2"]

Init == v \in SeqsUpTo(L)
Next == UNCHANGED v

\* lemmas: shlex.quote is transparent, also when nested in a quoted `sh -c` command line
QuoteTransparent == Received("SQ", v) = Res("word", v, "none")
NestedTransparent == Received("SQ2", v) = Res("word", v, "none")
\* the property, per site
SitesVerbatim == \A s \in Sites : Verbatim(SiteCtx[s], v)
ExportVerbatim == Verbatim(SiteCtx["create_command:export"], v)
CdVerbatim == Verbatim(SiteCtx["create_command:cd"], v)
TemplateExportVerbatim == Verbatim(SiteCtx["get_command:export"], v)
\* with the proposed fix every site is verbatim (independent of SiteCtx)
FixedSitesVerbatim == \A s \in Sites : Verbatim(Fixed[s], v)
\* sanity of the lexer: a verbatim word is never blamed, a non-verbatim one always is
BlameConsistent == \A c \in Contexts : LET r == Received(c, v)
                                       IN (r.kind = "word" /\ r.word = v) <=> (r.blame = "none")

GenInit == /\ v \in SeqsUpTo(L)
           /\ PrintT(ToJson([v |-> v, UNQ |-> Received("UNQ", v), DQ |-> Received("DQ", v),
                             SQ |-> Received("SQ", v), SQ2 |-> Received("SQ2", v)]))
ASSUME PrintT(ToJson([sites |-> [asis |-> AsIs, fixed |-> Fixed]]))
=============================================================================
