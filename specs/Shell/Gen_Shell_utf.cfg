CONSTANTS N = 2  Shapes = {"utf", "nonl"}  Statuses = {0}  Pres = {"none"}
CONSTANTS AllowTimeout = TRUE  AllowKill = TRUE
CONSTANTS FallbackShell = FALSE  CloseOnFailure = FALSE  FallbackOnTimeout = TRUE  PreambleInShell = FALSE
CONSTANTS UtfLen = 2  UtfWidths = {1, 2, 3, 4}  IncrementalDecode = TRUE
INIT MCInit
NEXT GenNext
