CONSTANTS N = 3  Shapes = {"probe", "nonl"}  Statuses = {0}  Pres = {"none", "wd", "env", "both"}
CONSTANTS AllowTimeout = FALSE  AllowKill = FALSE
CONSTANTS FallbackShell = FALSE  CloseOnFailure = FALSE  FallbackOnTimeout = TRUE  PreambleInShell = FALSE
CONSTANTS UtfLen = 2  UtfWidths = {1, 2, 3, 4}  IncrementalDecode = TRUE
INIT MCInit
NEXT MCNext
VIEW View
INVARIANT TypeOK
INVARIANT FreshEquivalence
INVARIANT OwnOutput
INVARIANT ShellStateUnchanged
INVARIANT ReturnedOnce
INVARIANT NeverTwice
