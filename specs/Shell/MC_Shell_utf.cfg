CONSTANTS N = 2  Shapes = {"utf", "nonl"}  Statuses = {0}  Pres = {"none"}
CONSTANTS AllowTimeout = FALSE  AllowKill = FALSE
CONSTANTS FallbackShell = FALSE  CloseOnFailure = FALSE  FallbackOnTimeout = TRUE  PreambleInShell = FALSE
CONSTANTS UtfLen = 2  UtfWidths = {1, 2, 3, 4}  IncrementalDecode = TRUE
INIT MCInit
NEXT MCNext
VIEW View
INVARIANT TypeOK
INVARIANT FreshEquivalence
INVARIANT OwnOutput
INVARIANT WholeCharacters
INVARIANT NoSpuriousTimeout
INVARIANT ReturnedOnce
INVARIANT NeverTwice
INVARIANT VerbatimCommand
