CONSTANTS L = 3
CONSTANT SiteCtx <- AsIs
INIT GenInit
NEXT Next
INVARIANT QuoteTransparent
INVARIANT NestedTransparent
INVARIANT BlameConsistent
INVARIANT FixedSitesVerbatim
