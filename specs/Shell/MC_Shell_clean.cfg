CONSTANTS N = 3  Shapes = {"empty", "nonl", "multi", "mlike"}  Statuses = {0, 3}
CONSTANTS AllowTimeout = FALSE  AllowKill = FALSE
CONSTANTS FallbackShell = FALSE  CloseOnFailure = FALSE  FallbackOnTimeout = TRUE
INIT MCInit
NEXT MCNext
VIEW View
INVARIANT TypeOK
INVARIANT FreshEquivalence
INVARIANT OwnOutput
INVARIANT NoSpuriousTimeout
INVARIANT ReturnedOnce
INVARIANT NeverTwice
INVARIANT VerbatimCommand
