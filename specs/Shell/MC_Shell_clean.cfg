CONSTANTS N = 3  Shapes = {"empty", "nonl", "multi", "mlike"}  Statuses = {0, 3}  Pres = {"none"}
CONSTANTS AllowTimeout = FALSE  AllowKill = FALSE
CONSTANTS FallbackShell = FALSE  CloseOnFailure = FALSE  FallbackOnTimeout = TRUE  PreambleInShell = FALSE
CONSTANTS UtfLen = 2  UtfWidths = {1, 2, 3, 4}  IncrementalDecode = TRUE
INIT MCInit
NEXT MCNext
VIEW View
INVARIANT TypeOK
INVARIANT FreshEquivalence
INVARIANT OwnOutput
INVARIANT NoSpuriousTimeout
INVARIANT ReturnedOnce
INVARIANT NeverTwice
INVARIANT VerbatimCommand
