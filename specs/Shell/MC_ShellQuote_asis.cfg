CONSTANTS L = 3
CONSTANT SiteCtx <- AsIs
INIT Init
NEXT Next
INVARIANT ExportVerbatim
INVARIANT CdVerbatim
INVARIANT TemplateExportVerbatim
