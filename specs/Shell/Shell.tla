------------------------------- MODULE Shell -------------------------------
(* Persistent-shell session protocol of StreamFlow connectors (property C25, part a).

   streamflow/deployment/shell.py         BaseShell.execute, _build_shell_command, _read_with_output
   streamflow/deployment/connector/base.py  BaseConnector.run (shell path, then subprocess fallback), get_shell
   streamflow/core/utils.py               run_in_shell, create_command, run_in_subprocess

   A connector keeps one `sh` process per location.  run(cmd) writes
        cmd 2>&1 \n echo "<marker>:$?" \n
   to its stdin and reads its stdout in chunks until the marker and a newline have been seen; what
   precedes the marker (stripped) is the output, what follows up to the newline the exit status.  Each
   read has a timeout.  When the shell path fails (timeout, end of file, broken pipe, unparsable status)
   run() falls back to executing the command in a fresh process.

   N commands are issued one after the other (the connector serialises them with a lock anyway).  The
   shell is a byte pipe: streams are sequences of TOKENS
        <<"o",k,i>> text written by command k to stdout      <<"e",k,i>> text written to stderr
        <<"nl",0,0>> newline      <<"ml",0,0>> text that looks like an end marker (SF_CMD_END_xx:7)
        <<"ma",k,0>>,<<"mb",k,0>> the two halves of the end marker of call k (chunks may split it)
        <<"st",s,0>> exit status s
        <<"ch",w,0>> ONE CHARACTER whose UTF-8 encoding has w byte units (w = 1..4)
        <<"by",w,i>> byte unit i of such a character         <<"bad",0,0>> U+FFFD (replacement character)
   What a command WRITES is text: a sequence of characters (Out).  What travels through the pipe are BYTE
   UNITS (Encode): a character of width w is w units, and a chunk may end between any two units, i.e. in the
   middle of a character.  What the reader accumulates is text again (Decode): the shell object keeps an
   incremental decoder whose pending units (`sh.dec`) survive from one read to the next - and from one call to
   the next, unless the end marker was found (reset) or the shell is replaced.  IncrementalDecode = FALSE is the
   variant "every chunk is decoded on its own" (a character cut by a read comes back as U+FFFD).
   `attr[k]` fixes, per command: output shape (for the shapes "utf"/"utfl" also the text `txt`: the widths of its
   characters), exit status, whether the call carries a (short) timeout and
   where the command stalls for longer than that timeout (before any output / after its first
   unit - for a text that starts with a multi-byte character: in the middle of that character).

   One action = one atomic section of the code (asyncio: from one suspension to the next):
     Call(k)      get_shell + write of the framed command (+ the whole fallback when the write fails)
     ShellRun     the shell process: start the next queued command / emit up to the next stall
     Read(k,n)    one reader iteration: a chunk of n units arrives, is decoded, appended and searched
     Timeout(k)   wait_for(read) expires (only while the pipe is empty and the shell stalls)
     Wake         a stall ends            Kill   the idle shell process dies between two calls
   The shell is fast: ShellRun has priority over every other action.

   The shell process has STATE OF ITS OWN that outlives a command: its working directory `cwd` and its
   exported variable `env` (0 = as the shell was started, k = set by command k).  A command may be issued with a
   working directory and/or an environment (`attr[k].pre`); the framing puts `cd ...; export ...;` in front of
   it.  As coded this preamble runs in a child `sh -c '...'`, so the shell's own state never changes
   (PreambleInShell = FALSE); the output shape "probe" prints the directory and the variable the command sees,
   so FreshEquivalence also says that no command observes what an earlier command's preamble did.

   Implementation variant (constants): as coded today  FallbackShell = FALSE (the fallback executes the
   words of the command line without a shell: `2>&1` becomes an argument, stderr is lost),
   CloseOnFailure = FALSE (a shell whose command timed out is kept and reused), FallbackOnTimeout = TRUE.
   The proposed repair is TRUE / TRUE / FALSE.                                                         *)
EXTENDS Naturals, Sequences, FiniteSets, TLC

CONSTANTS N, Shapes, Statuses, Pres, AllowTimeout, AllowKill,
          FallbackShell, CloseOnFailure, FallbackOnTimeout, PreambleInShell,
          UtfLen, UtfWidths,        \* texts of the shapes "utf"/"utfl": 1..UtfLen characters of widths in UtfWidths
          IncrementalDecode         \* TRUE as coded: one incremental UTF-8 decoder per shell object

VARIABLES attr, pc, ret, runs, garbled, sh, buf, killed, hist
vars == <<attr, pc, ret, runs, garbled, sh, buf, killed, hist>>

Cmd == 1..N
NL == <<"nl", 0, 0>>
ML == <<"ml", 0, 0>>
STALL == <<"stall", 0, 0>>
O(k, i) == <<"o", k, i>>
E(k, i) == <<"e", k, i>>
MA(k) == <<"ma", k, 0>>
MB(k) == <<"mb", k, 0>>
ST(s) == <<"st", s, 0>>
CW(d) == <<"cw", d, 0>>       \* "the working directory is d"   (0 = where the shell was started, k = workdir of call k)
EV(x) == <<"ev", x, 0>>       \* "the variable has value x"      (0 = unset, k = value given by call k)
CH(w) == <<"ch", w, 0>>       \* a character of w byte units
BU(w, i) == <<"by", w, i>>    \* its i-th byte unit
BAD == <<"bad", 0, 0>>        \* U+FFFD

Utf == UNION {[1..n -> UtfWidths] : n \in 1..UtfLen}
IsUtf(shape) == shape \in {"utf", "utfl"}

HasWd(k) == attr[k].pre \in {"wd", "both"}
HasEnv(k) == attr[k].pre \in {"env", "both"}
\* what command k sees when the surrounding shell has directory d and variable x
SeenCwd(k, d) == IF HasWd(k) THEN k ELSE d
SeenEnv(k, x) == IF HasEnv(k) THEN k ELSE x

OutOf(shape, k) ==
  CASE shape = "empty" -> <<>>
    [] shape = "nonl"  -> <<O(k, 1)>>                                  \* no trailing newline
    [] shape = "multi" -> <<O(k, 1), NL, E(k, 2), O(k, 3), NL>>        \* several writes, one of them to stderr
    [] shape = "mlike" -> <<ML, NL, O(k, 1)>>                          \* marker-like line, then text without newline
    [] shape = "probe" -> <<>>                                         \* see OutIn: prints what it sees
    [] OTHER -> <<>>
\* the text of a "utf" command: characters of the chosen widths, the end marker follows the last character directly;
\* "utfl": the same text and a newline
TextOf(k) == [i \in 1..Len(attr[k].txt) |-> CH(attr[k].txt[i])]
\* output of command k when it runs in a shell whose own directory / variable are d / x
OutIn(k, d, x) == CASE attr[k].shape = "probe" -> <<CW(SeenCwd(k, d)), NL, EV(SeenEnv(k, x))>>
                    [] attr[k].shape = "utf"   -> TextOf(k)
                    [] attr[k].shape = "utfl"  -> Append(TextOf(k), NL)
                    [] OTHER -> OutOf(attr[k].shape, k)
\* in a fresh process (directory and environment of the connector itself)
Out(k) == OutIn(k, 0, 0)
StdoutOnly(k) == SelectSeq(Out(k), LAMBDA t : t[1] # "e")
Marker(k) == <<MA(k), MB(k), ST(attr[k].status), NL>>
StreamOf(k, out) ==
  CASE attr[k].slow = "no"  -> out \o Marker(k)
    [] attr[k].slow = "pre" -> <<STALL>> \o out \o Marker(k)
    [] attr[k].slow = "mid" -> IF out = <<>> THEN <<STALL>> \o Marker(k)
                               ELSE <<Head(out), STALL>> \o Tail(out) \o Marker(k)

\* text -> byte units (every other token is one indivisible unit)
RECURSIVE Encode(_)
Encode(s) == IF s = <<>> THEN <<>>
             ELSE LET t == Head(s) IN (IF t[1] = "ch" THEN [i \in 1..t[2] |-> BU(t[2], i)] ELSE <<t>>) \o Encode(Tail(s))
\* byte units -> text.  r = [txt: decoded so far, pend: units of a character that is not complete yet]
Flush(r) == IF r.pend = <<>> THEN r ELSE [txt |-> Append(r.txt, BAD), pend |-> <<>>]     \* truncated character
Feed(r, u) ==
  IF u[1] # "by" THEN [Flush(r) EXCEPT !.txt = Append(@, u)]
  ELSE IF u[3] = 1
       THEN IF u[2] = 1 THEN [Flush(r) EXCEPT !.txt = Append(@, CH(1))] ELSE [Flush(r) EXCEPT !.pend = <<u>>]
       ELSE IF r.pend # <<>> /\ r.pend[Len(r.pend)] = BU(u[2], u[3] - 1)
            THEN IF u[3] = u[2] THEN [txt |-> Append(r.txt, CH(u[2])), pend |-> <<>>]
                 ELSE [r EXCEPT !.pend = Append(@, u)]
            ELSE [Flush(r) EXCEPT !.txt = Append(@, BAD)]                               \* continuation unit without its lead
RECURSIVE DecodeFrom(_, _)
DecodeFrom(r, units) == IF units = <<>> THEN r ELSE DecodeFrom(Feed(r, Head(units)), Tail(units))
\* one reader iteration: the chunk goes through the shell's decoder (pending units `pend` from earlier chunks)
Decode(pend, chunk) == LET r == DecodeFrom([txt |-> <<>>, pend |-> pend], chunk)
                       IN IF IncrementalDecode THEN r ELSE Flush(r)

RECURSIVE StripL(_)
StripL(s) == IF s # <<>> /\ Head(s) = NL THEN StripL(Tail(s)) ELSE s
RECURSIVE StripR(_)
StripR(s) == IF s # <<>> /\ s[Len(s)] = NL THEN StripR(SubSeq(s, 1, Len(s) - 1)) ELSE s
Strip(s) == StripR(StripL(s))

RECURSIVE IndexFrom(_, _, _)
IndexFrom(s, t, i) == IF i > Len(s) THEN 0 ELSE IF s[i] = t THEN i ELSE IndexFrom(s, t, i + 1)
RECURSIVE MarkerAt(_, _, _)
MarkerAt(s, k, i) == IF i + 1 > Len(s) THEN 0
                     ELSE IF s[i] = MA(k) /\ s[i + 1] = MB(k) THEN i ELSE MarkerAt(s, k, i + 1)

Result(kind, out, st, via) == [kind |-> kind, out |-> out, st |-> st, via |-> via]
NoResult == Result("none", <<>>, 0, "none")
Obs(r) == <<r.kind, r.out, r.st>>
\* what a fresh `sh -c` process per command gives: the property's reference
Expected(k) == IF attr[k].slow # "no" THEN <<"timeout", <<>>, 0>>
               ELSE <<"ok", Strip(Out(k)), attr[k].status>>

NewShell == [closed |-> FALSE, dead |-> FALSE, inq |-> <<>>, cur |-> 0, rem |-> <<>>, stalled |-> FALSE, pipe |-> <<>>,
             cwd |-> 0, env |-> 0, dec |-> <<>>]
NoShell == [NewShell EXCEPT !.closed = TRUE, !.dead = TRUE]
Discard(s) == NoShell
CanRun(s) == ~s.dead /\ ~s.stalled /\ (s.cur # 0 \/ s.inq # <<>>)
Finished(k) == pc[k] \in {"returned", "raised"}
Reading == {k \in Cmd : pc[k] = "reading"}

TS == IF AllowTimeout THEN {<<FALSE, "no">>, <<TRUE, "no">>, <<TRUE, "pre">>, <<TRUE, "mid">>} ELSE {<<FALSE, "no">>}
Attrs == UNION {{[shape |-> s, status |-> x, tmo |-> ts[1], slow |-> ts[2], pre |-> p, txt |-> t] :
                    x \in Statuses, ts \in TS, p \in Pres, t \in (IF IsUtf(s) THEN Utf ELSE {<<>>})} : s \in Shapes}

H(a, k, n) == hist' = Append(hist, [a |-> a, k |-> k, n |-> n])

Init == /\ attr \in [Cmd -> Attrs]
        /\ pc = [k \in Cmd |-> "idle"]
        /\ ret = [k \in Cmd |-> NoResult]
        /\ runs = [k \in Cmd |-> 0]
        /\ garbled = [k \in Cmd |-> FALSE]
        /\ sh = NoShell
        /\ buf = <<>>
        /\ killed = FALSE
        /\ hist = <<>>

---------------------------------------------------------------------------
(* The shell path of call k failed; s1 is the shell afterwards.  BaseConnector.run suppresses the
   exception and executes the command in a fresh process with the same timeout.                       *)
Fail(k, why, s1) ==
  /\ sh' = IF CloseOnFailure THEN Discard(s1) ELSE s1
  /\ buf' = <<>>
  /\ IF why = "timeout" /\ ~FallbackOnTimeout
     THEN /\ pc' = [pc EXCEPT ![k] = "raised"]
          /\ ret' = [ret EXCEPT ![k] = Result("timeout", <<>>, 0, "shell")]
          /\ UNCHANGED <<runs, garbled>>
     ELSE /\ runs' = [runs EXCEPT ![k] = @ + 1]
          /\ garbled' = [garbled EXCEPT ![k] = @ \/ ~FallbackShell]
          /\ IF attr[k].slow # "no"
             THEN /\ pc' = [pc EXCEPT ![k] = "raised"]
                  /\ ret' = [ret EXCEPT ![k] = Result("timeout", <<>>, 0, "fallback")]
             ELSE /\ pc' = [pc EXCEPT ![k] = "returned"]
                  /\ ret' = [ret EXCEPT ![k] = Result("ok", Strip(IF FallbackShell THEN Out(k) ELSE StdoutOnly(k)),
                                                      attr[k].status, "fallback")]

Call(k) ==
  /\ pc[k] = "idle" /\ \A j \in 1..(k - 1) : Finished(j)
  /\ ~CanRun(sh)
  /\ H("call", k, 0)
  /\ UNCHANGED <<attr, killed>>
  /\ LET s0 == IF sh.closed THEN NewShell ELSE sh IN      \* get_shell: a closed shell is replaced
     IF s0.dead
     THEN Fail(k, "pipe", [s0 EXCEPT !.closed = TRUE])     \* write fails: execute() closes the shell object
     ELSE /\ sh' = [s0 EXCEPT !.inq = Append(@, k)]
          /\ pc' = [pc EXCEPT ![k] = "reading"]
          /\ buf' = <<>>
          /\ UNCHANGED <<ret, runs, garbled>>

ShellRun ==
  /\ CanRun(sh)
  /\ LET starting == sh.cur = 0
         k == IF starting THEN Head(sh.inq) ELSE sh.cur
         rem0 == IF starting THEN StreamOf(k, Encode(OutIn(k, sh.cwd, sh.env))) ELSE sh.rem
         \* the `cd` / `export` of the preamble: in a child process as coded, in the shell itself otherwise
         cwd1 == IF starting /\ PreambleInShell THEN SeenCwd(k, sh.cwd) ELSE sh.cwd
         env1 == IF starting /\ PreambleInShell THEN SeenEnv(k, sh.env) ELSE sh.env
         idx == IndexFrom(rem0, STALL, 1)
         emitted == IF idx = 0 THEN rem0 ELSE SubSeq(rem0, 1, idx - 1)
         rest == IF idx = 0 THEN <<>> ELSE SubSeq(rem0, idx + 1, Len(rem0))
     IN /\ sh' = [sh EXCEPT !.inq = IF starting THEN Tail(@) ELSE @,
                            !.cur = IF idx = 0 THEN 0 ELSE k,
                            !.rem = rest, !.stalled = (idx # 0), !.pipe = @ \o emitted,
                            !.cwd = cwd1, !.env = env1]
        /\ runs' = IF starting THEN [runs EXCEPT ![k] = @ + 1] ELSE runs
        /\ H("run", k, 0)
  /\ UNCHANGED <<attr, pc, ret, garbled, buf, killed>>

Read(k, n) ==
  /\ pc[k] = "reading" /\ ~CanRun(sh)
  /\ n \in 1..Len(sh.pipe)
  /\ H("read", k, n)
  /\ UNCHANGED <<attr, killed>>
  /\ LET d == Decode(sh.dec, SubSeq(sh.pipe, 1, n))       \* decoder.decode(chunk, final=False)
         b == buf \o d.txt
         s1 == [sh EXCEPT !.pipe = SubSeq(@, n + 1, Len(@)), !.dec = d.pend]
         i == MarkerAt(b, k, 1)
         j == IF i = 0 THEN 0 ELSE IndexFrom(b, NL, i + 2)
     IN IF i = 0 \/ j = 0
        THEN /\ buf' = b /\ sh' = s1 /\ UNCHANGED <<pc, ret, runs, garbled>>
        ELSE LET code == SubSeq(b, i + 2, j - 1) IN
             IF Len(code) = 1 /\ code[1][1] = "st"
             THEN /\ pc' = [pc EXCEPT ![k] = "returned"]
                  /\ ret' = [ret EXCEPT ![k] = Result("ok", Strip(SubSeq(b, 1, i - 1)), code[1][2], "shell")]
                  /\ buf' = <<>> /\ sh' = [s1 EXCEPT !.dec = <<>>]          \* decoder.reset()
                  /\ UNCHANGED <<runs, garbled>>
             ELSE Fail(k, "invalid", s1)

Timeout(k) ==
  /\ AllowTimeout
  /\ pc[k] = "reading" /\ attr[k].tmo
  /\ ~CanRun(sh) /\ sh.pipe = <<>> /\ sh.stalled
  /\ H("timeout", k, 0)
  /\ UNCHANGED <<attr, killed>>
  /\ Fail(k, "timeout", sh)

Wake ==
  /\ sh.stalled /\ ~sh.dead
  /\ \A k \in Reading : ~attr[k].tmo /\ sh.pipe = <<>>     \* a reader is fast; a short timeout fires first
  /\ sh' = [sh EXCEPT !.stalled = FALSE]
  /\ H("wake", sh.cur, 0)
  /\ UNCHANGED <<attr, pc, ret, runs, garbled, buf, killed>>

Kill ==
  /\ AllowKill /\ ~killed
  /\ Reading = {} /\ (\E k \in Cmd : Finished(k)) /\ (\E k \in Cmd : pc[k] = "idle")
  /\ ~sh.dead /\ ~sh.closed /\ sh.cur = 0 /\ sh.inq = <<>> /\ ~sh.stalled
  /\ sh' = [sh EXCEPT !.dead = TRUE]
  /\ killed' = TRUE
  /\ H("kill", 0, 0)
  /\ UNCHANGED <<attr, pc, ret, runs, garbled, buf>>

Next == \/ ShellRun
        \/ \E k \in Cmd : Call(k) \/ Timeout(k) \/ (\E n \in 1..Len(sh.pipe) : Read(k, n))
        \/ Wake
        \/ Kill
Spec == Init /\ [][Next]_vars

Quiet == (\A k \in Cmd : Finished(k)) /\ ~CanRun(sh) /\ (sh.dead \/ ~sh.stalled)

---------------------------------------------------------------------------
(* Properties (C25): *)
TypeOK == /\ pc \in [Cmd -> {"idle", "reading", "returned", "raised"}]
          /\ Cardinality(Reading) <= 1
          /\ \A k \in Cmd : runs[k] \in 0..3
\* what a call returns (or raises) is what a fresh process per command would have given
FreshEquivalence == \A k \in Cmd : Finished(k) => Obs(ret[k]) = Expected(k)
\* output and status are those of the command alone
OwnOutput == \A k \in Cmd : pc[k] = "returned" => ret[k].out = Strip(Out(k)) /\ ret[k].st = attr[k].status
\* no character of the returned text is a replacement for bytes that a read boundary separated
WholeCharacters == \A k \in Cmd : pc[k] = "returned" => \A i \in 1..Len(ret[k].out) : ret[k].out[i] # BAD
\* a command that is not slow never times out
NoSpuriousTimeout == \A k \in Cmd : pc[k] = "raised" => attr[k].slow # "no"
\* a command's working directory / environment never become the session's
ShellStateUnchanged == sh.cwd = 0 /\ sh.env = 0
\* exactly once
ReturnedOnce == \A k \in Cmd : pc[k] = "returned" => runs[k] = 1
NeverTwice == \A k \in Cmd : runs[k] <= 1
\* every execution received the caller's command line
VerbatimCommand == \A k \in Cmd : ~garbled[k]
=============================================================================
