---------------------------- MODULE Gen_TarStream ----------------------------
(* Behaviour generation for the binding (B-sim).  The sequence of raw-read answers is part of the
   state, so that exhaustive exploration enumerates every CHUNKING (path), not only every state;
   each finished behaviour is reported once as a JSON line:
     case (shape, trunc, corrupt, path), the answers of the raw stream, and the model's verdict
     (pc, created, out, causes, raw, pos).                                                      *)
EXTENDS TarStream, Json, TarShapes
VARIABLES reads, rep
gvars == <<vars, reads, rep>>

\* truncation points inside the zero tail beyond the first end-of-archive block add nothing (the reader stops at the
\* first zero block): they are left to the exhaustive configurations (MC_*) and to the byte-level truncation phase
GenInit == /\ Init /\ reads = <<>> /\ rep = FALSE
           /\ (trunc = ShapeTotal(sh) \/ trunc <= ShapeTotal(sh) - sh.tail + B)
SetToSeq(S) == LET RECURSIVE F(_)
                   F(T) == IF T = {} THEN <<>> ELSE LET x == CHOOSE y \in T : TRUE IN <<x>> \o F(T \ {x})
               IN F(S)
Report ==
  /\ pc \in Terminal /\ ~rep /\ rep' = TRUE
  /\ PrintT(ToJson([sh |-> sh, trunc |-> trunc, total |-> Total, corrupt |-> corrupt, path |-> path, buf |-> buf,
                    reads |-> reads, pc |-> pc, created |-> SetToSeq(created), out |-> out,
                    causes |-> SetToSeq(causes), raw |-> raw, pos |-> pos, okdata |-> okdata]))
  /\ UNCHANGED <<vars, reads>>
GenNext ==
  \/ Next /\ reads' = (IF nreads' # nreads /\ lastj' > 0 THEN Append(reads, lastj') ELSE reads) /\ UNCHANGED rep
  \/ Report
=============================================================================
