---------------------------- MODULE MC_TarStream ----------------------------
EXTENDS TarStream, Json
(* history variables are hidden from the fingerprint in the exhaustive configurations *)
View == <<case, core, causes>>

\* every archive with at most MaxN members, data sizes from SizeSet, extension data from ExtSet
RECURSIVE SeqsUpTo(_, _)
SeqsUpTo(S, n) == IF n = 0 THEN {<<>>} ELSE LET P == SeqsUpTo(S, n - 1) IN P \cup {Append(p, x) : p \in {q \in P : Len(q) = n - 1}, x \in S}
Members(SizeSet, ExtSet) == {[e |-> e, n |-> n] : e \in ExtSet, n \in SizeSet}
AllShapes(maxN, SizeSet, ExtSet, tail) == {[m |-> s, tail |-> tail] : s \in SeqsUpTo(Members(SizeSet, ExtSet), maxN)}
BlockSizes == {0, 1, B - 1, B, B + 1}           \* stand for 0, 1, 511, 512, 513 bytes

ShapesQuick    == AllShapes(2, {0, 1, B + 1}, {0}, 2 * B) \cup AllShapes(1, {B - 1}, {0, B}, 2 * B + 1)
ShapesThorough == AllShapes(3, {0, 1, B + 1}, {0}, 2 * B) \cup AllShapes(2, BlockSizes, {0}, 2 * B)
                  \cup AllShapes(2, {0, B + 1}, {0, B}, 2 * B + 1)
\* the shapes of the counterexample runs are those of real archives the driver builds:
\* a directory with a 1-byte and a 513-byte file; a single 513-byte file
ShapeCexTree   == {[m |-> <<[e |-> 0, n |-> 0], [e |-> 0, n |-> 1], [e |-> 0, n |-> B + 1]>>, tail |-> 2 * B + 1]}
ShapeCexFile   == {[m |-> <<[e |-> 0, n |-> B + 1]>>, tail |-> 2 * B + 1]}
=============================================================================
