CONSTANTS B = 3  Bufs = {2, 99}  Paths = {"A", "B"}  WithTrunc = TRUE  WithCorrupt = TRUE  FixSeek = FALSE  FixData = FALSE  FixHdr = FALSE
CONSTANT Shapes <- ShapesQuick
INIT Init
NEXT Next
VIEW View
INVARIANT TypeOK
INVARIANT OwnData
INVARIANT IntactSucceeds
INVARIANT DefectsExplained
INVARIANT LossOnlyByShortSeek
