------------------------------ MODULE TarShapes ------------------------------
(* Placeholder: the driver overwrites this module with the shapes of the real archives it built. *)
GenShapes == {[m |-> <<[e |-> 0, n |-> 0], [e |-> 0, n |-> 1], [e |-> 0, n |-> 3]>>, tail |-> 5]}
=============================================================================
