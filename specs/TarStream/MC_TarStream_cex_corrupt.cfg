CONSTANTS B = 4  Bufs = {99}  Paths = {"B"}  WithTrunc = FALSE  WithCorrupt = TRUE  FixSeek = TRUE  FixData = TRUE  FixHdr = FALSE
CONSTANT Shapes <- ShapeCexTree
INIT Init
NEXT Next
VIEW View
INVARIANT ExactOrFail
