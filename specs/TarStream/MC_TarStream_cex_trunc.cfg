CONSTANTS B = 4  Bufs = {99}  Paths = {"B"}  WithTrunc = TRUE  WithCorrupt = FALSE  FixSeek = TRUE  FixTrunc = FALSE
CONSTANT Shapes <- ShapeCexTree
INIT Init
NEXT Next
VIEW View
INVARIANT ExactOrFail
