CONSTANTS B = 3  Bufs = {2, 99}  Paths = {"A", "B"}  WithTrunc = TRUE  WithCorrupt = TRUE  FixSeek = TRUE  FixData = TRUE  FixHdr = TRUE
CONSTANT Shapes <- ShapesQuick
SPECIFICATION Spec
VIEW View
INVARIANT TypeOK
INVARIANT TellIsTrue
INVARIANT ExactOrFail
INVARIANT OwnData
INVARIANT NoHang
INVARIANT IntactSucceeds
PROPERTY Terminates
