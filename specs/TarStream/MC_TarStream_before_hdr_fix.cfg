CONSTANTS B = 3  Bufs = {2, 99}  Paths = {"A", "B"}  WithTrunc = TRUE  WithCorrupt = TRUE  FixSeek = TRUE  FixData = TRUE  FixHdr = FALSE
CONSTANT Shapes <- ShapesQuick
SPECIFICATION Spec
VIEW View
INVARIANT TypeOK
INVARIANT TellIsTrue
INVARIANT OwnData
INVARIANT NoHang
INVARIANT IntactExact
INVARIANT DefectsExplained
INVARIANT OnlyHeaderSwallowingLeft
PROPERTY Terminates
