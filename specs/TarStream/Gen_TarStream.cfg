CONSTANTS B = 2  Bufs = {99}  Paths = {"B"}  WithTrunc = TRUE  WithCorrupt = TRUE  FixSeek = TRUE  FixData = TRUE  FixHdr = TRUE
CONSTANT Shapes <- GenShapes
INIT GenInit
NEXT GenNext
