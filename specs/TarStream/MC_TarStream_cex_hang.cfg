CONSTANTS B = 4  Bufs = {99}  Paths = {"A"}  WithTrunc = TRUE  WithCorrupt = FALSE  FixSeek = TRUE  FixTrunc = FALSE
CONSTANT Shapes <- ShapeCexFile
INIT Init
NEXT Next
VIEW View
INVARIANT NoHang
