CONSTANTS B = 4  Bufs = {3, 99}  Paths = {"A", "B"}  WithTrunc = TRUE  WithCorrupt = TRUE  FixSeek = TRUE  FixData = TRUE  FixHdr = TRUE
CONSTANT Shapes <- ShapesThorough
SPECIFICATION Spec
VIEW View
INVARIANT TypeOK
INVARIANT TellIsTrue
INVARIANT ExactOrFail
INVARIANT OwnData
INVARIANT NoHang
INVARIANT IntactExact
INVARIANT DefectsExplained
PROPERTY Terminates
