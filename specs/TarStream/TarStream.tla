------------------------------ MODULE TarStream ------------------------------
(* C23 - tar-stream copies are exact or fail, however the byte stream is chunked.

   What is modelled (streamflow/deployment/aiotarstream.py, connector/base.py:extract_tar_stream):

   An ARCHIVE is a sequence of members; member i occupies
        [extension header B + extension data e_i]   (only if e_i > 0: GNU long name 'L' / PAX 'x')
        header B, data n_i, zero padding up to the next multiple of B
   followed by `tail` zero units (the two end-of-archive blocks and the record fill).  All lengths
   are in abstract units; B units stand for one 512-byte block.

   The RAW STREAM answers read(k) with ANY j in 1..k units (or 0 at the end of what the stream
   delivers: the archive may be truncated after `trunc` units).  This nondeterminism is the
   schedule that TLC enumerates.  A header may be corrupted (checksum mismatch).

   The READER layers are modelled as coded, one action per raw read:
     TellableStreamWrapper.read(size)      loops on raw reads until size units or an empty answer
     SeekableStreamReaderWrapper.seek(o)   ONE raw read of o - position, then position := o
     AioTarInfo.fromtarfile                Tellable read of one block, classification of the block
                                           (empty / truncated / all zero / bad checksum / header),
                                           extension data read, subsequent header
     AioTarStream.next                     seek to `offset` if needed; Empty/Truncated/Invalid header
                                           errors raise ReadError (before the header fix they were
                                           swallowed when offset # 0: end of archive reported, ~FixHdr)
     member extraction, two call paths of extract_tar_stream:
       path "B"  extractfile + FileStreamReaderWrapper.read loop  (`while content := read(buf)`)
       path "A"  tar.extract -> makefile -> copyfileobj/write     (`while bufsize > 0`), first member only
   Three switches select the design:
     FixSeek   seek loops through TellableStreamWrapper.read and raises at end of stream   (in /repo since 02c607f)
     FixData   write() and FileStreamReaderWrapper.read raise when the stream ends inside data (in /repo since 02c607f)
     FixHdr    next() raises on an empty / truncated / invalid header after the first member  (in /repo since the
               fix "tar stream reader raises on a truncated or corrupted header after the first member ...")
   AS CODED = all TRUE, for which TLC shows every property below; FixSeek /\ FixData /\ ~FixHdr is the reader
   before the header fix (MC_TarStream_before_hdr_fix.cfg), all FALSE the reader before 02c607f (both kept for
   the record, not run by the check).

   Properties (the statement of C23):
     TellIsTrue     position reported by tell() = units really consumed
     ExactOrFail    when the copy reports success every member was created with all its data
     OwnData        data written to a member's file comes from that member's data segment
     NoHang / Terminates   the copy always ends (success or error)                              *)
EXTENDS Naturals, Sequences, FiniteSets, TLC

CONSTANTS B,          \* units per block
          Bufs,       \* set of values of copybufsize / transferBufferSize in units
          Shapes,     \* set of archive shapes [m |-> <<[e |-> ext data units, n |-> data units], ...>>, tail |-> zero units]
          Paths,      \* subset of {"A", "B"}
          WithTrunc,  \* BOOLEAN: also explore every truncation point
          WithCorrupt,\* BOOLEAN: also explore one corrupted member header
          FixSeek,    \* BOOLEAN: seek loops and raises at end of stream
          FixData,    \* BOOLEAN: the end of the stream inside a member's data raises
          FixHdr      \* BOOLEAN: next() raises on a truncated / corrupted header after the first member (no swallowing)

VARIABLES sh, trunc, corrupt, path, buf,     \* the case (never change)
          raw,        \* units really consumed from the raw stream
          pos,        \* TellableStreamWrapper.position
          offset,     \* AioTarStream.offset: where next() expects the next header
          pc,         \* "next" "seek" "hdr" "ext" "dstart" "data" | "done" "error" "hang"
          want, got, fin,   \* the current Tellable looping read: still wanted, obtained, loop finished
          sub,        \* the header being read follows an extension header (SubsequentHeaderError on failure)
          cur,        \* member being extracted
          frem,       \* data units of the current member not yet copied
          created,    \* members whose target file exists
          out,        \* out[i] = data units written to member i's file
          okdata,     \* every unit written so far came from the member's own data segment
          causes,     \* history: swallowed-error branches taken (diagnosis only)
          nreads, lastk, lastj   \* history: number of raw reads, last request and answer (binding only)

case  == <<sh, trunc, corrupt, path, buf>>
core  == <<raw, pos, offset, pc, want, got, fin, sub, cur, frem, created, out, okdata>>
hist  == <<causes, nreads, lastk, lastj>>
vars  == <<case, core, hist>>

---------------------------------------------------------------------------------------------
(* Layout of the archive *)
Pad(n) == ((n + B - 1) \div B) * B
ExtLenS(s, i) == IF s.m[i].e > 0 THEN B + s.m[i].e ELSE 0
MemLenS(s, i) == ExtLenS(s, i) + B + Pad(s.m[i].n)
RECURSIVE MemAtS(_, _)
MemAtS(s, i)  == IF i = 1 THEN 0 ELSE MemAtS(s, i - 1) + MemLenS(s, i - 1)   \* first unit of member i
ShapeTotal(s) == MemAtS(s, Len(s.m) + 1) + s.tail
N == Len(sh.m)
ExtLen(i) == ExtLenS(sh, i)
MemAt(i)  == MemAtS(sh, i)
HdrAt(i)  == MemAt(i) + ExtLen(i)
DataAt(i) == HdrAt(i) + B
EndOff    == MemAt(N + 1)
Total     == EndOff + sh.tail
ZeroUnit(u) == \/ u >= EndOff
               \/ \E i \in 1..N : DataAt(i) + sh.m[i].n <= u /\ u < DataAt(i) + Pad(sh.m[i].n)
ZeroWindow(s) == \A u \in s..(s + B - 1) : ZeroUnit(u)
Min(a, b) == IF a < b THEN a ELSE b

---------------------------------------------------------------------------------------------
Init ==
  /\ sh \in Shapes
  /\ path \in Paths /\ (path = "A" => Len(sh.m) = 1)      \* path A: a single file copied into a directory
  /\ buf \in Bufs
  /\ \/ trunc = ShapeTotal(sh) /\ corrupt = 0
     \/ WithTrunc /\ trunc \in 0..(ShapeTotal(sh) - 1) /\ corrupt = 0
     \/ WithCorrupt /\ trunc = ShapeTotal(sh) /\ corrupt \in 1..Len(sh.m)
  /\ raw = 0 /\ pos = 0 /\ offset = 0 /\ pc = "next"
  /\ want = 0 /\ got = 0 /\ fin = TRUE /\ sub = FALSE /\ cur = 0 /\ frem = 0
  /\ created = {} /\ out = [i \in 1..Len(sh.m) |-> 0] /\ okdata = TRUE
  /\ causes = {} /\ nreads = 0 /\ lastk = 0 /\ lastj = 0

\* the raw stream: any short read; empty only at the end of what is delivered
RawRead(k) == {j \in 0..k : \/ j = 0 /\ raw = trunc
                            \/ j >= 1 /\ raw + j <= trunc}
Log(k, j) == nreads' = nreads + 1 /\ lastk' = k /\ lastj' = j
NoRead    == UNCHANGED <<nreads, lastk, lastj>>
StartRead(k) == want' = k /\ got' = 0 /\ fin' = (k = 0)

\* one iteration of TellableStreamWrapper.read's loop (position is updated at the end of the real
\* method; no other code runs in between, so updating it per iteration is unobservable)
TRead(j) == /\ raw' = raw + j /\ pos' = pos + j /\ got' = got + j
            /\ want' = want - j
            /\ fin' = (j = 0 \/ want = j)
            /\ Log(want, j)

---------------------------------------------------------------------------------------------
(* AioTarStream.next *)
NextCall ==
  /\ pc = "next"
  /\ IF offset # pos
       THEN IF offset = 0
              THEN pc' = "done" /\ UNCHANGED <<want, got, fin>>
              ELSE IF offset < pos
                     THEN pc' = "error" /\ UNCHANGED <<want, got, fin>>      \* cannot seek backward
                     ELSE pc' = "seek" /\ StartRead(offset - pos)
       ELSE pc' = "hdr" /\ StartRead(B)
  /\ sub' = FALSE
  /\ UNCHANGED <<case, raw, pos, offset, cur, frem, created, out, okdata, causes>> /\ NoRead

\* SeekableStreamReaderWrapper.seek
Seek ==
  /\ pc = "seek"
  /\ \E j \in RawRead(want) :
       /\ raw' = raw + j /\ Log(want, j)
       /\ IF ~FixSeek
            THEN \* as coded: ONE raw read, then position := offset
                 /\ pos' = offset /\ pc' = "hdr" /\ StartRead(B)
                 /\ causes' = IF j < want THEN causes \cup {IF raw + j = trunc /\ trunc < Total
                                                              THEN "eof-in-seek" ELSE "short-read-in-seek"}
                                          ELSE causes
            ELSE \* repaired: loop until the requested units are consumed, raise at end of stream
                 /\ pos' = pos + j /\ UNCHANGED causes
                 /\ IF j = 0 THEN pc' = "error" /\ UNCHANGED <<want, got, fin>>
                    ELSE IF j = want THEN pc' = "hdr" /\ StartRead(B)
                    ELSE pc' = "seek" /\ want' = want - j /\ UNCHANGED <<got, fin>>
  /\ UNCHANGED <<case, offset, sub, cur, frem, created, out, okdata>>

\* AioTarInfo.fromtarfile: the block read
HdrRead ==
  /\ pc \in {"hdr", "ext"} /\ ~fin
  /\ \E j \in RawRead(want) : TRead(j)
  /\ UNCHANGED <<case, offset, pc, sub, cur, frem, created, out, okdata, causes>>

\* end of archive reported without error (the swallowing branches of next()), or an error
Swallow(c) ==
  IF sub THEN pc' = "error" /\ UNCHANGED causes                      \* SubsequentHeaderError -> ReadError
  ELSE IF offset = 0 \/ FixHdr THEN pc' = "error" /\ UNCHANGED causes
  ELSE pc' = "done" /\ causes' = causes \cup {c}

HdrParse ==
  /\ pc = "hdr" /\ fin
  /\ LET start == raw - got IN
     IF got = 0 THEN Swallow("empty-header") /\ UNCHANGED <<want, got, fin, sub, offset, cur, frem, created, okdata>>
     ELSE IF got < B THEN Swallow("truncated-header") /\ UNCHANGED <<want, got, fin, sub, offset, cur, frem, created, okdata>>
     ELSE IF ZeroWindow(start)
       THEN \* EOFHeaderError: the regular end of the archive (also in a subsequent header: HeaderError)
            /\ pc' = (IF sub THEN "error" ELSE "done")
            /\ UNCHANGED <<want, got, fin, sub, offset, cur, frem, created, okdata, causes>>
     ELSE IF \E i \in 1..N : HdrAt(i) = start /\ corrupt # i /\ (sub <=> sh.m[i].e > 0)
       THEN \* a member header: _proc_builtin, then the extraction of the member starts
            LET i == CHOOSE i \in 1..N : HdrAt(i) = start IN
            /\ cur' = i /\ frem' = sh.m[i].n
            /\ offset' = pos + Pad(sh.m[i].n)
            /\ created' = created \cup {i}
            /\ okdata' = (okdata /\ (sh.m[i].n = 0 \/ raw = DataAt(i)))
            /\ pc' = "dstart" /\ sub' = FALSE
            /\ UNCHANGED <<want, got, fin, causes>>
     ELSE IF ~sub /\ \E i \in 1..N : sh.m[i].e > 0 /\ MemAt(i) = start
       THEN \* extension header (GNU long name / PAX): read its data blocks, then the real header
            LET i == CHOOSE i \in 1..N : sh.m[i].e > 0 /\ MemAt(i) = start IN
            /\ pc' = "ext" /\ StartRead(sh.m[i].e)
            /\ UNCHANGED <<sub, offset, cur, frem, created, okdata, causes>>
     ELSE Swallow("invalid-header") /\ UNCHANGED <<want, got, fin, sub, offset, cur, frem, created, okdata>>
  /\ UNCHANGED <<case, raw, pos, out>> /\ NoRead

ExtDone ==
  /\ pc = "ext" /\ fin
  /\ pc' = "hdr" /\ StartRead(B) /\ sub' = TRUE
  /\ UNCHANGED <<case, raw, pos, offset, cur, frem, created, out, okdata, causes>> /\ NoRead

---------------------------------------------------------------------------------------------
(* Extraction of the data of member `cur` *)
UseA == path = "A" /\ cur = 1

\* a new request: FileStreamReaderWrapper.read(buf) (path B) or write(src, dst, bufsize) (path A)
DStart ==
  /\ pc = "dstart"
  /\ IF frem = 0 THEN pc' = "next" /\ UNCHANGED <<want, got, fin>>
                 ELSE pc' = "data" /\ StartRead(Min(buf, frem))
  /\ UNCHANGED <<case, raw, pos, offset, sub, cur, frem, created, out, okdata, causes>> /\ NoRead

DataRead ==
  /\ pc = "data" /\ ~fin
  /\ \E j \in RawRead(want) :
       /\ TRead(j)
       /\ out' = [out EXCEPT ![cur] = @ + j] /\ frem' = frem - j
  /\ UNCHANGED <<case, offset, pc, sub, cur, created, okdata, causes>>

DataFin ==
  /\ pc = "data" /\ fin
  /\ IF want = 0 THEN pc' = "dstart" /\ UNCHANGED <<want, got, fin, causes>>
     ELSE \* the stream ended inside the data
       IF FixData THEN pc' = "error" /\ UNCHANGED <<want, got, fin, causes>>
       ELSE IF UseA
         THEN \* write(): `bufsize -= len(buf)` and read again; an empty answer never leaves the loop
              IF got = 0 THEN pc' = "hang" /\ causes' = causes \cup {"eof-in-data"} /\ UNCHANGED <<want, got, fin>>
                         ELSE pc' = "data" /\ StartRead(want) /\ UNCHANGED causes
         ELSE \* `while content := await inputfile.read(buf)`: an empty answer ends the copy silently
              IF got = 0 THEN pc' = "next" /\ causes' = causes \cup {"eof-in-data"} /\ UNCHANGED <<want, got, fin>>
                         ELSE pc' = "dstart" /\ UNCHANGED <<want, got, fin, causes>>
  /\ UNCHANGED <<case, raw, pos, offset, sub, cur, frem, created, out, okdata>> /\ NoRead

Next == NextCall \/ Seek \/ HdrRead \/ HdrParse \/ ExtDone \/ DStart \/ DataRead \/ DataFin
Spec == Init /\ [][Next]_vars /\ WF_vars(Next)

---------------------------------------------------------------------------------------------
Terminal == {"done", "error", "hang"}
TypeOK == /\ raw \in 0..trunc /\ trunc \in 0..Total /\ pos \in 0..(Total + B) /\ pc \in {"next", "seek", "hdr", "ext", "dstart", "data"} \cup Terminal
          /\ created \subseteq 1..N /\ \A i \in 1..N : out[i] \in 0..sh.m[i].n
TellIsTrue  == pos = raw
Exact       == created = 1..N /\ \A i \in 1..N : out[i] = sh.m[i].n
ExactOrFail == pc = "done" => Exact
OwnData     == okdata
NoHang      == pc # "hang"
Intact      == trunc = Total /\ corrupt = 0
IntactSucceeds == (Intact /\ pc \in Terminal) => pc = "done"       \* a complete, valid stream is accepted
\* every wrong outcome is explained by one of the recorded branches
DefectsExplained == (pc = "hang" \/ (pc = "done" /\ ~Exact)) => causes # {}
\* an intact stream is reproduced exactly for every chunking
IntactExact == (Intact /\ pc \in Terminal) => (pc = "done" /\ Exact)
\* before the header fix (FixSeek /\ FixData /\ ~FixHdr): the only wrong outcome left was a swallowed header error on a
\* truncated or corrupted stream
OnlyHeaderSwallowingLeft == (pc = "done" /\ ~Exact) =>
                               /\ ~Intact
                               /\ causes \cap {"empty-header", "truncated-header", "invalid-header"} # {}
                               /\ causes \subseteq {"empty-header", "truncated-header", "invalid-header"}
\* before 02c607f (all switches FALSE): an intact stream loses members only through a short answer inside seek
LossOnlyByShortSeek == (Intact /\ pc = "done" /\ ~Exact) => "short-read-in-seek" \in causes
Terminates  == <>(pc \in {"done", "error"})
==============================================================================
