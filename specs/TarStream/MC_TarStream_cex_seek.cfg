CONSTANTS B = 4  Bufs = {99}  Paths = {"B"}  WithTrunc = FALSE  WithCorrupt = FALSE  FixSeek = FALSE  FixTrunc = FALSE
CONSTANT Shapes <- ShapeCexTree
INIT Init
NEXT Next
VIEW View
INVARIANT ExactOrFail
