CONSTANTS
  Jobs <- MCJobs  Parents <- MCParents  Loc <- MCLoc  Sink <- MCSink
  Limit = 30  Dummy = FALSE  MaxGen = 12
  Shape = "pipe3"  MaxPairs = 1  MaxTimes = 2
  Kinds = {"soft", "fail_stop"}  PhasesUsed = {"s", "t", "e"}
INIT MCInit
NEXT GenNext
INVARIANT TypeOK
INVARIANT VersionBound
INVARIANT ExecBound
INVARIANT OutputThere
INVARIANT OnlyNeeded
