---------------------------- MODULE MC_Recovery ----------------------------
(* Instances of Recovery for TLC: a small library of shapes, the enumeration of failure plans in
   the initial state, and the per-terminal-state emission used by the drivers (C16/C17/C18).     *)
EXTENDS Recovery, Json

CONSTANTS Shape,        \* "pipe1".."pipe5", "pipe3x".."pipe5x" (alternating locations), "scat1".."scat4", "scat2n".. (no job before the scatter)
          MaxPairs,     \* at most this many failing (job, phase) pairs
          MaxTimes,     \* each failing 1..MaxTimes times
          Kinds,        \* subset of {"soft", "fail_stop"}
          PhasesUsed,   \* subset of {"s","t","e"} in which failures are injected
          Limits,       \* set of max_retries values (each \leq Limit)
          Managers      \* subset of BOOLEAN: FALSE = RollbackFailureManager, TRUE = DummyFailureManager

Letters == <<"a", "b", "c", "d", "e">>
PipeN == CASE Shape \in {"pipe1"} -> 1 [] Shape \in {"pipe2", "pipe2x"} -> 2 [] Shape \in {"pipe3", "pipe3x"} -> 3
           [] Shape \in {"pipe4", "pipe4x"} -> 4 [] Shape \in {"pipe5", "pipe5x"} -> 5 [] OTHER -> 0
ScatN == CASE Shape \in {"scat1", "scat1n"} -> 1 [] Shape \in {"scat2", "scat2n"} -> 2 [] Shape \in {"scat3", "scat3n"} -> 3
           [] Shape \in {"scat4", "scat4n"} -> 4 [] OTHER -> 0
ScatPre == Shape \in {"scat1", "scat2", "scat3", "scat4"}
Elems == <<"b0", "b1", "b2", "b3">>
ElemSet == {Elems[i] : i \in 1..ScatN}
IsX == Shape \in {"pipe2x", "pipe3x", "pipe4x", "pipe5x"}

MCJobs == IF PipeN > 0 THEN {Letters[i] : i \in 1..PipeN}
          ELSE (IF ScatPre THEN {"a"} ELSE {}) \cup ElemSet \cup {"c"}
Idx(x) == CHOOSE i \in 1..5 : Letters[i] = x
MCParents == [x \in MCJobs |->
                IF PipeN > 0 THEN (IF x = "a" THEN {} ELSE {Letters[Idx(x) - 1]})
                ELSE CASE x = "a" -> {}
                       [] x = "c" -> ElemSet
                       [] OTHER -> IF ScatPre THEN {"a"} ELSE {}]
MCLoc == [x \in MCJobs |-> IF IsX /\ Idx(x) % 2 = 0 THEN "L2" ELSE "L1"]
MCSink == IF PipeN > 0 THEN Letters[PipeN] ELSE "c"

PlanPairs == MCJobs \X PhasesUsed
MCInit ==
  \E S \in {T \in SUBSET PlanPairs : Cardinality(T) <= MaxPairs} :
    \E tm \in [S -> 1..MaxTimes], kd \in [S -> Kinds], l \in Limits, m \in Managers :
      /\ lim = l /\ dummy = m
      /\ plan = [k \in MCJobs \X PhSet |-> IF k \in S THEN tm[k] ELSE 0]
      /\ kind = [k \in MCJobs \X PhSet |-> IF k \in S THEN kd[k] ELSE "soft"]
      /\ budget = plan
      /\ stk = <<Frame0>> /\ cur = "none"
      /\ gen = [x \in Jobs |-> 0]
      /\ avail = [x \in Jobs |-> [g \in Gens |-> {}]]
      /\ prov = [x \in Jobs |-> [g \in Gens |-> NoIns]]
      /\ version = [x \in Jobs |-> 1]
      /\ attempts = [x \in Jobs |-> [ph \in PhSet |-> 0]]
      /\ status = "running" /\ hist = <<>>
      /\ failedEver = {} /\ lostEver = {} /\ stale = {}

\* the observable schedule is history: hide it (and the other history variables) when only checking properties
View == <<lim, dummy, plan, budget, kind, stk, cur, gen, avail, prov, version, attempts, status>>
GenBound == \A x \in Jobs : gen[x] < MaxGen

\* ---- emission (generation configs, -workers 1): one JSON line per terminal state
PlanJ == [k \in {<<x, ph>> \in Jobs \X PhSet : plan[<<x, ph>>] > 0} |-> <<plan[k], kind[k]>>]
PairKey(k) == k[1] \o "|" \o k[2]
PlanRec == LET ks == {k \in Jobs \X PhSet : plan[k] > 0}
           IN [s \in {PairKey(k) : k \in ks} |-> LET k == CHOOSE k \in ks : PairKey(k) = s IN <<plan[k], kind[k]>>]
Emit == PrintT(ToJson([shape |-> Shape, limit |-> lim, dummy |-> dummy, plan |-> PlanRec, hist |-> hist,
                       outcome |-> status, attempts |-> attempts, version |-> version, gen |-> gen,
                       rolled |-> lostEver, failed |-> failedEver, stale |-> stale]))
GenFinalize == /\ status \in {"done", "raised"} /\ Emit /\ Finalize
GenNext == (\E x \in Jobs : RunPhase(x)) \/ GenFinalize
MCSpec == MCInit /\ [][Next]_vars /\ WF_vars(Next)
GenSpec == MCInit /\ [][GenNext]_vars /\ WF_vars(GenNext)     \* properties, liveness and emission in one run
=============================================================================
