---------------------------- MODULE MC_Recovery ----------------------------
(* Instances of Recovery for TLC: a small library of shapes, the enumeration of failure plans in
   the initial state, and the per-terminal-state emission used by the drivers (C16/C17/C18).     *)
EXTENDS Recovery, Json

CONSTANTS Shape,        \* "pipe1".."pipe5", "pipe3x".."pipe5x" (alternating locations), "scat1".."scat4", "scat2n".. (no job before the scatter),
                        \* "dag4".."dag6": fork/join DAGs (a chain plus skip edges, see DagParents)
          FailJobs,     \* the jobs in which failures are injected ({} = every job)
          MaxLose,      \* kind "fail_sel": at most this many jobs lose their outputs at one failure (only provenance ancestors of the failing job)
          MaxPairs,     \* at most this many failing (job, phase) pairs
          MaxTimes,     \* each failing 1..MaxTimes times
          Kinds,        \* subset of {"soft", "fail_stop"}
          PhasesUsed,   \* subset of {"s","t","e"} in which failures are injected
          Limits,       \* set of max_retries values (each \leq Limit)
          Managers      \* subset of BOOLEAN: FALSE = RollbackFailureManager, TRUE = DummyFailureManager

Letters == <<"a", "b", "c", "d", "e", "f">>
PipeN == CASE Shape \in {"pipe1"} -> 1 [] Shape \in {"pipe2", "pipe2x"} -> 2 [] Shape \in {"pipe3", "pipe3x"} -> 3
           [] Shape \in {"pipe4", "pipe4x"} -> 4 [] Shape \in {"pipe5", "pipe5x"} -> 5 [] OTHER -> 0
ScatN == CASE Shape \in {"scat1", "scat1n"} -> 1 [] Shape \in {"scat2", "scat2n"} -> 2 [] Shape \in {"scat3", "scat3n"} -> 3
           [] Shape \in {"scat4", "scat4n"} -> 4 [] OTHER -> 0
ScatPre == Shape \in {"scat1", "scat2", "scat3", "scat4"}
Elems == <<"b0", "b1", "b2", "b3">>
ElemSet == {Elems[i] : i \in 1..ScatN}
IsX == Shape \in {"pipe2x", "pipe3x", "pipe4x", "pipe5x"}
\* fork/join DAGs with ONE topological order (the chain a -> b -> c -> ... plus skip edges): sequential by construction, so
\* the real engine follows the sequential semantics of this module without any imposed schedule.
\*   dag4: c also reads a, d also reads b              dag5: c also reads a, e also reads b
\*   dag6: c also reads a, f also reads b (the long way round from f to a is two jobs longer than the short one)
DagN == CASE Shape = "dag4" -> 4 [] Shape = "dag5" -> 5 [] Shape = "dag6" -> 6 [] OTHER -> 0
DagSkip == CASE Shape = "dag4" -> {<<"c", "a">>, <<"d", "b">>}
             [] Shape = "dag5" -> {<<"c", "a">>, <<"e", "b">>}
             [] Shape = "dag6" -> {<<"c", "a">>, <<"f", "b">>}
             [] OTHER -> {}

MCJobs == IF PipeN > 0 THEN {Letters[i] : i \in 1..PipeN}
          ELSE IF DagN > 0 THEN {Letters[i] : i \in 1..DagN}
          ELSE (IF ScatPre THEN {"a"} ELSE {}) \cup ElemSet \cup {"c"}
Idx(x) == CHOOSE i \in 1..6 : Letters[i] = x
MCParents == [x \in MCJobs |->
                IF PipeN > 0 THEN (IF x = "a" THEN {} ELSE {Letters[Idx(x) - 1]})
                ELSE IF DagN > 0 THEN (IF x = "a" THEN {} ELSE {Letters[Idx(x) - 1]}) \cup {e[2] : e \in {e \in DagSkip : e[1] = x}}
                ELSE CASE x = "a" -> {}
                       [] x = "c" -> ElemSet
                       [] OTHER -> IF ScatPre THEN {"a"} ELSE {}]
MCLoc == [x \in MCJobs |-> IF IsX /\ Idx(x) % 2 = 0 THEN "L2" ELSE "L1"]
MCSink == IF PipeN > 0 THEN Letters[PipeN] ELSE IF DagN > 0 THEN Letters[DagN] ELSE "c"
\* strict provenance ancestors (in the DAG shapes: every job before x in the chain)
MCAnc(x) == IF DagN > 0 THEN {Letters[i] : i \in 1..(Idx(x) - 1)} ELSE {}

PlanPairs == (IF FailJobs = {} THEN MCJobs ELSE FailJobs \cap MCJobs) \X PhasesUsed
MCInit ==
  \E S \in {T \in SUBSET PlanPairs : Cardinality(T) <= MaxPairs} :
    \E tm \in [S -> 1..MaxTimes], kd \in [S -> Kinds], l \in Limits, m \in Managers :
    \E ls \in [S -> IF "fail_sel" \in Kinds THEN SUBSET MCJobs ELSE {{}}] :
      /\ \A k \in S : IF kd[k] = "fail_sel" THEN ls[k] \subseteq MCAnc(k[1]) /\ ls[k] # {} /\ Cardinality(ls[k]) <= MaxLose ELSE ls[k] = {}
      /\ lose = [k \in MCJobs \X PhSet |-> IF k \in S THEN ls[k] ELSE {}]
      /\ lim = l /\ dummy = m
      /\ plan = [k \in MCJobs \X PhSet |-> IF k \in S THEN tm[k] ELSE 0]
      /\ kind = [k \in MCJobs \X PhSet |-> IF k \in S THEN kd[k] ELSE "soft"]
      /\ budget = plan
      /\ stk = <<Frame0>> /\ cur = "none"
      /\ gen = [x \in Jobs |-> 0]
      /\ avail = [x \in Jobs |-> [g \in Gens |-> {}]]
      /\ prov = [x \in Jobs |-> [g \in Gens |-> {}]]
      /\ version = [x \in Jobs |-> 1]
      /\ attempts = [x \in Jobs |-> [ph \in PhSet |-> 0]]
      /\ status = "running" /\ hist = <<>>
      /\ failedEver = {} /\ lostEver = {} /\ stale = {} /\ superseded = {} /\ natural2 = {}

\* the observable schedule is history: hide it (and the other history variables) when only checking properties
View == <<lim, dummy, plan, budget, kind, lose, stk, cur, gen, avail, prov, version, attempts, status>>
GenBound == \A x \in Jobs : gen[x] < MaxGen

\* ---- emission (generation configs, -workers 1): one JSON line per terminal state
PlanJ == [k \in {<<x, ph>> \in Jobs \X PhSet : plan[<<x, ph>>] > 0} |-> <<plan[k], kind[k]>>]
PairKey(k) == k[1] \o "|" \o k[2]
PlanRec == LET ks == {k \in Jobs \X PhSet : plan[k] > 0}
           IN [s \in {PairKey(k) : k \in ks} |-> LET k == CHOOSE k \in ks : PairKey(k) = s
                                                  IN IF kind[k] = "fail_sel" THEN <<plan[k], kind[k], lose[k]>> ELSE <<plan[k], kind[k]>>]
Emit == PrintT(ToJson([shape |-> Shape, limit |-> lim, dummy |-> dummy, plan |-> PlanRec, hist |-> hist,
                       outcome |-> status, attempts |-> attempts, version |-> version, gen |-> gen,
                       rolled |-> lostEver, failed |-> failedEver, stale |-> stale,
                       superseded |-> superseded, natural2 |-> natural2]))
GenFinalize == /\ status \in {"done", "raised"} /\ Emit /\ Finalize
GenNext == (\E x \in Jobs : RunPhase(x)) \/ GenFinalize
MCSpec == MCInit /\ [][Next]_vars /\ WF_vars(Next)
GenSpec == MCInit /\ [][GenNext]_vars /\ WF_vars(GenNext)     \* properties, liveness and emission in one run
=============================================================================
