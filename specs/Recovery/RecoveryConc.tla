---------------------------- MODULE RecoveryConc ----------------------------
(* Concurrent recoveries that share a lost ancestor (C19), as RollbackFailureManager._recover does it:

     BuildGraph   (reads data availability and the scheduler status of the producer - NO lock held)
     Lock         (the RecoveryRequest locks of every job of the graph, in one global order)
     Synchronize  (reads the status AGAIN: producer recovering -> attach to the workflow that is
                   regenerating it; otherwise roll it back: version+1, status ROLLBACK)  + Populate, unlock
     Run          (the recovery workflow: re-execute the producer if rolled back, or wait for the
                   regenerated token through the boundary rule; then re-execute the failed job)

   One producer `a` feeds the consumers Cons; each consumer fails once, in phase Phase[c] ("s" =
   ScheduleStep, "e" = ExecuteStep); the failure of Wiper is a fail-stop that destroys a's output
   (and every copy of it).  Consumers keep referring to the ORIGINAL instance of a's output (the
   ports of the original workflow are never refreshed), so after the wipe every failing consumer
   needs `a` again.  (A consumer whose ScheduleStep was recovered fails once more in its TransferStep
   - stale input - but that second recovery finds the regenerated instance in its JobToken and
   re-runs only the consumer: it is not modelled.)

   The module is refined to what the gated driver observed on the real code (notes/C19.md):
   * a recovery that built its graph while `a` was COMPLETED and synchronizes while `a` is being
     regenerated attaches - and, if the failed step is a ScheduleStep, never terminates
     (GraphMapper.move_token_to_root prunes the connector token, the DeployStep is not loaded);
   * a recovery that synchronizes after `a` completed rolls `a` back again, whatever it saw when it
     built its graph.
   AtMostOncePerLoss and AllTerminate are the properties of the statement; TLC refutes both on this
   as-is model, and the driver replays the counterexamples on the real engine.                     *)
EXTENDS Naturals, Sequences, FiniteSets, TLC

CONSTANTS Cons, Phase, Wiper

VARIABLES pc,        \* [Cons -> "run","built","locked","attached","rollA","rerun","done","stuck"]
          saw,       \* what BuildGraph read: "avail" | "lost" | "recovering" | "none"
          dec,       \* decision of Synchronize: "attach" | "rollback" | "alone" | "none"
          statusA,   \* scheduler status of the producer: "completed" | "fireable" (rolled back and scheduled again by a
                     \* recovery workflow, inputs being staged) | "running"; recovering = not completed
          execsA,    \* executions of the producer
          wiped,     \* the fail-stop has happened
          losses,    \* number of loss events
          lockA,     \* holder of the producer's RecoveryRequest lock, or "none"
          trace      \* visible events, in order (what the driver imposes with gates)
vars == <<pc, saw, dec, statusA, execsA, wiped, losses, lockA, trace>>

Init == /\ pc = [c \in Cons |-> "run"] /\ saw = [c \in Cons |-> "none"] /\ dec = [c \in Cons |-> "none"]
        /\ statusA = "completed" /\ execsA = 1 /\ wiped = FALSE /\ losses = 0 /\ lockA = "none" /\ trace = <<>>

\* failure of c and, right after it, BuildGraph of its recovery
FailBuild(c) ==
  /\ pc[c] = "run"
  /\ c = Wiper \/ wiped        \* the loss event comes first: the other consumers fail while/after the data is lost
  /\ LET w == wiped \/ c = Wiper IN
     /\ wiped' = w
     /\ losses' = IF c = Wiper THEN losses + 1 ELSE losses
     /\ saw' = [saw EXCEPT ![c] = IF ~w THEN "avail" ELSE IF statusA # "completed" THEN "recovering" ELSE "lost"]
  /\ pc' = [pc EXCEPT ![c] = "built"]
  /\ trace' = Append(trace, <<"fail", c>>)
  /\ UNCHANGED <<dec, statusA, execsA, lockA>>

\* AcquireLocks: the producer's request lock is needed iff the producer is in the graph
Lock(c) ==
  /\ pc[c] = "built"
  /\ saw[c] = "avail" \/ lockA = "none"
  /\ lockA' = IF saw[c] = "avail" THEN lockA ELSE c
  /\ pc' = [pc EXCEPT ![c] = "locked"]
  /\ UNCHANGED <<saw, dec, statusA, execsA, wiped, losses, trace>>

\* Synchronize + Populate + release
Sync(c) ==
  /\ pc[c] = "locked"
  /\ IF saw[c] = "avail"
       THEN /\ dec' = [dec EXCEPT ![c] = "alone"] /\ pc' = [pc EXCEPT ![c] = "rerun"] /\ UNCHANGED statusA
       ELSE IF statusA # "completed"      \* is_recovering: ROLLBACK, FIREABLE or RUNNING
       THEN /\ dec' = [dec EXCEPT ![c] = "attach"]
            /\ pc' = [pc EXCEPT ![c] = IF Phase[c] = "s" /\ saw[c] = "lost" THEN "stuck" ELSE "attached"]
            /\ UNCHANGED statusA
       ELSE /\ dec' = [dec EXCEPT ![c] = "rollback"] /\ pc' = [pc EXCEPT ![c] = "rollA"] /\ statusA' = "fireable"
  /\ lockA' = IF lockA = c THEN "none" ELSE lockA
  /\ trace' = Append(trace, <<"sync", c>>)
  /\ UNCHANGED <<saw, execsA, wiped, losses>>

\* the re-execution of the producer in c's recovery workflow completes; the boundary rules hand the new
\* token to every attached recovery
\* the regenerated producer leaves the stage-in phase: ExecuteStep._run_job notifies RUNNING
StartA(c) ==
  /\ pc[c] = "rollA" /\ statusA = "fireable"
  /\ statusA' = "running"
  /\ trace' = Append(trace, <<"startA", c>>)
  /\ UNCHANGED <<pc, saw, dec, execsA, wiped, losses, lockA>>

FinishA(c) ==
  /\ pc[c] = "rollA" /\ statusA = "running"
  /\ execsA' = execsA + 1 /\ statusA' = "completed"
  /\ pc' = [x \in Cons |-> IF x = c \/ pc[x] = "attached" THEN "rerun" ELSE pc[x]]
  /\ trace' = Append(trace, <<"finishA", c>>)
  /\ UNCHANGED <<saw, dec, wiped, losses, lockA>>

Rerun(c) == /\ pc[c] = "rerun" /\ pc' = [pc EXCEPT ![c] = "done"]
            /\ UNCHANGED <<saw, dec, statusA, execsA, wiped, losses, lockA, trace>>

Settled == \A c \in Cons : pc[c] \in {"done", "stuck"}
Done == Settled /\ UNCHANGED vars          \* explicit stuttering: TLC's deadlock check then means a real deadlock
Step(c) == FailBuild(c) \/ Lock(c) \/ Sync(c) \/ StartA(c) \/ FinishA(c) \/ Rerun(c)
Next == (\E c \in Cons : Step(c)) \/ Done
Spec == Init /\ [][Next]_vars /\ WF_vars(\E c \in Cons : Step(c))

TypeOK == /\ statusA \in {"completed", "fireable", "running"} /\ lockA \in Cons \cup {"none"}
\* ---- the properties of the statement
AtMostOncePerLoss == execsA <= 1 + losses
NoneStuck == \A c \in Cons : pc[c] # "stuck"
AllTerminate == <>(\A c \in Cons : pc[c] = "done")
\* ---- what does hold as-is
LockSafe == lockA # "none" => pc[lockA] = "locked"
SharedWhenAttached == \A c \in Cons : dec[c] = "attach" => saw[c] # "avail"
=============================================================================
