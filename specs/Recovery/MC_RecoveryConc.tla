-------------------------- MODULE MC_RecoveryConc --------------------------
EXTENDS RecoveryConc, Json
CONSTANTS Shape,      \* "fan": one producer a, consumers b1..bN;  "dd": double diamond a1 -> {x, z}, a2 -> {y, z} (N = 3)
          N,          \* number of failing consumers (2 or 3)
          P1, P2, P3, \* phase ("s" or "e") in which consumer i fails (P3 unused when N = 2)
          W,          \* index of the consumer whose failure is the fail-stop
          Simul       \* generation only: TRUE = every consumer has failed before the first Synchronize (simultaneous failures)
Phases == <<P1, P2, P3>>
Names == IF Shape = "fan" THEN <<"b1", "b2", "b3">> ELSE <<"x", "y", "z">>
MCCons == {Names[i] : i \in 1..N}
MCProd == IF Shape = "fan" THEN {"a"} ELSE {"a1", "a2"}
MCLockOrd == IF Shape = "fan" THEN <<"a">> ELSE <<"a1", "a2">>
MCNeeds == [c \in MCCons |-> IF Shape = "fan" THEN {"a"} ELSE IF c = "x" THEN {"a1"} ELSE IF c = "y" THEN {"a2"} ELSE {"a1", "a2"}]
MCPhase == [c \in MCCons |-> Phases[CHOOSE i \in 1..N : Names[i] = c]]
MCWiper == Names[W]
WindowOn == TRUE      \* cfg: RollbackWindow <- WindowOn (the C18 family: a Synchronize inside the ROLLBACK window of a producer)
\* hide the event history when only checking properties
View == <<pc, saw, dec, link, status, owner, execs, pend, wiped, losses, lock>>
Emit == PrintT(ToJson([n |-> N, shape |-> Shape, wiper |-> Wiper, phases |-> Phases, needs |-> Needs, trace |-> trace, pc |-> pc,
                       saw |-> saw, dec |-> dec, link |-> link, execs |-> execs, losses |-> losses]))
Ended == Len(trace) > 0 /\ trace[Len(trace)][1] = "end"
GenInit == Init
\* Generation: only the visible events matter (the driver opens its gates one at a time, so the request locks are never contended in an
\* imposed behaviour and the re-execution of the failed job is not steered): AcquireLocks + Synchronize as one step, Rerun left out.
\* The set of (trace, decisions) is the same as that of Next (a lock only delays a Synchronize; decisions depend on the status read
\* at Synchronize time).
LockSync(c) == /\ pc[c] = "built" /\ \A p \in G(c) : lock[p] = "none"
               /\ Simul => \A x \in Cons : pc[x] # "run"
               /\ Decide(c) /\ UNCHANGED <<saw, execs, wiped, losses, lock>>
               /\ trace' = Append(trace, <<"sync", c>>)
GenSettled == \A c \in Cons : pc[c] \in {"rerun", "done", "stuck"}
GenNext == \/ \E c \in Cons : FailBuild(c) \/ LockSync(c)
           \/ \E p \in Prod : PStep(p)
           \/ /\ GenSettled /\ ~Ended /\ Emit
              /\ trace' = Append(trace, <<"end", "">>)
              /\ UNCHANGED <<pc, saw, dec, link, status, owner, execs, pend, wiped, losses, lock>>
=============================================================================
