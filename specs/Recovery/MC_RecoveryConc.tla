-------------------------- MODULE MC_RecoveryConc --------------------------
EXTENDS RecoveryConc, Json
CONSTANTS N,          \* number of failing consumers (2 or 3)
          P1, P2, P3  \* phase ("s" or "e") in which consumer i fails (P3 unused when N = 2)
Phases == <<P1, P2, P3>>
Names == <<"b1", "b2", "b3">>
MCCons == {Names[i] : i \in 1..N}
MCPhase == [c \in MCCons |-> Phases[CHOOSE i \in 1..N : Names[i] = c]]
MCWiper == "b1"
\* hide the event history when only checking properties
View == <<pc, saw, dec, statusA, execsA, wiped, losses, lockA>>
Emit == PrintT(ToJson([n |-> N, phases |-> Phases, trace |-> trace, pc |-> pc, saw |-> saw, dec |-> dec,
                       execsA |-> execsA, losses |-> losses]))
Ended == Len(trace) > 0 /\ trace[Len(trace)][1] = "end"
GenInit == Init
GenNext == \/ \E c \in Cons : Step(c)
           \/ /\ Settled /\ ~Ended /\ Emit
              /\ trace' = Append(trace, <<"end", "">>)
              /\ UNCHANGED <<pc, saw, dec, statusA, execsA, wiped, losses, lockA>>
=============================================================================
