------------------------------- MODULE Recovery -------------------------------
(* Rollback recovery of StreamFlow at the level of JOBS, PHASES and DATA INSTANCES
   (streamflow/recovery/failure_manager.py, recovery/utils.py, core/recovery.py).

   A workflow is a DAG of jobs.  Every job runs three phases in order - "s" (ScheduleStep._schedule),
   "t" (TransferStep._run_transfer), "e" (ExecuteStep._execute_command) - each wrapped by
   `@recoverable`.  A successful "e" produces a new OUTPUT INSTANCE <<job, generation>> stored on
   the job's location; a fail-stop failure wipes the location: every instance stored there becomes
   unavailable (FileToken.is_available = the file exists somewhere).  Workflow inputs are on stable
   storage.  A fail-stop with PARTIAL data loss (kind "fail_sel") loses instead the outputs - every
   generation, every copy - of a chosen set of jobs (per-job directories) and nothing else: with two
   such failures in sequence on a fork/join DAG a recovery meets an old lost instance of a job and a
   newer available one on the same port (Superseded).

   What each workflow (the original one and every recovery workflow) knows is kept per FRAME:
     port[p]     the instance of p's output sitting in this workflow's port (what a consumer reads)
     jobtok[x]   the input instances recorded in x's JobToken when x was scheduled here
     staged[x]   the input instances x's transfer step actually copied
   The three differ, and the differences are the as-is behaviour the repository's own test comments
   on ("TransferStepB receives the old token"): a recovery workflow propagates to its parent only
   the output of the FAILED STEP (job token / staged token / output token), never the regenerated
   outputs of rolled-back ancestors, so the parent's ports keep stale instances.

   Recover(x, ph) = RollbackFailureManager.recover:  notify RECOVERY; build the provenance graph
   backwards from the failed job's inputs through UNAVAILABLE instances up to available ones
   (ProvenanceGraph.build_graph) -> roll-back set RB; _update_request for every job of RB + x
   (version+1, or abort at max_retries); run a recovery workflow that re-runs RB (all phases) and x
   up to the failed phase; propagate the failed step's output to the parent workflow.
   Failures inside a recovery workflow recurse (a stack of frames).

   This module is the SEQUENTIAL semantics: one job is in flight at a time (`cur` holds a token
   from its first phase until its "e" completes or a phase fails), recoveries therefore nest
   strictly.  Which ready job takes the token next is nondeterministic and recorded in `hist`
   (the observable schedule).  Concurrent recoveries are the subject of module RecoveryConc.   *)
EXTENDS Naturals, Sequences, FiniteSets, TLC

CONSTANTS Jobs,        \* set of job names
          Parents,     \* [Jobs -> SUBSET Jobs], acyclic
          Loc,         \* [Jobs -> location]  (volatile storage the job runs on / writes to)
          Sink,        \* the job whose output is the workflow output
          Limit,       \* largest max_retries considered (the value of a run is the variable `lim`)
          Dummy,       \* TRUE: DummyFailureManager (the value of a run is the variable `dummy`)
          MaxGen       \* bound on output generations per job (for the state constraint only)

PhSet == {"s", "t", "e"}
Succ(ph) == CASE ph = "s" -> "t" [] ph = "t" -> "e" [] ph = "e" -> "done"

VARIABLES lim, dummy,          \* configuration of the run: max_retries, DummyFailureManager?
          plan, budget, kind,  \* the failure plan: plan[<<x,ph>>] injected failures (constant), budget = those left, kind[<<x,ph>>]
          lose,                \* plan, kind "fail_sel" (fail-stop with PARTIAL data loss): lose[<<x,ph>>] = the jobs whose output
                               \* instances (every generation produced so far, every copy) are lost at each failure of <<x,ph>>;
                               \* all other data survive (per-job directories instead of a whole location)
          stk,                 \* stack of frames, stk[1] = the original workflow
          cur,                 \* job holding the token, or "none"
          gen, avail, prov,    \* gen[x]; avail[x][g] = the LOCATIONS that hold a copy of the instance (the producer's
                               \* own location + every location a consumer staged a replica on; {} = lost);
                               \* prov[x][g] = the parent instances the output token depends on: the inputs the transfer
                               \* steps staged AND the inputs recorded in the JobToken the execute step used (they differ after a
                               \* recovery of the transfer step: the JobToken of the interrupted workflow is not replaced)
          version, attempts,   \* RecoveryRequest.version[x]; attempts[x][ph]
          status,              \* "running" | "done" | "raised" | "final"
          hist,                \* jobs in the order they took the token
          failedEver, lostEver, \* history: jobs that failed themselves / had an instance lost when rolled back
          stale,                \* history: jobs whose "e" failed while the JobToken of their workflow referred to a lost
                                \* instance that their transfer step no longer used (see StaleJobToken)
          superseded,           \* history: <<job, "late"|"early">>: a recovery met BOTH a lost instance of the job and a newer available
                                \* one (GraphMapper._update_token: the available one replaces the lost one, the job is NOT rolled back)
          natural2              \* history: jobs whose transfer failed naturally on two or more inputs at once (their transfer steps
                                \* recover concurrently on the real engine: outside this sequential module, see RecoveryConc)

vars == <<lim, dummy, plan, budget, kind, lose, stk, cur, gen, avail, prov, version, attempts, status, hist, failedEver, lostEver, stale, superseded, natural2>>

Gens == 0..MaxGen
NoIns == [p \in Jobs |-> 0]
Frame0 == [fj |-> "none", upto |-> "e",
           next |-> [x \in Jobs |-> "s"],
           port |-> [x \in Jobs |-> 0],
           jobtok |-> [x \in Jobs |-> NoIns],
           staged |-> [x \in Jobs |-> NoIns]]

Top == stk[Len(stk)]
SetTop(f) == [stk EXCEPT ![Len(stk)] = f]

Max(S) == CHOOSE m \in S : \A y \in S : y <= m

\* ------------------------------------------------------------------------------------------
\* ProvenanceGraph.build_graph on availability `av`: backward BFS from instances; an available
\* instance stops the search (it becomes a root to inject), an unavailable one puts its producer in
\* the roll-back set and the search continues with the instances that producer read.
RECURSIVE Build(_, _, _, _, _)
Build(av, stop, front, rb, inj) ==
  IF front = {} THEN [rb |-> rb, inj |-> inj]
  ELSE LET i == CHOOSE i \in front : TRUE
           p == i[1]
           g == i[2]
       IN IF av[p][g] # {} THEN Build(av, stop, front \ {i}, rb, inj \cup {i})
          ELSE IF p \in stop THEN Build(av, stop, front \ {i}, rb, inj)
          ELSE Build(av, stop, (front \ {i}) \cup (prov[p][g] \ inj), rb \cup {p}, inj)

\* GraphMapper._update_token: of two instances of the same port the available one wins: the lost instance is replaced,
\* the available one becomes a root (move_token_to_root) and whatever was in the graph only to rebuild the lost instance is
\* pruned - the second walk does not go behind the lost instances of those jobs.
Graph(av, start) ==
  LET b1 == Build(av, {}, start, {}, {})
      both == b1.rb \cap {i[1] : i \in b1.inj}
      b == IF both = {} THEN b1 ELSE Build(av, both, start, {}, {})
      inj == b.inj \cup {i \in b1.inj : i[1] \in both}
      hasInj == {i[1] : i \in inj}
  IN [rb |-> b.rb \ hasInj,
      port |-> [p \in Jobs |-> IF p \in hasInj THEN Max({i[2] : i \in {k \in inj : k[1] = p}}) ELSE 0]]

\* ------------------------------------------------------------------------------------------
\* Order in which create_graph_mapper (a breadth-first walk of the provenance graph from the failed job's inputs) meets
\* the instances: Levels = {<<instance, level>>}, a parent instance is one level deeper than the unavailable instance
\* that needs it (minimal level over all paths).
RECURSIVE Levels(_, _, _, _)
Levels(av, front, n, acc) ==
  LET new == front \ {r[1] : r \in acc}
  IN IF new = {} THEN acc
     ELSE Levels(av, UNION {IF av[i[1]][i[2]] # {} THEN {} ELSE prov[i[1]][i[2]] : i \in new},
                 n + 1, acc \cup {<<i, n>> : i \in new})
LevelOf(lv, i) == (CHOOSE r \in lv : r[1] = i)[2]
\* the deepest level of anything that is in the graph only in order to rebuild the (lost) instance i
\* (for a job without parents: the workflow input token, one level deeper)
RECURSIVE EndLevel(_, _, _)
EndLevel(av, lv, i) ==
  IF av[i[1]][i[2]] # {} THEN LevelOf(lv, i)
  ELSE IF Parents[i[1]] = {} THEN LevelOf(lv, i) + 1
  ELSE Max({LevelOf(lv, i)} \cup {EndLevel(av, lv, j) : j \in prov[i[1]][i[2]]})
\* The jobs of which the walk meets a lost instance AND an available one.  The specification (what the statement
\* requires, and what _update_token intends): the available instance wins, the job is not rolled back.  "late": the
\* available instance is met only after the lost one and everything behind it have been processed - the one order in
\* which the implementation's replace + move_token_to_root is complete; "early": any other order (the tokens behind
\* the lost instance are added to the mapper after, or merged into, the available one).
Superseded(av, start) ==
  LET lv == Levels(av, start, 0, {})
      ins == {r[1] : r \in lv}
      both == {p \in Jobs : (\E i \in ins : i[1] = p /\ av[p][i[2]] = {}) /\ (\E i \in ins : i[1] = p /\ av[p][i[2]] # {})}
  IN {<<p, IF \A i \in ins, j \in ins : (i[1] = p /\ j[1] = p /\ av[p][i[2]] = {} /\ av[p][j[2]] # {})
                                         => LevelOf(lv, j) > EndLevel(av, lv, i)
              THEN "late" ELSE "early">> : p \in both}

\* the failed job's inputs the graph is built from: ScheduleStep: the tokens in the ports; TransferStep: the inputs
\* recorded in the JobToken; ExecuteStep: the staged tokens (never available themselves: their sources)
StartInstances(f, x, ph) ==
  LET ins == CASE ph = "s" -> f.port [] ph = "t" -> f.jobtok[x] [] ph = "e" -> f.staged[x]
  IN {<<p, ins[p]>> : p \in Parents[x]}

\* ------------------------------------------------------------------------------------------
Init ==
  /\ plan \in [Jobs \X PhSet -> Nat] /\ kind \in [Jobs \X PhSet -> {"soft", "fail_stop"}]   \* narrowed by the MC module
  /\ budget = plan /\ lim = Limit /\ dummy = Dummy /\ lose \in [Jobs \X PhSet -> SUBSET Jobs]
  /\ stk = <<Frame0>> /\ cur = "none"
  /\ gen = [x \in Jobs |-> 0]
  /\ avail = [x \in Jobs |-> [g \in Gens |-> {}]]
  /\ prov = [x \in Jobs |-> [g \in Gens |-> {}]]
  /\ version = [x \in Jobs |-> 1]
  /\ attempts = [x \in Jobs |-> [ph \in PhSet |-> 0]]
  /\ status = "running" /\ hist = <<>>
  /\ failedEver = {} /\ lostEver = {} /\ stale = {} /\ superseded = {} /\ natural2 = {}

Ready(f, x) == f.next[x] \in PhSet /\ \A p \in Parents[x] : f.port[p] # 0

Wiped(l) == [y \in Jobs |-> [g \in Gens |-> avail[y][g] \ {l}]]
\* fail-stop with partial data loss: every instance (all generations, all copies) of the jobs in S is lost
LostOf(S) == [y \in Jobs |-> [g \in Gens |-> IF y \in S THEN {} ELSE avail[y][g]]]
\* a transfer towards another location leaves a replica there, registered as a related PRIMARY data location
\* (FileToken.is_available: the file exists in AT LEAST ONE of its locations)
StagedAt(f, x) == [y \in Jobs |-> [g \in Gens |-> IF y \in Parents[x] /\ g = f.port[y] /\ Loc[y] # Loc[x]
                                                    THEN avail[y][g] \cup {Loc[x]} ELSE avail[y][g]]]

\* completion of the failed job's failed phase in a recovery frame: the recovery workflow ends and the
\* failed step's output is propagated to the parent workflow (BoundaryAction.PROPAGATE)
\* (a parent that was itself recovering the same phase of the same job completes in the same step)
RECURSIVE Pop(_, _, _, _)
Pop(stack, f, x, ph) ==
  LET par == stack[Len(stack) - 1]
      par1 == [par EXCEPT !.next[x] = Succ(ph),
                          !.jobtok[x] = IF ph = "s" THEN f.jobtok[x] ELSE @,
                          !.staged[x] = IF ph = "t" THEN f.staged[x] ELSE @,
                          !.port[x] = IF ph = "e" THEN f.port[x] ELSE @]
      rest == SubSeq(stack, 1, Len(stack) - 2) \o <<par1>>
  IN IF Len(rest) > 1 /\ par1.fj = x /\ par1.upto = ph THEN Pop(rest, par1, x, ph) ELSE rest

\* The situation in which the implementation is known to deviate from this specification: `_recover` adds to the
\* graph inputs `get_job_token(failed_job.name, port.token_list)` - the FIRST JobToken of the job in the workflow's
\* port - and after a recovery of the job's transfer step that token still records the OLD input instances.
StaleJobToken(f, x, ph) ==
  ph = "e" /\ \E p \in Parents[x] : f.jobtok[x][p] # f.staged[x][p] /\ avail'[p][f.jobtok[x][p]] = {}

\* the failure of phase ph of x in the top frame: RollbackFailureManager.recover.  The graph is built on the
\* availability AFTER the failure (avail' : a fail-stop has wiped the location by then)
RecoverP(x, ph) ==
  LET f == Top
      g == Graph(avail', StartInstances(f, x, ph))
      roll == g.rb \cup {x}
  IN /\ failedEver' = failedEver \cup {x}
     /\ stale' = IF StaleJobToken(f, x, ph) THEN stale \cup {x} ELSE stale
     /\ lostEver' = lostEver \cup g.rb
     /\ superseded' = superseded \cup Superseded(avail', StartInstances(f, x, ph))
     /\ cur' = "none"
     /\ IF dummy \/ \E y \in roll : version[y] >= lim
          THEN /\ status' = "raised"
               /\ UNCHANGED <<stk, version>>
          ELSE /\ version' = [y \in Jobs |-> IF y \in roll THEN version[y] + 1 ELSE version[y]]
               /\ stk' = Append(stk, [fj |-> x, upto |-> ph,
                                       next |-> [y \in Jobs |-> IF y \in roll THEN "s" ELSE "na"],
                                       port |-> g.port,
                                       jobtok |-> [y \in Jobs |-> NoIns],
                                       staged |-> [y \in Jobs |-> NoIns]])
               /\ status' = "running"

RunPhase(x) ==
  /\ status = "running" /\ cur \in {"none", x}
  /\ Ready(Top, x)
  /\ LET f == Top
         ph == f.next[x]
         k == <<x, ph>>
     IN /\ attempts' = [attempts EXCEPT ![x][ph] = @ + 1]
        /\ hist' = IF cur = "none" THEN Append(hist, x) ELSE hist
        /\ IF budget[k] > 0
             THEN \* injected failure (soft, or fail-stop = the location is wiped first)
                  /\ budget' = [budget EXCEPT ![k] = @ - 1]
                  /\ avail' = CASE kind[k] = "fail_stop" -> Wiped(Loc[x]) [] kind[k] = "fail_sel" -> LostOf(lose[k]) [] OTHER -> avail
                  /\ UNCHANGED <<gen, prov, kind, plan, lose, lim, dummy, natural2>>
                  /\ RecoverP(x, ph)
             ELSE IF ph = "t" /\ \E p \in Parents[x] : avail[p][f.port[p]] = {}
             THEN \* natural failure: the instance in this workflow's port is gone
                  /\ UNCHANGED <<lim, dummy, plan, budget, kind, lose, avail, gen, prov>>
                  /\ natural2' = IF Cardinality({p \in Parents[x] : avail[p][f.port[p]] = {}}) > 1 THEN natural2 \cup {x} ELSE natural2
                  /\ RecoverP(x, ph)
             ELSE \* success
                  /\ UNCHANGED <<lim, dummy, plan, budget, kind, lose, version, failedEver, lostEver, stale, superseded, natural2>>
                  /\ LET g1 == gen[x] + 1
                         f1 == CASE ph = "s" -> [f EXCEPT !.next[x] = "t", !.jobtok[x] = [p \in Jobs |-> IF p \in Parents[x] THEN f.port[p] ELSE 0]]
                                 [] ph = "t" -> [f EXCEPT !.next[x] = "e", !.staged[x] = [p \in Jobs |-> IF p \in Parents[x] THEN f.port[p] ELSE 0]]
                                 [] ph = "e" -> [f EXCEPT !.next[x] = "done", !.port[x] = g1]
                     IN /\ IF ph = "e"
                             THEN /\ gen' = [gen EXCEPT ![x] = g1]
                                  /\ avail' = [avail EXCEPT ![x][g1] = {Loc[x]}]
                                  /\ prov' = [prov EXCEPT ![x][g1] = {<<p, f.staged[x][p]>> : p \in Parents[x]} \cup {<<p, f.jobtok[x][p]>> : p \in Parents[x]}]
                             ELSE /\ avail' = IF ph = "t" THEN StagedAt(f, x) ELSE avail
                                  /\ UNCHANGED <<gen, prov>>
                        /\ stk' = IF Len(stk) > 1 /\ f.fj = x /\ f.upto = ph THEN Pop(stk, f1, x, ph) ELSE SetTop(f1)
                        /\ cur' = IF ph = "e" THEN "none" ELSE x
                        /\ status' = IF Len(stk') = 1 /\ \A y \in Jobs : stk'[1].next[y] = "done" THEN "done" ELSE "running"

Finalize == /\ status \in {"done", "raised"} /\ status' = "final"
            /\ UNCHANGED <<lim, dummy, plan, budget, kind, lose, stk, cur, gen, avail, prov, version, attempts, hist, failedEver, lostEver, stale, superseded, natural2>>

Next == (\E x \in Jobs : RunPhase(x)) \/ Finalize
Spec == Init /\ [][Next]_vars /\ WF_vars(Next)

\* ------------------------------------------------------------------------------------------
\* Properties
Execs(x) == attempts[x]["e"]
TypeOK == /\ status \in {"running", "done", "raised", "final"}
          /\ cur \in Jobs \cup {"none"}
          /\ \A x \in Jobs : gen[x] \in Gens
\* C17: retries are bounded
VersionBound == \A x \in Jobs : version[x] <= lim
ExecBound == \A x \in Jobs : \A ph \in PhSet : attempts[x][ph] <= lim
DummyFirstFailure == dummy /\ status \in {"raised", "final"} => \A x \in Jobs : \A ph \in PhSet : attempts[x][ph] <= 1
\* C17: a (job, phase) that is reached and fails at least `lim` times makes the run raise; with the dummy manager any failure does
ExhaustedRaises == status = "done" => /\ \A k \in Jobs \X PhSet : plan[k] - budget[k] < lim
                                      /\ dummy => \A k \in Jobs \X PhSet : plan[k] = budget[k]
\* C17 (L): every run ends (returns or raises) - no livelock
Terminates == <>(status = "final")
\* C16: a run that completes has its output available
OutputThere == status = "done" => avail[Sink][stk[1].port[Sink]] # {}
\* C18: a job runs a phase twice only if it failed itself or one of its instances was lost when a consumer needed it
OnlyNeeded == \A x \in Jobs : (\E ph \in PhSet : attempts[x][ph] > 1) => x \in failedEver \cup lostEver
=============================================================================
