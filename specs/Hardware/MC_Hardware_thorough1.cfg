CONSTANTS MaxCM = 3  Sizes = {0, 1, 3}  SmallSizes = {0, 2}  NMounts = 3  MaxStA = 2  MaxStB = 2
INIT Init
NEXT Next
VIEW View
INVARIANT Domain
INVARIANT NormalizedA
INVARIANT NormalizedB
INVARIANT AddLaw
INVARIANT AddSubLaw
INVARIANT SubLaw
INVARIANT SatisfiesLaw
INVARIANT OrLaw
INVARIANT AddCommutes
INVARIANT ReservePairs
INVARIANT Emit
