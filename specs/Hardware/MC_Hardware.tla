---------------------------- MODULE MC_Hardware ----------------------------
(* Exhaustive check of the laws of Hardware.tla on a bounded domain of pairs (a, b), and emission of
   every pair with the model's result of every operator (translation validation against the real
   classes).  The "state machine" is the enumeration: an initial state per a, one transition to every pair.

   Domain.  A storage map is a sequence of at most MaxSt* entries; an entry has a mount point out of
   the first NMounts of MountSeq, a size out of Sizes and is either filed under its mount point
   (key = mount) or under an aliasing key k<i> (key # mount, with a path and a bind).  Entry order is
   canonical (non-decreasing rank), keys are distinct.
     family "st":  every pair of storage maps (|a| <= MaxStA, |b| <= MaxStB), cores/memory = CMMain
     family "cm":  every (cores_a, memory_a, cores_b, memory_b) in (0..MaxCM)^4 with the pairs of the
                   small storage maps (at most one entry, key = mount, sizes SmallSizes)                          *)
EXTENDS Hardware, TLC, Json
CONSTANTS MaxCM, Sizes, SmallSizes, NMounts, MaxStA, MaxStB
VARIABLES a, b, fam

MountSeq == <<"/", "/m1", "/m2">>
AliasKeys == <<"k1", "k2", "k3">>
PathNames == <<"/p1", "/p2", "/p3">>
BindNames == <<"/b1", "/b2", "/b3">>

Kind(sz) == [m : 1..NMounts, size : sz, alias : BOOLEAN]
Rank(k) == k.m * 1000 + k.size * 2 + (IF k.alias THEN 1 ELSE 0)

RECURSIVE KindSeqs(_, _)
KindSeqs(n, sz) ==
    IF n = 0 THEN {<<>>}
    ELSE {Append(p[1], p[2]) : p \in {q \in KindSeqs(n - 1, sz) \X Kind(sz) :
                                        \/ n = 1
                                        \/ /\ Rank(q[1][n - 1]) <= Rank(q[2])
                                           /\ \A i \in 1..(n - 1) :
                                                ~(~q[1][i].alias /\ ~q[2].alias /\ q[1][i].m = q[2].m)}}
KindSeqsUpTo(n, sz) == UNION {KindSeqs(k, sz) : k \in 0..n}

ToStorage(s) == [i \in 1..Len(s) |->
                   [key |-> IF s[i].alias THEN AliasKeys[i] ELSE MountSeq[s[i].m],
                    mount |-> MountSeq[s[i].m], size |-> s[i].size,
                    paths |-> IF s[i].alias THEN {PathNames[i]} ELSE {},
                    bind |-> IF s[i].alias THEN BindNames[i] ELSE None]]

CMMain == <<2, 3, 1, 3>>
CMAll == (0..MaxCM) \X (0..MaxCM) \X (0..MaxCM) \X (0..MaxCM)

StA == KindSeqsUpTo(MaxStA, Sizes)
StB == KindSeqsUpTo(MaxStB, Sizes)
StSmall == {s \in KindSeqsUpTo(1, SmallSizes) : \A i \in 1..Len(s) : ~s[i].alias}

\* Two levels, so that TLC's workers share the enumeration: an initial state fixes a (and the family),
\* its successors are the pairs (a, b); the laws are evaluated on the pairs.
Unset == [cores |-> 0, memory |-> 0, storage |-> <<>>]         \* not a hardware value (Mk never builds it)
Init == /\ b = Unset
        /\ \/ \E sa \in StA : a = Mk(CMMain[1], CMMain[2], ToStorage(sa)) /\ fam = "st"
           \/ \E c \in 0..MaxCM, m \in 0..MaxCM, sa \in StSmall : a = Mk(c, m, ToStorage(sa)) /\ fam = "cm"
PickB == /\ b = Unset
         /\ \/ fam = "st" /\ \E sb \in StB : b' = Mk(CMMain[3], CMMain[4], ToStorage(sb))
            \/ fam = "cm" /\ \E c \in 0..MaxCM, m \in 0..MaxCM, sb \in StSmall : b' = Mk(c, m, ToStorage(sb))
         /\ UNCHANGED <<a, fam>>
Next == PickB
IsPair == b # Unset
View == <<a, b>>                                  \* a pair reached through both families is one state

-----------------------------------------------------------------------------
Domain == IsPair => WellFormed(a) /\ WellFormed(b)
NormalizedA == IsPair => LawNormalized(a)
NormalizedB == IsPair => LawNormalized(b)
AddLaw == IsPair => LawAdd(a, b)
AddSubLaw == IsPair => LawAddSub(a, b)
SubLaw == IsPair => LawSub(a, b)
SatisfiesLaw == IsPair => LawSatisfies(a, b)
OrLaw == IsPair => LawOr(a, b)
\* the reservation law (see MC_Hardware3 for triples) on the instance capacity a, used b, requirement b
ReservePairs == IsPair => LawReserve(a, b, b)
AddCommutes == IsPair => \A m \in AllMounts(a, b) : Total(Add(a, b).val.storage, m) = Total(Add(b, a).val.storage, m)

-----------------------------------------------------------------------------
(* emission: compact JSON, hardware = [cores, memory, [[key, mount, size, [paths], bind], ...]] *)
StJ(st) == [i \in 1..Len(st) |-> <<st[i].key, st[i].mount, st[i].size, st[i].paths, st[i].bind>>]
HwJ(h) == <<h.cores, h.memory, StJ(h.storage)>>
ResJ(r) == IF r.ok THEN <<"ok", HwJ(r.val)>> ELSE <<"err", r.err>>
StResJ(r) == IF r.ok THEN <<"ok", StJ(<<r.val>>)[1]>> ELSE <<"err", r.err>>
BoolJ(r) == IF r.ok THEN <<"ok", r.val>> ELSE <<"err", r.err>>
Case == [a |-> HwJ(a), b |-> HwJ(b),
         isnorm |-> IsNormalized(a), norm |-> ResJ(Normalized(a)),
         add |-> ResJ(Add(a, b)), sub |-> ResJ(Sub(a, b)), or |-> ResJ(Or(a, b)),
         sat |-> BoolJ(Satisfies(a, b)), addsub |-> ResJ(Sub(Add(a, b).val, b)),
         \* Storage-level operators on the first entries
         stadd |-> StResJ(StAdd(a.storage[1], b.storage[1])), stsub |-> StResJ(StSub(a.storage[1], b.storage[1])),
         stor |-> StResJ(StOr(a.storage[1], b.storage[1])),
         \* the subtraction is covered by the statement only when a has every mount point of b
         substrict |-> Mounts(b.storage) \subseteq Mounts(a.storage)]
Emit == IsPair => PrintT(ToJson(Case))
=============================================================================
