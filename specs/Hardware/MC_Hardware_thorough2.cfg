CONSTANTS MaxCM = 1  Sizes = {0, 2}  SmallSizes = {0, 2}  NMounts = 3  MaxStA = 3  MaxStB = 2
INIT Init
NEXT Next
VIEW View
INVARIANT Domain
INVARIANT NormalizedA
INVARIANT NormalizedB
INVARIANT AddLaw
INVARIANT AddSubLaw
INVARIANT SubLaw
INVARIANT SatisfiesLaw
INVARIANT OrLaw
INVARIANT AddCommutes
INVARIANT ReservePairs
INVARIANT Emit
