---------------------------- MODULE MC_Hardware3 ----------------------------
(* The law the scheduler relies on (`_is_valid` then `_allocate_job`, `_free_resources`), on triples:
   if the free part (c - u) of a capacity c satisfies a requirement r, then u + r still fits in c and
   (u + r) - r restores u on every mount point.  One initial state per triple.                     *)
EXTENDS Hardware, TLC
CONSTANTS Sizes, NMounts, Cores, CoresUR
VARIABLES c, u, r, reserved

MountSeq == <<"/", "/m1", "/m2">>
AliasKeys == <<"k1", "k2", "k3">>
Kind == [m : 1..NMounts, size : Sizes, alias : BOOLEAN]
Rank(k) == k.m * 1000 + k.size * 2 + (IF k.alias THEN 1 ELSE 0)
Pairs == {<<>>} \cup {<<k>> : k \in Kind}
         \cup {<<k1, k2>> : <<k1, k2>> \in {q \in Kind \X Kind : Rank(q[1]) <= Rank(q[2])
                                              /\ ~(~q[1].alias /\ ~q[2].alias /\ q[1].m = q[2].m)}}
Singles == {<<>>} \cup {<<k>> : k \in Kind}
ToStorage(s) == [i \in 1..Len(s) |->
                   [key |-> IF s[i].alias THEN AliasKeys[i] ELSE MountSeq[s[i].m],
                    mount |-> MountSeq[s[i].m], size |-> s[i].size, paths |-> {}, bind |-> None]]
\* One initial state per triple; a triple has a successor iff the antecedent of the law holds for it (so
\* that the number of states at depth 2 counts the non-vacuous instances).
Antecedent == LET free == Sub(c, u) IN free.ok /\ Satisfies(free.val, r) = Ok(TRUE)
Init == /\ \E x \in Cores, s \in Pairs : c = Mk(x, x, ToStorage(s))
        /\ \E x \in CoresUR, s \in Singles : u = Mk(x, x, ToStorage(s))
        /\ \E x \in CoresUR, s \in Singles : r = Mk(x, x, ToStorage(s))
        /\ reserved = FALSE
Next == ~reserved /\ Antecedent /\ reserved' = TRUE /\ UNCHANGED <<c, u, r>>
Reserve == LawReserve(c, u, r)
=============================================================================
