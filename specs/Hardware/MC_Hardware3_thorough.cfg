CONSTANTS Sizes = {0, 1, 2}  NMounts = 2  Cores = {0, 1, 2}  CoresUR = {0, 1, 2}
INIT Init
NEXT Next
INVARIANT Reserve
