------------------------------ MODULE Hardware ------------------------------
(* Hardware / Storage arithmetic of `streamflow/core/scheduling.py`, transcribed operator by operator.

   Numbers are integers (quarter units): the harness multiplies them by 1/4 when it builds the real
   objects, i.e. dyadic rationals that floats represent exactly.

   A Storage is a record  [key, mount, size, paths, bind]  (`key` = the key under which it sits in
   `Hardware.storage`; bind = "none" for None).  `Hardware.storage` is a Python dict, i.e. an *ordered*
   map with distinct keys: it is the sequence `storage` of such records in insertion order (the order
   only decides whose `bind` a merged storage keeps, exactly as in `_reduce_storages`).

   Every operator returns a result record  [ok |-> TRUE, val |-> v]  or  [ok |-> FALSE, err |-> class].

       Storage(...)               -> MkStorage        size < 0 : WorkflowExecutionException
       Storage.__add__/__sub__/__or__/__ior__  -> StAdd / StSub / StOr   (different mounts: ArithmeticError)
       _reduce_storages           -> Reduce
       Hardware(...)              -> Mk               (empty storage map -> {"/": Storage("/", 0)})
       _normalize_storage / normalized / is_normalized -> NormStorage / Normalized / IsNormalized
       __add__ / __sub__ / __or__ (__ior__ on a deep copy) -> Add / Sub / Or
       satisfies                  -> Satisfies        (val \in BOOLEAN, or WorkflowExecutionException)

   The laws of the property (C14) are stated at the end over these operators; MC_Hardware checks them
   on a whole bounded domain.                                                                      *)
EXTENDS Integers, Sequences, FiniteSets

None == "none"
Root == "/"
WFE == "WorkflowExecutionException"
ARITH == "ArithmeticError"

Ok(v) == [ok |-> TRUE, val |-> v]
Err(e) == [ok |-> FALSE, err |-> e]
Max(x, y) == IF x >= y THEN x ELSE y

-----------------------------------------------------------------------------
(* Storage *)
MkStorage(key, mount, size, paths, bind) ==
    IF size < 0 THEN Err(WFE)
    ELSE Ok([key |-> key, mount |-> mount, size |-> size, paths |-> paths, bind |-> bind])

\* x op y : a *new* storage (kept under x's key), bind of x, union of the paths
StBin(x, y, size) == IF x.mount # y.mount THEN Err(ARITH)
                     ELSE MkStorage(x.key, x.mount, size, x.paths \cup y.paths, x.bind)
StAdd(x, y) == StBin(x, y, x.size + y.size)
StSub(x, y) == StBin(x, y, x.size - y.size)
StOr(x, y) == StBin(x, y, Max(x.size, y.size))
StOp(op, x, y) == CASE op = "add" -> StAdd(x, y) [] op = "sub" -> StSub(x, y) [] op = "or" -> StOr(x, y)

-----------------------------------------------------------------------------
(* ordered maps as sequences of records with a `key` field *)
RECURSIVE IndexOf(_, _, _)
IndexOf(seq, k, i) == IF i > Len(seq) THEN 0 ELSE IF seq[i].key = k THEN i ELSE IndexOf(seq, k, i + 1)
Keys(seq) == {seq[i].key : i \in 1..Len(seq)}
Mounts(seq) == {seq[i].mount : i \in 1..Len(seq)}

RECURSIVE SumSizes(_, _, _)
SumSizes(seq, m, i) == IF i > Len(seq) THEN 0
                       ELSE (IF seq[i].mount = m THEN seq[i].size ELSE 0) + SumSizes(seq, m, i + 1)
\* the amount a storage map holds on mount point m (0 when the mount point does not occur)
Total(seq, m) == SumSizes(seq, m, 1)

\* _reduce_storages(storages, operator): fold into a map keyed by mount point, first occurrence copied
RECURSIVE ReduceInto(_, _, _)
ReduceInto(acc, disks, op) ==
    IF disks = <<>> THEN Ok(acc)
    ELSE LET d == Head(disks)
             i == IndexOf(acc, d.mount, 1)
         IN IF i = 0
            THEN LET c == MkStorage(d.mount, d.mount, d.size, d.paths, d.bind)
                 IN IF c.ok THEN ReduceInto(Append(acc, c.val), Tail(disks), op) ELSE c
            ELSE LET r == StOp(op, acc[i], d)
                 IN IF r.ok THEN ReduceInto([acc EXCEPT ![i] = r.val], Tail(disks), op) ELSE r
Reduce(disks, op) == ReduceInto(<<>>, disks, op)

-----------------------------------------------------------------------------
(* Hardware *)
DefaultStorage == << [key |-> Root, mount |-> Root, size |-> 0, paths |-> {}, bind |-> None] >>
Mk(c, m, st) == [cores |-> c, memory |-> m, storage |-> IF st = <<>> THEN DefaultStorage ELSE st]

NormStorage(h) == Reduce(h.storage, "add")          \* cannot fail on well-formed hardware
IsNormalized(h) == \A i \in 1..Len(h.storage) : h.storage[i].key = h.storage[i].mount
Normalized(h) == LET n == NormStorage(h) IN IF n.ok THEN Ok(Mk(h.cores, h.memory, n.val)) ELSE n

Arith(a, b, op, c, m) ==
    LET na == NormStorage(a)
        nb == NormStorage(b)
    IN IF ~na.ok THEN na ELSE IF ~nb.ok THEN nb
       ELSE LET r == Reduce(na.val \o nb.val, op)
            IN IF r.ok THEN Ok(Mk(c, m, r.val)) ELSE r
Add(a, b) == Arith(a, b, "add", a.cores + b.cores, a.memory + b.memory)
Sub(a, b) == Arith(a, b, "sub", a.cores - b.cores, a.memory - b.memory)

\* __or__: deep copy of a; cores and memory are ADDED (as coded); every key of b is merged with `|=`
\* (max of the sizes, union of the paths, same key with another mount point: ArithmeticError) or appended
RECURSIVE OrInto(_, _)
OrInto(acc, disks) ==
    IF disks = <<>> THEN Ok(acc)
    ELSE LET d == Head(disks)
             i == IndexOf(acc, d.key, 1)
         IN IF i = 0 THEN OrInto(Append(acc, d), Tail(disks))
            ELSE LET r == StOr(acc[i], d)
                 IN IF r.ok THEN OrInto([acc EXCEPT ![i] = r.val], Tail(disks)) ELSE r
Or(a, b) == LET r == OrInto(a.storage, b.storage)
            IN IF r.ok THEN Ok(Mk(a.cores + b.cores, a.memory + b.memory, r.val)) ELSE r

\* satisfies: cores and memory first (short circuit), then every mount point of the requirement
Satisfies(a, b) ==
    IF a.cores >= b.cores /\ a.memory >= b.memory
    THEN LET na == NormStorage(a).val
             nb == NormStorage(b).val
         IN IF Mounts(nb) \ Mounts(na) # {} THEN Err(WFE)
            ELSE Ok(\A i \in 1..Len(nb) : na[IndexOf(na, nb[i].mount, 1)].size >= nb[i].size)
    ELSE Ok(FALSE)

-----------------------------------------------------------------------------
(* What the property says, independently of how the operators compute it *)
WellFormed(h) == /\ Len(h.storage) >= 1
                 /\ \A i, j \in 1..Len(h.storage) : i # j => h.storage[i].key # h.storage[j].key
                 /\ \A i \in 1..Len(h.storage) : h.storage[i].size >= 0
AllMounts(a, b) == Mounts(a.storage) \cup Mounts(b.storage)

\* normalisation is idempotent, gives the normal form (key = mount point, one storage per mount point)
\* and preserves cores, memory and the total of every mount point
LawNormalized(h) ==
    LET n == Normalized(h) IN
    /\ n.ok /\ IsNormalized(n.val) /\ WellFormed(n.val)
    /\ \A i, j \in 1..Len(n.val.storage) : i # j => n.val.storage[i].mount # n.val.storage[j].mount
    /\ Normalized(n.val) = n
    /\ n.val.cores = h.cores /\ n.val.memory = h.memory
    /\ Mounts(n.val.storage) = Mounts(h.storage)
    /\ \A m \in Mounts(h.storage) : Total(n.val.storage, m) = Total(h.storage, m)
    /\ (IsNormalized(h) => n.val = h)

\* a + b is normalised and holds the sum on every mount point
LawAdd(a, b) ==
    LET s == Add(a, b) IN
    /\ s.ok /\ IsNormalized(s.val)
    /\ s.val.cores = a.cores + b.cores /\ s.val.memory = a.memory + b.memory
    /\ Mounts(s.val.storage) = AllMounts(a, b)
    /\ \A m \in AllMounts(a, b) : Total(s.val.storage, m) = Total(a.storage, m) + Total(b.storage, m)

\* (a + b) - b restores a on every mount point (and never fails)
LawAddSub(a, b) ==
    LET s == Add(a, b)
        d == Sub(s.val, b) IN
    /\ d.ok /\ IsNormalized(d.val)
    /\ d.val.cores = a.cores /\ d.val.memory = a.memory
    /\ \A m \in AllMounts(a, b) : Total(d.val.storage, m) = Total(a.storage, m)

\* a - b, when every mount point of b exists in a: the difference per mount point, or the defined error
\* when some difference would be negative
LawSub(a, b) ==
    Mounts(b.storage) \subseteq Mounts(a.storage) =>
        LET d == Sub(a, b) IN
        IF \A m \in Mounts(a.storage) : Total(a.storage, m) >= Total(b.storage, m)
        THEN /\ d.ok /\ IsNormalized(d.val)
             /\ d.val.cores = a.cores - b.cores /\ d.val.memory = a.memory - b.memory
             /\ \A m \in Mounts(a.storage) : Total(d.val.storage, m) = Total(a.storage, m) - Total(b.storage, m)
        ELSE d = Err(WFE)

\* a satisfies b  <=>  at least as large in cores, memory and every mount point of b
Enough(a, b) == /\ a.cores >= b.cores /\ a.memory >= b.memory
                /\ \A m \in Mounts(b.storage) : m \in Mounts(a.storage) /\ Total(a.storage, m) >= Total(b.storage, m)
LawSatisfies(a, b) ==
    LET s == Satisfies(a, b) IN
    /\ (s.ok /\ s.val) <=> Enough(a, b)
    /\ ~s.ok <=> (a.cores >= b.cores /\ a.memory >= b.memory /\ ~(Mounts(b.storage) \subseteq Mounts(a.storage)))
    /\ Satisfies(Add(a, b).val, b) = Ok(TRUE)
    /\ (s.ok /\ s.val) => Sub(a, b).ok               \* what satisfies can be reserved

\* what the scheduler relies on: if the free part of capacity c (used u) satisfies r, then r can be
\* reserved (u + r still fits in c) and releasing it restores u
LawReserve(c, u, r) ==
    LET free == Sub(c, u) IN
    (free.ok /\ Satisfies(free.val, r) = Ok(TRUE)) =>
        LET u2 == Add(u, r).val IN
        /\ Sub(c, u2).ok
        /\ \A m \in Mounts(u.storage) \cup Mounts(r.storage) :
              Total(Sub(u2, r).val.storage, m) = Total(u.storage, m)

\* a | b keeps a's keys (then b's new keys) and takes the larger size per key
LawOr(a, b) ==
    LET o == Or(a, b) IN
    IF \E i \in 1..Len(a.storage), j \in 1..Len(b.storage) :
          a.storage[i].key = b.storage[j].key /\ a.storage[i].mount # b.storage[j].mount
    THEN o = Err(ARITH)
    ELSE /\ o.ok /\ Keys(o.val.storage) = Keys(a.storage) \cup Keys(b.storage)
         /\ \A i \in 1..Len(o.val.storage) :
              LET k == o.val.storage[i].key
                  ia == IndexOf(a.storage, k, 1)
                  ib == IndexOf(b.storage, k, 1)
              IN o.val.storage[i].size = Max(IF ia = 0 THEN 0 ELSE a.storage[ia].size,
                                             IF ib = 0 THEN 0 ELSE b.storage[ib].size)
=============================================================================
