CONSTANTS Sizes = {0, 2}  NMounts = 2  Cores = {2}  CoresUR = {1}
INIT Init
NEXT Next
INVARIANT Reserve
