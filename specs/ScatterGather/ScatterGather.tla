---------------------------- MODULE ScatterGather ----------------------------
(* C01 - scatter then gather is the identity on (nested) lists.

   Code modelled (streamflow/workflow/step.py):
     ScatterStep._scatter   element i of the list tagged T is retagged T.i and put on the element
                            port, then the size token (n, T) is put on the size port
     an element-wise stage  anything between scatter and gather that treats elements independently
                            (jobs finishing in any order): forwards the elements in ANY permutation
                            and terminates after the last one - or FAILS after any subset
     GatherStep.run         size_map / token_map / keys_completed, the two read cursors, the
                            per-port termination tokens, the forced gather at end of stream,
                            terminate();   GatherStep._gather sorts with compare_tags = Tags!Less

   One list (tag "0" = <<0>>) of nesting depth D is scattered by a chain of D ScatterSteps.  Two
   gather wirings (both produced by the CWL translator):
     Mode = "chained"   D GatherSteps of depth 1; gather g collects tags of length g+1 into lists
                        tagged by their prefix; its size port is the size port of scatter g
                        (nested_crossproduct, scatter inside scatter)
     Mode = "flat"      one GatherStep with depth = D whose size token carries the total number of
                        leaves (flat_crossproduct: the size transformer multiplies the sizes)

   Atomicity (DESIGN 3.5): a GatherStep is ONE coroutine; it reacts to one token at a time (the
   awaits inside `_gather` suspend only that coroutine, later tokens wait in the port queues).  The
   order in which it consumes tokens of ONE port is the order of the puts; the interleaving between
   its two ports is free (asyncio.wait may return either get task first).  Therefore an arrival and
   its consumption are one action here: RecvSize / RecvElem / TermSize / TermElem / Finish.  The
   scatter's puts are separated by database awaits, but they go to two FIFO ports in a fixed order,
   which no consumer can tell apart from one atomic `Scatter` followed by delayed arrivals.

   Paths: a node of the nested list is the sequence of its 0-based indexes; its tag is <<0>> \o path.
   `shape` (chosen in Init from the constant ShapeSet, never changed) is the nested sequence whose
   leaves are <<>>: a list of three scalars is << <<>>, <<>>, <<>> >>.                             *)
EXTENDS Tags, TLC

CONSTANTS D,           \* nesting depth (number of chained scatters), 1..3
          Mode,        \* "chained" | "flat"
          ShapeSet,    \* the input lists explored (set of nested sequences of depth D)
          SizeTermSt,  \* statuses the size port may terminate with   (subset of {"completed","skipped"})
          ElemTermSt,  \* statuses the element stream may terminate with ("completed","skipped","failed")
          Drop,        \* TRUE: the size port may terminate without delivering size tokens of non-empty lists
          OrderFor(_), \* shape -> set of prescribed delivery orders of the leaves (sequences of paths); <<>> = any order
          Eager,       \* TRUE: arrivals at the gathers start after all scatters ran (generation configs)
          Record       \* TRUE: keep the history of gather events in `hist` (generation configs)

VARIABLES shape,
          dord,        \* the prescribed delivery order chosen in Init (<<>>: the reordering stage is free)
          outElem,     \* k \in 0..D -> Seq(path): element port log of scatter k (0: the workflow input)
          outSize,     \* k \in 1..D -> Seq([path, n]): size port log of scatter k
          sc,          \* k \in 1..D -> number of lists scatter k has consumed from outElem[k-1]
          aggSize,     \* flat mode: log of the port carrying the total size token
          eDel,        \* leaves already delivered to the last gather (any order: the reordering stage)
          sDel,        \* g -> indexes of the size log already delivered to gather g
          tS,          \* g -> "none" | status : termination token consumed on the size port
          tE,          \* g -> "none" | status : termination token consumed on the element port
          sm,          \* g -> size_map   : key tag -> expected number of elements
          tm,          \* g -> token_map  : key tag -> Seq(token) in arrival order
          tmo,         \* g -> Seq(key)   : insertion order of token_map (the forced gather iterates it)
          kc,          \* g -> keys_completed
          st,          \* g -> the local variable `status` of GatherStep.run
          rd,          \* g -> number of tokens gather g consumed from the output of gather g+1 (chained)
          out,         \* g -> Seq([tag, val, forced]) : token_list of the gather's output port
          fin,         \* g -> "none" | status the step terminated with (TerminationToken on its output)
          hist

vars == <<shape, dord, outElem, outSize, sc, aggSize, eDel, sDel, tS, tE, sm, tm, tmo, kc, st, rd, out, fin, hist>>

Root == <<0>>
TagOf(p) == Root \o p
NG == IF Mode = "chained" THEN D ELSE 1            \* number of gather steps
GDepth(g) == IF Mode = "chained" THEN 1 ELSE D     \* GatherStep.depth
Last == NG                                          \* the gather fed by the element-wise stage

---------------------------------------------------------------------------
(* The input list and what the property expects (declarative layer). *)
RECURSIVE Sub(_, _)
Sub(sh, p) == IF p = <<>> THEN sh ELSE Sub(sh[Head(p) + 1], Tail(p))
NKids(p) == Len(Sub(shape, p))
RECURSIVE PathsAt(_)
PathsAt(k) == IF k = 0 THEN {<<>>}
              ELSE UNION {{Append(p, i) : i \in 0..(NKids(p) - 1)} : p \in PathsAt(k - 1)}
Leaves == PathsAt(D)
LeafVal(p) == [leaf |-> p]
RECURSIVE ListVal(_)
ListVal(p) == IF Len(p) = D THEN LeafVal(p)
              ELSE [i \in 1..NKids(p) |-> ListVal(Append(p, i - 1))]
RECURSIVE Flatten(_)
Flatten(p) == IF Len(p) = D THEN <<LeafVal(p)>>
              ELSE LET RECURSIVE Cat(_)
                       Cat(i) == IF i > NKids(p) THEN <<>> ELSE Flatten(Append(p, i - 1)) \o Cat(i + 1)
                   IN Cat(1)
\* the lists gather g must rebuild, and their values
Keys(g) == IF Mode = "chained" THEN PathsAt(g - 1) ELSE {<<>>}
Expect(g, p) == IF Mode = "chained" THEN ListVal(p) ELSE Flatten(<<>>)

\* All shapes of depth d whose nodes have lo..hi children (for the MC configs)
RECURSIVE Shapes(_, _, _)
Shapes(d, lo, hi) == IF d = 0 THEN {<<>>}
                     ELSE UNION {[1..n -> Shapes(d - 1, lo, hi)] : n \in lo..hi}
Flat(n) == [i \in 1..n |-> <<>>]                    \* a list of n scalars

---------------------------------------------------------------------------
Init ==
  /\ shape \in ShapeSet
  /\ dord \in OrderFor(shape)
  /\ outElem = [k \in 0..D |-> IF k = 0 THEN << <<>> >> ELSE <<>>]
  /\ outSize = [k \in 1..D |-> <<>>]
  /\ sc = [k \in 1..D |-> 0]
  /\ aggSize = <<>>
  /\ eDel = {}
  /\ sDel = [g \in 1..NG |-> {}]
  /\ tS = [g \in 1..NG |-> "none"]
  /\ tE = [g \in 1..NG |-> "none"]
  /\ sm = [g \in 1..NG |-> <<>>]
  /\ tm = [g \in 1..NG |-> <<>>]
  /\ tmo = [g \in 1..NG |-> <<>>]
  /\ kc = [g \in 1..NG |-> {}]
  /\ st = [g \in 1..NG |-> "skipped"]
  /\ rd = [g \in 1..NG |-> 0]
  /\ out = [g \in 1..NG |-> <<>>]
  /\ fin = [g \in 1..NG |-> "none"]
  /\ hist = <<>>

---------------------------------------------------------------------------
(* Scatter chain.  ScatterStep.run: one list token at a time, in the order of its input port. *)
ScDone(k) == \A j \in 1..k : sc[j] = Len(outElem[j - 1])
AllScattered == ScDone(D) /\ (Mode = "flat" => aggSize # <<>>)

Scatter(k) ==
  /\ sc[k] < Len(outElem[k - 1])
  /\ LET p == outElem[k - 1][sc[k] + 1]
         n == NKids(p)
     IN /\ outElem' = [outElem EXCEPT ![k] = @ \o [i \in 1..n |-> Append(p, i - 1)]]   \* retag T.i, i = 0..n-1
        /\ outSize' = [outSize EXCEPT ![k] = Append(@, [path |-> p, n |-> n])]          \* then Token(n, tag = T)
  /\ sc' = [sc EXCEPT ![k] = @ + 1]
  /\ UNCHANGED <<shape, dord, aggSize, eDel, sDel, tS, tE, sm, tm, tmo, kc, st, rd, out, fin, hist>>

\* flat wiring: the size transformer emits the total once every size is known
Aggregate ==
  /\ Mode = "flat" /\ ScDone(D) /\ aggSize = <<>>
  /\ aggSize' = << [path |-> <<>>, n |-> Cardinality(Leaves)] >>
  /\ UNCHANGED <<shape, dord, outElem, outSize, sc, eDel, sDel, tS, tE, sm, tm, tmo, kc, st, rd, out, fin, hist>>

SizeLog(g) == IF Mode = "chained" THEN outSize[g] ELSE aggSize
SizeLogComplete(g) == IF Mode = "chained" THEN ScDone(g) ELSE aggSize # <<>>

---------------------------------------------------------------------------
(* GatherStep, literally. *)
None == 0 - 1
SetDefault(f, k, v) == IF k \in DOMAIN f THEN f ELSE f @@ (k :> v)
Touch(order, f, k) == IF k \in DOMAIN f THEN order ELSE Append(order, k)     \* dict insertion order
KeyOf(tag, depth) == SubSeq(tag, 1, Len(tag) - depth)                         \* tag.split(".")[:-depth]

\* _gather(key): ListToken(tag = key, value = sorted(token_map[key], key = compare_tags))
Gathered(tokens, key, forced) ==
  LET s == SortSeq(tokens, LAMBDA a, b : Less(a.tag, b.tag))
  IN [tag |-> key, val |-> [i \in 1..Len(s) |-> s[i].val], forced |-> forced]

\* _reduce_statuses([status, token.value]) restricted to COMPLETED / SKIPPED / FAILED
Reduce(a, b) == IF a = "failed" \/ b = "failed" THEN "failed"
                ELSE IF a = "skipped" /\ b = "skipped" THEN "skipped" ELSE "completed"

SetJ(S) == LET RECURSIVE F(_)
               F(X) == IF X = {} THEN <<>> ELSE LET m == CHOOSE x \in X : \A y \in X : Leq(x, y)
                                                IN <<m>> \o F(X \ {m})
           IN F(S)
Log(g, ev, tag, val) ==
  hist' = IF Record
          THEN Append(hist, [g |-> g, ev |-> ev, tag |-> tag, val |-> val,
                             out |-> [i \in 1..Len(out'[g]) |-> [tag |-> out'[g][i].tag, val |-> out'[g][i].val]],
                             smk |-> SetJ(DOMAIN sm'[g]), tmk |-> SetJ(DOMAIN tm'[g]),
                             fin |-> fin'[g]])
          ELSE hist

EnvOK == Eager => AllScattered

\* a size token is consumed
RecvSize(g, i) ==
  /\ EnvOK /\ tS[g] = "none" /\ i \in 1..Len(SizeLog(g)) /\ i \notin sDel[g]
  /\ LET tok == SizeLog(g)[i]
         key == TagOf(tok.path)
         tm1 == SetDefault(tm[g], key, <<>>)
         hit == Len(tm1[key]) = tok.n
     IN /\ sm' = [sm EXCEPT ![g] = (key :> tok.n) @@ @]
        /\ tm' = [tm EXCEPT ![g] = tm1]
        /\ tmo' = [tmo EXCEPT ![g] = Touch(@, tm[g], key)]
        /\ out' = [out EXCEPT ![g] = IF hit THEN Append(@, Gathered(tm1[key], key, FALSE)) ELSE @]
        /\ kc' = [kc EXCEPT ![g] = IF hit THEN @ \cup {key} ELSE @]
        /\ sDel' = [sDel EXCEPT ![g] = @ \cup {i}]
        /\ UNCHANGED <<shape, dord, outElem, outSize, sc, aggSize, eDel, tS, tE, st, rd, fin>>
        /\ Log(g, "size", key, tok.n)

\* an element token is consumed (shared by the two sources of elements)
ElemStep(g, tok) ==
  LET key == KeyOf(tok.tag, GDepth(g))
      tm0 == SetDefault(tm[g], key, <<>>)
      tm1 == [tm0 EXCEPT ![key] = Append(@, tok)]
      sizeValue == IF key \in DOMAIN sm[g] THEN sm[g][key] ELSE None
      hit == Len(tm1[key]) = sizeValue
  IN /\ tm' = [tm EXCEPT ![g] = tm1]
     /\ tmo' = [tmo EXCEPT ![g] = Touch(@, tm[g], key)]
     /\ out' = [out EXCEPT ![g] = IF hit THEN Append(@, Gathered(tm1[key], key, FALSE)) ELSE @]
     /\ kc' = [kc EXCEPT ![g] = IF hit THEN @ \cup {key} ELSE @]

\* the element-wise stage forwards leaf p (any order) to the last gather
RecvLeaf(p) ==
  /\ EnvOK /\ tE[Last] = "none" /\ p \notin eDel
  /\ dord # <<>> => (Cardinality(eDel) < Len(dord) /\ p = dord[Cardinality(eDel) + 1])
  /\ \E i \in 1..Len(outElem[D]) : outElem[D][i] = p
  /\ ElemStep(Last, [tag |-> TagOf(p), val |-> LeafVal(p)])
  /\ eDel' = eDel \cup {p}
  /\ UNCHANGED <<shape, dord, outElem, outSize, sc, aggSize, sDel, tS, tE, sm, st, rd, fin>>
  /\ Log(Last, "elem", TagOf(p), LeafVal(p))

\* chained wiring: gather g consumes the next list emitted by gather g+1
RecvInner(g) ==
  /\ g < NG /\ tE[g] = "none" /\ rd[g] < Len(out[g + 1])
  /\ LET o == out[g + 1][rd[g] + 1]
     IN /\ ElemStep(g, [tag |-> o.tag, val |-> o.val])
        /\ rd' = [rd EXCEPT ![g] = @ + 1]
        /\ UNCHANGED <<shape, dord, outElem, outSize, sc, aggSize, eDel, sDel, tS, tE, sm, st, fin>>
        /\ Log(g, "elem", o.tag, o.val)

\* termination token on the size port: after the size tokens (Drop: some never came)
TermSize(g, s) ==
  /\ EnvOK /\ tS[g] = "none" /\ s \in SizeTermSt /\ SizeLogComplete(g)
  /\ \A i \in 1..Len(SizeLog(g)) : i \in sDel[g] \/ (Drop /\ SizeLog(g)[i].n > 0)
  /\ tS' = [tS EXCEPT ![g] = s]
  /\ st' = [st EXCEPT ![g] = Reduce(@, s)]
  /\ UNCHANGED <<shape, dord, outElem, outSize, sc, aggSize, eDel, sDel, tE, sm, tm, tmo, kc, rd, out, fin>>
  /\ Log(g, "termS", <<>>, s)

\* termination token on the element port of the last gather: after every element, or FAILED at any time
TermLeaf(s) ==
  /\ EnvOK /\ tE[Last] = "none" /\ s \in ElemTermSt
  /\ s # "failed" => (ScDone(D) /\ eDel = Leaves)
  /\ tE' = [tE EXCEPT ![Last] = s]
  /\ st' = [st EXCEPT ![Last] = Reduce(@, s)]
  /\ UNCHANGED <<shape, dord, outElem, outSize, sc, aggSize, eDel, sDel, tS, sm, tm, tmo, kc, rd, out, fin>>
  /\ Log(Last, "termE", <<>>, s)

\* chained wiring: the inner gather terminated and all its lists were consumed
TermInner(g) ==
  /\ g < NG /\ tE[g] = "none" /\ fin[g + 1] # "none" /\ rd[g] = Len(out[g + 1])
  /\ tE' = [tE EXCEPT ![g] = fin[g + 1]]
  /\ st' = [st EXCEPT ![g] = Reduce(@, fin[g + 1])]
  /\ UNCHANGED <<shape, dord, outElem, outSize, sc, aggSize, eDel, sDel, tS, sm, tm, tmo, kc, rd, out, fin>>
  /\ Log(g, "termE", <<>>, fin[g + 1])

\* both ports terminated: forced gather of the keys not completed (unless FAILED), then terminate()
RECURSIVE Forced(_, _, _, _)
Forced(g, order, o, s) ==        \* returns <<out log, size_map>>
  IF order = <<>> THEN <<o, s>>
  ELSE LET key == Head(order)
       IN IF key \in kc[g] THEN Forced(g, Tail(order), o, s)
          ELSE Forced(g, Tail(order), Append(o, Gathered(tm[g][key], key, TRUE)),
                      (key :> Len(tm[g][key])) @@ s)
Finish(g) ==
  /\ tS[g] # "none" /\ tE[g] # "none" /\ fin[g] = "none"
  /\ LET r == IF st[g] # "failed" THEN Forced(g, tmo[g], out[g], sm[g]) ELSE <<out[g], sm[g]>>
     IN /\ out' = [out EXCEPT ![g] = r[1]]
        /\ sm' = [sm EXCEPT ![g] = r[2]]
        /\ fin' = [fin EXCEPT ![g] = IF st[g] = "failed" THEN "failed"              \* _get_status
                                     ELSE IF r[1] = <<>> THEN "skipped" ELSE st[g]]
  /\ UNCHANGED <<shape, dord, outElem, outSize, sc, aggSize, eDel, sDel, tS, tE, tm, tmo, kc, st, rd>>
  /\ Log(g, "finish", <<>>, st[g])

RecvSizeAny(g) == \E i \in 1..Len(SizeLog(g)) : RecvSize(g, i)
RecvLeafAny == \E p \in {outElem[D][i] : i \in 1..Len(outElem[D])} : RecvLeaf(p)
Next ==
  \/ \E k \in 1..D : Scatter(k)
  \/ Aggregate
  \/ \E g \in 1..NG : \/ RecvSizeAny(g)
                      \/ \E s \in SizeTermSt : TermSize(g, s)
                      \/ RecvInner(g) \/ TermInner(g) \/ Finish(g)
  \/ RecvLeafAny
  \/ \E s \in ElemTermSt : TermLeaf(s)

Spec == Init /\ [][Next]_vars
FairSpec == Spec /\ WF_vars(Next)

---------------------------------------------------------------------------
(* Properties *)
AllFin == \A g \in 1..NG : fin[g] # "none"
Failed == tE[Last] = "failed"
Count(g, tag) == Cardinality({i \in 1..Len(out[g]) : out[g][i].tag = tag})

\* I1: every emitted list token is one of the original lists: its tag, its elements, their order
I1_Identity == \A g \in 1..NG : \A i \in 1..Len(out[g]) :
                 \E p \in Keys(g) : out[g][i].tag = TagOf(p) /\ out[g][i].val = Expect(g, p)
\* I2: at most one output per key
I2_AtMostOnce == \A g \in 1..NG : \A i, j \in 1..Len(out[g]) : out[g][i].tag = out[g][j].tag => i = j
\* I3: nothing is gathered by force when the stream FAILED (complete lists gathered before are fine, by I1)
I3_NoForcedOnFailure == \A g \in 1..NG : st[g] = "failed" => \A i \in 1..Len(out[g]) : ~out[g][i].forced
\* L1: exactly one output per input list (including the empty ones) when nothing failed
Complete == AllFin /\ (~Failed => \A g \in 1..NG : \A p \in Keys(g) : Count(g, TagOf(p)) = 1)
L1_ExactlyOne == <>[]Complete
\* the same as an invariant: every action consumes something, so behaviours are finite and, under weak
\* fairness, end in a state without successor; such a state must be Complete
L1_AtRest == (~ENABLED Next) => Complete
\* the scatter side: element i of list T is tagged T.i, in order, followed by (n, T)
ScatterOK == \A k \in 1..D :
               /\ \A i \in 1..Len(outSize[k]) : outSize[k][i].path = outElem[k - 1][i] /\ outSize[k][i].n = NKids(outSize[k][i].path)
               /\ \A i \in 1..Len(outElem[k]) : Len(outElem[k][i]) = k
TypeOK == /\ \A g \in 1..NG : DOMAIN tm[g] = {tmo[g][i] : i \in 1..Len(tmo[g])} /\ kc[g] \subseteq DOMAIN tm[g]
          /\ \A g \in 1..NG : rd[g] <= (IF g < NG THEN Len(out[g + 1]) ELSE 0)
=============================================================================
