CONSTANTS D = 1  Mode = "chained"  Lo = 0  Hi = 3  N = 0
  ShapeSet <- MCShapes
  SizeTermSt = {"completed"}
  ElemTermSt = {"completed", "failed"}
  OrderFor <- Free
  Drop = TRUE  Eager = TRUE  Record = TRUE
INIT Init
NEXT GenNext
