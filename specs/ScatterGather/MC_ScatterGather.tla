--------------------------- MODULE MC_ScatterGather ---------------------------
(* Model-checking and generation wrapper of ScatterGather.
   Lo..Hi children per node define the explored input lists (ShapeSet <- MCShapes), or a single flat
   list of N scalars (ShapeSet <- OneFlat) for the simulation configs with N >= 10.
   Generation (Record = TRUE): when every gather has terminated the behaviour's history is printed once
   (Dump); exhaustive generation visits every complete behaviour exactly once because `hist` is part of
   the state.                                                                                       *)
EXTENDS ScatterGather, Json
CONSTANTS Lo, Hi, N
MCShapes == Shapes(D, Lo, Hi)
Rect == {[i \in 1..Hi |-> IF D = 1 THEN <<>> ELSE [j \in 1..Hi |-> IF D = 2 THEN <<>> ELSE [k \in 1..Hi |-> <<>>]]]}

\* structured delivery orders of a flat list of n elements (numeric vs lexicographic order differ from 10 on)
Free(sh) == {<<>>}
Ident(n) == [i \in 1..n |-> <<i - 1>>]
Reverse(n) == [i \in 1..n |-> <<n - i>>]
Rot(n, k) == [i \in 1..n |-> <<(i - 1 + k) % n>>]
TenFirst(n) == <<<<n - 1>>>> \o [i \in 1..(n - 1) |-> <<i - 1>>]           \* the last one (>= 10) before "2"
Lexico(n) == SortSeq(Ident(n), LAMBDA a, b : IF a[1] < 10 /\ b[1] >= 10 THEN a[1] <= b[1] \div 10
                                             ELSE IF a[1] >= 10 /\ b[1] < 10 THEN a[1] \div 10 < b[1]
                                             ELSE a[1] < b[1])                \* 0 1 10 11 2 3 ... (n < 100)
EvenOdd(n) == SelectSeq(Ident(n), LAMBDA p : p[1] % 2 = 0) \o SelectSeq(Reverse(n), LAMBDA p : p[1] % 2 = 1)
Structured(sh) == LET n == Len(sh) IN
                  {Ident(n), Reverse(n), Rot(n, 1), Rot(n, n \div 2), TenFirst(n), Lexico(n), EvenOdd(n)}
StructuredQ(sh) == LET n == Len(sh) IN {Reverse(n), Rot(n, n \div 2), TenFirst(n), Lexico(n)}
\* flat lists of the lengths where numeric and lexicographic tag order differ
BigFlats == {Flat(10), Flat(11), Flat(12), Flat(15)}
OneFlat == {Flat(N)}

Dump ==
  /\ AllFin /\ hist # <<>>
  /\ PrintT(ToJson([d |-> D, mode |-> Mode, shape |-> shape, hist |-> hist,
                    elem |-> [k \in 1..D |-> outElem[k]],
                    size |-> [k \in 1..D |-> outSize[k]],
                    agg |-> aggSize]))
  /\ hist' = <<>>
  /\ UNCHANGED <<shape, dord, outElem, outSize, sc, aggSize, eDel, sDel, tS, tE, sm, tm, tmo, kc, st, rd, out, fin>>
GenNext == Next \/ Dump
===============================================================================
