--------------------------- MODULE MC_ScatterGather ---------------------------
(* Model-checking and generation wrapper of ScatterGather.
   Lo..Hi children per node define the explored input lists (ShapeSet <- MCShapes), or a single flat
   list of N scalars (ShapeSet <- OneFlat) for the simulation configs with N >= 10.
   Generation (Record = TRUE): when every gather has terminated the behaviour's history is printed once
   (Dump); exhaustive generation visits every complete behaviour exactly once because `hist` is part of
   the state.                                                                                       *)
EXTENDS ScatterGather, Json
CONSTANTS Lo, Hi, N
MCShapes == Shapes(D, Lo, Hi)
OneFlat == {Flat(N)}
Rect == {[i \in 1..Hi |-> IF D = 1 THEN <<>> ELSE [j \in 1..Hi |-> IF D = 2 THEN <<>> ELSE [k \in 1..Hi |-> <<>>]]]}

\* structured delivery orders of a flat list of N elements (numeric vs lexicographic order differ from 10 on)
Free == {<<>>}
Ident == [i \in 1..N |-> <<i - 1>>]
Reverse == [i \in 1..N |-> <<N - i>>]
Rot(k) == [i \in 1..N |-> <<(i - 1 + k) % N>>]
TenFirst == <<<<N - 1>>>> \o [i \in 1..(N - 1) |-> <<i - 1>>]             \* the last one (>= 10) before "2"
Lexico == SortSeq(Ident, LAMBDA a, b : LET sa == ToString(a[1]) sb == ToString(b[1]) IN
                                         IF a[1] < 10 /\ b[1] >= 10 THEN a[1] <= b[1] \div 10
                                         ELSE IF a[1] >= 10 /\ b[1] < 10 THEN a[1] \div 10 < b[1]
                                         ELSE a[1] < b[1])                    \* 0 1 10 11 2 3 ... (N < 100)
EvenOdd == SelectSeq(Ident, LAMBDA p : p[1] % 2 = 0) \o SelectSeq(Reverse, LAMBDA p : p[1] % 2 = 1)
Structured == {Ident, Reverse, Rot(1), Rot(N \div 2), Rot(N - 1), TenFirst, Lexico, EvenOdd}

Dump ==
  /\ AllFin /\ hist # <<>>
  /\ PrintT(ToJson([d |-> D, mode |-> Mode, shape |-> shape, hist |-> hist,
                    elem |-> [k \in 1..D |-> outElem[k]],
                    size |-> [k \in 1..D |-> outSize[k]],
                    agg |-> aggSize]))
  /\ hist' = <<>>
  /\ UNCHANGED <<shape, dord, outElem, outSize, sc, aggSize, eDel, sDel, tS, tE, sm, tm, tmo, kc, st, rd, out, fin>>
GenNext == Next \/ Dump
===============================================================================
