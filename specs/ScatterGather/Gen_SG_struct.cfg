CONSTANTS D = 1  Mode = "chained"  Lo = 0  Hi = 0  N = 12
  ShapeSet <- OneFlat
  OrderFor <- Structured
  SizeTermSt = {"completed"}
  ElemTermSt = {"completed"}
  Drop = TRUE  Eager = TRUE  Record = TRUE
INIT Init
NEXT GenNext
