CONSTANTS D = 2  Mode = "flat"  Lo = 0  Hi = 2  N = 0
  ShapeSet <- MCShapes
  SizeTermSt = {"completed", "skipped"}
  ElemTermSt = {"completed", "skipped", "failed"}
  OrderFor <- Free
  Drop = TRUE  Eager = FALSE  Record = FALSE
SPECIFICATION FairSpec
INVARIANT I1_Identity
INVARIANT I2_AtMostOnce
INVARIANT I3_NoForcedOnFailure
INVARIANT ScatterOK
INVARIANT TypeOK
PROPERTY L1_ExactlyOne
