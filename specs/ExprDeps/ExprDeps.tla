------------------------------ MODULE ExprDeps ------------------------------
(* C31 - which fields of `inputs` does a CWL parameter reference / JavaScript expression read?

   StreamFlow (`streamflow/cwl/utils.py: resolve_dependencies`, `streamflow/cwl/expression.py`)
   computes STATICALLY the set of input fields an expression depends on (the translator wires only
   those ports into the step that evaluates a `valueFrom`/`when`/`format`/secondaryFiles expression).
   This module is the other side of that contract: a small abstract syntax of the expressions people
   write, and an evaluator `Run` that says which fields of `inputs` are read WHEN THE EXPRESSION IS
   EVALUATED (`Reads`).  The evaluator is validated, expression by expression, against node
   (a Proxy around `inputs`); the property is  Reads(e) \subseteq resolve_dependencies(render(e))
   and "no exception".

   Abstract syntax (records tagged by `t`)
     expressions   id(n)  str(s,q)  num(i)  lit  dot(o,f)  idx(o,k)  add(l,r)  par(e)  call(g,a)  none
     statements    var(n,e)  decl(n)  set(n,e)  if(c,ss)  fun(n,p,ss,r)  funx(n,p,ss,r)
                   fun(n,p,p2,ss,r)  a declaration with TWO formal parameters (optional field p2), called by
                   call(g,a,b) (optional field b); p = "" is a declaration without formal parameters
     top level     pref(root,segs)   $(root.seg...)     parameter reference (regular syntax)
                   jsx(e)            $(e)               JavaScript expression
                   body(ss,r)        ${ ss return r; }  JavaScript function body
                   tmpl(a,b)         x$(a)y$(b)z        string interpolation of two of the above

   Semantics: a call-by-value interpreter over a tiny heap (constant `Heap`, emitted to the oracle so
   that node evaluates against the same data).  Functions are evaluated with the environment of the
   call site; this coincides with JavaScript's lexical scoping for the family generated here, because
   every function is called in the scope that declares it and no function THAT IS CALLED assigns a variable
   (functions that assign an outer variable occur only as declarations that are never called).
   `ok` = the evaluation does not throw, `sup` = it stays inside the modelled fragment.              *)
EXTENDS Naturals, Sequences, FiniteSets, TLC

\* ------------------------------------------------------------------ abstract syntax
Id(n)        == [t |-> "id", n |-> n]
Str(s, q)    == [t |-> "str", s |-> s, q |-> q]          \* q: "sq" 'x'  |  "dq" "x"
Num(i)       == [t |-> "num", i |-> i]
ObjLit       == [t |-> "lit"]                             \* an object literal with the fields of Heap.LIT
NoArg        == [t |-> "none"]
Dot(o, f)    == [t |-> "dot", o |-> o, f |-> f]          \* o.f
Idx(o, k)    == [t |-> "idx", o |-> o, k |-> k]          \* o[k]
Add(l, r)    == [t |-> "add", l |-> l, r |-> r]          \* l + r
Par(e)       == [t |-> "par", e |-> e]                   \* (e)
Call(g, a)   == [t |-> "call", g |-> g, a |-> a]         \* g(a)   /  g()  when a = NoArg
Call2(g, a, b) == [t |-> "call", g |-> g, a |-> a, b |-> b]   \* g(a, b)

VarI(n, e)   == [t |-> "var", n |-> n, e |-> e]          \* var n = e;
VarD(n)      == [t |-> "decl", n |-> n]                  \* var n;
Set(n, e)    == [t |-> "set", n |-> n, e |-> e]          \* n = e;
If(c, ss)    == [t |-> "if", c |-> c, ss |-> ss]         \* if (c) { ss }
Fun(n, p, ss, r)  == [t |-> "fun",  n |-> n, p |-> p, ss |-> ss, r |-> r]  \* function n(p){ ss return r; }
FunX(n, p, ss, r) == [t |-> "funx", n |-> n, p |-> p, ss |-> ss, r |-> r]  \* var n = function(p){ ss return r; };
Fun2(n, p, p2, ss, r) == [t |-> "fun", n |-> n, p |-> p, p2 |-> p2, ss |-> ss, r |-> r]  \* function n(p, p2){ ss return r; }
\* the optional second formal parameter / second argument ("" / none when the field is absent)
Param2(st) == IF "p2" \in DOMAIN st THEN st.p2 ELSE ""
Arg2(e)    == IF "b" \in DOMAIN e THEN e.b ELSE NoArg

Seg(k, f)    == [k |-> k, f |-> f]                       \* k: "dot" | "sq" | "dq" | "num"
PRef(root, segs) == [t |-> "pref", root |-> root, segs |-> segs]
JsX(e)       == [t |-> "jsx", e |-> e]
Body(ss, r)  == [t |-> "body", ss |-> ss, r |-> r]
Tmpl(a, b)   == [t |-> "tmpl", a |-> a, b |-> b]

\* a parameter reference is a JavaScript subset: the same expression in the general syntax
RECURSIVE SegsToExpr(_, _, _)
SegsToExpr(e, segs, i) ==
  IF i > Len(segs) THEN e
  ELSE LET sg == segs[i]
           nx == CASE sg.k = "dot" -> Dot(e, sg.f)
                   [] sg.k = "sq"  -> Idx(e, Str(sg.f, "sq"))
                   [] sg.k = "dq"  -> Idx(e, Str(sg.f, "dq"))
                   [] sg.k = "num" -> Idx(e, Num(0))
       IN SegsToExpr(nx, segs, i + 1)
PRefExpr(p) == SegsToExpr(Id(p.root), p.segs, 1)

\* ------------------------------------------------------------------ values and heap
VUndef      == [v |-> "undef"]
VUnbound    == [v |-> "unbound"]
VOther      == [v |-> "other"]                \* some primitive we do not track
VStr(s)     == [v |-> "str", s |-> s]
VNum(i)     == [v |-> "num", i |-> i]
VBool(b)    == [v |-> "bool", b |-> b]
VArr        == [v |-> "arr"]                  \* the array ["e0", "e1"]
VObj(id, via) == [v |-> "obj", id |-> id, via |-> via]
VFun(p, p2, ss, r) == [v |-> "fun", p |-> p, p2 |-> p2, ss |-> ss, r |-> r]

\* The data the expressions are evaluated against (the oracle receives exactly this).
\* inputs.g is the STRING "f": `inputs[inputs.g]` reads g and then f.  inputs.flag is false.
ObjFields == [f |-> VObj("F", "na"), g |-> VStr("f"), arr |-> VArr, flag |-> VBool(FALSE)]
Heap == [IN   |-> ObjFields,
         SELF |-> ObjFields,
         LIT  |-> ObjFields,
         F    |-> [g |-> VStr("vg")],
         RT   |-> [cores |-> VNum(2), outdir |-> VStr("/out")]]
InputFields == DOMAIN Heap.IN

Names == {"inputs", "self", "runtime", "a", "k", "g", "h", "x", "q"}
Env0 == [n \in Names |-> CASE n = "inputs"  -> VObj("IN", "direct")
                           [] n = "self"    -> VObj("SELF", "na")
                           [] n = "runtime" -> VObj("RT", "na")
                           [] OTHER         -> VUnbound]
St0 == [env |-> Env0, reads |-> {}, ok |-> TRUE, sup |-> TRUE]

\* ------------------------------------------------------------------ evaluation
Ret(v, s)   == [v |-> v, s |-> s]
Throw(s)    == Ret(VUndef, [s EXCEPT !.ok = FALSE])        \* JavaScript throws
Outside(s)  == Ret(VUndef, [s EXCEPT !.sup = FALSE])       \* outside the modelled fragment
Live(s)     == s.ok /\ s.sup

\* how the `inputs` object reached the place where it is dereferenced (classification only)
Retag(v, via) == IF v.v = "obj" /\ v.id = "IN" THEN [v EXCEPT !.via = via] ELSE v
RetagDirect(v, via) == IF v.v = "obj" /\ v.id = "IN" /\ v.via = "direct" THEN [v EXCEPT !.via = via] ELSE v

AccessKind(k) == CASE k.t = "str" /\ k.q = "sq" -> "bracket-single-quoted"
                   [] k.t = "str" /\ k.q = "dq" -> "bracket-double-quoted"
                   [] k.t = "num"               -> "numeric-index"
                   [] k.t = "id"                -> "computed-variable-key"
                   [] OTHER                     -> "computed-expression-key"

\* property read  val[key]
Get(val, key, ak, s) ==
  CASE val.v \in {"undef", "unbound"} -> Throw(s)          \* TypeError: cannot read properties of undefined
    [] val.v = "obj" ->
         LET s2 == IF val.id = "IN"
                   THEN [s EXCEPT !.reads = @ \cup {[f |-> key, via |-> val.via, ak |-> ak]}]
                   ELSE s
         IN Ret(IF key \in DOMAIN Heap[val.id] THEN Heap[val.id][key] ELSE VUndef, s2)
    [] val.v = "arr" -> Ret(IF key = "length" THEN VNum(2) ELSE IF key = "0" THEN VStr("e0") ELSE VUndef, s)
    [] val.v = "str" -> Ret(IF key = "length" THEN VNum(1) ELSE IF key = "0" THEN VStr("c") ELSE VUndef, s)
    [] OTHER -> Ret(VUndef, s)                              \* numbers, functions, untracked primitives

KeyOf(v) == IF v.v = "str" THEN v.s ELSE ToString(v.i)

\* JavaScript truthiness of the values that occur as conditions
Truthy(v) == CASE v.v = "bool" -> v.b
               [] v.v \in {"undef", "unbound"} -> FALSE
               [] v.v = "num" -> v.i # 0
               [] v.v = "str" -> v.s # ""
               [] OTHER -> TRUE

RECURSIVE Eval(_, _), ExecSeq(_, _, _)

Exec(st, s) ==
  CASE st.t = "var" ->
         LET r == Eval(st.e, s)
         IN IF ~Live(r.s) THEN r.s ELSE [r.s EXCEPT !.env[st.n] = Retag(r.v, "alias-var-initialiser")]
    [] st.t = "decl" ->
         IF s.env[st.n].v = "unbound" THEN [s EXCEPT !.env[st.n] = VUndef] ELSE s
    [] st.t = "set" ->
         LET r == Eval(st.e, s)
         IN IF ~Live(r.s) THEN r.s
            ELSE IF r.s.env[st.n].v = "unbound" THEN [r.s EXCEPT !.ok = FALSE]     \* strict mode: ReferenceError
            ELSE [r.s EXCEPT !.env[st.n] = Retag(r.v, "alias-assignment")]
    [] st.t = "if" ->
         LET r == Eval(st.c, s)
         IN IF ~Live(r.s) THEN r.s
            ELSE IF r.v.v = "other" THEN [r.s EXCEPT !.sup = FALSE]
            ELSE IF Truthy(r.v) THEN ExecSeq(st.ss, 1, r.s) ELSE r.s
    [] st.t \in {"fun", "funx"} -> [s EXCEPT !.env[st.n] = VFun(st.p, Param2(st), st.ss, st.r)]

ExecSeq(ss, i, s) == IF i > Len(ss) \/ ~Live(s) THEN s ELSE ExecSeq(ss, i + 1, Exec(ss[i], s))

Eval(e, s) ==
  CASE e.t = "id"  -> IF s.env[e.n].v = "unbound" THEN Throw(s) ELSE Ret(s.env[e.n], s)
    [] e.t = "str" -> Ret(VStr(e.s), s)
    [] e.t = "num" -> Ret(VNum(e.i), s)
    [] e.t = "lit" -> Ret(VObj("LIT", "na"), s)
    [] e.t = "none" -> Ret(VUndef, s)
    [] e.t = "par" -> LET r == Eval(e.e, s) IN Ret(RetagDirect(r.v, "parenthesised-inputs"), r.s)
    [] e.t = "dot" -> LET r == Eval(e.o, s) IN IF ~Live(r.s) THEN r ELSE Get(r.v, e.f, "dot", r.s)
    [] e.t = "idx" ->
         LET r == Eval(e.o, s)
         IN IF ~Live(r.s) THEN r
            ELSE LET k == Eval(e.k, r.s)
                 IN IF ~Live(k.s) THEN k
                    ELSE IF k.v.v \notin {"str", "num"} THEN Outside(k.s)
                    ELSE Get(r.v, KeyOf(k.v), AccessKind(e.k), k.s)
    [] e.t = "add" ->
         LET l == Eval(e.l, s)
         IN IF ~Live(l.s) THEN l
            ELSE LET r == Eval(e.r, l.s)
                 IN IF ~Live(r.s) THEN r
                    \* `+` on the inputs object itself would call valueOf/toString on it: not modelled
                    ELSE IF (l.v.v = "obj" /\ l.v.id = "IN") \/ (r.v.v = "obj" /\ r.v.id = "IN") THEN Outside(r.s)
                    ELSE IF l.v.v = "str" /\ r.v.v = "str" THEN Ret(VStr(l.v.s \o r.v.s), r.s)
                    ELSE Ret(VOther, r.s)
    [] e.t = "call" ->
         LET fn == s.env[e.g]
         IN IF fn.v # "fun" THEN Throw(s)
            ELSE LET a == Eval(e.a, s)
                 IN IF ~Live(a.s) THEN a
                    ELSE LET b == Eval(Arg2(e), a.s)            \* arguments are evaluated left to right
                         IN IF ~Live(b.s) THEN b
                            ELSE LET \* a formal parameter is a fresh binding of the callee's scope (undefined when
                                     \* no argument is passed); the second one wins when both have the same name
                                     s0 == IF fn.p = "" THEN b.s
                                           ELSE [b.s EXCEPT !.env[fn.p] = Retag(a.v, "function-argument")]
                                     s1 == IF fn.p2 = "" THEN s0
                                           ELSE [s0 EXCEPT !.env[fn.p2] = Retag(b.v, "function-argument")]
                                     s2 == ExecSeq(fn.ss, 1, s1)
                                     r  == IF Live(s2) THEN Eval(fn.r, s2) ELSE Ret(VUndef, s2)
                                 IN \* the scope of the callee ENDS with the call: its parameters and locals
                                    \* disappear (the names they shadowed are visible again); reads and failure
                                    \* flags stay
                                    Ret(r.v, [r.s EXCEPT !.env = b.s.env])

RunTop(e) ==
  CASE e.t = "pref" -> Eval(PRefExpr(e), St0).s
    [] e.t = "jsx"  -> Eval(e.e, St0).s
    [] e.t = "body" -> LET s1 == ExecSeq(e.ss, 1, St0)
                       IN IF Live(s1) THEN Eval(e.r, s1).s ELSE s1

\* every `$(...)`/`${...}` of an interpolated string is evaluated on its own
Run(e) == IF e.t = "tmpl"
          THEN LET x == RunTop(e.a)  y == RunTop(e.b)
               IN [reads |-> x.reads \cup y.reads, ok |-> x.ok /\ y.ok, sup |-> x.sup /\ y.sup]
          ELSE LET x == RunTop(e) IN [reads |-> x.reads, ok |-> x.ok, sup |-> x.sup]

KeysRead(e) == {r.f : r \in Run(e).reads}                \* every property name looked up on `inputs`
Reads(e)    == KeysRead(e) \cap InputFields               \* the fields of `inputs` that were read

\* ------------------------------------------------------------------ syntax-only helpers
RECURSIVE Nodes(_)
SeqNodes(ss) == UNION {Nodes(ss[i]) : i \in DOMAIN ss}
Nodes(e) == {e} \cup
  (CASE e.t = "dot"  -> Nodes(e.o)
     [] e.t = "idx"  -> Nodes(e.o) \cup Nodes(e.k)
     [] e.t = "add"  -> Nodes(e.l) \cup Nodes(e.r)
     [] e.t = "par"  -> Nodes(e.e)
     [] e.t = "call" -> Nodes(e.a) \cup Nodes(Arg2(e))
     [] e.t \in {"var", "set"} -> Nodes(e.e)
     [] e.t = "if"   -> Nodes(e.c) \cup SeqNodes(e.ss)
     [] e.t \in {"fun", "funx", "body"} -> SeqNodes(e.ss) \cup Nodes(e.r)
     [] e.t = "jsx"  -> Nodes(e.e)
     [] e.t = "tmpl" -> Nodes(e.a) \cup Nodes(e.b)
     [] e.t = "pref" -> Nodes(PRefExpr(e))
     [] OTHER -> {})

UsesInputsIdentifier(e) == \E nd \in Nodes(e) : nd.t = "id" /\ nd.n = "inputs"

\* A deliberately simple SOUND dependency analysis for this syntax (flow-insensitive): every name
\* used as a property, every string literal; everything when some key is computed from data.
DataDependentKey(e) == \E nd \in Nodes(e) : nd.t = "idx" /\ nd.k.t \notin {"str", "num", "id"}
SafeDeps(e) ==
  IF DataDependentKey(e) THEN InputFields
  ELSE ({nd.f : nd \in {x \in Nodes(e) : x.t = "dot"}} \cup {nd.s : nd \in {x \in Nodes(e) : x.t = "str"}})
       \cap InputFields
=============================================================================
