--------------------------- MODULE ExprDepsFamily ---------------------------
(* The bounded family of expressions enumerated for C31: every way of reaching a field of `inputs`
   listed in the property (dot / quoted bracket / computed access, aliases, re-assignment, functions,
   closures, shadowing parameters, string literals that only mention inputs, self/runtime, templates
   and concatenations), crossed with one- and two-level accesses; function declarations with 0/1/2 formal
   parameters (shadowing or not, nested) followed by aliasing and reads at top level (ScopeBalance).
   A case is [c |-> class label, x |-> "some" | "none" (does it read any input field?), e |-> AST].   *)
EXTENDS ExprDeps
CONSTANT LEVEL                      \* 1 = quick, 2 = thorough

QS == {"sq", "dq"}
FieldsQ == {"f", "g", "arr"}
IN_ == Id("inputs")
SELF_ == Id("self")

\* first-level accesses of field f of the object denoted by o
A1(o, f) == {Dot(o, f)} \cup {Idx(o, Str(f, q)) : q \in QS}
\* second-level accesses that are meaningful on the value of field f (object / string / array)
A2(e, f) == CASE f = "f"   -> A1(e, "g")
              [] f = "arr" -> {Dot(e, "length"), Idx(e, Num(0))}
              [] f = "g"   -> {Dot(e, "length")}
R1(o) == UNION {A1(o, f) : f \in FieldsQ}
R2(o) == UNION {UNION {A2(e, f) : e \in A1(o, f)} : f \in FieldsQ}
Pairs(o) == {Add(l, r) : l \in R1(o), r \in R1(o)}
R(o)  == R1(o) \cup R2(o) \cup (IF LEVEL >= 2 THEN Pairs(o) ELSE {})
\* the classes that must NOT read inputs get the one-level accesses only on the quick tier
RN(o) == IF LEVEL >= 2 THEN R(o) ELSE R1(o)

Wrap(c, x, es) == {[c |-> c, x |-> x, e |-> ee] : ee \in es}

\* ---- parameter references (regular syntax, evaluated without a JavaScript engine) ----
Seg1(f) == {Seg("dot", f), Seg("sq", f), Seg("dq", f)}
Seg2(f) == CASE f = "f"   -> Seg1("g")
             [] f = "arr" -> {Seg("dot", "length"), Seg("num", "0")}
             [] f = "g"   -> {Seg("dot", "length")}
PRefsOn(root) == UNION {{PRef(root, <<s1>>) : s1 \in Seg1(f)} \cup
                        {PRef(root, <<s1, s2>>) : s1 \in Seg1(f), s2 \in Seg2(f)} : f \in FieldsQ}
PRefsRuntime == {PRef("runtime", <<Seg("dot", "cores")>>), PRef("runtime", <<Seg("sq", "outdir")>>),
                 PRef("runtime", <<Seg("dq", "cores")>>), PRef("runtime", <<Seg("dot", "outdir"), Seg("dot", "length")>>)}
ParamRefs == Wrap("param-ref", "some", PRefsOn("inputs"))
             \cup Wrap("param-ref-other-context", "none", PRefsOn("self") \cup PRefsRuntime)

\* ---- JavaScript: the object is reached directly ----
Direct == Wrap("direct-expr", "some", {JsX(r) : r \in R(IN_)})
          \cup Wrap("direct-body", "some", {Body(<<>>, r) : r \in R(IN_)})
          \cup Wrap("other-context", "none", {JsX(r) : r \in R1(SELF_) \cup R2(SELF_)}
                      \cup {JsX(Dot(Id("runtime"), "cores")), Body(<<>>, Idx(Id("runtime"), Str("outdir", "sq")))})

\* ---- aliases and re-assignment ----
A_ == Id("a")
Alias ==
  Wrap("alias-var-initialiser", "some", {Body(<<VarI("a", IN_)>>, r) : r \in R(A_)})
  \cup Wrap("alias-assignment", "some", {Body(<<VarD("a"), Set("a", IN_)>>, r) : r \in R(A_)})
  \cup Wrap("alias-of-field", "some", {Body(<<VarI("a", fe)>>, r) : fe \in A1(IN_, "f"), r \in A1(A_, "g")})
  \cup Wrap("reassigned-away", "none", {Body(<<VarI("a", IN_), Set("a", SELF_)>>, r) : r \in RN(A_)})
  \cup Wrap("reassigned-away-2", "none", {Body(<<VarD("a"), Set("a", IN_), Set("a", SELF_)>>, r) : r \in RN(A_)})
  \cup Wrap("reassigned-back", "some", {Body(<<VarI("a", SELF_), Set("a", IN_)>>, r) : r \in R(A_)})
  \cup Wrap("local-var-shadow", "none", {Body(<<VarI("inputs", ObjLit)>>, r) : r \in RN(IN_)})

\* ---- functions, closures, parameters (shadowing inputs or receiving it) ----
X_ == Id("x")
FunForms(n, p, ss, r) == {Fun(n, p, ss, r), FunX(n, p, ss, r)}
\* the function-expression form of the negative classes only on the thorough tier
FunForms2(n, p, ss, r) == IF LEVEL >= 2 THEN FunForms(n, p, ss, r) ELSE {Fun(n, p, ss, r)}
Functions ==
  Wrap("closure", "some", {Body(<<fd>>, Call("g", NoArg)) : fd \in UNION {FunForms("g", "", <<>>, r) : r \in R(IN_)}})
  \cup Wrap("function-argument", "some",
            {Body(<<fd>>, Call("g", IN_)) : fd \in UNION {FunForms("g", "x", <<>>, r) : r \in R(X_)}})
  \cup Wrap("function-argument-other", "none",
            {Body(<<fd>>, Call("g", a)) : fd \in UNION {FunForms2("g", "x", <<>>, r) : r \in RN(X_)}, a \in {SELF_, ObjLit}})
  \cup Wrap("shadowing-parameter", "none",
            {Body(<<fd>>, Call("g", a)) : fd \in UNION {FunForms2("g", "inputs", <<>>, r) : r \in RN(IN_)}, a \in {SELF_, ObjLit}})
  \cup Wrap("shadowing-parameter-gets-inputs", "some",
            {Body(<<fd>>, Call("g", IN_)) : fd \in UNION {FunForms2("g", "inputs", <<>>, r) : r \in R(IN_)}})
  \* the shadow ends with the function: the read after the call is a read of the real inputs
  \cup Wrap("shadow-then-use", "some",
            {Body(<<Fun("g", "inputs", <<>>, r1)>>, Add(Call("g", ObjLit), r2)) : r1 \in R1(IN_), r2 \in A1(IN_, "g")})
  \* nested functions
  \cup Wrap("nested-closure-over-parameter", "some",
            {Body(<<Fun("g", "x", <<Fun("h", "", <<>>, r)>>, Call("h", NoArg))>>, Call("g", IN_)) : r \in R(X_)})
  \cup Wrap("nested-closure", "some",
            {Body(<<Fun("g", "", <<Fun("h", "", <<>>, r)>>, Call("h", NoArg))>>, Call("g", NoArg)) : r \in R(IN_)})
  \cup Wrap("nested-shadowing-outer", "none",
            {Body(<<Fun("g", "inputs", <<Fun("h", "", <<>>, r)>>, Call("h", NoArg))>>, Call("g", ObjLit)) : r \in RN(IN_)})
  \cup Wrap("nested-shadowing-inner", "none",
            {Body(<<Fun("g", "", <<Fun("h", "inputs", <<>>, r)>>, Call("h", SELF_))>>, Call("g", NoArg)) : r \in RN(IN_)})
  \cup Wrap("nested-argument-inner", "some",
            {Body(<<Fun("g", "", <<Fun("h", "q", <<>>, r)>>, Call("h", IN_))>>, Call("g", NoArg)) : r \in R(Id("q"))})

\* ---- re-assignment of an alias that is tracked through an assignment (var a; a = inputs;) ----
Tracked == <<VarD("a"), Set("a", IN_)>>
Flag == Dot(IN_, "flag")                                   \* false: the branch is not taken
Rebinding ==
  \* narrowed through itself: a = a.f; the read of f happens in the right-hand side
  Wrap("alias-narrowed-through-itself", "some",
       UNION {{Body(Tracked \o <<Set("a", fe)>>, r) : fe \in A1(A_, f), r \in A2(A_, f)} : f \in FieldsQ})
  \* re-bound to something else under a condition that is false: a is still inputs afterwards
  \cup Wrap("alias-conditionally-rebound-not-taken", "some",
       {Body(Tracked \o <<If(Flag, <<Set("a", rhs)>>)>>, r) : rhs \in {ObjLit, Str("x", "sq"), Num(0), SELF_}, r \in R1(A_)}
       \cup {Body(Tracked \o <<If(ce, <<Set("a", ObjLit)>>)>>, Dot(A_, "f")) : ce \in A1(IN_, "flag")})
  \* ... under a condition that is true: only the condition is read
  \cup Wrap("alias-conditionally-rebound-taken", "some",
       {Body(Tracked \o <<If(Dot(IN_, "g"), <<Set("a", rhs)>>)>>, r) : rhs \in {ObjLit, SELF_}, r \in R1(A_)})
  \cup Wrap("alias-rebound-unconditionally", "none",
       {Body(Tracked \o <<Set("a", ObjLit)>>, r) : r \in R1(A_) \cup R2(A_)})
  \* a function that re-binds the alias is declared but never called
  \cup Wrap("alias-rebound-inside-uncalled-function", "some",
       {Body(Tracked \o <<fd>>, r) : fd \in UNION {FunForms("g", "", <<Set("a", rhs)>>, Num(0)) : rhs \in {Str("none", "sq"), ObjLit}},
                                      r \in R1(A_)}
       \cup {Body(Tracked \o <<fd>>, Dot(A_, "f")) : fd \in FunForms("g", "", <<Set("a", SELF_)>>, Num(0))})

\* ---- scope balance: function DECLARATIONS of every arity, then aliasing and reads at top level ----
\* A function declaration opens a name scope that ends with the declaration, whatever its formal parameter list
\* is (none, one, two parameters; parameters that shadow `inputs`; declarations nested in declarations).  What
\* comes AFTER the declaration(s) at top level - a direct read of inputs, an alias made by assignment and a read
\* through it - is evaluated in the top-level scope again.  The alias is created after, before or around the
\* declarations; the functions are called in the returned expression (shadowing parameters receive an object
\* literal, the other parameters `self`/0, so every read of inputs comes from the top level or from a closure).
Zero == Num(0)
Shape(ds, cl) == [ds |-> ds, cl |-> cl]
\* declarations nested in an outer function: [d |-> declaration, c |-> call made by the outer function]
InnerDecls ==
  {[d |-> Fun("h", "", <<>>, Zero), c |-> Call("h", NoArg)],
   [d |-> Fun("h", "k", <<>>, Zero), c |-> Call("h", SELF_)],
   [d |-> Fun("h", "inputs", <<>>, Dot(IN_, "g")), c |-> Call("h", ObjLit)]}
  \cup (IF LEVEL >= 2 THEN {[d |-> Fun2("h", "k", "inputs", <<>>, Dot(IN_, "g")), c |-> Call2("h", SELF_, ObjLit)],
                            [d |-> Fun("h", "", <<>>, Dot(IN_, "g")), c |-> Call("h", NoArg)]}
        ELSE {})
Outer(i) ==
  {Shape(<<Fun("g", "", <<i.d>>, i.c)>>, Call("g", NoArg)),
   Shape(<<Fun("g", "inputs", <<i.d>>, i.c)>>, Call("g", ObjLit)),
   Shape(<<Fun2("g", "x", "q", <<i.d>>, i.c)>>, Call2("g", SELF_, Zero))}
  \cup (IF LEVEL >= 2 THEN {Shape(<<Fun("g", "x", <<i.d>>, i.c)>>, Call("g", SELF_)),
                            Shape(<<Fun2("g", "inputs", "x", <<i.d>>, i.c)>>, Call2("g", ObjLit, SELF_))}
        ELSE {})
FlatShapes ==
  {Shape(<<Fun("g", "", <<>>, Zero)>>, Call("g", NoArg)),                              \* function g() {}
   Shape(<<Fun("g", "", <<>>, Dot(IN_, "g"))>>, Call("g", NoArg)),                     \* a closure reading inputs
   Shape(<<Fun("g", "x", <<>>, Zero)>>, Call("g", SELF_)),                             \* function g(x) {}
   Shape(<<Fun("g", "inputs", <<>>, Dot(IN_, "g"))>>, Call("g", ObjLit)),              \* function g(inputs) {}
   Shape(<<Fun2("g", "x", "q", <<>>, Zero)>>, Call2("g", SELF_, Zero)),                \* function g(x, q) {}
   Shape(<<Fun2("g", "x", "inputs", <<>>, Dot(IN_, "g"))>>, Call2("g", SELF_, ObjLit)),
   Shape(<<Fun2("g", "inputs", "x", <<>>, Dot(IN_, "g"))>>, Call2("g", ObjLit, SELF_)),
   \* two declarations in a row
   Shape(<<Fun("g", "", <<>>, Zero), Fun("h", "k", <<>>, Zero)>>, Add(Call("g", NoArg), Call("h", SELF_))),
   Shape(<<Fun("g", "inputs", <<>>, Dot(IN_, "g")), Fun("h", "", <<>>, Zero)>>, Add(Call("g", ObjLit), Call("h", NoArg)))}
Shapes == FlatShapes \cup UNION {Outer(i) : i \in InnerDecls}
\* the accesses used after the declarations, and whether the functions are called in the returned expression
ScopeAcc(o) == IF LEVEL >= 2 THEN R1(o) ELSE {Dot(o, "f"), Idx(o, Str("arr", "sq"))}
ScopeRet(o, sh) == {Add(r, sh.cl) : r \in ScopeAcc(o)} \cup (IF LEVEL >= 2 THEN {Dot(o, "f")} ELSE {})
ScopeBalance ==
  Wrap("scope-direct-read-after-function", "some",
       UNION {{Body(sh.ds, r) : r \in ScopeRet(IN_, sh)} : sh \in Shapes})
  \cup Wrap("scope-alias-after-function", "some",
       UNION {{Body(sh.ds \o Tracked, r) : r \in ScopeRet(A_, sh)} : sh \in Shapes})
  \cup Wrap("scope-alias-before-function", "some",
       UNION {{Body(Tracked \o sh.ds, r) : r \in ScopeRet(A_, sh)} : sh \in Shapes})
  \cup Wrap("scope-alias-around-function", "some",
       UNION {{Body(<<VarD("a")>> \o sh.ds \o <<Set("a", IN_)>>, r) : r \in ScopeRet(A_, sh)} : sh \in Shapes})
  \* the alias is a LOCAL of the declared function (declared, assigned and read inside it; the function is called)
  \cup Wrap("scope-alias-inside-function", "some",
       {Body(<<Fun("g", p, Tracked, r)>>, Call("g", SELF_)) : p \in {"", "x"}, r \in ScopeAcc(A_)})

\* ---- computed member access ----
K_ == Id("k")
KeyVarReads(o, f) == {Idx(o, K_)} \cup A2(Idx(o, K_), f)
Computed ==
  Wrap("computed-variable-key", "some",
       UNION {{Body(<<VarI("k", Str(f, q))>>, r) : q \in QS, r \in KeyVarReads(IN_, f)} : f \in FieldsQ})
  \cup Wrap("computed-variable-key-on-alias", "some",
       UNION {{Body(<<VarI("k", Str(f, q)), VarI("a", IN_)>>, r) : q \in QS, r \in KeyVarReads(A_, f)} : f \in FieldsQ})
  \cup Wrap("computed-variable-key-on-alias-2", "some",
       UNION {{Body(<<VarI("k", Str(f, q)), VarD("a"), Set("a", IN_)>>, r) : q \in QS, r \in KeyVarReads(A_, f)} : f \in FieldsQ})
  \cup Wrap("computed-variable-key-other-object", "none",
       {Body(<<VarI("k", Str(f, q))>>, Idx(SELF_, K_)) : f \in FieldsQ, q \in QS})
  \cup Wrap("computed-key-from-read", "some",
       {JsX(Idx(IN_, ke)) : ke \in A1(IN_, "g") \cup A1(SELF_, "g")}
       \cup {Body(<<>>, Dot(Idx(IN_, Dot(IN_, "g")), "g"))})
  \cup Wrap("computed-key-concatenation", "some",
       {JsX(Idx(IN_, Add(Str("ar", q), Str("r", q)))) : q \in QS}
       \cup {Body(<<VarI("k", Str("ar", "sq"))>>, Idx(IN_, Add(K_, Str("r", "dq"))))})
  \* inputs[0] looks up the property "0": evaluates to undefined, no field of inputs is read
  \cup Wrap("numeric-index-on-inputs", "none", {JsX(Idx(IN_, Num(0))), Body(<<>>, Idx(IN_, Num(0)))})
  \cup (IF LEVEL >= 2
        THEN Wrap("computed-variable-key-in-function", "some",
                  UNION {{Body(<<VarI("k", Str(f, q)), Fun("g", "", <<>>, r)>>, Call("g", NoArg))
                            : q \in QS, r \in KeyVarReads(IN_, f)} : f \in FieldsQ})
        ELSE {})

\* ---- string literals that only mention inputs ----
Mentions ==
  Wrap("string-mention", "none",
       UNION {{JsX(Str("inputs." \o f, q)), Body(<<>>, Str("inputs." \o f, q)),
               JsX(Add(Str("inputs." \o f, q), Str(f, q))),
               JsX(Idx(SELF_, Str(f, q))),
               Body(<<VarI("k", Str("inputs['" \o f \o "']", "dq"))>>, K_),
               Body(<<VarI("k", Str(f, q))>>, Add(K_, Str("inputs", q)))} : f \in FieldsQ, q \in QS})
  \cup Wrap("string-mention-and-read", "some",
       {JsX(Add(Str("inputs." \o f, q), r)) : f \in {"f", "g"}, q \in QS, r \in A1(IN_, "arr")})

\* ---- parentheses ----
Parens ==
  Wrap("parenthesised-inputs", "some", UNION {A1(Par(IN_), f) : f \in FieldsQ})
  \cup Wrap("parenthesised-read", "some",
       UNION {{Par(e1) : e1 \in A1(IN_, f)} \cup UNION {A2(Par(e1), f) : e1 \in A1(IN_, f)} : f \in FieldsQ})
ParensTop == {[c |-> cs.c, x |-> cs.x, e |-> JsX(cs.e)] : cs \in Parens}
             \cup {[c |-> cs.c, x |-> cs.x, e |-> Body(<<>>, cs.e)] : cs \in {y \in Parens : LEVEL >= 2 \/ y.c = "parenthesised-inputs"}}

\* ---- concatenation of two reads, string interpolation of two expressions ----
Concats ==
  Wrap("concatenation", "some", IF LEVEL >= 2 THEN {JsX(pr) : pr \in Pairs(IN_)}
                                ELSE {JsX(Add(l, r)) : l \in R1(IN_), r \in A1(IN_, "g") \cup {Dot(IN_, "arr")}})
  \cup Wrap("concatenation-mixed", "some", {JsX(Add(l, r)) : l \in R1(IN_), r \in A1(SELF_, "g") \cup {Dot(Id("runtime"), "cores")}})
  \cup Wrap("concatenation-mixed", "some", {Body(<<>>, Add(l, r)) : l \in A1(SELF_, "f"), r \in R1(IN_)})
TmplParts == (IF LEVEL >= 2 THEN PRefsOn("inputs") ELSE {PRef("inputs", <<s1>>) : s1 \in UNION {Seg1(f) : f \in {"f", "arr"}}})
             \cup {PRef("self", <<Seg("dot", "g")>>)}
             \cup {JsX(e1) : e1 \in A2(Dot(IN_, "arr"), "arr")}
             \cup {Body(<<>>, e1) : e1 \in A1(IN_, "g")}
             \cup {Body(<<VarI("a", IN_)>>, Dot(A_, "f")), JsX(Str("inputs.g", "sq"))}
TmplLeft == IF LEVEL >= 2 THEN PRefsOn("inputs") ELSE {PRef("inputs", <<s1>>) : s1 \in UNION {Seg1(f) : f \in FieldsQ}}
Templates == Wrap("template", "some", {Tmpl(p1, p2) : p1 \in TmplLeft, p2 \in TmplParts}
                                      \cup {Tmpl(p1, p2) : p1 \in TmplParts, p2 \in {PRef("inputs", <<Seg("dq", "g")>>)}})

Family == ParamRefs \cup Direct \cup Alias \cup Rebinding \cup Functions \cup Computed \cup Mentions \cup ParensTop
          \cup Concats \cup Templates \cup ScopeBalance
=============================================================================
