CONSTANTS LEVEL = 1
INIT Init
NEXT Next
