---------------------------- MODULE MC_ExprDeps ----------------------------
(* Exhaustive check of the evaluator on the whole family: one initial state per expression.
   These are laws of the SPECIFICATION (sanity of `Run`, existence of a sound analysis); the verdict
   on StreamFlow comes from the binding in harness/vh/props/C31.py.  One invariant evaluates `Run`
   once per expression, asserts every law and (EMIT) prints the case for the oracle and the binding. *)
EXTENDS ExprDepsFamily, Json
CONSTANT EMIT
VARIABLE cs
Init == cs \in Family
Next == UNCHANGED cs

Laws ==
  LET r     == Run(cs.e)
      keys  == {s.f : s \in r.reads}
      reads == keys \cap InputFields
      safe  == SafeDeps(cs.e)
  IN \* the evaluator never leaves the modelled fragment, and every expression of the family evaluates
     /\ Assert(r.sup, <<"Supported", cs>>)
     /\ Assert(r.ok, <<"Evaluates", cs>>)
     \* the class label says whether a field of inputs is read at all (guards against a vacuous evaluator)
     /\ Assert((cs.x = "none" => reads = {}) /\ (cs.x = "some" => reads # {}), <<"ClassExpectation", cs>>)
     \* non-interference: the inputs object is reachable only through the identifier `inputs`
     /\ Assert(~UsesInputsIdentifier(cs.e) => keys = {}, <<"NoIdentifierNoRead", cs>>)
     \* a sound static analysis exists for this syntax (so the property is satisfiable)
     /\ Assert(reads \subseteq safe, <<"SoundAnalysisExists", cs>>)
     \* every key read is either a field of inputs or the numeric index
     /\ Assert(keys \subseteq (InputFields \cup {"0"}), <<"KeysAreKnown", cs>>)
     /\ EMIT => PrintT(ToJson([c |-> cs.c, x |-> cs.x, e |-> cs.e, keys |-> keys, reads |-> reads,
                               sites |-> r.reads, ok |-> r.ok, sup |-> r.sup, safe |-> safe]))
ASSUME EMIT => PrintT(ToJson([heap |-> Heap]))
=============================================================================
