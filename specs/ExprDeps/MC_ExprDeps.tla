---------------------------- MODULE MC_ExprDeps ----------------------------
(* Exhaustive check of the evaluator on the whole family: one initial state per expression.
   These are laws of the SPECIFICATION (sanity of `Run`, existence of a sound analysis); the verdict
   on StreamFlow comes from the binding in harness/vh/props/C31.py.                                *)
EXTENDS ExprDepsFamily
VARIABLE cs
Init == cs \in Family
Next == UNCHANGED cs

\* the evaluator never leaves the modelled fragment, and every expression of the family evaluates
Supported == Run(cs.e).sup
Evaluates == Run(cs.e).ok
\* the class label says whether a field of inputs is read at all (guards against a vacuous evaluator)
ClassExpectation == (cs.x = "none" => Reads(cs.e) = {}) /\ (cs.x = "some" => Reads(cs.e) # {})
\* non-interference: the inputs object is reachable only through the identifier `inputs`
NoIdentifierNoRead == ~UsesInputsIdentifier(cs.e) => KeysRead(cs.e) = {}
\* a sound static analysis exists for this syntax (so the property is satisfiable)
SoundAnalysisExists == Reads(cs.e) \subseteq SafeDeps(cs.e)
\* every key read is either a field of inputs or the numeric index
KeysAreKnown == KeysRead(cs.e) \subseteq (InputFields \cup {"0"})
=============================================================================
