CONSTANTS LEVEL = 1
          EMIT = TRUE
INIT Init
NEXT Next
INVARIANT Laws
