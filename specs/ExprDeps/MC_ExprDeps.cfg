CONSTANTS LEVEL = 1
INIT Init
NEXT Next
INVARIANT Supported
INVARIANT Evaluates
INVARIANT ClassExpectation
INVARIANT NoIdentifierNoRead
INVARIANT SoundAnalysisExists
INVARIANT KeysAreKnown
