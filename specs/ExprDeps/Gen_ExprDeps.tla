---------------------------- MODULE Gen_ExprDeps ----------------------------
(* Generation: TLC evaluates `Run` on every expression of the family and writes
   (class, AST, keys read, fields read, read sites, ok) together with the heap as JSON.        *)
EXTENDS ExprDepsFamily, Json, IOUtils, SequencesExt
Case(cs) == LET r == Run(cs.e)
            IN [c |-> cs.c, x |-> cs.x, e |-> cs.e, keys |-> {s.f : s \in r.reads},
                reads |-> {s.f : s \in r.reads} \cap InputFields, sites |-> r.reads,
                ok |-> r.ok, sup |-> r.sup, safe |-> SafeDeps(cs.e)]
ASSUME JsonSerialize(IOEnv.OUT_FILE, [heap |-> Heap, cases |-> SetToSeq({Case(cs) : cs \in Family})])
VARIABLE z
Init == z = 0
Next == UNCHANGED z
=============================================================================
