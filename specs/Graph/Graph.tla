-------------------------------- MODULE Graph --------------------------------
(* The directed-graph structures used by recovery (`streamflow/recovery/utils.py`):
   DirectedGraph (add, remove_nodes with/without pruning, replace) and
   DirectedAcyclicGraph (promote_to_source, get_sources/get_sinks).

   The state is what the code keeps: two adjacency maps `succ` and `pred` whose common domain is
   the node set.  Every operation is TRANSCRIBED as the code performs it (stack-based removal,
   incremental pruning test `not successors[pred].difference(stack)`, edge-by-edge replace) and,
   in the same step, compared with its DECLARATIVE meaning on a plain graph (a set of nodes and a
   set of edges); `ok` records whether they agreed, `ret` is the value returned to the caller.
   TLC therefore proves on the whole bounded state graph that the algorithm refines the plain
   graph semantics of the property; the harness replays every transition on the real classes.  *)
EXTENDS Naturals, Sequences, FiniteSets, TLC

CONSTANTS N,        \* node universe 1..N
          Acyclic   \* TRUE: only edges that keep the graph a DAG are added (DirectedAcyclicGraph)

VARIABLES succ, pred, ret, ok
vars == <<succ, pred, ret, ok>>

Node == 1..N
Nodes == DOMAIN succ
Edges(s) == {e \in (DOMAIN s) \X (DOMAIN s) : e[2] \in s[e[1]]}

---------------------------------------------------------------------------
(* Declarative layer: a plain graph <<V, E>>. *)
SuccOf(E, u) == {e[2] : e \in {x \in E : x[1] = u}}
PredOf(E, v) == {e[1] : e \in {x \in E : x[2] = v}}

RECURSIVE Reach(_, _, _)
Reach(E, frontier, seen) ==          \* nodes reachable from frontier (inclusive)
  IF frontier = {} THEN seen
  ELSE LET nxt == UNION {SuccOf(E, u) : u \in frontier} \ (seen \cup frontier)
       IN Reach(E, nxt, seen \cup frontier)
HasPath(E, u, v) == v \in Reach(E, {u}, {})

\* least R containing S /\ V and closed under: a predecessor of a node of R all of whose
\* successors are in R belongs to R  (only when pruning)
RECURSIVE Closure(_, _, _, _)
Closure(V, E, R, prune) ==
  LET more == IF prune
              THEN {p \in V \ R : /\ SuccOf(E, p) \cap R # {}
                                  /\ SuccOf(E, p) \subseteq R}
              ELSE {}
  IN IF more = {} THEN R ELSE Closure(V, E, R \cup more, prune)
RemovedSet(V, E, S, prune) == Closure(V, E, S \cap V, prune)
Restrict(E, V) == {e \in E : e[1] \in V /\ e[2] \in V}
Rename(E, o, n) == {<<IF e[1] = o THEN n ELSE e[1], IF e[2] = o THEN n ELSE e[2]>> : e \in E}

---------------------------------------------------------------------------
(* Algorithmic layer: literal transcription over the two maps. *)
SetToSortedSeq(S) ==                 \* deterministic iteration order (the result is order independent)
  LET RECURSIVE F(_)
      F(T) == IF T = {} THEN <<>> ELSE LET m == CHOOSE x \in T : \A y \in T : x <= y
                                       IN <<m>> \o F(T \ {m})
  IN F(S)
SeqRange(s) == {s[i] : i \in 1..Len(s)}

AddNode(s, u) == IF u \in DOMAIN s THEN s ELSE [x \in DOMAIN s \cup {u} |-> IF x = u THEN {} ELSE s[x]]

\* inner loop of remove_nodes over the predecessors of `cur`
RECURSIVE PredLoop(_, _, _, _, _)
PredLoop(ps, cur, s, stack, prune) ==
  IF ps = <<>> THEN [s |-> s, stack |-> stack]
  ELSE LET p == Head(ps)
           s1 == [s EXCEPT ![p] = @ \ {cur}]
           st1 == IF prune /\ (s1[p] \ SeqRange(stack)) = {} THEN Append(stack, p) ELSE stack
       IN PredLoop(Tail(ps), cur, s1, st1, prune)

RECURSIVE RemAlgo(_, _, _, _, _)
RemAlgo(stack, s, p, removed, prune) ==
  IF stack = <<>> THEN [s |-> s, p |-> p, removed |-> removed]
  ELSE LET cur == stack[Len(stack)]
           rest == SubSeq(stack, 1, Len(stack) - 1)
       IN IF cur \notin DOMAIN s THEN RemAlgo(rest, s, p, removed, prune)
          ELSE LET p1 == [x \in DOMAIN p |-> IF x \in s[cur] THEN p[x] \ {cur} ELSE p[x]]
                   lp == PredLoop(SetToSortedSeq(p1[cur]), cur, s, rest, prune)
                   s2 == [x \in (DOMAIN s) \ {cur} |-> lp.s[x]]
                   p2 == [x \in (DOMAIN p) \ {cur} |-> p1[x]]
               IN RemAlgo(lp.stack, s2, p2, Append(removed, cur), prune)

\* replace(old, new) edge by edge
ReplAlgo(s, p, o, n) ==
  LET s0 == AddNode(s, n)
      p0 == AddNode(p, n)
      \* first loop: successors of old
      s1 == [s0 EXCEPT ![n] = @ \cup s0[o]]
      p1 == [x \in DOMAIN p0 |-> IF x \in s0[o] THEN (p0[x] \ {o}) \cup {n} ELSE p0[x]]
      \* second loop: predecessors of old (as updated by the first loop)
      p2 == [p1 EXCEPT ![n] = @ \cup p1[o]]
      s2 == [x \in DOMAIN s1 |-> IF x \in p1[o] THEN (s1[x] \ {o}) \cup {n} ELSE s1[x]]
  IN [s |-> [x \in (DOMAIN s2) \ {o} |-> s2[x]], p |-> [x \in (DOMAIN p2) \ {o} |-> p2[x]]]

---------------------------------------------------------------------------
Init == succ = <<>> /\ pred = <<>> /\ ret = "none" /\ ok = TRUE

Add(u, v) ==      \* add(u, v); v = 0 stands for add(u)
  /\ u \in Node /\ v \in Node \cup {0}
  /\ (Acyclic /\ v # 0) => (u # v /\ ~HasPath(Edges(succ), v, u))
  /\ LET s1 == AddNode(succ, u)
         p1 == AddNode(pred, u)
         s2 == IF v = 0 THEN s1 ELSE [AddNode(s1, v) EXCEPT ![u] = @ \cup {v}]
         p2 == IF v = 0 THEN p1 ELSE [AddNode(p1, v) EXCEPT ![v] = @ \cup {u}]
     IN /\ succ' = s2 /\ pred' = p2
        /\ ok' = (/\ DOMAIN s2 = Nodes \cup {u} \cup (IF v = 0 THEN {} ELSE {v})
                  /\ Edges(s2) = Edges(succ) \cup (IF v = 0 THEN {} ELSE {<<u, v>>}))
  /\ ret' = "none"

RemoveNodes(S, prune) ==
  /\ S \subseteq Node
  /\ LET a == RemAlgo(SetToSortedSeq(S), succ, pred, <<>>, prune)
         R == RemovedSet(Nodes, Edges(succ), S, prune)
     IN /\ succ' = a.s /\ pred' = a.p
        /\ ret' = SeqRange(a.removed)
        /\ ok' = (/\ SeqRange(a.removed) = R
                  /\ Len(a.removed) = Cardinality(R)            \* no node reported twice
                  /\ DOMAIN a.s = Nodes \ R
                  /\ Edges(a.s) = Restrict(Edges(succ), Nodes \ R))

Replace(o, n) ==
  /\ o \in Node /\ n \in Node /\ o # n
  /\ IF o \notin Nodes THEN UNCHANGED <<succ, pred>> /\ ret' = "none" /\ ok' = TRUE
     ELSE IF n \in Nodes THEN UNCHANGED <<succ, pred>> /\ ret' = "ValueError" /\ ok' = TRUE
     ELSE LET a == ReplAlgo(succ, pred, o, n)
          IN /\ succ' = a.s /\ pred' = a.p /\ ret' = "none"
             /\ ok' = (/\ DOMAIN a.s = (Nodes \ {o}) \cup {n}
                       /\ Edges(a.s) = Rename(Edges(succ), o, n))

Promote(n) ==        \* DirectedAcyclicGraph.promote_to_source
  /\ Acyclic /\ n \in Node
  /\ IF n \notin Nodes THEN UNCHANGED <<succ, pred>> /\ ret' = {} /\ ok' = TRUE
     ELSE LET ps == pred[n]
              s1 == [x \in Nodes |-> IF x \in ps THEN succ[x] \ {n} ELSE succ[x]]
              p1 == [pred EXCEPT ![n] = {}]
              del == {x \in ps : s1[x] = {}}
              a == RemAlgo(SetToSortedSeq(del), s1, p1, <<>>, TRUE)
              E1 == Edges(succ) \ {e \in Edges(succ) : e[2] = n}
              R == RemovedSet(Nodes, E1, {x \in PredOf(Edges(succ), n) : SuccOf(E1, x) = {}}, TRUE)
          IN /\ succ' = a.s /\ pred' = a.p /\ ret' = SeqRange(a.removed)
             /\ ok' = (/\ SeqRange(a.removed) = R
                       /\ n \notin R
                       /\ DOMAIN a.s = Nodes \ R
                       /\ Edges(a.s) = Restrict(E1, Nodes \ R)
                       /\ a.p[n] = {})

Next == \/ \E u \in Node, v \in Node \cup {0} : Add(u, v)
        \/ \E S \in SUBSET Node, prune \in BOOLEAN : RemoveNodes(S, prune)
        \/ \E o, n \in Node : Replace(o, n)
        \/ \E n \in Node : Promote(n)
Spec == Init /\ [][Next]_vars

---------------------------------------------------------------------------
(* Properties *)
TypeOK == /\ DOMAIN succ = DOMAIN pred /\ DOMAIN succ \subseteq Node
          /\ \A x \in DOMAIN succ : succ[x] \subseteq DOMAIN succ /\ pred[x] \subseteq DOMAIN succ
Mirror == \A u, v \in DOMAIN succ : (v \in succ[u]) <=> (u \in pred[v])
AlgoRefinesPlainGraph == ok
StaysAcyclic == Acyclic => \A u \in DOMAIN succ : \A v \in succ[u] : ~HasPath(Edges(succ), v, u)
\* queries the harness compares on the real object
Sources == {x \in DOMAIN pred : pred[x] = {}}
Sinks == {x \in DOMAIN succ : succ[x] = {}}
=============================================================================
