CONSTANTS N = 4  Acyclic = TRUE
INIT Init
NEXT GenNext
VIEW View
