CONSTANTS N = 3  Acyclic = FALSE
INIT Init
NEXT GenNext
VIEW View
