CONSTANTS N = 4  Acyclic = FALSE
INIT Init
NEXT GenNext
VIEW View
