CONSTANTS N = 3  Acyclic = TRUE
INIT Init
NEXT Next
VIEW View
INVARIANT TypeOK
INVARIANT Mirror
INVARIANT AlgoRefinesPlainGraph
INVARIANT StaysAcyclic
