------------------------------ MODULE MC_Graph ------------------------------
EXTENDS Graph, Json
(* `ret`/`ok` are observations of the last step: hidden from the fingerprint so that they do not
   multiply states; invariants are still evaluated on the full state.                            *)
View == <<succ, pred>>
\* B-edge generation: one JSON line per transition (used with Gen_*.cfg, -workers 1)
SetJ(S) == SetToSortedSeq(S)
MapJ(f) == [x \in {ToString(k) : k \in DOMAIN f} |-> SetJ(f[CHOOSE k \in DOMAIN f : ToString(k) = x])]
StateJ(s, p) == [succ |-> MapJ(s), pred |-> MapJ(p)]
Emit(op, args, retIsSet) == PrintT(ToJson([from |-> StateJ(succ, pred), op |-> op, args |-> args,
                                 to |-> StateJ(succ', pred'),
                                 ret |-> IF retIsSet THEN SetJ(ret') ELSE ret',
                                 sources |-> SetJ({x \in DOMAIN pred' : pred'[x] = {}}),
                                 sinks |-> SetJ({x \in DOMAIN succ' : succ'[x] = {}})]))
GenNext == \/ \E u \in Node, v \in Node \cup {0} : Add(u, v) /\ Emit("add", <<u, v>>, FALSE)
           \/ \E S \in SUBSET Node, prune \in BOOLEAN : RemoveNodes(S, prune) /\ Emit("remove_nodes", <<SetJ(S), prune>>, TRUE)
           \/ \E o, n \in Node : Replace(o, n) /\ Emit("replace", <<o, n>>, FALSE)
           \/ \E n \in Node : Promote(n) /\ Emit("promote_to_source", <<n>>, TRUE)
=============================================================================
