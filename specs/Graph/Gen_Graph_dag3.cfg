CONSTANTS N = 3  Acyclic = TRUE
INIT Init
NEXT GenNext
VIEW View
