CONSTANTS N = 4  Acyclic = FALSE
INIT Init
NEXT Next
VIEW View
INVARIANT TypeOK
INVARIANT Mirror
INVARIANT AlgoRefinesPlainGraph
INVARIANT StaysAcyclic
