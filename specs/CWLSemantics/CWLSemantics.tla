---------------------------- MODULE CWLSemantics ----------------------------
(* An executable semantics of the CWL v1.2 workflow feature subset that StreamFlow's translator
   supports (streamflow/cwl/translator.py), bound to the reference runner cwltool.

   PART 1  values        abstract CWL values as tagged records
   PART 2  tools         a fixed library of ExpressionTools (and one slow CommandLineTool)
   PART 3  semantics     step inputs (source / linkMerge / pickValue / default), scatter with the
                         three methods, valueFrom, when, loop, one level of subworkflow, workflow
                         outputs.  Eval(program) = the output object or Fail.
   PART 4  generator     a state machine whose states are (partial) programs: TLC explores /
                         samples the programs; the harness renders every emitted program to CWL
                         documents and runs cwltool (the oracle) and StreamFlow on it.

   Reference for every rule: cwltool/workflow_job.py (object_from_state, try_make_job,
   postScatterEval, *_scatter, WorkflowJobLoopStep) -- when cwltool and this module disagree the
   module is wrong (DESIGN.md section 7 rule 5).                                                  *)
EXTENDS Naturals, Integers, Sequences, FiniteSets, TLC

(* ------------------------------------------------------------------------------------------ *)
(* PART 1: values                                                                               *)
Null    == [t |-> "null"]
NoVal   == [t |-> "none"]          \* "absent": no default / input omitted from the job
Fail    == [t |-> "fail"]          \* not a value: the evaluation failed
IntV(n) == [t |-> "int", v |-> n]
StrV(s) == [t |-> "str", v |-> s]
ArrV(s) == [t |-> "arr", v |-> s]
Ok(s)   == [t |-> "ok", v |-> s]   \* result of a (sub)workflow: sequence of output values

IsNull(x) == x.t = "null"
IsInt(x)  == x.t = "int"
IsArr(x)  == x.t = "arr"
IsFail(x) == x.t = "fail"

RECURSIVE HasFail(_)
HasFail(x) == IsFail(x) \/ (IsArr(x) /\ \E i \in DOMAIN x.v : HasFail(x.v[i]))

RECURSIVE HasNull(_)
HasNull(x) == IsNull(x) \/ (IsArr(x) /\ \E i \in DOMAIN x.v : HasNull(x.v[i]))

RECURSIVE WellFormed(_)
WellFormed(x) == \/ x.t = "null" /\ DOMAIN x = {"t"}
                 \/ x.t = "int" /\ x.v \in Int
                 \/ x.t = "str" /\ x.v \in STRING
                 \/ x.t = "arr" /\ \A i \in DOMAIN x.v : WellFormed(x.v[i])

RECURSIVE ConcatAll(_)
ConcatAll(ss) == IF ss = <<>> THEN <<>> ELSE Head(ss) \o ConcatAll(Tail(ss))

RECURSIVE SumInts(_)
SumInts(s) == IF s = <<>> THEN 0 ELSE Head(s).v + SumInts(Tail(s))

RangeOf(s) == {s[i] : i \in DOMAIN s}

(* ------------------------------------------------------------------------------------------ *)
(* PART 2: tools.  Every tool has one output `o`.  Input types are checked when the tool is
   invoked (cwltool: Process._init_job -> fill_in_defaults + validate); a value that does not
   validate makes the step (and the workflow) fail.                                              *)
Accepts(ty, x) ==
  CASE ty = "Any?"   -> TRUE
    [] ty = "int"    -> IsInt(x)
    [] ty = "int?"   -> IsInt(x) \/ IsNull(x)
    [] ty = "int[]"  -> IsArr(x) /\ \A i \in DOMAIN x.v : IsInt(x.v[i])
    [] ty = "Any?[]" -> IsArr(x)

BasicTools == {"id", "inc", "incd", "nullodd", "sum", "len", "tostr", "add", "pair", "slow"}

ToolTy(t, n) ==
  CASE t \in {"inc", "nullodd", "tostr", "add"} -> "int"
    [] t = "incd" -> "int?"
    [] t = "sum"  -> "int[]"
    [] t = "len"  -> "Any?[]"
    [] OTHER      -> "Any?"

ToolDf(t, n) == IF t = "incd" THEN IntV(10) ELSE NoVal     \* tool-level `default`

ToolIns(t) == IF t \in {"add", "pair"} THEN <<"x", "y">> ELSE <<"x">>

ApplyBasic(t, a) ==
  CASE t = "id"              -> a["x"]
    [] t = "slow"            -> IntV(1)      \* a CommandLineTool (sleep 1) with a constant output
    [] t \in {"inc", "incd"} -> IntV(a["x"].v + 1)
    [] t = "nullodd"         -> IF a["x"].v % 2 = 1 THEN Null ELSE a["x"]
    [] t = "sum"             -> IntV(SumInts(a["x"].v))
    [] t = "len"             -> IntV(Len(a["x"].v))
    [] t = "tostr"           -> StrV("s" \o ToString(a["x"].v))
    [] t = "add"             -> IntV(a["x"].v + a["y"].v)
    [] t = "pair"            -> ArrV(<<a["x"], a["y"]>>)

(* ------------------------------------------------------------------------------------------ *)
(* PART 3: semantics                                                                            *)

\* A source is a workflow input [k |-> "in", i |-> n] or the output of an earlier step.
SrcVal(env, s) == IF s.k = "in" THEN env.ins[s.i] ELSE env.res[s.i]

\* linkMerge (object_from_state / match_types).  One source without linkMerge: the value itself;
\* several sources default to merge_nested; an explicit linkMerge applies to one source as well.
Merged(lm, vals) ==
  IF Len(vals) = 0 THEN NoVal
  ELSE IF Len(vals) = 1 /\ lm = "none" THEN vals[1]
  ELSE IF lm = "merge_flattened"
       THEN ArrV(ConcatAll([i \in DOMAIN vals |-> IF IsArr(vals[i]) THEN vals[i].v ELSE <<vals[i]>>]))
       ELSE ArrV(vals)

\* pickValue: cwltool applies it whenever the (merged) value is a list.
Picked(pv, m) ==
  IF pv = "none" \/ ~IsArr(m) THEN m
  ELSE LET nn == SelectSeq(m.v, LAMBDA e : ~IsNull(e)) IN
       CASE pv = "first_non_null"    -> IF Len(nn) = 0 THEN Fail ELSE nn[1]
         [] pv = "the_only_non_null" -> IF Len(nn) = 1 THEN nn[1] ELSE Fail
         [] pv = "all_non_null"      -> ArrV(nn)

\* the value of a step input / workflow output before scatter and valueFrom
RawBind(env, b) ==
  LET vals == [i \in DOMAIN b.src |-> SrcVal(env, b.src[i])] IN
  IF \E i \in DOMAIN vals : IsFail(vals[i]) THEN Fail
  ELSE LET p == Picked(b.pv, Merged(b.lm, vals)) IN
       IF IsFail(p) THEN Fail
       ELSE IF p = NoVal \/ IsNull(p) THEN (IF b.df # NoVal THEN b.df ELSE Null)
       ELSE p

\* cwltool builds the step input parameter from the tool's input parameter, so a tool-level `default` also
\* acts as the default of the step input (it is visible to valueFrom / when / scatter)
RawStepBind(env, st, b) ==
  LET v == RawBind(env, b) IN
  IF ~IsFail(v) /\ IsNull(v) /\ st.tool \in {"incd"} /\ b.name = "x" THEN IntV(10) ELSE v

\* valueFrom library (rendered as JavaScript by the harness, see harness/vh/sut/cwl_render.py)
VF(vf, self, obj) ==
  CASE vf = "none"  -> self
    [] vf = "inc"   -> IF IsInt(self) THEN IntV(self.v + 1) ELSE self
    [] vf = "wrap"  -> ArrV(<<self>>)
    [] vf = "null"  -> Null
    [] vf = "seven" -> IntV(7)
    [] vf = "inx"   -> obj["x"]           \* `inputs.x`: the value of x BEFORE any valueFrom

\* `when` library: "true" / "false" / "fail" (not a boolean)
WhenVal(w, obj) ==
  CASE w.k = "none" -> "true"
    [] w.k = "pos"  -> IF IsInt(obj[w.n]) /\ obj[w.n].v > 1 THEN "true" ELSE "false"
    [] w.k = "nn"   -> IF IsNull(obj[w.n]) THEN "false" ELSE "true"
    [] w.k = "no"   -> "false"
    [] w.k = "bad"  -> "fail"

BindNamed(st, n) == LET i == CHOOSE j \in DOMAIN st.in : st.in[j].name = n IN st.in[i]

RECURSIVE EvalWF(_, _)

\* invoke the process of a step on a (post-valueFrom) input object
RunTool(t, obj, lib) ==
  LET a == [n \in RangeOf(ToolIns(t)) |->
              IF IsNull(obj[n]) /\ ToolDf(t, n) # NoVal THEN ToolDf(t, n) ELSE obj[n]] IN
  IF t \in BasicTools
  THEN IF \E n \in DOMAIN a : ~Accepts(ToolTy(t, n), a[n]) THEN Fail ELSE ApplyBasic(t, a)
  ELSE LET r == EvalWF(lib[t], <<a["x"]>>) IN IF IsFail(r) THEN Fail ELSE r.v[1]

\* loop (cwltool:Loop): `lp.k` = "none" | "last" | "all"; the loop feeds output o back into x and
\* continues while x is an int below lp.lt; lp.vf is the valueFrom of the feedback.
RECURSIVE Iterate(_, _, _, _, _)
Iterate(st, obj, acc, n, lib) ==
  LET go == IsInt(obj["x"]) /\ obj["x"].v < st.lp.lt IN
  IF ~go THEN (IF st.lp.k = "all" THEN ArrV(acc) ELSE IF n = 0 THEN Null ELSE acc[Len(acc)])
  ELSE LET r == RunTool(st.tool, obj, lib) IN
       IF IsFail(r) THEN Fail
       ELSE Iterate(st, [obj EXCEPT !["x"] = VF(st.lp.vf, r, obj)], Append(acc, r), n + 1, lib)

\* one (scatter slice of a) step: valueFrom, then when, then the process
RunOne(st, obj, lib) ==
  LET ps == [n \in DOMAIN obj |-> VF(BindNamed(st, n).vf, obj[n], obj)]
      w  == WhenVal(st.when, ps)
  IN IF w = "fail" THEN Fail
     ELSE IF w = "false" THEN Null
     ELSE IF st.lp.k # "none" THEN Iterate(st, ps, <<>>, 0, lib)
     ELSE RunTool(st.tool, ps, lib)

\* nested_crossproduct: one array level per scattered input, in the order of `scatter`
RECURSIVE Nest(_, _, _, _)
Nest(st, obj, i, lib) ==
  IF i > Len(st.sc) THEN RunOne(st, obj, lib)
  ELSE LET n == st.sc[i] IN
       ArrV([k \in 1..Len(obj[n].v) |-> Nest(st, [obj EXCEPT ![n] = obj[n].v[k]], i + 1, lib)])

\* remove d levels of nesting (only the levels created by the scatter)
RECURSIVE FlatLevels(_, _)
FlatLevels(a, d) == IF d = 0 THEN a.v
                    ELSE ConcatAll([i \in DOMAIN a.v |-> FlatLevels(a.v[i], d - 1)])

\* flat_crossproduct defined independently of Nest, by index arithmetic (row-major order)
RECURSIVE Strides(_, _)
Strides(lens, i) == IF i > Len(lens) THEN 1 ELSE lens[i] * Strides(lens, i + 1)
FlatCross(st, obj, lib) ==
  LET lens  == [i \in DOMAIN st.sc |-> Len(obj[st.sc[i]].v)]
      total == Strides(lens, 1)
      Idx(m, i) == (((m - 1) \div Strides(lens, i + 1)) % lens[i]) + 1
      Slice(m) == [n \in DOMAIN obj |->
                     IF \E i \in DOMAIN st.sc : st.sc[i] = n
                     THEN LET i == CHOOSE j \in DOMAIN st.sc : st.sc[j] = n IN obj[n].v[Idx(m, i)]
                     ELSE obj[n]]
  IN ArrV([m \in 1..total |-> RunOne(st, Slice(m), lib)])

\* cwltool checks, when a link is followed (match_types), that the DECLARED type of the source can be
\* assigned to the declared type of the sink, unless the input has linkMerge or valueFrom.  All ports of the
\* generated documents are Any? except: tool inputs (ToolTy), the output of a scattered step (an array) and
\* the output of a loop with outputMethod all (an array of optional arrays, as cwltool declares it).
LinkTypeMismatch(env, st) ==
  \/ \* static checker (at load time): a merged list of sources can never be assigned to a scalar sink
     \E i \in DOMAIN st.in :
        LET b == st.in[i] IN
        /\ (Len(b.src) >= 2 \/ (b.lm # "none" /\ Len(b.src) = 1))
        /\ b.pv \notin {"first_non_null", "the_only_non_null"} /\ b.vf = "none"
        /\ b.name \in RangeOf(ToolIns(st.tool)) /\ b.name \notin RangeOf(st.sc)
        /\ st.tool \in BasicTools /\ ToolTy(st.tool, b.name) \in {"int", "int?"}
  \/ \* run time (match_types)
   \E i \in DOMAIN st.in :
     LET b == st.in[i] IN
     /\ Len(b.src) = 1 /\ b.lm = "none" /\ b.vf = "none" /\ b.src[1].k = "step"
     /\ b.name \in RangeOf(ToolIns(st.tool))
     /\ LET ps == env.steps[b.src[1].i]
            scattered == b.name \in RangeOf(st.sc)
            ty == IF st.tool \in BasicTools THEN ToolTy(st.tool, b.name) ELSE "Any?" IN
        \/ (ps.sc # <<>> \/ ps.lp.k = "all") /\ ~scattered /\ ty \in {"int", "int?"}
        \/ ps.lp.k = "all" /\ ((~scattered /\ ty = "int[]") \/ (scattered /\ ty \in {"int", "int?"}))

EvalStep(env, st, lib) ==
  LET raw == [i \in DOMAIN st.in |-> RawStepBind(env, st, st.in[i])] IN
  IF \E i \in DOMAIN raw : IsFail(raw[i]) THEN Fail
  ELSE IF LinkTypeMismatch(env, st) THEN Fail
  ELSE LET obj == [n \in {st.in[i].name : i \in DOMAIN st.in} |->
                     raw[CHOOSE i \in DOMAIN st.in : st.in[i].name = n]] IN
       IF st.sc = <<>> THEN RunOne(st, obj, lib)
       ELSE IF \E i \in DOMAIN st.sc : ~IsArr(obj[st.sc[i]]) THEN Fail
       ELSE LET r ==
              CASE st.method \in {"none", "dotproduct"} ->
                     LET len == Len(obj[st.sc[1]].v) IN
                     IF \E i \in DOMAIN st.sc : Len(obj[st.sc[i]].v) # len THEN Fail
                     ELSE ArrV([k \in 1..len |->
                                 RunOne(st, [n \in DOMAIN obj |->
                                               IF n \in RangeOf(st.sc) THEN obj[n].v[k] ELSE obj[n]], lib)])
                [] st.method = "nested_crossproduct" -> Nest(st, obj, 1, lib)
                [] st.method = "flat_crossproduct"   -> FlatCross(st, obj, lib)
            IN IF HasFail(r) THEN Fail ELSE r

RECURSIVE RunSteps(_, _, _, _)
RunSteps(wf, ins, res, lib) ==
  IF Len(res) = Len(wf.steps) THEN res
  ELSE RunSteps(wf, ins, Append(res, EvalStep([ins |-> ins, res |-> res, steps |-> wf.steps],
                                              wf.steps[Len(res) + 1], lib)), lib)

\* the library of subworkflows (input x, output o); they contain no subworkflow themselves
In(i)   == [k |-> "in", i |-> i]
Of(i)   == [k |-> "step", i |-> i]
Plain(n, s) == [name |-> n, src |-> <<s>>, lm |-> "none", pv |-> "none", df |-> NoVal, vf |-> "none"]
NoWhen  == [k |-> "none", n |-> "x"]
NoLoop  == [k |-> "none", lt |-> 0, vf |-> "none"]
Simple(t, s) == [tool |-> t, in |-> <<Plain("x", s)>>, sc |-> <<>>, method |-> "none",
                 when |-> NoWhen, lp |-> NoLoop]
OutOf(ss, lm, pv) == [name |-> "o", src |-> ss, lm |-> lm, pv |-> pv, df |-> NoVal, vf |-> "none"]

SubLib ==
  [n \in {"sub_inc2", "sub_cond", "sub_scat"} |->
     CASE n = "sub_inc2" -> [steps |-> <<Simple("inc", In(1)), Simple("inc", Of(1))>>,
                             outs |-> <<OutOf(<<Of(2)>>, "none", "none")>>]
       [] n = "sub_cond" -> [steps |-> <<[Simple("id", In(1)) EXCEPT !.when = [k |-> "pos", n |-> "x"]]>>,
                             outs |-> <<OutOf(<<Of(1), In(1)>>, "merge_nested", "all_non_null")>>]
       [] n = "sub_scat" -> [steps |-> <<[Simple("nullodd", In(1)) EXCEPT !.sc = <<"x">>, !.method = "dotproduct"]>>,
                             outs |-> <<OutOf(<<Of(1)>>, "none", "all_non_null")>>]]
NoLib == [n \in {} |-> 0]

EvalWF(wf, ins) ==
  LET lib  == IF "top" \in DOMAIN wf THEN SubLib ELSE NoLib
      res  == RunSteps(wf, ins, <<>>, lib)
      env  == [ins |-> ins, res |-> res]
      outs == [k \in DOMAIN wf.outs |-> RawBind(env, wf.outs[k])]
  IN IF (\E i \in DOMAIN res : IsFail(res[i])) \/ (\E k \in DOMAIN outs : IsFail(outs[k]))
     THEN Fail ELSE Ok(outs)

\* workflow inputs: a missing or null job value takes the declared default, else null
EffIns(p) == [i \in DOMAIN p.ins |->
                IF p.ins[i] = NoVal \/ IsNull(p.ins[i])
                THEN (IF p.indf[i] # NoVal THEN p.indf[i] ELSE Null) ELSE p.ins[i]]

Eval(p) == EvalWF(p, EffIns(p))
Expected(p) == LET r == Eval(p) IN IF IsFail(r) THEN [fail |-> TRUE, outs |-> <<>>]
                                   ELSE [fail |-> FALSE, outs |-> r.v]

(* Semantic events of an evaluation: which corner of the semantics a program exercises.  They are
   emitted with every program; the harness uses them as coverage classes and to name the class of a
   disagreement between StreamFlow and the reference (violation signatures).                     *)
BindEvents(env, b, where) ==
  LET vals == [i \in DOMAIN b.src |-> SrcVal(env, b.src[i])] IN
       (IF b.pv # "none" /\ Len(b.src) = 1 /\ b.lm = "none" /\ IsArr(vals[1])
        THEN {"pickValue-on-single-list-source:" \o where} ELSE {})
  \cup (IF b.lm # "none" /\ Len(b.src) = 1 THEN {"linkMerge-single-source:" \o where} ELSE {})
  \cup (IF \E i, j \in DOMAIN b.src : i < j /\ b.src[i] = b.src[j] THEN {"duplicate-source:" \o where} ELSE {})
  \cup (IF b.lm = "merge_flattened"
           /\ \E i \in DOMAIN vals : IsArr(vals[i]) /\ \E k \in DOMAIN vals[i].v : IsArr(vals[i].v[k])
        THEN {"merge_flattened-of-nested-list:" \o where} ELSE {})
  \cup (IF b.pv \in {"first_non_null", "the_only_non_null"} /\ ~(\E i \in DOMAIN vals : IsFail(vals[i]))
           /\ IsFail(Picked(b.pv, Merged(b.lm, vals)))
        THEN {"pickValue-fails:" \o b.pv} ELSE {})
  \cup (IF b.df # NoVal /\ ~(\E i \in DOMAIN vals : IsFail(vals[i]))
           /\ LET p == Picked(b.pv, Merged(b.lm, vals)) IN p = NoVal \/ IsNull(p)
        THEN {"default-used"} ELSE {})

StepEvents(env, st) ==
  LET raw == [i \in DOMAIN st.in |-> RawStepBind(env, st, st.in[i])]
      Val(n) == raw[CHOOSE i \in DOMAIN st.in : st.in[i].name = n]
      m == IF st.method = "none" THEN "single" ELSE st.method
  IN UNION {BindEvents(env, st.in[i], "in") : i \in DOMAIN st.in}
     \cup (IF st.sc = <<>> \/ (\E i \in DOMAIN raw : IsFail(raw[i])) THEN {}
           ELSE IF \E i \in DOMAIN st.sc : ~IsArr(Val(st.sc[i])) THEN {"scatter-over-non-array"}
           ELSE (IF \E i \in DOMAIN st.sc : Len(Val(st.sc[i]).v) = 0 THEN {"scatter-empty:" \o m} ELSE {})
                \cup (IF st.method \in {"none", "dotproduct"}
                         /\ \E i \in DOMAIN st.sc : Len(Val(st.sc[i]).v) # Len(Val(st.sc[1]).v)
                      THEN {"dotproduct-unequal-lengths"} ELSE {}))
     \cup (IF st.when.k = "bad" THEN {"when-not-boolean"} ELSE {})
     \cup (IF st.tool = "incd" /\ (\E i \in DOMAIN st.in : st.in[i].name = "x" /\ RawBind(env, st.in[i]) = Null)
              /\ ((st.when.k \in {"pos", "nn"} /\ st.when.n = "x") \/ (\E i \in DOMAIN st.in : st.in[i].vf \in {"inx", "inc", "wrap"}))
           THEN {"tool-default-seen-by-step-expression"} ELSE {})
     \cup (IF st.tool = "sub_scat" /\ ~(\E i \in DOMAIN raw : IsFail(raw[i]))
              /\ LET vf == BindNamed(st, "x").vf
                     obj == [n \in {st.in[i].name : i \in DOMAIN st.in} |-> Val(n)]
                     NotArr(v) == ~IsArr(VF(vf, v, [obj EXCEPT !["x"] = v])) IN
                 IF "x" \in RangeOf(st.sc) THEN IsArr(Val("x")) /\ \E k \in DOMAIN Val("x").v : NotArr(Val("x").v[k])
                 ELSE NotArr(Val("x"))
           THEN {"scatter-over-non-array"} ELSE {})   \* the scatter inside the subworkflow
     \cup (IF ~(\E i \in DOMAIN raw : IsFail(raw[i])) /\ LinkTypeMismatch(env, st) THEN {"link-type-mismatch"} ELSE {})

Events(p, r) ==
  LET ins == EffIns(p) IN
  UNION {StepEvents([ins |-> ins, res |-> SubSeq(r, 1, j - 1), steps |-> p.steps], p.steps[j]) : j \in DOMAIN p.steps}
  \cup UNION {BindEvents([ins |-> ins, res |-> r, steps |-> p.steps], p.outs[k], "out") : k \in DOMAIN p.outs}
  \cup (IF \E j \in DOMAIN r : r[j] = Null /\ p.steps[j].sc = <<>> /\ p.steps[j].when.k # "none" THEN {"step-skipped"} ELSE {})
  \cup (IF \E j \in DOMAIN r : IsFail(r[j]) THEN {"step-fails"} ELSE {})
  \cup (IF \E j \in DOMAIN r : /\ p.steps[j].sc # <<>> /\ p.steps[j].when.k # "none" /\ ~IsFail(r[j]) /\ HasNull(r[j])
                                  /\ \E i \in DOMAIN p.steps : \E b \in DOMAIN p.steps[i].in :
                                        \E q \in DOMAIN p.steps[i].in[b].src : p.steps[i].in[b].src[q] = Of(j)
        THEN {"skipped-scatter-slice-consumed-by-step"} ELSE {})

(* ------------------------------------------------------------------------------------------ *)
(* PART 4: the program generator.  A state is a partial program; the actions add one syntactic
   element each, so that exhaustive search enumerates every program of the configured feature
   grid and random simulation samples larger ones.                                              *)
CONSTANTS MaxSteps,      \* steps per workflow
          Tools,         \* subset of BasicTools \cup DOMAIN SubLib
          InDom,         \* <<S1, S2, S3>>: domain of each workflow input
          LMs, PVs, VFs, DFs, Whens, Methods, Loops, OutKinds,  \* feature grids
          NIn,           \* how many of the three workflow inputs steps may use as sources
          OutNs,         \* numbers of sources of the additional merged output (0 = no such output)
          Budgets,       \* initial feature budgets: set of records [ctl, bind, out] (how many non-default
                         \* control / binding / output features the program may use)
          FailOks        \* {TRUE}: any program; FALSE: only programs whose evaluation succeeds
VARIABLES prog,     \* the program built so far: [top, ins, indf, steps, outs]
          res,      \* res[j] = value of the output of step j (or Fail): a function of prog, kept for speed
          cur,      \* the step under construction
          pc,       \* which syntactic element comes next
          budget,   \* remaining feature budget
          nsteps,   \* number of steps this program will have
          failok    \* FALSE: only programs that evaluate successfully are built

vars == <<prog, res, cur, pc, budget, nsteps, failok>>

NoCur == [tool |-> "none"]
Srcs(k) == {In(i) : i \in 1..NIn} \cup {Of(j) : j \in 1..k}
Env == [ins |-> EffIns(prog), res |-> res, steps |-> prog.steps]

NoIns == <<NoVal, NoVal, NoVal>>
Init ==
  /\ prog = [top |-> TRUE, ins |-> NoIns, indf |-> NoIns, steps |-> <<>>, outs |-> <<>>]
  /\ res = <<>>
  /\ cur = NoCur
  /\ pc = "ins"
  /\ budget \in Budgets
  /\ nsteps \in 1..MaxSteps
  /\ failok \in FailOks

\* 0. the job: values of the three workflow inputs (NoVal = not in the job) and the default of i1
PickIns(a, b, c, d) ==
  /\ pc = "ins"
  /\ prog' = [prog EXCEPT !.ins = <<a, b, c>>, !.indf = <<d, NoVal, NoVal>>]
  /\ pc' = "steps"
  /\ UNCHANGED <<res, cur, budget, nsteps, failok>>

Have(k, c) == c <= budget[k]
Spend(k, c) == budget' = [budget EXCEPT ![k] = @ - c]

\* 1. the process of the step (e: an extra step input "e" that the process does not have)
PickTool(t, e) ==
  /\ pc = "steps" /\ Len(prog.steps) < nsteps
  /\ LET c == (IF e THEN 1 ELSE 0) + (IF t \in BasicTools \ {"slow"} THEN 0 ELSE 1) IN Have("ctl", c) /\ Spend("ctl", c)
  /\ cur' = [tool |-> t, names |-> ToolIns(t) \o (IF e THEN <<"e">> ELSE <<>>), in |-> <<>>, pend |-> 0,
             sc |-> <<>>, method |-> "none", when |-> NoWhen, lp |-> NoLoop]
  /\ pc' = "scatter"
  /\ UNCHANGED <<prog, res, nsteps, failok>>

ScatterChoices(names) ==
  {<<>>} \cup {<<n>> : n \in RangeOf(names)}
         \cup (IF Len(names) >= 2 THEN {<<names[1], names[2]>>, <<names[2], names[1]>>} ELSE {})
         \cup (IF Len(names) >= 3 THEN {names} ELSE {})

\* 2. scatter, 3. when, 4. loop
PickScatter(sc, m) ==
  /\ pc = "scatter"
  /\ (Len(sc) <= 1) <=> (m = "none")
  /\ LET c == IF sc # <<>> THEN 1 ELSE 0 IN Have("ctl", c) /\ Spend("ctl", c)
  /\ cur' = [cur EXCEPT !.sc = sc, !.method = m]
  /\ pc' = "when"
  /\ UNCHANGED <<prog, res, nsteps, failok>>

PickWhen(w) ==
  /\ pc = "when"
  /\ w.k = "none" => w.n = "x"
  /\ w.n \in RangeOf(cur.names)
  /\ LET c == IF w.k # "none" THEN 1 ELSE 0 IN Have("ctl", c) /\ Spend("ctl", c)
  /\ cur' = [cur EXCEPT !.when = w]
  /\ pc' = "loop"
  /\ UNCHANGED <<prog, res, nsteps, failok>>

PickLoop(lp) ==
  /\ pc = "loop"
  /\ lp.k # "none" => /\ cur.sc = <<>> /\ cur.when.k = "none"
                      /\ cur.tool \in {"inc", "incd", "id", "sub_inc2"}      \* the loop must make progress
                      /\ lp.vf \in {"none", "inc"}
                      /\ cur.tool = "id" => lp.vf = "inc"
  /\ lp.k = "none" => (lp.lt = 0 /\ lp.vf = "none")
  /\ LET c == IF lp.k # "none" THEN 1 ELSE 0 IN Have("ctl", c) /\ Spend("ctl", c)
  /\ cur' = [cur EXCEPT !.lp = lp]
  /\ pc' = "bind"
  /\ UNCHANGED <<prog, res, nsteps, failok>>

\* 5. one binding per step input: number of sources, linkMerge, pickValue, default, valueFrom ...
Cost(lm, pv, df, vf, n) == (IF lm # "none" THEN 1 ELSE 0) + (IF pv # "none" THEN 1 ELSE 0)
                           + (IF df # NoVal THEN 1 ELSE 0) + (IF vf # "none" THEN 1 ELSE 0)
                           + (IF n = 2 THEN 1 ELSE 0)

AfterBind(c) == IF Len(c.in) = Len(c.names) THEN "endstep" ELSE "bind"

PickBind(n, lm, pv, df, vf) ==
  /\ pc = "bind"
  /\ n = 0 => (lm = "none" /\ pv = "none" /\ (df # NoVal \/ vf # "none"))
  /\ Have("bind", Cost(lm, pv, df, vf, n)) /\ Spend("bind", Cost(lm, pv, df, vf, n))
  /\ LET b == [name |-> cur.names[Len(cur.in) + 1], src |-> <<>>, lm |-> lm, pv |-> pv, df |-> df, vf |-> vf]
         c == [cur EXCEPT !.in = Append(@, b), !.pend = n] IN
     /\ cur' = c
     /\ pc' = IF n = 0 THEN AfterBind(c) ELSE "src"
  /\ UNCHANGED <<prog, res, nsteps, failok>>

\* ... and its sources (workflow inputs or outputs of earlier steps)
PickSrc(ss) ==
  /\ pc = "src"
  /\ Len(ss) = cur.pend
  /\ LET k == Len(cur.in)
         c == [cur EXCEPT !.in[k].src = ss, !.pend = 0]
         raw == RawBind(Env, c.in[k]) IN
     /\ failok \/ (~IsFail(raw) /\ (c.in[k].name \in RangeOf(cur.sc) => IsArr(raw)))
     /\ cur' = c
     /\ pc' = AfterBind(c)
  /\ UNCHANGED <<prog, res, budget, nsteps, failok>>

\* 6. the step is complete
EndStep ==
  /\ pc = "endstep"
  /\ LET st == [tool |-> cur.tool, in |-> cur.in, sc |-> cur.sc, method |-> cur.method, when |-> cur.when, lp |-> cur.lp]
         r == EvalStep(Env, st, SubLib) IN
     /\ failok \/ ~IsFail(r)
     /\ prog' = [prog EXCEPT !.steps = Append(@, st)]
     /\ res' = Append(res, r)
  /\ cur' = NoCur
  /\ pc' = "steps"
  /\ UNCHANGED <<budget, nsteps, failok>>

\* workflow outputs.  kind "all": one output per step; "sinks": one per step nobody consumes;
\* "last": only the last step (other sinks become dead ends); extra = an additional output with
\* several sources, linkMerge and pickValue.
Consumed(j) == \E i \in DOMAIN prog.steps : \E b \in DOMAIN prog.steps[i].in :
                  Of(j) \in RangeOf(prog.steps[i].in[b].src)
OutIdx(kind) == CASE kind = "all"   -> {j \in DOMAIN prog.steps : TRUE}
                  [] kind = "sinks" -> {j \in DOMAIN prog.steps : ~Consumed(j)}
                  [] kind = "last"  -> {Len(prog.steps)}
SetToSortedSeq(S) == LET RECURSIVE F(_, _)
                         F(T, acc) == IF T = {} THEN acc
                                      ELSE LET m == CHOOSE x \in T : \A y \in T : x <= y IN F(T \ {m}, Append(acc, m))
                     IN F(S, <<>>)
PickOuts(kind, nx, lm, pv) ==
  /\ pc = "steps" /\ Len(prog.steps) = nsteps
  /\ nx = 0 => (lm = "none" /\ pv = "none")
  /\ LET c == (IF nx > 0 THEN 1 ELSE 0) + (IF lm # "none" THEN 1 ELSE 0) + (IF pv # "none" THEN 1 ELSE 0) IN
     Have("out", c) /\ Spend("out", c)
  /\ LET idx == SetToSortedSeq(OutIdx(kind))
         base == [i \in DOMAIN idx |-> OutOf(<<Of(idx[i])>>, "none", "none")] IN
     /\ prog' = [prog EXCEPT !.outs = base]
     /\ cur' = [tool |-> "out", pend |-> nx, lm |-> lm, pv |-> pv]
     /\ pc' = IF nx = 0 THEN "emit" ELSE "outsrc"
  /\ UNCHANGED <<res, nsteps, failok>>

PickOutSrc(ss) ==
  /\ pc = "outsrc"
  /\ Len(ss) = cur.pend
  /\ LET o == OutOf(ss, cur.lm, cur.pv) IN
     /\ failok \/ ~IsFail(RawBind(Env, o))
     /\ prog' = [prog EXCEPT !.outs = Append(@, o)]
  /\ pc' = "emit"
  /\ UNCHANGED <<res, cur, budget, nsteps, failok>>

\* the program is complete
Emit ==
  /\ pc = "emit"
  /\ pc' = "done"
  /\ UNCHANGED <<prog, res, cur, budget, nsteps, failok>>

SrcSeqs(n, k) == IF n = 1 THEN {<<s>> : s \in Srcs(k)}
                 ELSE IF n = 2 THEN {<<s1, s2>> : s1 \in Srcs(k), s2 \in Srcs(k)}
                 ELSE {<<s1, s2, s3>> : s1 \in Srcs(k), s2 \in Srcs(k), s3 \in Srcs(k)}

NextNoEmit ==
  \/ pc = "ins" /\ \E a \in InDom[1], b \in InDom[2], c \in InDom[3], d \in {NoVal, IntV(5)} : PickIns(a, b, c, d)
  \/ \E t \in Tools, e \in BOOLEAN : PickTool(t, e)
  \/ pc = "scatter" /\ \E sc \in ScatterChoices(cur.names), m \in Methods : PickScatter(sc, m)
  \/ \E w \in Whens : PickWhen(w)
  \/ \E lp \in Loops : PickLoop(lp)
  \/ \E n \in 0..2, lm \in LMs, pv \in PVs, df \in DFs, vf \in VFs : PickBind(n, lm, pv, df, vf)
  \/ pc = "src" /\ \E ss \in SrcSeqs(cur.pend, Len(prog.steps)) : PickSrc(ss)
  \/ EndStep
  \/ \E kind \in OutKinds, nx \in OutNs, lm \in LMs, pv \in PVs : PickOuts(kind, nx, lm, pv)
  \/ pc = "outsrc" /\ \E ss \in SrcSeqs(cur.pend, Len(prog.steps)) : PickOutSrc(ss)

Next == NextNoEmit \/ Emit
Spec == Init /\ [][Next]_vars

(* ------------------------------------------------------------------------------------------ *)
(* Laws of the semantics, checked by TLC on every complete program of the exhaustive grid.     *)
Complete == pc = "done"

\* the evaluation is total: Fail or one well-formed value per output
LawTotal == Complete => LET r == Eval(prog) IN
              IsFail(r) \/ (Len(r.v) = Len(prog.outs) /\ \A k \in DOMAIN r.v : WellFormed(r.v[k]))

StepRes == res
LawResIsEval == res = RunSteps(prog, EffIns(prog), <<>>, SubLib)
StepEnv(j) == [ins |-> EffIns(prog), res |-> SubSeq(StepRes, 1, j - 1), steps |-> prog.steps]
StepObj(j) == LET st == prog.steps[j] IN
              [n \in {st.in[i].name : i \in DOMAIN st.in} |->
                 RawStepBind(StepEnv(j), st, st.in[CHOOSE i \in DOMAIN st.in : st.in[i].name = n])]

\* flat_crossproduct = nested_crossproduct with the scatter levels removed (two independent definitions)
LawFlatIsFlattenedNest == Complete => \A j \in DOMAIN prog.steps :
   LET st == prog.steps[j] IN
   (st.method = "flat_crossproduct" /\ ~IsFail(StepRes[j])) =>
       LET nst == EvalStep(StepEnv(j), [st EXCEPT !.method = "nested_crossproduct"], SubLib) IN
       /\ ~IsFail(nst)
       /\ StepRes[j] = ArrV(FlatLevels(nst, Len(st.sc) - 1))

\* scatter sizes: dotproduct keeps the length, flat_crossproduct multiplies, nested has the outer length
LawScatterSizes == Complete => \A j \in DOMAIN prog.steps :
   LET st == prog.steps[j] IN
   (st.sc # <<>> /\ ~IsFail(StepRes[j])) =>
       LET obj == StepObj(j)
           lens == [i \in DOMAIN st.sc |-> Len(obj[st.sc[i]].v)] IN
       /\ IsArr(StepRes[j])
       /\ st.method \in {"none", "dotproduct", "nested_crossproduct"} => Len(StepRes[j].v) = lens[1]
       /\ st.method = "flat_crossproduct" => Len(StepRes[j].v) = Strides(lens, 1)

\* a step that is not scattered and whose condition is false yields null; all_non_null never yields null items
LawSkipIsNull == Complete => \A j \in DOMAIN prog.steps :
   LET st == prog.steps[j] IN
   (st.sc = <<>> /\ st.when.k = "no" /\ ~IsFail(StepRes[j])) => StepRes[j] = Null
LawAllNonNull == Complete => LET r == Eval(prog) IN
   ~IsFail(r) => \A k \in DOMAIN prog.outs :
       (prog.outs[k].pv = "all_non_null" /\ IsArr(r.v[k])) => \A i \in DOMAIN r.v[k].v : ~IsNull(r.v[k].v[i])
LawPickNeverNull == Complete => LET r == Eval(prog) IN
   ~IsFail(r) => \A k \in DOMAIN prog.outs :
       (prog.outs[k].pv \in {"first_non_null", "the_only_non_null"} /\ Len(prog.outs[k].src) > 1) => ~IsNull(r.v[k])
\* identity scatter: scattering `id` over one array input without when/valueFrom returns the array
LawScatterIdentity == Complete => \A j \in DOMAIN prog.steps :
   LET st == prog.steps[j] IN
   (st.tool = "id" /\ st.sc = <<"x">> /\ st.when.k = "none" /\ BindNamed(st, "x").vf = "none"
      /\ ~IsFail(StepRes[j])) => StepRes[j] = StepObj(j)["x"]
=============================================================================
