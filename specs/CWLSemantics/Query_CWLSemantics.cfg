CONSTANTS
  MaxSteps = 1
  NIn = 1
  Budgets = {}
  FailOks = {}
  Tools = {}
  InDom = {}
  LMs = {}
  PVs = {}
  VFs = {}
  DFs = {}
  Whens = {}
  Methods = {}
  Loops = {}
  OutKinds = {}
  OutNs = {}
INIT Init
NEXT Next
