-------------------------- MODULE Query_CWLSemantics --------------------------
(* The harness sends programs (the same records the generator emits, as JSON) and TLC answers
   with the expected output object of each: used for hand-written regression programs, for the
   deliberately slow dead-end-step programs and for re-evaluating shrunk programs.            *)
EXTENDS CWLSemantics, Json, IOUtils, SequencesExt
Programs == JsonDeserialize(IOEnv.QUERY_FILE)
ASSUME JsonSerialize(IOEnv.OUT_FILE, [i \in 1..Len(Programs) |->
          [exp |-> Expected(Programs[i]),
           ev |-> SetToSeq(Events(Programs[i], RunSteps(Programs[i], EffIns(Programs[i]), <<>>, SubLib)))]])
=============================================================================
