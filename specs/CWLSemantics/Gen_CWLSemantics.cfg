CONSTANTS
  MaxSteps = 3
  NIn = 3
  Budgets <- GBudgets
  FailOks <- GFailOks
  Tools <- GTools
  InDom <- GInDom
  LMs <- GLMs
  PVs <- GPVs
  VFs <- GVFs
  DFs <- GDFs
  Whens <- GWhens
  Methods <- GMethods
  Loops <- GLoops
  OutKinds <- GOutKinds
  OutNs <- GOutNs
INIT Init
NEXT GenNext
