--------------------------- MODULE MC_CWLSemantics ---------------------------
(* Exhaustive exploration of the program space of a small feature grid: every state is a
   (partial) program, the laws of the semantics are checked on every complete program.
   Q* = quick grid (one step), T* = thorough grid (two steps, fewer alternatives per feature). *)
EXTENDS CWLSemantics

A12 == ArrV(<<IntV(1), IntV(2)>>)
A1n3 == ArrV(<<IntV(1), Null, IntV(3)>>)
A1020 == ArrV(<<IntV(10), IntV(20)>>)

QInDom == <<{IntV(2), Null}, {ArrV(<<>>), A1n3}, {A1020}>>
QTools == {"id", "inc", "pair", "sub_cond"}
QLMs == {"none", "merge_nested", "merge_flattened"}
QPVs == {"none", "first_non_null", "the_only_non_null", "all_non_null"}
QVFs == {"none", "inc", "inx"}
QDFs == {NoVal, IntV(7)}
QWhens == {NoWhen, [k |-> "pos", n |-> "x"], [k |-> "no", n |-> "x"]}
QMethods == {"none", "dotproduct", "nested_crossproduct", "flat_crossproduct"}
QLoops == {NoLoop, [k |-> "last", lt |-> 4, vf |-> "none"], [k |-> "all", lt |-> 4, vf |-> "none"]}
QOutKinds == {"all"}
QOutNs == {0, 2}

TInDom == <<{IntV(2)}, {A1n3}, {A1020}>>
TTools == {"id", "nullodd", "pair"}
TLMs == {"none", "merge_flattened"}
TPVs == {"none", "first_non_null", "all_non_null"}
TVFs == {"none", "inc"}
TDFs == {NoVal, IntV(7)}
TWhens == {NoWhen, [k |-> "pos", n |-> "x"]}
TMethods == {"none", "dotproduct", "flat_crossproduct"}
TLoops == {NoLoop}
TOutKinds == {"all", "last"}
TOutNs == {0, 2}

MCBudgets == {MaxBudget}
MCFailOks == {TRUE}
=============================================================================
