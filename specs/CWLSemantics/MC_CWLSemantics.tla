--------------------------- MODULE MC_CWLSemantics ---------------------------
(* Exhaustive exploration of the program space of a small feature grid: every state is a
   (partial) program, the laws of the semantics are checked on every complete program.
   Q* = quick grid (one step), T* = thorough grid (two steps, fewer alternatives per feature). *)
EXTENDS CWLSemantics

A12 == ArrV(<<IntV(1), IntV(2)>>)
A1n3 == ArrV(<<IntV(1), Null, IntV(3)>>)
A1020 == ArrV(<<IntV(10), IntV(20)>>)

\* quick grid: one step
QInDom == <<{IntV(2)}, {A1n3}, {ArrV(<<>>)}>>
QTools == {"id", "pair"}
QLMs == {"none", "merge_nested", "merge_flattened"}
QPVs == {"none", "first_non_null", "all_non_null"}
QVFs == {"none", "inc"}
QDFs == {NoVal}
QWhens == {NoWhen, [k |-> "pos", n |-> "x"]}
QMethods == {"none", "dotproduct", "nested_crossproduct", "flat_crossproduct"}
QLoops == {NoLoop}
QOutKinds == {"all"}
QOutNs == {0, 2}
QBudgets == {[ctl |-> 1, bind |-> 1, out |-> 1]}

\* thorough grid: one step, more alternatives per feature
TInDom == <<{IntV(2), Null}, {ArrV(<<>>), A1n3}, {A1020}>>
TTools == {"id", "inc", "pair"}
TLMs == QLMs
TPVs == {"none", "first_non_null", "the_only_non_null", "all_non_null"}
TVFs == {"none", "inc"}
TDFs == {NoVal, IntV(7)}
TWhens == {NoWhen, [k |-> "pos", n |-> "x"], [k |-> "no", n |-> "x"]}
TMethods == QMethods
TLoops == {NoLoop, [k |-> "all", lt |-> 4, vf |-> "none"]}
TOutKinds == {"all"}
TOutNs == {0, 2}
TBudgets == {[ctl |-> 1, bind |-> 1, out |-> 1]}

MCFailOks == {TRUE}
=============================================================================
