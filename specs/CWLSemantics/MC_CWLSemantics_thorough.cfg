CONSTANTS
  MaxSteps = 1
  NIn = 2
  Budgets <- TBudgets
  FailOks <- MCFailOks
  Tools <- TTools
  InDom <- TInDom
  LMs <- TLMs
  PVs <- TPVs
  VFs <- TVFs
  DFs <- TDFs
  Whens <- TWhens
  Methods <- TMethods
  Loops <- TLoops
  OutKinds <- TOutKinds
  OutNs <- TOutNs
INIT Init
NEXT Next
INVARIANT LawResIsEval
INVARIANT LawTotal
INVARIANT LawFlatIsFlattenedNest
INVARIANT LawScatterSizes
INVARIANT LawSkipIsNull
INVARIANT LawAllNonNull
INVARIANT LawPickNeverNull
INVARIANT LawScatterIdentity
