CONSTANTS
  MaxSteps = 1
  NIn = 2
  Budgets <- QBudgets
  FailOks <- MCFailOks
  Tools <- QTools
  InDom <- QInDom
  LMs <- QLMs
  PVs <- QPVs
  VFs <- QVFs
  DFs <- QDFs
  Whens <- QWhens
  Methods <- QMethods
  Loops <- QLoops
  OutKinds <- QOutKinds
  OutNs <- QOutNs
INIT Init
NEXT Next
INVARIANT LawResIsEval
INVARIANT LawTotal
INVARIANT LawFlatIsFlattenedNest
INVARIANT LawScatterSizes
INVARIANT LawSkipIsNull
INVARIANT LawAllNonNull
INVARIANT LawPickNeverNull
INVARIANT LawScatterIdentity
