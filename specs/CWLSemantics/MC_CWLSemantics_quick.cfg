CONSTANTS
  MaxSteps = 1
  MaxBudget = 2
  NIn = 2
  Budgets <- MCBudgets
  FailOks <- MCFailOks
  Tools <- QTools
  InDom <- QInDom
  LMs <- QLMs
  PVs <- QPVs
  VFs <- QVFs
  DFs <- QDFs
  Whens <- QWhens
  Methods <- QMethods
  Loops <- QLoops
  OutKinds <- QOutKinds
  OutNs <- QOutNs
INIT Init
NEXT Next
INVARIANT LawTotal
INVARIANT LawFlatIsFlattenedNest
INVARIANT LawScatterSizes
INVARIANT LawSkipIsNull
INVARIANT LawAllNonNull
INVARIANT LawPickNeverNull
INVARIANT LawScatterIdentity
