--------------------------- MODULE Gen_CWLSemantics ---------------------------
(* Generation: the same state machine over the full feature grid, walked at random
   (`-simulate`); every complete program is printed once together with the output object the
   semantics expects.  (TLC prints every *generated* successor; Emit has exactly one successor,
   so there is one line per complete program reached.)                                        *)
EXTENDS CWLSemantics, Json, SequencesExt

A(s) == ArrV([i \in DOMAIN s |-> IntV(s[i])])
GInDom == << {IntV(1), IntV(2), IntV(3), Null, NoVal},
             {A(<<>>), A(<<1, 2>>), A(<<1, 2, 3>>), ArrV(<<IntV(1), Null, IntV(3)>>), ArrV(<<Null, Null>>),
              ArrV(<<A(<<1>>), A(<<2, 3>>)>>), ArrV(<<A(<<>>), A(<<4>>)>>)},
             {A(<<10, 20>>), A(<<>>), A(<<10, 20, 30>>), A(<<10>>)} >>
GTools == {"id", "inc", "incd", "nullodd", "sum", "len", "tostr", "add", "pair", "slow",
           "sub_inc2", "sub_cond", "sub_scat"}
GLMs == {"none", "merge_nested", "merge_flattened"}
GPVs == {"none", "first_non_null", "the_only_non_null", "all_non_null"}
GVFs == {"none", "inc", "wrap", "null", "seven", "inx"}
GDFs == {NoVal, IntV(7), A(<<7, 8>>)}
GWhens == {NoWhen} \cup {[k |-> kk, n |-> nn] : kk \in {"pos", "nn", "no", "bad"}, nn \in {"x", "y", "e"}}
GMethods == {"none", "dotproduct", "nested_crossproduct", "flat_crossproduct"}
GLoops == {NoLoop} \cup {[k |-> kk, lt |-> ll, vf |-> vv] : kk \in {"last", "all"}, ll \in {3, 5}, vv \in {"none", "inc"}}
GOutKinds == {"all", "sinks", "last"}
GOutNs == {0, 2, 3}
GBudgets == [ctl : 0..3, bind : 0..3, out : 0..2]
GFailOks == BOOLEAN

GenNext == \/ NextNoEmit
           \/ Emit /\ PrintT(ToJson([prog |-> prog, exp |-> Expected(prog), ev |-> SetToSeq(Events(prog, res))]))
=============================================================================
