"""C23 - tar-stream copies are exact or fail, however the stream is chunked (module TarStream).

Model: specs/TarStream/TarStream.tla - the reader layers of streamflow/deployment/aiotarstream.py as coded
(TellableStreamWrapper.read loop, SeekableStreamReaderWrapper.seek, fromtarfile, next() with its swallowing
branches, the two extraction paths of extract_tar_stream) over a raw stream that answers read(k) with any 1..k
units; truncation and header corruption as faults.  Three switches select the design: AS CODED = all three
(FixSeek, FixData since 02c607f: seek loops and raises, the end of the stream inside data raises; FixHdr since the
header fix: next() raises on a truncated/corrupted header after the first member instead of reporting the end of
the archive).  TLC checks that design against all properties (safety incl. ExactOrFail + termination); the
generation runs use the same switches, so every replayed behaviour must end as the model says (exact or error).

Binding (spec -> code, B-sim): every behaviour TLC generates (exhaustively: every chunking of a small archive;
by simulation for larger ones) is replayed on REAL archives of that shape (written by Python tarfile GNU/PAX/
USTAR, GNU tar, and StreamFlow's own async writer): a scripted StreamWrapper serves the archive bytes with
chunk boundaries / truncation point / corrupted header mapped from the behaviour, the REAL
copy_remote_to_local -> AioTarStream -> extract_tar_stream extracts into a temp dir, and the result (verdict,
files, sizes, contents, modes) is compared with the source tree (the property) and with the model's verdict.
Also: fixed and seeded-random chunk sizes on larger trees (long names, sizes 0/1/511/512/513/>buffer), byte
level truncation at every boundary class, and the converse direction (async writer -> tarfile / GNU tar).
"""
from __future__ import annotations

import concurrent.futures
import io
import json
import os
import subprocess
import tarfile

from ..sut import tar_sut as T
from .. import aio

LEVEL = "model_checking"


def _dbg(ctx, msg):
    if os.environ.get("VERIF_DEBUG"):
        import sys
        import time
        print("[C23 %6.1fs] %s" % (time.time() - ctx.t0, msg), file=sys.stderr, flush=True)

WRITERS_ALL = ["py-gnu", "py-pax", "py-ustar", "gnutar-gnu", "gnutar-posix", "aio"]

# trees: (relpath, kind, size, mode); "" is the root
TREE_CEX = [("", "dir", 0, 0o755), ("a1", "file", 1, 0o644), ("b513", "file", 513, 0o644)]
TREE_Q = [("", "dir", 0, 0o755), ("a1", "file", 1, 0o755), ("b2", "file", 2, 0o644)]
FILE_CEX = [("", "file", 513, 0o644)]
LONG = "n" * 120 + ".dat"
TREE_MIX = [("", "dir", 0, 0o755), ("e0", "file", 0, 0o644), ("run.sh", "file", 511, 0o755),
            ("sub", "dir", 0, 0o750), ("sub/" + LONG, "file", 512, 0o600), ("sub/z700", "file", 700, 0o644)]
FILE_511 = [("", "file", 511, 0o755)]
TREE_BIG = [("", "dir", 0, 0o755), ("big.bin", "file", 70001, 0o644), ("d", "dir", 0, 0o755),
            ("d/" + "L" * 150, "file", 513, 0o755), ("d/e", "file", 0, 0o644), ("d/f1", "file", 1, 0o600),
            ("d/g511", "file", 511, 0o644), ("d/h512", "file", 512, 0o644), ("x" * 101, "file", 1025, 0o644)]


# ------------------------------------------------------------------------------------------------
# real archives
# ------------------------------------------------------------------------------------------------
class Archive:
    def __init__(self, ctx, tree_name, entries, writer, data, src_root):
        self.tree_name, self.entries, self.writer, self.data, self.src = tree_name, entries, writer, data, src_root
        self.base = os.path.basename(src_root)
        self.single = entries[0][1] == "file"
        self.expected = T.scan(src_root)
        self.shapes = {}
        self.label = "%s/%s" % (tree_name, writer)

    def shape(self, B):
        if B not in self.shapes:
            self.shapes[B] = T.Shape(self.data, B)
        return self.shapes[B]

    def rel_of(self, i):
        name = self.shape(2).members[i]["name"]
        rel = os.path.relpath(name, self.base)
        return "" if rel == "." else rel


def build_archives(ctx, trees, writers):
    """Create the source trees and every writer's archive of each."""
    out = []
    parent = ctx.scratch("src")
    for tname, entries in trees:
        d = os.path.join(parent, tname)
        os.makedirs(d, exist_ok=True)
        root = T.make_tree(d, "base_" + tname, entries)
        for w in writers:
            if w == "aio":
                data, exc = aio.run(T.aio_write(root, os.path.basename(root), 64), timeout=120)
                if exc is not None:
                    ctx.violation("writer:raised:%s" % type(exc).__name__, {"tree": tname, "exc": repr(exc)},
                                  "the async tar writer raised while archiving %s: %r" % (tname, exc))
                    continue
            else:
                try:
                    data = T.write_archive(w, root)
                except ValueError as e:
                    # USTAR cannot store a path component longer than 100 bytes: not an archive of this tree
                    ctx.count("archive_not_expressible:%s" % w)
                    continue
            try:
                a = Archive(ctx, tname, entries, w, data, root)
                a.shape(2)
            except Exception as e:
                if w == "aio":
                    ctx.violation("writer:unreadable-by-tarfile", {"tree": tname, "exc": repr(e)},
                                  "archive written by the async writer is not a valid tar archive: %r" % e)
                    continue
                raise
            out.append(a)
    return out


# ------------------------------------------------------------------------------------------------
# one real copy and its judgement
# ------------------------------------------------------------------------------------------------
class Runner:
    def __init__(self, ctx):
        self.ctx = ctx
        self.out_root = ctx.scratch("out")
        self.n = 0

    async def copy(self, arc, path, limit, boundaries=None, chunker=None, corrupt=None, bufsize=65536, log=None):
        """path "B": dst does not exist (directory or file copy through extractfile);
        path "A": the source is a single file and dst is an existing directory (tar.extract -> copyfileobj)."""
        self.n += 1
        dst_parent = os.path.join(self.out_root, "c%d" % self.n)
        os.makedirs(dst_parent)
        data = arc.data if corrupt is None else T.corrupt_header(arc.data, corrupt)
        st = T.scripted(data, limit, boundaries=boundaries, chunker=chunker, log=log)
        if path == "A":
            dst = dst_parent
            verdict, exc = await T.real_copy(st, bufsize, arc.src, dst)
            got = {k: v for k, v in T.scan(dst).items() if k != ""}
            exp = {arc.base: arc.expected[""]}
        else:
            dst = os.path.join(dst_parent, "dst")
            verdict, exc = await T.real_copy(st, bufsize, arc.src, dst)
            got = T.scan(dst)
            exp = arc.expected
        T.rmtree(dst_parent)
        return {"verdict": verdict, "exc": exc, "got": got, "exp": exp, "consumed": st.pos, "short_seeks": st.short_seeks,
                "nreads": st.nreads}


def diff_tree(got, exp):
    """Classified differences between the extracted tree and the source tree."""
    d = {"missing": [], "partial": [], "content": [], "mode": [], "extra": [], "kind": []}
    for k, (kind, size, sha, mode) in exp.items():
        if k not in got:
            d["missing"].append(k)
            continue
        gk, gs, gsha, gm = got[k]
        if gk != kind:
            d["kind"].append(k)
        elif kind == "file" and (gs != size or gsha != sha):
            d["partial" if gs < size else "content"].append(k)       # prefix check is done by the caller when needed
        elif gm != mode:
            d["mode"].append(k)
    for k in got:
        if k not in exp:
            d["extra"].append(k)
    return {k: v for k, v in d.items() if v}


def judge(ctx, res, fault, cls, model=None, info=None):
    """The property on one real copy.  fault: None | "trunc" | "corrupt"; cls: boundary class of the truncation.
    model: the TLC behaviour (or None).  Returns the outcome class."""
    verdict = res["verdict"]
    d = diff_tree(res["got"], res["exp"]) if verdict != "error" else {}
    if verdict == "error":
        outcome = "error"
    elif verdict == "hang":
        outcome = "hang"
    else:
        outcome = "exact" if not d else "loss"
    bad = None
    if fault is None:
        if outcome != "exact":
            bad = outcome
    elif outcome in ("hang", "loss"):
        bad = outcome
    ctx.count("outcome:%s:%s" % (fault or "intact", outcome))
    agree = None
    if model is not None:
        agree = model["outcome"] == outcome and (outcome != "loss" or model_files_agree(model, res))
        ctx.count("model_agrees" if agree else "model_differs")
        if not agree and bad is None:
            ctx.count("model_differs_but_property_holds:%s->%s" % (model["outcome"], outcome))
    if bad is None:
        return outcome
    # ---- a violation of the property on the real code: name it
    only_loss = set(d) <= {"missing", "partial"}
    if model is not None and not agree:
        sig = "unpredicted:%s:%s:model-says-%s" % (fault or "intact", bad if only_loss or bad != "loss" else "+".join(sorted(d)), model["outcome"])
    elif bad == "loss" and not only_loss:
        sig = "wrong-tree:%s:%s" % (fault or "intact", "+".join(sorted(d)))
    elif fault == "trunc":
        # a truncated stream is named by where it ends, whatever raw short reads happened on the way
        sig = ("truncated:success-reported:%s" if bad == "loss" else "truncated:hang-in-copy:%s") % cls
    elif fault == "corrupt":
        sig = "corrupted-header:success-reported" if bad == "loss" else "corrupted-header:hang"
    elif bad == "loss":
        causes = set(model["causes"]) if model is not None else set()
        if "short-read-in-seek" in causes or (model is None and res["short_seeks"] > 0):
            sig = "silent-loss:short-read-in-seek"
        else:
            sig = "silent-loss:without-short-read"
    elif bad == "error":
        sig = "intact-stream:error:%s" % (res["exc"] or "?").split(":")[0]
    else:
        sig = "intact-stream:hang"
    detail = dict(info or {})
    detail.update({"verdict": verdict, "exception": res["exc"], "diff": d, "consumed_bytes": res["consumed"],
                   "short_seeks_observed": res["short_seeks"], "fault": fault, "class": cls})
    if model is not None:
        detail["model"] = {k: model[k] for k in ("pc", "created", "out", "causes", "outcome")}
    what = {"loss": "copy reported success but the extracted tree differs from the source (%s)" % ", ".join(
                "%s: %s" % (k, v[:3]) for k, v in d.items()),
            "hang": "copy never terminates (the reader polls the finished stream forever)",
            "error": "copy of an intact stream failed: %s" % res["exc"]}[bad]
    ctx.violation(sig, detail, "%s [%s]" % (what, (info or {}).get("case", "")))
    return outcome


def model_files_agree(model, res):
    """On a model-predicted loss: the same members exist with the same sizes."""
    return model["files"] == {k: v[1] for k, v in res["got"].items() if k in model["files"] or k in res["exp"]}


# ------------------------------------------------------------------------------------------------
# TLC behaviour -> real case
# ------------------------------------------------------------------------------------------------
def unit_layout(sh, B):
    """DataAt(i) in units, as in TarStream.tla."""
    at, pos = [], 0
    for m in sh["m"]:
        pos += (B + m["e"] if m["e"] > 0 else 0) + B
        at.append(pos)
        pos += ((m["n"] + B - 1) // B) * B
    return at


def model_view(beh, arc, B):
    """The model's verdict of a finished behaviour, expressed on the real archive `arc`."""
    shape = arc.shape(B)
    pc = beh["pc"]
    created = sorted(beh["created"])
    out = beh["out"]
    n = len(shape.m)
    exact = created == list(range(1, n + 1)) and all(out[i] == shape.m[i]["n"] for i in range(n))
    outcome = {"error": "error", "hang": "hang"}.get(pc) or ("exact" if exact else "loss")
    files = {}
    at = unit_layout(beh["sh"], B)
    for i in created:
        m = shape.members[i - 1]
        rel = arc.rel_of(i - 1)
        if beh["path"] == "A":
            rel = arc.base
        files[rel] = (shape.F(at[i - 1] + out[i - 1]) - shape.F(at[i - 1])) if m["type"] == "file" else 0
    if created and beh["path"] == "B" and not arc.single:
        files.setdefault("", 0)
    return {"pc": pc, "created": created, "out": out, "causes": beh["causes"], "outcome": outcome, "files": files}


async def replay_behaviour(ctx, runner, beh, arc, B, label):
    shape = arc.shape(B)
    bounds, p = [], 0
    for j in beh["reads"]:
        p += j
        bounds.append(shape.F(p))
    fault, cls, limit, corrupt = None, None, len(arc.data), None
    if beh["trunc"] < beh["total"]:
        fault, cls, limit = "trunc", shape.trunc_class(beh["trunc"]), shape.F(beh["trunc"])
    elif beh["corrupt"] > 0:
        fault, corrupt = "corrupt", shape.hdr_byte(beh["corrupt"] - 1)
    bufsize = 65536 if beh["buf"] > B else T.BLOCK
    res = await runner.copy(arc, beh["path"], limit, boundaries=bounds, corrupt=corrupt, bufsize=bufsize)
    model = model_view(beh, arc, B)
    info = {"case": "%s %s path=%s chunks=%s%s" % (label, arc.label, beh["path"], bounds[:12],
                                                  (" trunc@%d(%s)" % (limit, cls)) if fault == "trunc" else
                                                  (" corrupt-header@%d" % corrupt) if fault == "corrupt" else ""),
            "archive": arc.label, "B": B, "behaviour": beh}
    outcome = judge(ctx, res, fault, cls, model, info)
    nontrivial = len(bounds) > 1 or fault is not None
    ctx.case((label, arc.label, beh["path"], beh["buf"], beh["trunc"], beh["corrupt"], tuple(beh["reads"])), nontrivial)
    if fault == "trunc":
        ctx.count("trunc_class:%s" % cls)
    return outcome, model, res


def shapes_module(shapes):
    return ("------------------------------ MODULE TarShapes ------------------------------\n"
            "GenShapes == {%s}\n"
            "=============================================================================\n" % ",\n              ".join(shapes))


# the design as coded in /repo: seek loops and raises, the end of the stream inside data raises (02c607f),
# next() raises on a truncated / corrupted header after the first member (header fix)
AS_CODED = {"FixSeek": True, "FixData": True, "FixHdr": True}


def cfg_text(B, bufs, paths, trunc, corrupt, flags=AS_CODED):
    t = lambda b: "TRUE" if b else "FALSE"
    return ("CONSTANTS B = %d  Bufs = {%s}  Paths = {%s}  WithTrunc = %s  WithCorrupt = %s  FixSeek = %s  FixData = %s  FixHdr = %s\n"
            "CONSTANT Shapes <- GenShapes\nINIT GenInit\nNEXT GenNext\n" % (
                B, ", ".join(map(str, bufs)), ", ".join('"%s"' % p for p in paths), t(trunc), t(corrupt),
                t(flags["FixSeek"]), t(flags["FixData"]), t(flags["FixHdr"])))


def trace_to_behaviour(trace):
    """A TLC counterexample (list of states) -> the same record the generation runs print."""
    reads, last = [], 0
    for s in trace:
        st = s["state"]
        if st["nreads"] != last:
            last = st["nreads"]
            if st["lastj"] > 0:
                reads.append(st["lastj"])
    st = trace[-1]["state"]
    sh = st["sh"]
    return {"sh": sh, "trunc": st["trunc"], "corrupt": st["corrupt"], "path": st["path"], "buf": st["buf"], "reads": reads,
            "pc": st["pc"], "created": list(st["created"]), "out": list(st["out"]), "causes": list(st["causes"]),
            "raw": st["raw"], "pos": st["pos"], "total": None}


def shape_total(sh, B):
    pos = 0
    for m in sh["m"]:
        pos += (B + m["e"] if m["e"] > 0 else 0) + B + ((m["n"] + B - 1) // B) * B
    return pos + sh["tail"]


# ------------------------------------------------------------------------------------------------
def run(ctx):
    T.quiet()
    ctx.rule = ("TLC enumerates the chunkings (answers of the raw stream to every read), truncation points and corrupted headers of "
                "small archives; each behaviour is replayed on real archives of the same shape (5-6 writers) through the real "
                "copy_remote_to_local/AioTarStream/extract_tar_stream with a scripted stream, and the extracted tree is compared with "
                "the source tree and with the model's verdict; plus fixed/random chunk sizes and byte-level truncation on larger "
                "trees and the writer -> tarfile/GNU tar direction.  Non-trivial: more than one chunk or a fault")
    ctx.exhaustive = False
    # ---- oracles
    ctx.require(os.path.exists(T.GNU_TAR), "GNU tar not found at %s" % T.GNU_TAR)
    p = subprocess.run([T.GNU_TAR, "--version"], stdout=subprocess.PIPE, stderr=subprocess.STDOUT, text=True)
    ctx.require(p.returncode == 0 and "GNU tar" in p.stdout, "GNU tar oracle misbehaves: %s" % p.stdout[:200])
    hooked = T.install_seek_hook()
    ctx.count("seek_hook_installed", 1 if hooked else 0)

    writers = WRITERS_ALL
    arcs = build_archives(ctx, [("cex", TREE_CEX), ("q", TREE_Q), ("file513", FILE_CEX), ("mix", TREE_MIX), ("file511", FILE_511),
                                ("big", TREE_BIG)], writers)
    by_tree = {}
    for a in arcs:
        by_tree.setdefault(a.tree_name, []).append(a)
    ctx.count("real_archives", len(arcs))

    _dbg(ctx, "archives built: %d" % len(arcs))
    model_phase(ctx, by_tree)
    _dbg(ctx, "model phase done")
    _, exc = aio.run(fixed_chunks_phase(ctx, by_tree), timeout=None)
    if exc is not None:
        raise exc
    _dbg(ctx, "fixed chunk phase done")
    writer_phase(ctx, by_tree)
    _dbg(ctx, "writer phase done")
    ctx.assumptions += [
        "the raw stream is any StreamWrapper whose read(k) returns 1..k bytes, or b'' only at the end of the stream",
        "Python's tarfile is the trusted parser that tells where the members of a real archive lie",
        "member types: regular files and directories (what `tar chf` of a tree without special files produces); no sparse members, "
        "no compression layers",
        "a hang is detected deterministically: %d consecutive empty reads at the end of the stream" % T.HANG_AFTER,
    ]


# ------------------------------------------------------------------------------------------------
# phase 1-3: model checking, counterexample replay, behaviour replay
# ------------------------------------------------------------------------------------------------
def model_phase(ctx, by_tree):
    jobs = {}      # name -> kwargs of ctx.tlc

    def job(name, module, cfg, files=None, **kw):
        wd = ctx.spec_workdir("TarStream", files)
        jobs[name] = dict(spec="TarStream", module=module, cfg=cfg, workdir=wd, **kw)

    tier = ctx.pick("quick", "thorough")
    job("fixed", "MC_TarStream", "MC_TarStream_fixed_%s.cfg" % tier, coverage=True, timeout=3000)
    job("ascoded", "MC_TarStream", "MC_TarStream_ascoded_%s.cfg" % tier, coverage=True, timeout=3000)
    # (no counterexample configs: the as-coded design has no violation left; cex_trunc / cex_corrupt went with the header fix)

    # generation runs: shapes of the real archives
    def shapes_of(trees, B):
        m = {}
        for t in trees:
            for a in by_tree.get(t, []):
                m.setdefault(a.shape(B).key(), (a.shape(B).tla(), []))[1].append(a)
        return m
    gens = []      # (name, B, shape map, exhaustive?, archives per behaviour)

    def log2_paths(key):
        """Upper estimate of log2(number of chunkings of an intact archive of this shape): a looping read of k units
        can be answered in 2^(k-1) ways."""
        B, members, tail = key
        return sum((B - 1) + (B - 1 + e - 1 if e else 0) + max(n - 1, 0) for e, n in members) + (B - 1)

    def gen(name, trees, B, bufs, paths, trunc, corrupt, simulate=None, per=None, max_log2=12):
        sm = shapes_of(trees, B)
        if simulate is None:
            # exhaustive enumeration of chunkings only for shapes where it is feasible (extension headers of PAX
            # archives multiply the chunkings: those shapes are covered by the simulation runs)
            for key in [k for k in sm if log2_paths(k) > max_log2]:
                ctx.count("shape_too_large_for_exhaustive_chunkings:%s" % name, len(sm[key][1]))
                del sm[key]
        if not sm:
            return
        files = {"TarShapes.tla": shapes_module([v[0] for v in sm.values()]),
                 "G.cfg": cfg_text(B, bufs, paths, trunc, corrupt)}
        kw = {"simulate": simulate} if simulate else {}
        job(name, "Gen_TarStream", "G.cfg", files=files, workers=1, timeout=3000, count=False, **kw)
        gens.append((name, B, sm, simulate is None, per))

    # every chunking of the 3-member archive (block = 3 units: paddings of 2 units can be answered short)
    gen("all_chunkings_tree_B3", ctx.pick(["q"], ["q", "cex"]), 3, [99], ["B"], False, True, per=ctx.pick(2, 3))
    gen("all_chunkings_file_B3", ctx.pick(["file511"], ["file513", "file511"]), 3, [99], ["A", "B"], True, True,
        per=ctx.pick(2, 3))
    if ctx.quick:
        gen("all_faults_tree_B3", ["q"], 3, [3], ["B"], True, False, per=1)
    if not ctx.quick:
        gen("all_chunkings_tree_B4", ["q"], 4, [99], ["B"], False, False, per=1, max_log2=14)
        gen("all_faults_tree_B3", ["q"], 3, [3], ["B"], True, False, per=2)
        for k, (tr, co) in enumerate([(False, True), (True, False)]):
            gen("sim_%s" % ("trunc" if tr else "intact"), ["cex", "mix", "file511", "file513"], 4, [4, 99], ["A", "B"], tr, co,
                simulate={"num": 1200, "depth": 500}, per=2)

    results = {}
    with concurrent.futures.ThreadPoolExecutor(max_workers=ctx.pick(4, 4)) as ex:
        futs = {name: ex.submit(lambda kw=kw: ctx.tlc(kw.pop("spec"), kw.pop("module"), kw.pop("cfg"), **kw)) for name, kw in jobs.items()}
        for name, f in futs.items():
            results[name] = f.result()
            _dbg(ctx, "tlc %s: ok=%s err=%s states=%d wall=%.1fs out=%dKB" % (name, results[name].ok, results[name].error,
                                                                    results[name].distinct, results[name].wall_s, len(results[name].stdout) // 1024))

    # ---- both configurations describe the design as coded now (all switches TRUE) and must satisfy everything
    r = results["fixed"]
    ctx.require(r.ok, "TarStream (repaired design) violates %s: specification error\n%s" % (r.violated or r.error, r.stdout[-1500:]))
    ctx.require_coverage(r, ["NextCall", "Seek", "HdrRead", "HdrParse", "ExtDone", "DStart", "DataRead", "DataFin"])
    r = results["ascoded"]
    ctx.require(r.ok, "TarStream (as coded) violates %s: specification error\n%s" % (r.violated or r.error, r.stdout[-1500:]))
    ctx.require_coverage(r, ["NextCall", "Seek", "HdrRead", "HdrParse", "ExtDone", "DStart", "DataRead", "DataFin"])

    runner = Runner(ctx)

    shown = set()

    async def replays():
        # ---- generated behaviours
        for name, B, sm, exhaustive, per in gens:
            g = results[name]
            ctx.require(g.ok, "generation run %s failed: %s\n%s" % (name, g.error, g.stdout[-800:]))
            lines = [x for x in g.printed_json() if isinstance(x, dict) and "reads" in x]
            ctx.require(len(lines) > 0, "generation run %s emitted no behaviour" % name)
            seen = set()
            k = 0
            for beh in lines:
                key = json.dumps([beh["sh"], beh["trunc"], beh["corrupt"], beh["path"], beh["buf"], beh["reads"]], sort_keys=True)
                if key in seen:
                    continue
                seen.add(key)
                skey = (B, tuple((m["e"], m["n"]) for m in beh["sh"]["m"]), beh["sh"]["tail"])
                ctx.require(skey in sm, "behaviour for an unknown shape %s" % (skey,))
                cands = [a for a in sm[skey][1] if beh["path"] == "B" or a.single]
                if per is not None and len(cands) > per:
                    cands = [cands[(len(seen) * per + x) % len(cands)] for x in range(per)]
                for arc in cands:
                    outcome, model, res = await replay_behaviour(ctx, runner, beh, arc, B, name)
                    k += 1
                    if model["outcome"] in ("loss", "hang"):
                        # a behaviour on which the as-coded model violates ExactOrFail / NoHang, replayed on the real code
                        kind = "hang" if model["outcome"] == "hang" else ("trunc" if beh["trunc"] < beh["total"] else
                                                                          "corrupt" if beh["corrupt"] else "seek")
                        ctx.count("model_violation_replayed:%s" % kind)
                        if outcome == model["outcome"]:
                            ctx.count("model_violation_followed_by_code:%s" % kind)
                            if "cex:" + kind not in shown:
                                shown.add("cex:" + kind)
                                ctx.sample({"as-coded model violates": "NoHang" if kind == "hang" else "ExactOrFail", "kind": kind,
                                            "archive": arc.label, "path": beh["path"], "answers_of_raw_stream": beh["reads"],
                                            "trunc_unit": beh["trunc"] if kind in ("trunc", "hang") else None,
                                            "model": {"pc": beh["pc"], "created": beh["created"], "out": beh["out"], "causes": beh["causes"]},
                                            "real": {"verdict": res["verdict"], "files": {k: v[1] for k, v in res["got"].items()}}})
            ctx.impl_trace(k)
            _dbg(ctx, "replayed %s: %d behaviours, %d copies" % (name, len(seen), k))
            ctx.count("behaviours:%s" % name, len(seen))
            ctx.count("replays:%s" % name, k)
            if exhaustive:
                ctx.count("exhaustive_chunkings:%s" % name, len(seen))
    _, exc = aio.run(replays(), timeout=None)
    if exc is not None:
        raise exc
    ctx.extra["chunkings_replayed"] = sum(v for k, v in ctx.counters.items() if k.startswith("replays:"))


# ------------------------------------------------------------------------------------------------
# phase 4: fixed / random chunk sizes, byte-level truncation classes, larger trees
# ------------------------------------------------------------------------------------------------
async def fixed_chunks_phase(ctx, by_tree):
    runner = Runner(ctx)
    trees = ctx.pick(["mix", "big"], ["cex", "mix", "big", "file511", "file513"])
    sizes = [1, 7, 100, 511, 512, 513, 4096, 65536]
    n = 0
    for t in trees:
        for arc in by_tree.get(t, []):
            paths = ["B", "A"] if arc.single else ["B"]
            for path in paths:
                for bufsize in ctx.pick([64, 65536], [64, 512, 65536]):
                    names = ["fixed:%d" % s for s in sizes]
                    names += ["random:%d:max%d" % (k, [16, 600, 4096][k % 3]) for k in range(ctx.pick(3, 12))]
                    plans = [(pn, make_chunker(ctx, arc, path, bufsize, pn)) for pn in names]
                    if arc.tree_name == "big" and bufsize == 64 and ctx.quick:
                        plans = [p for p in plans if p[0] not in ("fixed:1",)]
                    for pname, ch in plans:
                        res = await runner.copy(arc, path, len(arc.data), chunker=ch, bufsize=bufsize)
                        judge(ctx, res, None, None, None, {"case": "%s path=%s chunk=%s bufsize=%d" % (arc.label, path, pname, bufsize),
                                                            "archive": arc.label, "chunk": pname, "bufsize": bufsize, "path": path})
                        ctx.case(("chunks", arc.label, path, bufsize, pname), pname != "fixed:65536")
                        n += 1
    ctx.count("fixed_and_random_chunk_copies", n)
    # byte-level truncation: every block boundary and the bytes next to it, whole-buffer reads (no chunking involved)
    m = 0
    for t in ctx.pick(["q", "cex", "mix"], ["q", "cex", "mix", "file511", "file513"]):
        for arc in by_tree.get(t, []):
            sh = arc.shape(4)
            points = set()
            for u in range(sh.total + 1):
                points.add(sh.F(u))
            for path in (["B", "A"] if arc.single else ["B"]):
                for b in sorted(points):
                    if b >= len(arc.data):
                        continue
                    cls = sh.class_of_byte(b)
                    for chunk in (None, 7):
                        ch = None if chunk is None else (lambda size, pos, c=chunk: c)
                        res = await runner.copy(arc, path, b, chunker=ch, bufsize=65536 if chunk is None else 64)
                        judge(ctx, res, "trunc", cls, None,
                              {"case": "%s path=%s truncated after %d bytes (%s), %s" % (
                                  arc.label, path, b, cls, "whole-buffer reads" if chunk is None else "chunks of %d bytes" % chunk),
                               "archive": arc.label, "trunc_byte": b, "path": path, "trunc_chunk": chunk})
                        ctx.case(("trunc", arc.label, path, b, chunk), True)
                        ctx.count("trunc_class:%s" % cls)
                        m += 1
    ctx.count("byte_level_truncations", m)
    ctx.impl_trace(n + m)


# ------------------------------------------------------------------------------------------------
# phase 5: archives written by the async writer are read by tarfile and GNU tar
# ------------------------------------------------------------------------------------------------
def writer_phase(ctx, by_tree):
    n = 0
    for t, lst in by_tree.items():
        src = None
        for arc in lst:
            src = arc
            break
        if src is None:
            continue
        for fmt_name, fmt in (("gnu", tarfile.GNU_FORMAT), ("pax", tarfile.PAX_FORMAT), ("ustar", tarfile.USTAR_FORMAT)):
            for bufsize in ctx.pick([64, None], [1, 64, 512, 4096, None]):
                label = "%s/aio-%s/buf=%s" % (t, fmt_name, bufsize)
                data, exc = aio.run(T.aio_write(src.src, src.base, bufsize, fmt), timeout=300)
                n += 1
                ctx.case(("writer", label), True)
                if exc is not None:
                    ref_exc = None
                    try:
                        with tarfile.open(fileobj=io.BytesIO(), mode="w", format=fmt, dereference=True) as rt:
                            rt.add(src.src, arcname=src.base)
                    except Exception as e:
                        ref_exc = e
                    if ref_exc is not None and type(ref_exc) is type(exc):
                        ctx.count("writer_format_cannot_express_tree:%s" % fmt_name)   # tarfile refuses it the same way
                        continue
                    if isinstance(exc, TimeoutError):
                        ctx.violation("writer:hang", {"case": label}, "the async writer did not finish archiving %s" % label)
                    else:
                        ctx.violation("writer:raised:%s" % type(exc).__name__, {"case": label, "exc": repr(exc)},
                                      "the async writer raised on %s: %r" % (label, exc))
                    continue
                check_written(ctx, label, data, src)
    ctx.count("writer_archives_checked", n)
    ctx.impl_trace(n)


def check_written(ctx, label, data, src):
    exp = src.expected
    names_exp = sorted((src.base + ("/" + k if k else "")) for k in exp)
    # Python tarfile
    d1 = os.path.join(ctx.scratch("wr"), "py_%d" % len(os.listdir(ctx.scratch("wr"))))
    os.makedirs(d1)
    try:
        with tarfile.open(fileobj=io.BytesIO(data), mode="r:") as t:
            names = sorted(m.name.rstrip("/") for m in t.getmembers())
            t.extractall(d1, filter="fully_trusted")
        got = T.scan(os.path.join(d1, src.base))
        d = diff_tree(got, exp)
        if names != names_exp or d:
            ctx.violation("writer:tree-mismatch:tarfile", {"case": label, "diff": d, "names": names[:20], "expected": names_exp[:20]},
                          "archive written by the async writer extracts differently with Python tarfile: %s" % (d or "member names differ"))
    except Exception as e:
        ctx.violation("writer:unreadable-by-tarfile", {"case": label, "exc": repr(e)},
                      "Python tarfile cannot read the archive written by the async writer (%s): %r" % (label, e))
    finally:
        T.rmtree(d1)
    if len(data) % tarfile.BLOCKSIZE != 0 or data[-2 * tarfile.BLOCKSIZE:] != bytes(2 * tarfile.BLOCKSIZE):
        ctx.violation("writer:no-end-of-archive-blocks", {"case": label, "len": len(data)},
                      "archive written by the async writer does not end with two zero blocks / is not block aligned")
    # GNU tar
    d2 = os.path.join(ctx.scratch("wr"), "gt_%d" % len(os.listdir(ctx.scratch("wr"))))
    os.makedirs(d2)
    try:
        env = dict(os.environ, LC_ALL="C")
        p = subprocess.run([T.GNU_TAR, "-tf", "-"], input=data, stdout=subprocess.PIPE, stderr=subprocess.PIPE, env=env, timeout=120)
        names = sorted(x.rstrip("/") for x in p.stdout.decode(errors="replace").splitlines())
        q = subprocess.run([T.GNU_TAR, "-xpf", "-", "-C", d2], input=data, stdout=subprocess.PIPE, stderr=subprocess.PIPE, env=env, timeout=120)
        if p.returncode != 0 or q.returncode != 0 or p.stderr or q.stderr:
            ctx.violation("writer:unreadable-by-gnutar", {"case": label, "stderr": (p.stderr + q.stderr).decode(errors="replace")[:500]},
                          "GNU tar rejects / warns about the archive written by the async writer (%s): %s" % (
                              label, (p.stderr + q.stderr).decode(errors="replace")[:200]))
        else:
            got = T.scan(os.path.join(d2, src.base))
            d = diff_tree(got, exp)
            if names != names_exp or d:
                ctx.violation("writer:tree-mismatch:gnutar", {"case": label, "diff": d, "names": names[:20]},
                              "archive written by the async writer extracts differently with GNU tar: %s" % (d or "member names differ"))
    finally:
        T.rmtree(d2)


# ------------------------------------------------------------------------------------------------
ALL_TREES = [("cex", TREE_CEX), ("q", TREE_Q), ("file513", FILE_CEX), ("mix", TREE_MIX), ("file511", FILE_511), ("big", TREE_BIG)]


def make_chunker(ctx, arc, path, bufsize, pname):
    if pname.startswith("fixed:"):
        s = int(pname.split(":")[1])
        return lambda size, pos: s
    _, k, hi = pname.split(":")
    hi = int(hi[3:])
    rng = ctx.rng("chunks/%s/%s/%d/%s" % (arc.label, path, bufsize, k))
    return lambda size, pos: rng.randint(1, hi)


def replay(ctx, data):
    """Re-run exactly the stored case (archive, chunk plan / behaviour / truncation point) on the current tree."""
    d = data.get("detail", {})
    ctx.seed = data.get("seed", ctx.seed)
    T.quiet()
    T.install_seek_hook()
    if "archive" not in d:
        ctx.tier = data.get("tier", ctx.tier)
        return run(ctx)
    tname = d["archive"].split("/")[0]
    arcs = build_archives(ctx, [t for t in ALL_TREES if t[0] == tname], WRITERS_ALL)
    arc = next((a for a in arcs if a.label == d["archive"]), None)
    ctx.require(arc is not None, "archive %s cannot be rebuilt" % d["archive"])
    runner = Runner(ctx)

    async def go():
        if "behaviour" in d:
            await replay_behaviour(ctx, runner, d["behaviour"], arc, d["B"], "replay")
        elif "trunc_byte" in d:
            chunk = d.get("trunc_chunk")
            res = await runner.copy(arc, d["path"], d["trunc_byte"], chunker=None if chunk is None else (lambda size, pos: chunk),
                                    bufsize=65536 if chunk is None else 64)
            judge(ctx, res, "trunc", arc.shape(4).class_of_byte(d["trunc_byte"]), None, {"case": d.get("case"), "archive": arc.label,
                                                                                         "trunc_byte": d["trunc_byte"], "path": d["path"],
                                                                                         "trunc_chunk": chunk})
        else:
            ch = make_chunker(ctx, arc, d["path"], d["bufsize"], d["chunk"])
            res = await runner.copy(arc, d["path"], len(arc.data), chunker=ch, bufsize=d["bufsize"])
            judge(ctx, res, None, None, None, {"case": d.get("case"), "archive": arc.label, "chunk": d["chunk"], "bufsize": d["bufsize"],
                                               "path": d["path"]})
    _, exc = aio.run(go(), timeout=None)
    if exc is not None:
        raise exc
    print("replayed %s: %s" % (d.get("case"), "violation reproduced" if ctx.violations or ctx.known_hits else "no violation"))
