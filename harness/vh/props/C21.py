"""C21 - the data-location registry answers consistently with its history (module DataManager).

Model: specs/DataManager/DataManager.tla has two layers in one state: a faithful transcription of
_RemotePathMapper / DefaultDataManager (object identities, valid_paths, the early `break` of put, the
recursion of invalidate_location) and a declarative layer computed from the history of operations only
(which (path, location) pairs the statement says must / must not be reported available).  TLC explores
every operation sequence up to a depth and checks that the two layers agree (`Match`); the as-is layer
is known to break it in two ways (root causes STALE and ORPHAN, see MC_DataManager.tla): those states are
classified, not expanded, and everything else must agree (`MatchModuloKnown`).

Binding (B-edge): the same TLC run emits one line per transition (operation sequence, expected answers,
as-is answers, root cause per cell); every transition is replayed from scratch on the REAL
DefaultDataManager through its public API and judged against the DECLARATIVE layer (so a repaired
implementation passes, and an implementation that follows the as-is layer into a violation is reported
with the root cause as signature).  Larger universes (15 paths, 3 locations, wrapped location with a
mount point, both data types) are covered by operation sequences drawn by the harness and answered by
TLC (Trace_DataManager).
"""
from __future__ import annotations

import asyncio
import json
import os

LEVEL = "model_checking"

A, B = "a", "b"
T2 = [(), (A,), (B,), (A, A), (A, B), (B, A), (B, B)]
UNIV = {
    "Flat": [(), (A,), (B,)],
    "T2": T2,
    "T3": T2 + [(A, A, A), (A, A, B), (A, B, A), (A, B, B), (B, A, A), (B, A, B), (B, B, A), (B, B, B)],
    "Chain": [(), (A,), (B,), (A, A), (A, A, A)],
    "Fork": [(), (A,), (B,), (A, A), (A, B), (B, A)],
}
CAUSE = {1: "stale-valid-path", 2: "duplicate-handle-copy", 3: "hole-above"}
NAMED = {
    ("reg", "missing", 1): "reregister-after-invalidate:related-path-stays-unavailable",
    ("rel", "missing", 1): "relate-after-invalidate:related-copy-stays-unavailable",
    ("inv", "ghost", 2): "invalidate:duplicate-handle-copy-survives",
    ("inv", "raises:RecursionError", 2): "invalidate:RecursionError:duplicate-handle-copy",
    ("inv", "ghost", 3): "invalidate:descendant-survives-below-already-invalid-child",
}


def conf(universe, nlocs, wrap, depth, relate_all=False, types=("PRIMARY",), same_dep=False, wrap2=False, family="none"):
    """wrap: L3 wraps L2 (mount /a -> /b); wrap2: L2 wraps L1 (mount /b/a -> /b/b), with wrap a location wrapped twice;
    family: prefix of operations every behaviour starts with ("three": one file at three paths on three locations)."""
    return {"universe": universe, "nlocs": nlocs, "wrap": wrap, "depth": depth, "relate_all": relate_all,
            "types": list(types), "same_dep": same_dep, "wrap2": wrap2, "family": family}


def conf_name(c):
    return "%s%s/L%d%s%s%s/%s/d%d" % (c["universe"], "" if c.get("family", "none") == "none" else "~" + c["family"],
                                    c["nlocs"], "w" if c["wrap"] else "", "W" if c.get("wrap2") else "",
                                    "+anc" if c["relate_all"] else "", "+".join(t[0] for t in c["types"]), c["depth"])


def cfg_text(c, init="Init", nxt="GenNext", invariants=("TypeOK", "MatchModuloKnown"), bounded=True):
    tf = lambda b: "TRUE" if b else "FALSE"
    t = ('CONSTANTS Universe = "%s"  NLocs = %d  Wrap = %s  Wrap2 = %s  Family = "%s"  MaxDepth = %d  RelateAll = %s\n'
         % (c["universe"], c["nlocs"], tf(c["wrap"]), tf(c.get("wrap2")), c.get("family", "none"), c["depth"], tf(c["relate_all"])))
    t += "CONSTANTS Types = {%s}\n" % ", ".join('"%s"' % x for x in c["types"])
    t += "CONSTANTS PathSeq <- MCPathSeq  LocSeq <- MCLocSeq  WrapsOf <- MCWrapsOf  MountFrom <- MCMountFrom  MountTo <- MCMountTo\n"
    t += "INIT %s\nNEXT %s\n" % (init, nxt)
    if bounded:
        t += "VIEW View\nCONSTRAINT BoundOK\n"
    for i in invariants:
        t += "INVARIANT %s\n" % i
    return t


# ------------------------------------------------------------------------------------------------
# judging one state of the real class against one emitted line
# ------------------------------------------------------------------------------------------------

def _signature(opk, kind, cause):
    if cause == "closure":
        return "%s:%s:relation-closure" % (opk, kind)
    return NAMED.get((opk, kind, cause)) or "%s:%s:%s" % (opk, kind, CAUSE.get(cause, "unpredicted"))


MOUNTS = {"L3": ((A,), (B,), "L2", "wrap"), "L2": ((B, A), (B, B), "L1", "wrap2")}


def inner_chain(c, l, p):
    """(location, path) of the inner registrations of p on l (MC_DataManager: MCWrapsOf / MCMountFrom / MCMountTo)."""
    out, p = [], tuple(p)
    while l in MOUNTS and c.get(MOUNTS[l][3]) and p[:len(MOUNTS[l][0])] == MOUNTS[l][0]:
        p, l = MOUNTS[l][1] + p[len(MOUNTS[l][0]):], MOUNTS[l][2]
        out.append((l, p))
    return out


def direct_cells(c, hist):
    """Cells (path, location) that a relation makes available by its two ends alone: (src path, dst location) and
    (dst path, src location) of every declared relation and of every (outermost, inner) pair of a wrapped registration.
    A related cell that must be available and is not among them is demanded by the CLOSURE of the relations (the new copy
    is a copy of everything the source was already related to: fan-out, chain, location wrapped more than once)."""
    cells, last = set(), None
    for op in hist:
        if op[0] == "reg":
            last = (tuple(op[2]), op[1])
            for (l, p) in inner_chain(c, op[1], op[2]):
                cells |= {(last[0], l), (p, last[1])}
        elif op[0] == "inv":
            last = None
        else:
            ends = [last if d[0] == "last" else (tuple(d[1]), d[2]) for d in (op[1], op[2])]
            if None not in ends:
                (ps, ls), (pd, ld) = ends
                cells |= {(ps, ld), (pd, ls)}
    return cells


def judge(ctx, c, hist, line, rp, exc, deep=True):
    """Compare the real data manager (after the last operation of `hist`, which raised `exc` or None) with the
    declarative expectations of `line`.  Returns True when nothing is wrong."""
    from vh.sut import data_dm as D
    opk = hist[-1][0]
    detail = {"conf": c, "hist": hist, "line": {k: line[k] for k in ("e", "a", "c", "x", "xc", "s")}}
    good = True
    if exc is not None:
        predicted = line["x"] == exc and line["xc"] in CAUSE
        sig = _signature(opk, "raises:%s" % exc, line["xc"] if predicted else 0)
        ctx.count("real_violations:" + sig)
        ctx.violation(sig, detail, "%s raises %s after %s" % (_fmt(hist[-1]), exc, " ; ".join(_fmt(o) for o in hist[:-1])))
        return False
    if line["x"] != "none":
        ctx.count("model_exception_not_on_real")
    cells = [(p, l) for p in rp.paths for l in rp.locs]
    real = rp.avail_row()
    if real != line["a"]:
        ctx.count("asis_divergent_states")
    bad = {}
    direct, nclosure = None, 0
    for i, (p, l) in enumerate(cells):
        e = D.EXP[line["e"][i]]
        closure = False
        if e == "rel":
            direct = direct_cells(c, hist) if direct is None else direct
            closure = (tuple(p), l) not in direct
            if closure:
                nclosure += 1
        if e in ("reg", "rel") and not real[i]:
            kind = "missing"
        elif e == "no" and real[i]:
            kind = "ghost"
        else:
            if line["c"][i] != 0:
                ctx.count("model_violation_not_on_real")
            continue
        cause = line["c"][i] if (line["a"][i] == real[i]) else 0
        if cause == 0 and kind == "missing" and closure:
            cause = "closure"
        bad.setdefault(_signature(opk, kind, cause), []).append([D.pstr(p), l, e])
    if nclosure:
        ctx.count("relation_closure_cells_judged", nclosure)
        ctx.count("relation_closure_transitions")
    for sig, where in bad.items():
        good = False
        ctx.count("real_violations:" + sig)
        what = "after %s : %s on %s is %s although the history says %s" % (
            " ; ".join(_fmt(o) for o in hist), where[0][0], where[0][1],
            "reported available" if where[0][2] == "no" else "not reported",
            {"no": "it must be unavailable", "reg": "it is registered there", "rel": "a related copy exists there"}[where[0][2]])
        ctx.violation(sig, dict(detail, cells=where), what)
    if deep:
        # a cell already reported above is not reported a second time through get_source_location
        reported = {(w[0], w[1]) for ws in bad.values() for w in ws}
        exp_cell = lambda p, l: "any" if (D.pstr(p), l) in reported else D.EXP[line["e"][cells.index((p, l))]]
        for d in rp.listing_defects():
            good = False
            ctx.violation("listing:%s" % d[0], dict(detail, defect=list(d)), "get_data_locations is inconsistent: %s" % (d,))
        sd, srow = rp.source_defects(exp_cell)
        for d in sd:
            good = False
            ctx.violation("source-location:%s" % d[0], dict(detail, defect=list(d)),
                          "get_source_location%s: %s" % (tuple(d[1:3]), d[0]))
        if srow != line["s"]:
            ctx.count("asis_divergent_source_rows")
    return good


def _model_causes(line):
    """Root causes with which the as-is layer itself breaks the statement in this transition."""
    if line["x"] != "none":
        return {line["xc"]}             # after an exception only the exception is judged
    return {x for x in line["c"] if x}


def _fmt(op):
    from vh.sut.data_dm import pstr
    if op[0] == "reg":
        return "register(%s,%s,%s)" % (op[1], pstr(op[2]), op[3])
    if op[0] == "inv":
        return "invalidate(%s,%s)" % (op[1], pstr(op[2]))
    d = lambda x: "held" if x[0] == "last" else "%s@%s" % (pstr(x[1]), x[2])
    return "relate(%s,%s)" % (d(op[1]), d(op[2]))


def replay_hist(ctx, sf, c, hist, line, deep=True, same_dep=False):
    """One implementation test: the operation sequence from scratch, judged after its last operation."""
    from vh.sut import data_dm as D
    rp = D.Replayer(sf, UNIV[c["universe"]], D.make_locations(c["nlocs"], c["wrap"], same_dep, c.get("wrap2", False)))
    exc = None
    for k, op in enumerate(hist):
        try:
            exc = rp.apply(op)
        except D.Unfollowable:
            ctx.count("unfollowable")
            return None
        if exc is not None and k < len(hist) - 1:
            ctx.count("prefix_raised")          # judged by the transition that ends there
            return None
    return judge(ctx, c, hist, line, rp, exc, deep)


# ------------------------------------------------------------------------------------------------

def _edge_config(ctx, sf, c, deep_stride):
    name = conf_name(c)
    r = ctx.tlc("DataManager", "MC_DataManager", "gen.cfg", files={"gen.cfg": cfg_text(c)}, timeout=3000)
    ctx.require(r.ok, "DataManager model (%s): %s %s is a specification error (the as-is layer breaks Match outside the "
                      "classified root causes)\n%s" % (name, r.error, r.violated, r.stdout[-1500:]))
    lines = [x for x in r.printed_json() if isinstance(x, dict) and "h" in x]
    kinds = {k: sum(1 for x in lines if x["h"][-1][0] == k) for k in ("reg", "rel", "inv")}
    ctx.require(all(kinds.values()), "vacuous model run (%s): transitions per operation %s" % (name, kinds))   # vacuity guard
    ctx.require(len(lines) == r.generated - 1, "%s: %d transitions emitted, %d generated" % (name, len(lines), r.generated - 1))
    ctx.count("edges:" + name, len(lines))
    seen = set()
    for n, line in enumerate(lines):
        hist = line["h"]
        key = (tuple(line["a"]), line["n"], tuple(line["e"]))
        deep = key not in seen or n % deep_stride == 0
        seen.add(key)
        mv = _model_causes(line)
        for x in mv:
            ctx.count("model_violating_transitions:%s" % CAUSE.get(x, x))
        ctx.case((name, json.dumps(hist)), nontrivial=True)
        replay_hist(ctx, sf, c, hist, line, deep, c.get("same_dep", False))
        if mv and len(ctx.samples) < 3:
            ctx.sample({"config": name, "ops": [_fmt(o) for o in hist], "expected": line["e"], "as_is": line["a"], "cause": line["c"]})
    ctx.impl_trace(len(lines))
    return len(lines)


def _deep_config(ctx, c):
    """Model only: deeper sequences than can be replayed one by one (same invariants, no emission)."""
    name = conf_name(c)
    r = ctx.tlc("DataManager", "MC_DataManager", "deep.cfg", files={"deep.cfg": cfg_text(c, nxt="Next")}, coverage=True, timeout=3000)
    ctx.require(r.ok, "DataManager model (%s): %s %s is a specification error (the as-is layer breaks Match outside the "
                      "classified root causes)\n%s" % (name, r.error, r.violated, r.stdout[-1500:]))
    ctx.require_coverage(r, ["RegisterPath", "RegisterRelation", "InvalidateLocation"])
    ctx.count("model_only_transitions:" + name, r.generated)


def _random_traces(rng, c, n, length):
    """Operation sequences biased towards the interesting shapes: duplicates, relations through the held handle,
    invalidation of ancestors, re-registration."""
    paths = UNIV[c["universe"]]
    locs = ["L1", "L2", "L3"][:c["nlocs"]]
    out = []
    for _ in range(n):
        tr, regd, rels = [], [], []
        for _ in range(rng.randint(3, length)):
            x = rng.random()
            if not regd or x < 0.42:
                if regd and rng.random() < 0.35:
                    p, l = rng.choice(regd)
                    if rng.random() < 0.3:
                        p = p[:rng.randint(0, len(p))]
                else:
                    p, l = rng.choice(paths), rng.choice(locs)
                tr.append(["reg", l, list(p), rng.choice(c["types"])])
                regd.append((p, l))
            elif x < 0.72:
                def d():
                    if rng.random() < 0.3:
                        return ["last"]
                    p, l = rng.choice(regd)
                    return ["cell", list(p), l]
                y = rng.random()
                if rels and y < 0.45:
                    # relations that share an end with an earlier one: fan-out (same source, another destination), chain
                    # (the earlier destination becomes the source), fan-in (the earlier source becomes the destination)
                    s0, d0 = rng.choice(rels)
                    rel = [s0, d()] if y < 0.2 else [d0, d()] if y < 0.35 else [d(), s0]
                else:
                    rel = [d(), d()]
                # a held handle is only meaningful where it is used: remember the ends as cells
                rels.append(tuple(["cell", list(regd[-1][0]), regd[-1][1]] if e == ["last"] else e for e in rel))
                tr.append(["rel", rel[0], rel[1]])
            else:
                p, l = rng.choice(regd)
                p = p[:rng.randint(0, len(p))]
                tr.append(["inv", l if rng.random() < 0.8 else rng.choice(locs), list(p)])
        out.append(tr)
    return out


def _trace_config(ctx, sf, c, n, length, label):
    from vh.sut import data_dm as D
    name = conf_name(c) + ":" + label
    traces = _random_traces(ctx.rng(name), c, n, length)
    wd = ctx.spec_workdir("DataManager", {"trace.cfg": cfg_text(c, init="TInit", nxt="TNext", invariants=("MatchModuloKnown",), bounded=False)})
    tf = os.path.join(wd, "traces.json")
    with open(tf, "w") as f:
        json.dump(traces, f)
    r = ctx.tlc("DataManager", "Trace_DataManager", "trace.cfg", workdir=wd, env={"TRACE_FILE": tf}, workers=1, timeout=3000)
    ctx.require(r.ok, "Trace_DataManager (%s): %s %s\n%s" % (name, r.error, r.violated, r.stdout[-1500:]))
    by = {}
    for x in r.printed_json():
        if isinstance(x, dict) and "t" in x:
            by.setdefault(x["t"], {})[x["k"]] = x
    ctx.require(len(by) == len(traces), "%s: %d of %d traces answered" % (name, len(by), len(traces)))
    done = steps = 0
    for t, tr in enumerate(traces, 1):
        rp = D.Replayer(sf, UNIV[c["universe"]], D.make_locations(c["nlocs"], c["wrap"], c.get("same_dep", False), c.get("wrap2", False)))
        hist = []
        for k, op in enumerate(tr, 1):
            line = by[t].get(k)
            if line is None:
                break                                   # the model stopped at a state that breaks Match
            if line["r"] == "skipped":
                ctx.count("trace_ops_skipped")
                continue
            hist.append(op)
            try:
                exc = rp.apply(op)
            except D.Unfollowable:
                ctx.count("unfollowable")
                break
            steps += 1
            ctx.case((name, json.dumps(hist)), nontrivial=True)
            for x in _model_causes(line):
                ctx.count("model_violating_transitions:%s" % CAUSE.get(x, x))
            ok = judge(ctx, c, list(hist), line, rp, exc, deep=True)
            if not ok or exc is not None:
                break
        done += 1
    ctx.impl_trace(done)
    ctx.count("trace_steps:" + name, steps)
    ctx.sample({"config": name, "ops": [_fmt(o) for o in traces[0]]})



# ------------------------------------------------------------------------------------------------
# get_source_location while registrations are in flight (module DataManagerSource)
# ------------------------------------------------------------------------------------------------

SRC_P, SRC_P2 = "/data/f", "/work/f"


def _source_locs():
    from streamflow.core.deployment import ExecutionLocation
    return {"X1": ExecutionLocation(name="n1", deployment="d1"), "X2": ExecutionLocation(name="n2", deployment="d1"),
            "LOC": ExecutionLocation(name="__LOCAL__", deployment="__LOCAL__", local=True)}


async def replay_source(ctx, sf, hist):
    """One schedule of DataManagerSource on the real class: registrations with the `available` event unset (what
    transfer_data does for its destination: a fresh DataLocation related to the source), completions, invalidations, ONE
    get_source_location task, and explicit runs of the event loop.  The answer is judged in the state in which it is given."""
    from streamflow.core.data import DataLocation, DataType
    from streamflow.data.manager import DefaultDataManager
    from vh.aio import settle
    dm = DefaultDataManager(sf)
    locs = _source_locs()
    objs, state = {}, {"task": None, "snap": [], "waited": False, "raced": False, "judged": False}
    detail = {"kind": "source", "hist": hist}

    def judge():
        state["judged"] = True
        t = state["task"]
        how = "after-wait" if state["waited"] else "immediately"
        if t.exception() is not None:
            ctx.violation("source-location:raises:%s" % type(t.exception()).__name__, detail, "get_source_location raises %r after %s" % (t.exception(), hist))
            return False
        r = t.result()
        txt = " ; ".join("%s(%s)" % (o[0], ",".join(str(x) for x in o[1:])) for o in hist)
        if r is None:
            left = [c for c in state["snap"] if c.data_type == DataType.PRIMARY]
            if left:
                ctx.violation("source-location:none-although-valid-copy-remains", detail,
                              "get_source_location returns None although %s on %s was a candidate and still is a valid primary copy (%s)"
                              % (left[0].path, left[0].location, txt))
                return False
            return True
        listed = dm.get_data_locations(SRC_P, data_type=DataType.PRIMARY)
        sig = None
        if r.data_type == DataType.INVALID:
            sig = "source-location:returned-invalid-%s" % how
        elif r.data_type != DataType.PRIMARY:
            sig = "source-location:returned-non-primary-%s" % how
        elif not r.available.is_set():
            sig = "source-location:returned-before-available"
        elif not any(r is o for o in listed):
            sig = "source-location:returned-unlisted-copy"
        if sig:
            others = [o for o in listed if o.available.is_set()]
            ctx.violation(sig, detail, "get_source_location chose %s on %s, now %s%s (%s)" % (
                r.path, r.location, r.data_type.name,
                "; a valid primary copy exists on %s" % others[0].location if others else "", txt))
            return False
        return True

    ok = True
    for op in hist:
        try:
            if op[0] == "regavail":
                objs[op[1]] = dm.register_path(locs[op[1]], SRC_P)
            elif op[0] == "regpending":
                dst = DataLocation(location=locs[op[1]], path=SRC_P2, relpath="f", data_type=DataType.PRIMARY)   # event unset
                dm.register_relation(next(iter(objs.values())), dst)
                objs[op[1]] = dst
                if not any(dst is o for o in dm.get_data_locations(SRC_P, locs[op[1]].deployment, locs[op[1]].name)):
                    ctx.count("source_pending_not_listed")
            elif op[0] == "complete":
                o = objs[op[1]]
                pending_call = state["task"] is not None and not state["task"].done()
                if op[2]:
                    o.data_type = DataType.SYMBOLIC_LINK
                    state["raced"] = state["raced"] or pending_call
                o.available.set()
            elif op[0] == "invalidate":
                state["raced"] = state["raced"] or (state["task"] is not None and not state["task"].done())
                dm.invalidate_location(locs[op[1]], SRC_P)
            elif op[0] == "start":
                state["snap"] = list(dm.get_data_locations(SRC_P, data_type=DataType.PRIMARY))
                state["task"] = asyncio.ensure_future(dm.get_source_location(SRC_P, op[1]))
                await settle()
                state["waited"] = not state["task"].done()
            elif op[0] == "settle":
                await settle()
        except Exception as e:       # noqa: an exception of the code under test is an observation
            ctx.violation("source-schedule:%s:raises:%s" % (op[0], type(e).__name__), detail, "%s raises %r" % (op, e))
            ok = False
            break
        if state["task"] is not None and state["task"].done():
            ok = judge()
            break
    t = state["task"]
    if t is not None and not state["judged"] and ok:
        for o in objs.values():          # every transfer completes: the call must be able to answer
            o.available.set()
        await settle()
        if not t.done():
            t.cancel()
            ctx.violation("source-location:blocked-although-available", detail, "get_source_location is still suspended after every copy became available (%s)" % hist)
            ok = False
        else:
            ok = judge()
    if state["waited"]:
        ctx.count("source_schedules_call_suspended")
    if state["raced"]:
        ctx.count("source_schedules_type_changed_while_suspended")
    return ok


async def _source_config(ctx, sf):
    maxops = ctx.pick(6, 7)
    text = open(os.path.join(ctx.spec_workdir("DataManager"), "MC_DataManagerSource.cfg")).read()
    r = ctx.tlc("DataManager", "MC_DataManagerSource", "src.cfg", files={"src.cfg": text.replace("MaxOps = 6", "MaxOps = %d" % maxops)}, timeout=3000)
    ctx.require(r.ok, "DataManagerSource: %s %s is a specification error\n%s" % (r.error, r.violated, r.stdout[-1500:]))
    v = ctx.tlc("DataManager", "MC_DataManagerSource", "MC_DataManagerSource_variant.cfg", count=False, timeout=3000)
    ctx.require(v.error == "invariant" and "ChosenIsValidPrimary" in v.violated,
                "DataManagerSource does not tell the check-before-wait variant apart (vacuous property)")
    hists, seen = [], set()
    for x in r.printed_json():
        if isinstance(x, dict) and "h" in x and any(o[0] == "start" for o in x["h"]):
            k = json.dumps(x["h"])
            if k not in seen:
                seen.add(k)
                hists.append(x["h"])
    ctx.require(len(hists) > 1000, "DataManagerSource emitted only %d schedules" % len(hists))
    for h in hists:
        ctx.case(("source", json.dumps(h)), nontrivial=True)
        await replay_source(ctx, sf, h)
    ctx.impl_trace(len(hists))
    ctx.count("source_schedules", len(hists))
    ctx.require(ctx.counters.get("source_schedules_type_changed_while_suspended", 0) > 0,
                "no schedule changed a candidate while the real call was suspended (vacuous)")
    ctx.sample({"source_schedule": next(h for h in hists if any(o[0] == "invalidate" for o in h) and h[-1][0] == "settle")})


async def _main(ctx):
    from vh.sut import context as C
    sf = C.build()
    try:
        both = ("PRIMARY", "SYMLINK")
        edge = ctx.pick(
            [conf("Flat", 1, False, 5), conf("T2", 3, True, 2, types=both, wrap2=True),
             conf("T2", 3, False, 5, family="three")],
            [conf("Flat", 2, False, 5), conf("Flat", 1, False, 6, relate_all=True), conf("Chain", 2, False, 4),
             conf("Fork", 2, False, 4), conf("T2", 3, True, 3, types=both),
             conf("T3", 3, True, 2, types=both), conf("T3", 3, True, 2, types=both, wrap2=True),
             conf("Fork", 3, False, 6, family="three")])
        for c in edge:
            _edge_config(ctx, sf, c, ctx.pick(7, 3))
        for c in ctx.pick([], [conf("Chain", 2, False, 5), conf("Flat", 1, False, 7, relate_all=True)]):
            _deep_config(ctx, c)
        ctx.exhaustive = True
        await _source_config(ctx, sf)
        ctx.require(ctx.counters.get("relation_closure_transitions", 0) > 100,
                    "the exhaustive configurations hardly reach relations that share an end (vacuous closure clause)")
        # quick: the stack of depth two (it contains the simple wrapping: /a/b/x on L3 has one inner copy, /a/a/x two)
        big = conf("T3", 3, True, 99, types=both, wrap2=ctx.quick)
        _trace_config(ctx, sf, big, ctx.pick(250, 2800), ctx.pick(7, 9), "wrap2" if ctx.quick else "wrap")
        if not ctx.quick:
            _trace_config(ctx, sf, conf("T3", 3, True, 99, types=both, wrap2=True), 1200, 9, "wrap2")
            _trace_config(ctx, sf, dict(conf("T3", 3, False, 99, types=("PRIMARY", "SYMLINK")), same_dep=True),
                          2000, 9, "same-deployment")
    finally:
        await C.close(sf)


def run(ctx):
    ctx.rule = ("TLC enumerates every sequence of register_path / register_relation / invalidate_location up to the stated depth on "
                "each path universe; every transition is replayed from scratch on the real DefaultDataManager and the answers of "
                "get_data_locations for every (path, deployment, location name, data type) and of get_source_location are judged "
                "against the history-based expectations; DataManagerSource: every schedule of <= 6/7 environment operations "
                "(registrations in flight, completions with re-typing, invalidations, loop runs) around one suspended "
                "get_source_location call is replayed with real asyncio events; plus harness-drawn longer sequences on 15 paths x 3 locations (wrapped "
                "location, mount point) answered by TLC; every case is a distinct operation sequence")
    asyncio.run(_main(ctx))
    ctx.assumptions += [
        "relations are declared between handles the API returned: the object returned by the latest register_path (not kept "
        "across an invalidation) or the first listed object of a directly registered (path, location)",
        "a relation to a path that is later invalidated on the same location leaves the related path undecided ('any'): "
        "the statement does not say whether links to vanished data stay listed",
        "invalidate_location of a path that was never seen (KeyError today) is not constrained",
        "in-flight registrations are made as transfer_data makes them: a fresh DataLocation (event unset) related to an existing "
        "copy through register_relation; completion re-types it to SYMBOLIC_LINK or keeps it and sets the event; an invalidated "
        "destination is not re-typed; one get_source_location call per schedule",
        "get_source_location: only validity of the chosen copy is required (listed, PRIMARY, not on a location where the "
        "path must be unavailable; None iff no PRIMARY copy is listed), not the preference order",
    ]


def replay(ctx, data):
    d = data["detail"]
    if "hist" not in d:
        return run(ctx)
    if d.get("kind") == "source":
        async def gos():
            from vh.sut import context as C
            sf = C.build()
            try:
                await replay_source(ctx, sf, d["hist"])
            finally:
                await C.close(sf)
        return asyncio.run(gos())

    async def go():
        from vh.sut import context as C
        sf = C.build()
        try:
            line = dict(d["line"], n=0)
            replay_hist(ctx, sf, d["conf"], d["hist"], line, True, d["conf"].get("same_dep", False))
        finally:
            await C.close(sf)
    asyncio.run(go())
