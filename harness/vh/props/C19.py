"""C19 - concurrent recoveries share work and never deadlock (module RecoveryConc, specs/Recovery).

Model: RecoveryConc.tla - one producer, 2..3 consumers failing in the schedule or execute phase, the first failure
a fail-stop that destroys the producer's output; every recovery is BuildGraph (no lock) -> Lock -> Synchronize
(attach vs. roll back, decided on the status read AGAIN) -> Run.  The module is refined to what the gated driver
observed on the real code.  TLC checks the as-is safety facts (LockSafe, SharedWhenAttached, TypeOK, no deadlock
of the lock protocol) and REFUTES the two properties of the statement (AtMostOncePerLoss, NoneStuck/AllTerminate);
it also enumerates every behaviour (order of failures, synchronizations and producer completions).
Binding (B-env with gates): every chosen behaviour is imposed on the REAL engine - the failing jobs are parked
before their failure, every recovery is parked between BuildGraph and AcquireLocks, the regenerated producer is
parked before its completion; the driver opens the gates in the behaviour's order - and the run is compared with
the model: terminates / hangs, attach-or-rollback decision of every recovery, executions of the producer.
A behaviour on which the real engine hangs, or re-executes the producer twice for one loss although the second
consumer failed before the first regeneration completed, violates the statement: a genuine defect (listed by
signature in known_findings.d/C19.json).
"""
from __future__ import annotations

import json
import os
import shutil

LEVEL = "model_checking"
A = "/a/0"


def _cfg(n, ph, body):
    ph = (ph + "e")[:3]
    return ('CONSTANTS Cons <- MCCons Phase <- MCPhase Wiper <- MCWiper N = %d P1 = "%s" P2 = "%s" P3 = "%s"\n' % (n, ph[0], ph[1], ph[2])) + body


def behaviours(ctx, n, ph):
    r = ctx.tlc("Recovery", "MC_RecoveryConc", "G.cfg", files={"G.cfg": _cfg(n, ph, "INIT GenInit\nNEXT GenNext\n")}, workers=1, timeout=1200)
    ctx.require(r.ok, "RecoveryConc generation failed: %s" % r.stdout[-1500:])
    out, seen = [], set()
    for b in r.printed_json():
        if isinstance(b, dict) and "trace" in b:
            b["trace"] = [tuple(e) for e in b["trace"] if e[0] != "end"]
            b["ph"] = ph[:n]
            k = json.dumps([b["trace"], b["dec"]], sort_keys=True)
            if k not in seen:
                seen.add(k)
                out.append(b)
    ctx.require(out, "RecoveryConc emitted no behaviour")
    return out


def model_properties(ctx, n, ph):
    """As-is facts must hold; the statement's properties are expected to be refuted (the counterexamples are among the
    enumerated behaviours and are replayed on the real code)."""
    inv = "INIT Init\nNEXT Next\nVIEW View\n" + "".join("INVARIANT %s\n" % i for i in ("TypeOK", "LockSafe", "SharedWhenAttached"))
    r = ctx.tlc("Recovery", "MC_RecoveryConc", "I.cfg", files={"I.cfg": _cfg(n, ph, inv)}, deadlock=True, coverage=True, timeout=1200)
    ctx.require(r.ok, "RecoveryConc: as-is invariants / lock protocol fail (%s %s): specification error\n%s" % (r.error, r.violated, r.stdout[-1500:]))
    ctx.require_coverage(r, ["FailBuild", "Lock", "Sync", "StartA", "FinishA", "Rerun"])
    res = {}
    for prop in ("AtMostOncePerLoss", "NoneStuck"):
        q = ctx.tlc("Recovery", "MC_RecoveryConc", "P.cfg", files={"P.cfg": _cfg(n, ph, "INIT Init\nNEXT Next\nVIEW View\nINVARIANT %s\n" % prop)},
                    count=False, timeout=1200)
        res[prop] = "holds" if q.ok else "refuted at depth %d" % len(q.trace or [])
        ctx.count("model:%s:%s:%s" % (prop, ph[:n], "holds" if q.ok else "refuted"))
    return res


def script_of(b):
    n = b["n"]
    cons = ["b%d" % i for i in range(1, n + 1)]
    job = {c: "/%s/0" % c for c in cons}
    ph = {c: b["ph"][i] for i, c in enumerate(cons)}
    S, X = (lambda j: "sched:" + j), (lambda j: "exec:" + j)
    script = [S(A), X(A)] + [S(job[c]) for c in cons if ph[c] == "e"]
    for ev, c in b["trace"]:
        if ev == "fail":
            script.append(S(job[c]) if ph[c] == "s" else X(job[c]))
        elif ev == "sync":
            script.append("built:" + job[c])
            if b["dec"][c] == "rollback":
                script.append("park:" + S(A))      # the producer is scheduled again (FIREABLE) and held before its stage-in
        elif ev == "startA":
            script.append(S(A))                     # ... released: it is staged, becomes RUNNING and is held before completion
        elif ev == "finishA":
            script.append(X(A))
    plan = {}
    for i, c in enumerate(cons):
        plan[(job[c], "schedule" if ph[c] == "s" else "execute")] = ["fail_stop" if i == 0 else "soft", 1]
    return script, plan, job


def sync_while_fireable(b):
    """Some recovery synchronizes while the producer, rolled back by another one, is scheduled but not yet running."""
    fire = False
    for ev, c in b["trace"]:
        if ev == "sync":
            if fire:
                return True
            if b["dec"][c] == "rollback":
                fire = True
        elif ev in ("startA", "finishA"):
            fire = False
    return False


def classify(b):
    """Over-execution that the statement forbids: two roll-backs of the producer where the second consumer had already
    failed when the first regeneration completed (they needed the same lost data concurrently)."""
    tr = b["trace"]
    rolls = [c for (ev, c) in tr if ev == "sync" and b["dec"][c] == "rollback"]
    concurrent = []
    for c2 in rolls[1:]:
        i_fail = tr.index(("fail", c2))
        first_finish = min([i for i, (ev, c) in enumerate(tr) if ev == "finishA"] or [10 ** 6])
        if i_fail < first_finish:
            concurrent.append((c2, b["saw"][c2]))
    return concurrent


def replay_behaviour(ctx, b, idx=0, stall=5.0):
    from vh import aio
    from vh.sut import recov
    import asyncio
    script, plan, job = script_of(b)
    root = os.path.join(ctx.scratch("runs"), "c%d" % ctx.counters.get("real_runs", 0))
    ctx.count("real_runs")
    gates = aio.Gates()

    async def driver(st, task):
        st.drv = asyncio.ensure_future(recov.script_driver(st, task, script, step_timeout=15.0))
    try:
        obs, exc = aio.run(recov.run_plan(recov.fanjoin(b["n"]), plan, root, gates=gates, gate_jobs={A} | set(job.values()), driver=driver,
                                          gate_points=("exec", "sched"), hooks=recov.conc_hooks(park_built=set(job.values())),
                                          stall=stall, max_retries=12), timeout=600)
    finally:
        shutil.rmtree(root, ignore_errors=True)
    from vh.tlc import MachineryError
    if exc is not None:
        raise MachineryError("gated run crashed in the harness: %r" % exc)
    if obs["harness_errors"]:
        raise MachineryError("harness error inside a gated run: %s" % obs["harness_errors"][:3])
    return obs, script, plan, job


def check_behaviour(ctx, b, idx=0):
    obs, script, plan, job = replay_behaviour(ctx, b, idx)
    inv = {v: k for k, v in job.items()}
    phs = b["ph"]
    det = {"n": b["n"], "phases": phs, "trace": b["trace"], "model": {k: b[k] for k in ("pc", "saw", "dec", "execsA", "losses")},
           "script": script, "outcome": obs["outcome"], "error": obs["error"]}
    ev = [e for e in obs["events"] if e["ev"] in ("fail", "natfail", "built", "sync", "rec_begin", "rec_end", "open", "driver_stop")]
    det["events"] = [{k: v for k, v in e.items() if k != "n"} for e in ev][:60]
    execs_a = obs["attempts"].get("%s|execute" % A, 0)
    det["execsA"] = execs_a
    # decisions taken by the first recovery of every consumer
    dec = {}
    for e in obs["events"]:
        if e["ev"] == "sync" and inv.get(e["job"]) and inv[e["job"]] not in dec:
            d = e["decisions"].get(A)
            dec[inv[e["job"]]] = {"attach": "attach", "rollback": "rollback", None: "alone"}[d]
    det["decisions"] = dec
    stuck = sorted(c for c, v in b["pc"].items() if v == "stuck")
    cls = "%d:%s" % (b["n"], phs)
    good = True
    # ---- conformance: the real engine must follow the behaviour and agree with the model
    if obs.get("script_failed") and any(dec.get(c) not in (None, d) for c, d in b["dec"].items()):
        ctx.violation("c19:model-mismatch:decision:%s" % cls, det, "attach/rollback decisions %s differ from the model %s (the run then left the behaviour: gate %s never parked)" % (
            dec, b["dec"], obs["script_failed"]))
        return False
    if obs.get("script_failed"):
        ctx.violation("c19:behaviour-not-followed:%s" % cls, det, "the real engine could not follow the model behaviour: gate %s never parked" % obs["script_failed"])
        return False
    exp_outcome = "hang" if stuck else "return"
    if obs["outcome"] != exp_outcome:
        ctx.violation("c19:model-mismatch:outcome:%s->%s:%s" % (exp_outcome, obs["outcome"], cls), det,
                      "model says the run %s, the real run: %s (%s)" % ("hangs" if stuck else "terminates", obs["outcome"], obs["error"]))
        good = False
    if dec != {c: d for c, d in b["dec"].items()}:
        ctx.violation("c19:model-mismatch:decision:%s" % cls, det, "attach/rollback decisions %s differ from the model %s" % (dec, b["dec"]))
        good = False
    if not stuck and execs_a != b["execsA"]:
        ctx.violation("c19:model-mismatch:producer-executions:%s" % cls, det, "producer executed %d times, model says %d" % (execs_a, b["execsA"]))
        good = False
    if obs["outcome"] == "return":
        exp = {"d": [["0", "d(%s)" % ";".join("b%d(a(x0))" % i for i in range(1, b["n"] + 1))]], "d:terminated": 1}
        if obs["outputs"] != exp:
            ctx.violation("c19:outputs-differ:%s" % cls, dict(det, outputs=obs["outputs"]), "outputs differ after concurrent recoveries: %s" % obs["outputs"])
            good = False
    # ---- the statement
    if obs["outcome"] == "hang":
        ctx.violation("c19:hang:attach-after-build:failed-step=schedule:%s" % cls, det,
                      "concurrent recoveries: the recovery of %s attached to the regeneration of the producer and never terminated" % stuck)
        good = False
    conc = classify(b)
    if obs["outcome"] == "return" and conc and execs_a > 1 + b["losses"]:
        kinds = sorted({"built-while-%s" % ("recovering" if s == "recovering" else "completed") for _, s in conc})
        ctx.violation("c19:producer-reexecuted-twice-for-one-loss:sync-after-regeneration:%s:%s" % (",".join(kinds), cls), det,
                      "the producer ran %d times for %d loss: %s failed before the first regeneration completed but synchronized after it" % (
                          execs_a, b["losses"], [c for c, _ in conc]))
        good = False
    elif obs["outcome"] == "return" and execs_a > 1 + b["losses"]:
        ctx.count("extra:sequential_failures_reexecute_producer_again(stale input instance)")
    if any(d == "attach" for d in dec.values()) and obs["outcome"] == "return":
        ctx.count("runs_sharing_a_regeneration(attach)")
    return good


def run(ctx):
    ctx.rule = ("TLC enumerates every order of {failure+BuildGraph, Synchronize, producer completion} for 2..3 consumers failing in the schedule/"
                "execute phase; each chosen behaviour is imposed on the real engine with gates; non-trivial = at least two recoveries overlap")
    combos = ctx.pick([(2, "ee"), (2, "es"), (2, "ss")], [(2, "ee"), (2, "es"), (2, "se"), (2, "ss"), (3, "eee")])
    # (3 consumers with schedule-phase failures are left out: the un-modelled SECOND recovery of a consumer whose ScheduleStep was
    #  recovered - natural transfer failure on the stale input - can find its own job FIREABLE and attach to itself; see notes/C19.md)
    chosen = []
    rng = ctx.rng("behaviours")
    for n, ph in combos:
        props = model_properties(ctx, n, ph) if (ctx.quick and ph in ("es",)) or not ctx.quick else None
        bs = behaviours(ctx, n, ph)
        ctx.count("model_behaviours:%d:%s" % (n, ph), len(bs))
        hang = [b for b in bs if "stuck" in b["pc"].values()]
        ok = [b for b in bs if "stuck" not in b["pc"].values()]
        rng.shuffle(hang)
        rng.shuffle(ok)
        hang.sort(key=lambda b: not sync_while_fireable(b))
        fire = [b for b in ok if sync_while_fireable(b)]
        ok = fire[:ctx.pick(6, 10 ** 6)] + [b for b in ok if not sync_while_fireable(b)]
        ctx.count("model_behaviours_sync_while_fireable:%d:%s" % (n, ph), len(fire))
        # behaviours on which the model predicts a hang cost the stall time each: a few of them
        chosen += hang[:ctx.pick(1, 12 if n == 2 else 20)] + ok[:ctx.pick(12, 40 if n == 2 else 150)]
    n_overlap = 0
    for i, b in enumerate(chosen):
        tr = b["trace"]
        fails = [j for j, e in enumerate(tr) if e[0] == "fail"]
        fin = [j for j, e in enumerate(tr) if e[0] == "finishA"]
        overlap = len(fails) >= 2 and (not fin or fails[1] < fin[0])
        n_overlap += overlap
        ctx.case(json.dumps([b["n"], b["ph"], b["trace"]]), nontrivial=overlap)
        ctx.impl_trace(1)
        check_behaviour(ctx, b, i)
        if i in (2, 9, 20):
            ctx.sample({"n": b["n"], "phases": b["ph"], "trace": b["trace"], "model_dec": b["dec"], "model_execsA": b["execsA"]})
    ctx.count("behaviours_replayed", len(chosen))
    ctx.count("behaviours_with_overlapping_recoveries", n_overlap)
    ctx.require(n_overlap >= 10, "vacuous: only %d behaviours with overlapping recoveries" % n_overlap)
    ctx.exhaustive = False
    ctx.assumptions += ["fan-out/join workflow (one producer, 2..3 consumers in distinct steps, one join), one volatile location",
                        "gates park: job phases before the injected failure, recoveries after ProvenanceGraph.build_graph, the regenerated producer "
                        "before its command completes; everything else runs free",
                        "a hang is declared when no injector event and no CPU activity is seen for 5 s (the model predicts it)"]


def replay(ctx, data):
    d = data["detail"]
    b = {"n": d["n"], "ph": d["phases"], "trace": [tuple(e) for e in d["trace"]]}
    b.update(d["model"])
    check_behaviour(ctx, b)
