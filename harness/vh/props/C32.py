"""C32 - remapping CWL file values between directories is lossless (module RemapPath).

Model:      MC_RemapPath builds every relative part over the alphabet {n / % 4 1 space : . U} up to
            length L (a tree, one character per step) and, on each, evaluates the TRANSCRIBED
            `remap_path` (Remap) and the prefix replacement (Ideal) for four field kinds (plain path,
            file:// + path, file:// + quote(path), http://) and three directory pairs; TLC asserts that the
            model deviates from Ideal exactly in the characterised classes and prints every case.
            Gen_RemapValue applies the traversal `RemapValue` to a catalogue of value shapes.
Binding:    every printed string goes to the real `remap_path` (posixpath), forward and back:
            code == model (translation validation) and code vs Ideal / round trip (the property).
            `remap_token_value` is run on every shape of the catalogue instantiated with the strings.
"""
from __future__ import annotations

import copy
import json
import os
import posixpath
import urllib.parse
import zlib

LEVEL = "translation_validation"

UNI = "é"


def inst(s: str) -> str:
    """Model string -> real string: U = one non-ASCII character, <XY> = the byte XY."""
    if "U" in s:
        s = s.replace("U", UNI)
    while "<" in s:
        i = s.index("<")
        b = int(s[i + 1:i + 3], 16)
        # a lone byte >= 0x80 is not valid UTF-8: urllib.parse.unquote decodes with errors="replace"
        s = s[:i] + (chr(b) if b < 0x80 else "\ufffd") + s[i + 4:]
    return s


def _impl():
    from streamflow.cwl import utils
    return utils


def canonical(url: str) -> bool:
    p = url[7:]
    return urllib.parse.quote(urllib.parse.unquote(p)) == p


def same(kind: str, got, want: str) -> bool:
    """RemapPath!Same: character for character; a non-canonical file:// URL up to percent-decoding."""
    if not isinstance(got, str):
        return False
    if kind in ("loc", "locq") and not canonical(want):
        return got.startswith("file://") and urllib.parse.unquote(got[7:]) == urllib.parse.unquote(want[7:])
    return got == want


def call_remap(utils, s, old, new):
    try:
        r = utils.remap_path(posixpath, s, old, new)
    except Exception as e:  # an observation
        return "raise:%s" % type(e).__name__, None
    return r, r if isinstance(r, str) else None


# ------------------------------------------------------------------------------------------------
# remap_path
# ------------------------------------------------------------------------------------------------


def check_string(ctx, utils, st, rel, wf, c, old, new):
    """One (relative part, kind, directory pair) case.  `c` is the model's record."""
    kind = c["k"]
    s, m, ideal, t = inst(c["s"]), inst(c["m"]), inst(c["i"]), inst(c["t"])
    got, ok_str = call_remap(utils, s, old, new)
    back = call_remap(utils, got, new, old)[0] if ok_str is not None else "skipped"
    st["calls"] += 2
    agree = (got == m and back == t)
    if not agree:
        st["disagree"] += 1
        if len(st["disagree_samples"]) < 5:
            st["disagree_samples"].append({"kind": kind, "s": s, "old": old, "new": new, "model": [m, t], "code": [got, back],
                                           "well_formed": wf})
        if not wf:
            st["disagree_outside"] += 1
    if not wf:
        return agree
    # the property, on the code's own results
    detail = {"kind": kind, "rel": inst(rel), "path": s, "old_dir": old, "new_dir": new, "ideal": ideal, "model": m,
              "got": got, "model_round_trip": t, "round_trip": back, "class": c["cl"]}
    good = True
    if not same(kind, got, ideal):
        good = False
        if got == m and c["cl"] != "none":
            sig = "remap_path:%s:%s" % (kind, c["cl"])
        elif isinstance(got, str) and got.startswith("raise:"):
            sig = "remap_path:%s:raises:%s" % (kind, got[6:])
        # classes of the repaired defects, recognised on the code's own result (the model no longer has them)
        elif got == urllib.parse.unquote(ideal):
            sig = "remap_path:%s:percent-sequence-decoded" % kind
        elif kind == "path" and got == s and ":/" in s:
            sig = "remap_path:%s:colon-slash-in-name:not-remapped" % kind
        elif isinstance(got, str) and got != ideal and ideal.startswith(got) and ideal[len(got)] in "#?":
            sig = "remap_path:%s:truncated-at-fragment-or-query-delimiter" % kind
        elif isinstance(got, str) and len(got) == len(ideal) and all(a == b or (b == "+" and a == " ") for a, b in zip(got, ideal)):
            sig = "remap_path:%s:plus-decoded-as-space" % kind
        else:
            sig = "remap_path:%s:differs-from-prefix-replacement" % kind
        ctx.violation(sig, detail, "remap_path(posixpath, %r, %r, %r) = %r, exactly the prefix replaced would be %r" % (
            s, old, new, got, ideal))
    if ok_str is not None and not same(kind, back, s):
        good = False
        if back == t and got == m and c["cl"] != "none":
            sig = "remap_path:%s:round-trip:%s" % (kind, c["cl"])
        elif got == urllib.parse.unquote(ideal) and back == urllib.parse.unquote(s):
            sig = "remap_path:%s:round-trip:percent-sequence-decoded" % kind
        else:
            sig = "remap_path:%s:round-trip:not-identity" % kind
        ctx.violation(sig, detail, "remap %r -> %r -> %r: the round trip %s -> %s -> %s does not restore the value" % (
            s, got, back, old, new, old))
    if good and not c["ok"]:
        st["code_better_than_model"] += 1
    return good


# ------------------------------------------------------------------------------------------------
# remap_token_value
# ------------------------------------------------------------------------------------------------


def build(v, leaf):
    k = v["k"]
    if k == "leaf":
        return leaf(v)
    if k == "prim":
        return v["x"]
    if k == "list":
        return [build(x, leaf) for x in v["items"]]
    if k == "rec":
        d = {"class": v["cls"]} if v["cls"] else {}
        for name, val in v["fields"]:
            d[name] = build(val, leaf)
        return d
    raise ValueError(v)


def first_diff(exp, got, path=""):
    """-> (field path without indices, expected, got) of the first difference, or None."""
    if isinstance(exp, dict) and isinstance(got, dict):
        if list(exp.keys()) != list(got.keys()):
            if set(exp.keys()) != set(got.keys()):
                return path + "{keys}", sorted(exp.keys()), sorted(got.keys())
        for key in exp:
            d = first_diff(exp[key], got[key], (path + "." if path else "") + key)
            if d:
                return d
        return None
    if isinstance(exp, list) and isinstance(got, list):
        if len(exp) != len(got):
            return path + "[len]", len(exp), len(got)
        for a, b in zip(exp, got):
            d = first_diff(a, b, path + "[]")
            if d:
                return d
        return None
    if type(exp) is not type(got) or exp != got:
        return path or "value", exp, got
    return None


def field_class(where: str) -> str:
    """'d.e.secondaryFiles[].path' -> 'secondaryFiles.path'; 'a.location' -> 'location' (where in a value, not which value)."""
    parts = [p for p in where.replace("[]", "").split(".") if p]
    last = parts[-1] if parts else "value"
    for cont in reversed(parts[:-1]):
        if cont in ("secondaryFiles", "listing"):
            return "%s.%s" % (cont, last)
    return last


def check_value(ctx, utils, st, name, shape, slots, old, new, rel):
    """One shape instantiated with one relative part.  slots: slot -> (s, forward, back) from the REAL
    remap_path, so that this compares exactly the traversal (the string function is judged above)."""
    def leaf_in(v):
        return slots[v["slot"]][0]

    def leaf_out(v):
        return slots[v["slot"]][1] if v["remapped"] else slots[v["slot"]][0]

    def leaf_back(v):
        return slots[v["slot"]][2] if v["remapped"] else slots[v["slot"]][0]

    value = build(shape["input"], leaf_in)
    original = copy.deepcopy(value)
    expected = build(shape["output"], leaf_out)
    expected_back = build(shape["output"], leaf_back)
    st["value_calls"] += 2
    try:
        got = utils.remap_token_value(posixpath, old, new, value)
    except Exception as e:
        ctx.violation("remap_token_value:%s:raises:%s" % (name, type(e).__name__),
                      {"shape": name, "value": original, "old_dir": old, "new_dir": new, "error": str(e)[:200]},
                      "remap_token_value raises %s on shape %s" % (type(e).__name__, name))
        return False
    d = first_diff(expected, got)
    if d:
        where, e_, g_ = d
        field = field_class(where)
        how = "wrong-value"
        if isinstance(g_, str) and isinstance(e_, str):
            if g_ in [s[0] for s in slots.values()] and g_ != e_:
                how = "not-remapped"
            elif e_ in [s[0] for s in slots.values()]:
                how = "changed-but-not-a-file-field"
        ctx.violation("remap_token_value:%s:%s" % (field, how),
                      {"shape": name, "value": original, "old_dir": old, "new_dir": new, "expected": expected, "got": got,
                       "where": where, "rel": rel},
                      "remap_token_value(%s -> %s) on shape %s: %s is %r, expected %r" % (old, new, name, where, g_, e_))
        return False
    try:
        back = utils.remap_token_value(posixpath, new, old, copy.deepcopy(got))
    except Exception as e:
        ctx.violation("remap_token_value:%s:round-trip:raises:%s" % (name, type(e).__name__),
                      {"shape": name, "value": original, "old_dir": old, "new_dir": new}, "remapping back raises")
        return False
    d = first_diff(expected_back, back)
    if d:
        where, e_, g_ = d
        ctx.violation("remap_token_value:%s:round-trip" % field_class(where),
                      {"shape": name, "value": original, "old_dir": old, "new_dir": new, "expected": expected_back, "got": back,
                       "where": where, "rel": rel},
                      "remap_token_value there and back on shape %s: %s is %r, expected %r" % (name, where, g_, e_))
        return False
    return True


# ------------------------------------------------------------------------------------------------


def model(ctx, level, deep):
    """-> (dirs, sorted list of JSON texts (one per enumerated string), shape catalogue)."""
    # development aid only (never set by the registered commands): reuse the TLC output of a previous run
    cache = os.environ.get("VERIF_C32_MODEL_CACHE")
    if cache and os.path.exists(cache):
        with open(cache) as f:
            j = json.load(f)
        if j["level"] == [level, deep]:
            ctx.states += j["states"]
            ctx.assumptions.append("DEVELOPMENT RUN: TLC output reused from %s" % cache)
            return j["dirs"], j["rows"], j["shapes"]
    dirs, rows, shapes, states = _model(ctx, level, deep)
    if cache:
        with open(cache, "w") as f:
            json.dump({"level": [level, deep], "dirs": dirs, "rows": rows, "shapes": shapes, "states": states}, f)
    return dirs, rows, shapes


def _model(ctx, level, deep):
    wd = ctx.spec_workdir("RemapPath")
    cfg = open(os.path.join(wd, "MC_RemapPath.cfg")).read().replace("L = 4", "L = %d" % level).replace("DEEP = 99", "DEEP = %d" % deep)
    r = ctx.tlc("RemapPath", "MC_RemapPath", "MC_RemapPath.cfg", workdir=wd, files={"MC_RemapPath.cfg": cfg},
                timeout=ctx.pick(1500, 7200))
    ctx.require(r.ok, "RemapPath model check failed: %s %s" % (r.error, r.violated))
    dirs, rows = None, []
    for line in r.stdout.splitlines():
        if len(line) > 2 and line[0] == '"' and line[-1] == '"':
            try:
                text = json.loads(line)
            except ValueError:
                continue
            if text.startswith('{"dirs"'):
                dirs = json.loads(text)["dirs"]
            elif text.startswith('{"r"'):
                rows.append(text)
    ctx.require(dirs is not None and len(rows) == r.distinct, "emission incomplete: %d rows for %d states" % (len(rows), r.distinct))
    r.stdout = ""
    g = ctx.tlc("RemapPath", "Gen_RemapValue", "Gen_RemapValue.cfg", workdir=wd, workers=1, count=False, timeout=900)
    ctx.require(g.ok, "Gen_RemapValue failed: %s" % g.stdout[-500:])
    shapes = [x for x in g.printed_json() if isinstance(x, dict) and "shapes" in x]
    ctx.require(len(shapes) == 1, "shape catalogue not emitted")
    rows.sort()          # TLC workers print in any order: the verdict loop is order independent, the examples kept are not
    return dirs, rows, shapes[0]["shapes"], r.distinct


def run(ctx):
    utils = _impl()
    # 12 symbols.  quick: all six cases up to length 3 (1 885 strings), the plain-path case only at length 4 (20 736);
    # thorough: all six cases up to length 5 (271 453 strings); VERIF_C32_LEN6=1 adds length 6 for the plain-path case
    six = os.environ.get("VERIF_C32_LEN6", "0") == "1"
    level = ctx.pick(4, 6 if six else 5)
    deep = ctx.pick(4, 6 if six else 99)
    ctx.rule = ("TLC enumerates every relative part over {n / %% 4 1 space : . U(non-ASCII)} and # ? + up to length %d (length >= %d: "
                "plain-path kind only) and prints, per (string, field kind, directory pair), the transcribed remap_path, the "
                "prefix replacement and the round trip; every case is run on the real remap_path (there and back) and compared "
                "with both; remap_token_value is run on a catalogue of 14 value shapes instantiated with the strings; a case is "
                "non-trivial when the relative part is a normalised relative path (the domain of the statement)" % (level, deep))
    dirs, rows, shapes = model(ctx, level, deep)
    ctx.exhaustive = True
    st = {"calls": 0, "disagree": 0, "disagree_outside": 0, "disagree_samples": [], "code_better_than_model": 0,
          "value_calls": 0, "delims": 0, "plus": 0, "pct_plain": 0, "colon_slash": 0}
    classes = {}
    pred_mismatch = 0
    nshape = 0
    frac = ctx.pick(8, 2)
    mid = None
    for k, text in enumerate(rows):
        o = json.loads(text)
        if k == len(rows) // 2:
            mid = o
        rel, wf = o["r"], o["wf"]
        real = {}
        for j, c in enumerate(o["c"]):
            old, new = dirs[j]
            kind = c["k"]
            ctx.case((kind, j, rel), nontrivial=wf)
            ctx.programs += 1
            if wf:
                classes[(kind, c["cl"])] = classes.get((kind, c["cl"]), 0) + 1
                if kind == "loc" and ("#" in rel or "?" in rel):
                    st["delims"] += 1
                if kind in ("path", "loc") and "+" in rel:
                    st["plus"] += 1
                if kind == "path" and urllib.parse.unquote(inst(c["s"])) != inst(c["s"]):
                    st["pct_plain"] += 1
                if kind == "path" and ":/" in c["s"]:
                    st["colon_slash"] += 1
                # the python rendering of the predicate `Same` must agree with the specification's on the model's results
                if same(kind, inst(c["m"]), inst(c["i"])) != c["ok"] or same(kind, inst(c["t"]), inst(c["s"])) != c["rok"]:
                    pred_mismatch += 1
            ctx.disagreements_checked += 1
            check_string(ctx, utils, st, rel, wf, c, old, new)
            if j < 4:
                s = inst(c["s"])
                fwd = call_remap(utils, s, old, new)[0]
                real[{"path": "P", "loc": "L", "locq": "Q", "http": "H"}[kind]] = (
                    s, fwd, call_remap(utils, fwd, new, old)[0] if isinstance(fwd, str) and not fwd.startswith("raise:") else fwd)
        # values: every shape on short strings and on a sample of the longer ones
        if len(real) == 4 and (len(rel) <= 2 or (wf and zlib.crc32(rel.encode()) % 100 < frac)):
            real["X"] = ("just a string /old/dir/x", None, None)
            old, new = dirs[0]
            if all(isinstance(v[1], str) and not v[1].startswith("raise:") for k, v in real.items() if k != "X"):
                for name in sorted(shapes):
                    nshape += 1
                    ctx.case(("shape", name, rel))
                    check_value(ctx, utils, st, name, shapes[name], real, old, new, inst(rel))
    ctx.require(pred_mismatch == 0, "harness predicate `same` disagrees with RemapPath!Same on %d model results" % pred_mismatch)
    ctx.count("strings", len(rows))
    ctx.count("file_urls_with_literal_fragment_or_query_delimiter", st["delims"])
    ctx.count("names_with_literal_plus", st["plus"])
    ctx.count("plain_paths_with_percent_sequence", st["pct_plain"])
    ctx.count("plain_paths_with_colon_slash", st["colon_slash"])
    ctx.count("cases", ctx.programs)
    ctx.count("remap_path_calls", st["calls"])
    ctx.count("remap_token_value_calls", st["value_calls"])
    ctx.count("shape_instances", nshape)
    ctx.count("model_vs_code_disagreements", st["disagree"])
    ctx.count("model_vs_code_disagreements_outside_domain", st["disagree_outside"])
    ctx.count("code_satisfies_where_model_deviates", st["code_better_than_model"])
    for (kind, cl), n in sorted(classes.items()):
        ctx.count("class:%s:%s" % (kind, cl), n)
    for smp in st["disagree_samples"]:
        ctx.sample({"model_vs_code": smp}, limit=8)
    ctx.sample({"string": inst(mid["r"]), "cases": mid["c"][:2]})
    ctx.impl_trace(st["calls"] + st["value_calls"])
    # vacuity: every class the statement names must have been enumerated
    ctx.require(st["pct_plain"] > 0 and st["colon_slash"] > 0 and classes.get(("path", "none"), 0) > 100
                and classes.get(("locq", "none"), 0) > 10 and classes.get(("http", "none"), 0) > 100 and nshape > 1000
                and st["delims"] > 10 and st["plus"] > 10,
                "vacuous enumeration: %r" % (classes,))
    ctx.assumptions += [
        "posixpath as path processor; directory names are plain (/old/dir -> /new, /w -> /w/x, /p/q/nn -> /p/s)",
        "the property is demanded on normalised relative parts only (no empty, '.' or '..' component); on the other strings "
        "only model == code is compared",
        "file:// URLs that are not in urllib.parse.quote's canonical form are compared up to percent-decoding",
        "U stands for one non-ASCII character (U+00E9); decoded bytes below 0x20 are kept as control characters",
        "remap_token_value is compared with the specification's traversal composed with the REAL remap_path on each leaf",
    ]
    # The verdict never depends on the transcription (it compares the code with Ideal); a difference between the
    # transcription and the code means that remap_path has changed since it was transcribed (a fix or a regression:
    # the property above has judged it) - it is reported, and recorded in the evidence, but is not a verdict.
    if st["disagree"]:
        print("NOTE: RemapPath!Remap (transcription) and remap_path differ on %d cases (%d outside the statement's domain): "
              "the code is no longer the transcribed one, e.g. %s" % (st["disagree"], st["disagree_outside"],
                                                                     json.dumps(st["disagree_samples"][:1])), flush=True)


def replay(ctx, data):
    utils = _impl()
    d = data["detail"]
    if "shape" in d:
        st = {"value_calls": 0}
        value = copy.deepcopy(d["value"])
        got = utils.remap_token_value(posixpath, d["old_dir"], d["new_dir"], value)
        diff = first_diff(d["expected"], got)
        if diff:
            ctx.violation(data["signature"], d, "replayed: %s is %r, expected %r" % (diff[0], diff[2], diff[1]))
        return
    if "path" in d:
        got, _ = call_remap(utils, d["path"], d["old_dir"], d["new_dir"])
        back = call_remap(utils, got, d["new_dir"], d["old_dir"])[0] if _ is not None else "skipped"
        if not same(d["kind"], got, d["ideal"]) or not same(d["kind"], back, d["path"]):
            ctx.violation(data["signature"], dict(d, got=got, round_trip=back),
                          "replayed: remap_path(%r) = %r (ideal %r), back %r" % (d["path"], got, d["ideal"], back))
        return
    run(ctx)
