"""C14 - hardware arithmetic is consistent (module Hardware).

Model: Hardware.tla transcribes Storage/Hardware arithmetic of streamflow/core/scheduling.py
(__add__, __sub__, __or__/__ior__, _reduce_storages, normalized, is_normalized, satisfies, the error
cases) over integers (quarter units).  MC_Hardware checks the laws of the property on every pair (a, b)
of a bounded domain (normalisation idempotent and total preserving, (a+b)-b = a per mount point,
a-b per mount point or the defined error, satisfies <=> at least as large in cores, memory and every
mount point of b, `|` = max per key) and MC_Hardware3 the reservation law on triples.
Binding (translation validation): TLC emits every enumerated pair with the model's result of every
operator; each is evaluated on the real classes (values * 0.25: exact dyadic floats) and compared,
including the exception class.

Verdict fields are the ones the statement constrains: cores, memory, the key set, the mount point and
the size of every key, the error class.  `paths`, `bind`, the dict order, the cores/memory of `|` (which
are *added* by the code) and a - b when b has a mount point a does not have are as-is behaviour: they are
compared and counted (counters `asis:*`) but never reported.
"""
from __future__ import annotations

import copy
import json
import os
import re

LEVEL = "translation_validation"

Q = 0.25


def _impl():
    from streamflow.core.scheduling import Hardware, Storage
    return Hardware, Storage


def _mk_storage(Storage, e):
    key, mount, size, paths, bind = e
    return Storage(mount_point=mount, size=size * Q, paths=set(paths), bind=None if bind == "none" else bind)


def _mk(Hardware, Storage, j):
    c, m, st = j
    return Hardware(cores=c * Q, memory=m * Q, storage={e[0]: _mk_storage(Storage, e) for e in st})


def _num(x):
    """back to quarter units; anything that is not an exact multiple stays a float (and will mismatch)"""
    try:
        y = x / Q
        return int(y) if y == int(y) else y
    except Exception:
        return repr(x)


def _obs_storage(key, s):
    return [key, s.mount_point, _num(s.size), sorted(s.paths), "none" if s.bind is None else s.bind]


def _obs(h):
    return [_num(h.cores), _num(h.memory), [_obs_storage(k, s) for k, s in h.storage.items()]]


def _call(f):
    """-> ("ok", value) | ("err", exception class name); exceptions of the code under test are observations"""
    try:
        return ["ok", f()]
    except Exception as e:  # noqa
        return ["err", type(e).__name__]


def _aliased(*hs):
    return any(e[0] != e[1] for h in hs for e in h[2])


def _cmp_hw(exp, got, fields=("cores", "memory", "storage")):
    """exp/got in [cores, memory, storage] form -> (verdict mismatch name or None, list of as-is differences)"""
    asis = []
    if "cores" in fields and exp[0] != got[0]:
        return "cores", asis
    if "memory" in fields and exp[1] != got[1]:
        return "memory", asis
    if "storage" in fields:
        e = {s[0]: s for s in exp[2]}
        g = {s[0]: s for s in got[2]}
        if len(g) != len(got[2]):
            return "keys", asis
        if set(e) != set(g):
            return "keys", asis
        for k in e:
            if e[k][1] != g[k][1]:
                return "mount", asis
            if e[k][2] != g[k][2]:
                return "size", asis
            if sorted(e[k][3]) != g[k][3]:
                asis.append("paths")
            if e[k][4] != g[k][4]:
                asis.append("bind")
        if [s[0] for s in exp[2]] != [s[0] for s in got[2]]:
            asis.append("order")
    return None, asis


def _check_res(ctx, case, op, exp, got, strict=True, fields=("cores", "memory", "storage"), asis_fields=()):
    """Compare a model result ["ok", hw] / ["err", cls] with the observed one."""
    tag = ":aliased" if _aliased(case["a"], case["b"]) else ""
    what = None
    if exp[0] == "err" and got[0] == "err":
        if exp[1] != got[1]:
            what = "error-class"
    elif exp[0] == "err":
        what = "no-error"
    elif got[0] == "err":
        what = "raises-%s" % got[1]
    else:
        what, asis = _cmp_hw(exp[1], got[1], fields)
        for a in asis:
            ctx.count("asis:%s:%s" % (op, a))
        for f in asis_fields:
            if _cmp_hw(exp[1], got[1], (f,))[0]:
                ctx.count("asis:%s:%s" % (op, f))
    if what is None:
        return True
    if not strict:
        ctx.count("asis:%s:%s" % (op, what))
        return True
    ctx.disagreements_checked += 1
    ctx.violation("%s:%s%s" % (op, what, tag),
                  {"case": case, "op": op, "expected": exp, "got": got},
                  "%s on a=%s b=%s: model %s, real classes %s" % (op, case["a"], case["b"], exp, got))
    return False


def _sat_class(r):
    if r[0] == "err":
        return "E" if r[1] == "WorkflowExecutionException" else "X:%s" % r[1]
    return "T" if r[1] is True else "F" if r[1] is False else "X:%r" % (r[1],)


def check_case(ctx, case):
    Hardware, Storage = _impl()
    a_j, b_j = case["a"], case["b"]
    built = _call(lambda: (_mk(Hardware, Storage, a_j), _mk(Hardware, Storage, b_j)))
    if built[0] == "err":
        ctx.violation("constructor:raises-%s" % built[1], {"case": case, "op": "constructor"},
                      "building a=%s b=%s raised %s" % (a_j, b_j, built[1]))
        return False
    a, b = built[1]
    good = True
    # the constructor itself (default storage for an empty map is part of the transcription: Mk)
    for name, h, j in (("a", a, a_j), ("b", b, b_j)):
        w, _ = _cmp_hw(j, _obs(h))
        if w:
            ctx.violation("constructor:%s" % w, {"case": case, "op": "constructor", "got": _obs(h)},
                          "Hardware built from %s reads back as %s" % (j, _obs(h)))
            return False
    if a_j[2] == [["/", "/", 0, [], "none"]]:
        for variant, f in (("none", lambda: Hardware(a_j[0] * Q, a_j[1] * Q)), ("empty", lambda: Hardware(a_j[0] * Q, a_j[1] * Q, {}))):
            r = _call(f)
            got = ["ok", _obs(r[1])] if r[0] == "ok" else r
            good &= _check_res(ctx, case, "constructor-default-%s" % variant, ["ok", a_j], got)

    def hw(f):
        r = _call(f)
        return ["ok", _obs(r[1])] if r[0] == "ok" else r

    def st(f):
        r = _call(f)
        return ["ok", [0, 0, [_obs_storage(case["a"][2][0][0], r[1])]]] if r[0] == "ok" else r

    def unchanged(op):
        nonlocal a, b
        if _obs(a) != a_snapshot or _obs(b) != b_snapshot:
            ctx.violation("mutates-operand:%s" % op, {"case": case, "op": op, "a_after": _obs(a), "b_after": _obs(b)},
                          "%s changed its operands: a=%s -> %s, b=%s -> %s" % (op, a_snapshot, _obs(a), b_snapshot, _obs(b)))
            a, b = _mk(Hardware, Storage, a_j), _mk(Hardware, Storage, b_j)
            return False
        return True

    a_snapshot, b_snapshot = _obs(a), _obs(b)
    # normalisation
    r = _call(a.is_normalized)
    if r != ["ok", case["isnorm"]]:
        ctx.violation("is_normalized:%s" % ("raises-%s" % r[1] if r[0] == "err" else "value"),
                      {"case": case, "op": "is_normalized", "expected": case["isnorm"], "got": r},
                      "is_normalized(%s) = %s, model %s" % (a_j, r, case["isnorm"]))
        good = False
    good &= _check_res(ctx, case, "normalized", case["norm"], hw(a.normalized)) & unchanged("normalized")
    # + - |
    good &= _check_res(ctx, case, "add", case["add"], hw(lambda: a + b)) & unchanged("add")
    good &= _check_res(ctx, case, "sub", case["sub"], hw(lambda: a - b), strict=case["substrict"]) & unchanged("sub")
    good &= _check_res(ctx, case, "or", case["or"], hw(lambda: a | b), fields=("storage",),
                       asis_fields=("cores", "memory")) & unchanged("or")

    def ior():
        x = copy.deepcopy(a)
        x |= b
        return x
    good &= _check_res(ctx, case, "ior", case["or"], hw(ior), fields=("storage",), asis_fields=("cores", "memory")) & unchanged("ior")
    good &= _check_res(ctx, case, "add-then-sub", case["addsub"], hw(lambda: (a + b) - b)) & unchanged("add-then-sub")
    # satisfies
    got = _call(lambda: a.satisfies(b))
    e, g = _sat_class(case["sat"]), _sat_class(got)
    if e != g:
        missing = bool({s[1] for s in b_j[2]} - {s[1] for s in a_j[2]})
        if {e, g} == {"F", "E"} and missing:
            ctx.count("asis:satisfies:%s->%s" % (e, g))     # refusing by raising or by False is not constrained
        else:
            ctx.disagreements_checked += 1
            ctx.violation("satisfies:%s->%s%s%s" % (e, g, ":missing-mount" if missing else "", ":aliased" if _aliased(a_j, b_j) else ""),
                          {"case": case, "op": "satisfies", "expected": case["sat"], "got": got},
                          "(%s).satisfies(%s): model %s, real classes %s" % (a_j, b_j, case["sat"], got))
            good = False
    good &= unchanged("satisfies")
    # Storage-level operators on the first entries
    sa, sb = a.storage[a_j[2][0][0]], b.storage[b_j[2][0][0]]

    def exp_st(r):
        return ["ok", [0, 0, [r[1]]]] if r[0] == "ok" else r
    for op, f in (("storage-add", lambda: sa + sb), ("storage-sub", lambda: sa - sb), ("storage-or", lambda: sa | sb)):
        good &= _check_res(ctx, case, op, exp_st(case[{"storage-add": "stadd", "storage-sub": "stsub", "storage-or": "stor"}[op]]),
                           st(f), fields=("storage",)) & unchanged(op)
    return good


def _classify(ctx, case):
    if _aliased(case["a"], case["b"]):
        ctx.count("class:aliasing-keys")
    if len({s[1] for s in case["a"][2]}) < len(case["a"][2]):
        ctx.count("class:two-storages-one-mount")
    if case["sub"][0] == "err":
        ctx.count("class:sub-negative-error")
    if case["or"][0] == "err":
        ctx.count("class:or-key-mount-clash")
    if case["sat"][0] == "err":
        ctx.count("class:satisfies-missing-mount-error")
    elif case["sat"][1]:
        ctx.count("class:satisfies-true")
    else:
        ctx.count("class:satisfies-false")
    if not case["substrict"]:
        ctx.count("class:sub-outside-statement")
    if case["stadd"][0] == "err":
        ctx.count("class:storage-mount-mismatch")


def _n_init(ctx, stdout):
    m = re.search(r"Finished computing initial states: \d+ states? generated, with (\d+) of them distinct", stdout)
    if m is None:
        m = re.search(r"Finished computing initial states: (\d+) distinct states? generated", stdout)
    ctx.require(m is not None, "cannot read the number of initial states")
    return int(m.group(1))


def run(ctx):
    ctx.rule = ("TLC enumerates every pair (a, b) of the bounded domain (family st: every pair of storage maps - quick: <=2 "
                "entries each over 2 mount points, sizes {0,1,3} quarter units; thorough: 3 mount points, and up to 3 entries "
                "for a with sizes {0,2} -, entries keyed by mount point or by an aliasing key; family cm: every cores/memory "
                "quadruple in 0..2 (thorough 0..3) quarter units with small storage maps), checks the laws on it and emits the "
                "model's result of every operator; every "
                "pair is evaluated on the real Hardware/Storage classes: normalized, is_normalized, +, -, |, |=, (a+b)-b, "
                "satisfies, Storage +,-,|; a pair is non-trivial when some storage key is aliased, a mount point occurs twice, "
                "or an operator ends in a defined error")
    bad = 0
    seen = set()
    samples = {}
    picks = {"or-clash": lambda c: c["or"][0] == "err", "satisfies-error": lambda c: c["sat"][0] == "err",
             "sub-negative": lambda c: c["sub"][0] == "err" and c["substrict"],
             "aliased-satisfied": lambda c: _aliased(c["a"], c["b"]) and c["sat"] == ["ok", True] and len(c["b"][2]) > 1}
    for cfg in ctx.pick(["quick"], ["thorough1", "thorough2"]):
        # short runs: C1-only JIT halves the JVM's CPU time (measured); a local workaround through env=, tlc.py is untouched
        env = {"JAVA_TOOL_OPTIONS": "-XX:TieredStopAtLevel=1"} if ctx.quick else {}
        r = ctx.tlc("Hardware", "MC_Hardware", "MC_Hardware_%s.cfg" % cfg, env=env, timeout=3000)
        if not r.ok:
            ctx.require(False, "Hardware law %s fails in the model (specification error):\n%s" % (r.violated, r.stdout[-1500:]))
        n_init = _n_init(ctx, r.stdout)
        here = set()
        for m in re.finditer(r'^"\{.*\}"$', r.stdout, re.M):           # streamed: the output can be large
            try:
                c = json.loads(json.loads(m.group(0)))
            except Exception:
                continue
            if not (isinstance(c, dict) and "a" in c and "sat" in c):
                continue
            key = json.dumps([c["a"], c["b"]])
            if key in here:
                continue                                                   # two workers may print the same new state
            here.add(key)
            if key in seen:
                continue
            seen.add(key)
            nontrivial = (_aliased(c["a"], c["b"]) or len({s[1] for s in c["a"][2]}) < len(c["a"][2])
                          or "err" in (c["sub"][0], c["or"][0], c["sat"][0]))
            ctx.case(key, nontrivial)
            _classify(ctx, c)
            for name, pick in picks.items():
                if name not in samples and pick(c):
                    samples[name] = {k: c[k] for k in ("a", "b", "add", "sub", "or", "sat")}
            if not check_case(ctx, c):
                bad += 1
        ctx.require(len(here) == r.distinct - n_init,
                    "%s: emitted %d pairs, TLC found %d pair states" % (cfg, len(here), r.distinct - n_init))
        ctx.count("pairs:%s" % cfg, len(here))
        r.stdout = ""
    for name in sorted(samples):
        ctx.sample(samples[name])
    if not ctx.quick:        # the reservation law on triples (quick: only its pair instance, invariant ReservePairs)
        r3 = ctx.tlc("Hardware", "MC_Hardware3", "MC_Hardware3_thorough.cfg", timeout=3000)
        if not r3.ok:
            ctx.require(False, "reservation law fails in the model (specification error): %s\n%s" % (r3.violated, r3.stdout[-1500:]))
        n_res = r3.distinct - _n_init(ctx, r3.stdout)          # a triple has a successor iff the antecedent of the law holds
        ctx.require(r3.depth >= 2 and n_res > 0, "reservation law is vacuous on the domain")
        ctx.count("triples", r3.distinct - n_res)
        ctx.count("triples_reservable", n_res)
    ctx.exhaustive = True
    cases = seen
    ctx.programs = len(cases)
    ctx.impl_trace(len(cases))
    for cl in ("aliasing-keys", "two-storages-one-mount", "sub-negative-error", "or-key-mount-clash",
               "satisfies-missing-mount-error", "satisfies-true", "satisfies-false", "storage-mount-mismatch"):
        ctx.require(ctx.counters.get("class:" + cl, 0) > 0, "vacuous enumeration: no case of class %s" % cl)
    ctx.count("cases_with_mismatch", bad)
    ctx.assumptions += ["sizes, cores and memory are multiples of 1/4 (exact floats); arbitrary decimal fractions are not claimed",
                        "paths, bind, dict order, cores/memory of `|` and a-b with a mount point missing in a are as-is behaviour "
                        "(compared, counted under asis:*, not a verdict)",
                        "the laws are theorems of the model on the bounded domain; they hold for the code because the code agrees "
                        "with the model on every enumerated pair"]


def replay(ctx, data):
    d = data["detail"]
    if "case" in d:
        check_case(ctx, d["case"])
    else:
        run(ctx)
