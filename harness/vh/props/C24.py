"""C24 - remote path operations agree with the local file system (module RemoteFS).

Model: RemoteFS.tla is an abstract POSIX file system (2 directories x 2 names; files with inodes,
directories, symbolic links) with the operations of StreamFlowPath as actions with results; the
semantics written down is the local one (pathlib/os, Python 3.12).  TLC explores every operation
sequence up to the tier's depth (3; 4 from the empty tree on thorough) from up to three initial trees, checks the invariants of the file system
and the laws relating operations to later observations, and emits every transition: the table of
all query answers of every reached tree (`Observe`) and one line per mutating operation (operation,
arguments, class of the operand, errno or ok, value, target tree).

Binding: a transition is one implementation test.  The source tree is created with os.* on a
local scratch directory and, identically, inside a shell-based remote location (vh.sut.fs_remote:
a BaseConnector subclass whose commands run through /bin/sh in a private chroot; deployed by the
real deployment manager); the operation is performed through LocalStreamFlowPath and through
RemoteStreamFlowPath; result (value or exception class) and the whole resulting tree (walked with
os.*) are compared with the model on each side.  Each transition runs with plain names and plain
text first (a disagreement there is `semantic`) and, if that agrees, once more with one deviation
drawn per (seed, transition): a name class (space, single/double quote, *, ?, [, unicode, leading
dash) or a content class (trailing newline, empty, unicode, padded, shell-special, > buffer).
"""
from __future__ import annotations

import json
import os
import random
import time
from concurrent.futures import ProcessPoolExecutor
import multiprocessing

LEVEL = "model_checking"

MODEL_OPS = ["exists", "is_file", "is_dir", "is_symlink", "is_executable", "read_text", "size", "checksum", "glob",
             "walk", "resolve", "mkdir", "write_text", "rmtree", "symlink_to", "hardlink_to", "chmod"]


def _procs():
    n = os.environ.get("VERIF_FS_PROCS")
    return max(1, int(n)) if n else max(2, min(8, (os.cpu_count() or 4) // 2))


def _key(it):
    return json.dumps([it["f"], it["a"]["op"], it["a"]["args"]], sort_keys=True)


def _cover_then_fill(items, classes, n, rng):
    """Deterministic sample: first a greedy cover of the classes (each item -> set of class keys),
    then random fill up to n."""
    order = list(range(len(items)))
    rng.shuffle(order)
    seen, chosen, rest = set(), [], []
    for i in order:
        new = classes(items[i]) - seen
        if new:
            seen |= new
            chosen.append(i)
        else:
            rest.append(i)
    if len(chosen) < n:
        chosen += rest[: n - len(chosen)]
    return [items[i] for i in sorted(chosen)], seen


def select(ctx, lines):
    """Which of TLC's transitions are executed on the implementations in this tier."""
    uniq = {}
    for it in lines:
        uniq.setdefault(_key(it), it)
    items = [uniq[k] for k in sorted(uniq)]
    obs = [x for x in items if x["a"]["op"] == "observe"]
    mut = [x for x in items if x["a"]["op"] != "observe"]
    scale = float(os.environ.get("VERIF_FS_SCALE", "1"))
    n_obs = int(ctx.pick(6, 60) * scale)
    n_mut = int(ctx.pick(450, 4500) * scale)
    from vh.sut import fs_bind as B
    sel_obs, qcls = _cover_then_fill(
        obs, lambda it: {(q["op"] + B.variant(q), q["kind"], q["st"]) for q in it["a"]["v"]}, n_obs, ctx.rng("obs"))
    sel_mut, mcls = _cover_then_fill(
        mut, lambda it: {(it["a"]["op"] + B.variant(it["a"]), it["a"]["kind"], it["a"]["st"])}, n_mut, ctx.rng("mut"))
    return obs, mut, sel_obs, sel_mut, qcls | mcls


def bind(ctx, items, template):
    """Run the selected items in worker processes (each with its own StreamFlow context, local
    deployment and shell-remote location).  Deterministic: chunks and results keep their order."""
    from vh.sut import fs_bind as B
    procs = min(_procs(), max(1, len(items)))
    # interleave so that every worker gets a similar mix of cheap and expensive items
    chunks = [items[i::procs] for i in range(procs)]
    args = [(ctx.scratch("w%d" % i), template, ch, ctx.seed) for i, ch in enumerate(chunks) if ch]
    if len(args) == 1:
        outs = [B.worker(args[0])]
    else:
        with ProcessPoolExecutor(max_workers=len(args), mp_context=multiprocessing.get_context("fork")) as ex:
            outs = list(ex.map(B.worker, args))
    total = {"cases": 0, "by_op": {}, "by_kind": {}, "by_class": {}, "by_content": {}, "keys": set()}
    for o in outs:
        ctx.require(o["error"] is None, "binding worker failed:\n%s" % o["error"])
        total["cases"] += o["cases"]
        total["keys"] |= o["keys"]
        for f in ("by_op", "by_kind", "by_class", "by_content"):
            for k, v in o[f].items():
                total[f][k] = total[f].get(k, 0) + v
        for sig, detail, what in o["violations"]:
            ctx.violation(sig, detail, what)
    return total


def run(ctx):
    from vh.sut import fs_remote as FR
    ctx.rule = ("TLC enumerates every operation sequence of RemoteFS up to the tier's depth and emits every transition "
                "(query tables per tree, one line per mutating operation); a selection that covers every (operation, "
                "operand class, outcome) combination is executed through LocalStreamFlowPath and RemoteStreamFlowPath on "
                "equal trees, with plain names and with one drawn name/content class; non-trivial = distinct "
                "(operation, operand class, name class, content class)")
    info = FR.probe(ctx.scratch("probe"))
    ctx.require(info["chroot"], "shell-based remote unusable here (chroot/tool set): %s" % info.get("chroot_out"))
    ctx.require(info["unterminated_quote_blocks"],
                "oracle assumption failed: an unterminated quote did not block a persistent /bin/sh")
    tier = "quick" if ctx.quick else "thorough"
    t0 = time.time()
    # (TLC's -coverage cannot attribute the sub-actions of `Next /\ PrintT(..)`; the emitted transitions
    #  themselves say which actions were taken and with which outcomes: vacuity guard below)
    lines = []
    # quick: sequences of <= 3 operations from the empty tree and from the tree with links;
    # thorough: <= 3 from all three initial trees and <= 4 from the empty tree
    for cfg in ctx.pick(["Gen_RemoteFS_quick.cfg"], ["Gen_RemoteFS_thorough.cfg", "Gen_RemoteFS_thorough4.cfg"]):
        r = ctx.tlc("RemoteFS", "MC_RemoteFS", cfg, timeout=ctx.pick(900, 3000))
        ctx.require(r.ok, "RemoteFS (%s) violates %s: specification error\n%s" % (cfg, r.violated, r.stdout[-1500:]))
        lines += [x for x in r.printed_json() if isinstance(x, dict) and "a" in x]
        r.stdout = ""
    ctx.require(len(lines) > 1000, "generation emitted only %d transitions" % len(lines))
    taken = {}
    for x in lines:
        for q in (x["a"]["v"] if x["a"]["op"] == "observe" else [x["a"]]):
            taken.setdefault(q["op"], set()).add("ok" if q["st"] == "ok" else "err")
    for op in MODEL_OPS:
        ctx.require(op in taken, "vacuous model run: operation %s never taken" % op)
    for op in ("mkdir", "write_text", "read_text", "symlink_to", "hardlink_to", "chmod"):
        ctx.require(taken[op] == {"ok", "err"}, "vacuous model run: %s never %s" % (op, {"ok", "err"} - taken[op]))
    ctx.extra["tlc_wall_s"] = round(time.time() - t0, 1)
    obs, mut, sel_obs, sel_mut, classes = select(ctx, lines)
    ctx.count("model_trees_with_query_table", len(obs))
    ctx.count("model_mutating_transitions", len(mut))
    ctx.count("model_query_answers", sum(len(x["a"]["v"]) for x in obs))
    ctx.count("bound_trees_with_query_table", len(sel_obs))
    ctx.count("bound_mutating_transitions", len(sel_mut))
    ctx.count("covered_op_kind_outcome_classes", len(classes))
    ctx.exhaustive = len(sel_obs) == len(obs) and len(sel_mut) == len(mut)
    template = FR.Toolbox(ctx.scratch("toolbox")).template
    t1 = time.time()
    total = bind(ctx, sel_obs + sel_mut, template)
    ctx.extra["bind_wall_s"] = round(time.time() - t1, 1)
    ctx.impl_trace(len(sel_mut) + sum(len(x["a"]["v"]) for x in sel_obs))
    ctx.evaluations += total["cases"]
    ctx.distinct |= total["keys"]
    for f in ("by_op", "by_kind", "by_class", "by_content"):
        for k, v in sorted(total[f].items()):
            ctx.count("%s:%s" % (f[3:], k), v)
    need_ops = set(MODEL_OPS)
    ctx.require(need_ops <= set(total["by_op"]), "operations never executed: %s" % (need_ops - set(total["by_op"])))
    need_kinds = {"missing", "noparent", "file", "dir", "link>file", "link>dir", "dangling", "loop", "notdir"}
    ctx.require(need_kinds <= set(total["by_kind"]), "operand classes never executed: %s" % (need_kinds - set(total["by_kind"])))
    from vh.sut.fs_bind import NAME_CLASSES
    ctx.require(set(NAME_CLASSES) <= set(total["by_class"]), "name classes never drawn: %s" % (set(NAME_CLASSES) - set(total["by_class"])))
    for it in sel_mut[:3]:
        ctx.sample({"from": it["f"], "op": it["a"]["op"], "args": it["a"]["args"], "operand": it["a"]["kind"],
                    "expected": it["a"]["st"], "to": it["t"]})
    ctx.assumptions += [
        "the remote location is a shell-based fake (BaseConnector subclass; commands are passed verbatim to /bin/sh "
        "(dash) inside a private chroot with GNU coreutils/findutils/tar); other shells/tool sets are not covered",
        "source trees are built with os.* directly, identically on both sides; umask 022; the process runs as root",
        "a command text with an unterminated quote is reported as `hang` without waiting (sh -n decides; the probe "
        "shows on a real persistent sh that it blocks)",
        "names are drawn from 9 classes and contents from 7 classes, one deviation from plain per execution",
    ]


def replay(ctx, data):
    """Re-execute one stored transition (both sides, same name/content class)."""
    from vh import aio
    from vh.sut import fs_bind as B
    d = data["detail"]
    out = []

    async def main():
        b = await B.Bench(ctx.scratch("replay")).start()
        try:
            nm = B.Names(d["name_class"], d["content_class"], b.W)
            await B.run_one(b, d["from"], d["a"], d["to"], nm, True, lambda s, det, w: out.append((s, det, w)))
        finally:
            await b.stop()
    _, exc = aio.run(main(), timeout=300)
    ctx.require(exc is None, "replay failed: %r" % (exc,))
    for s, det, w in out:
        ctx.violation(s, det, w)
    print("replayed %s: %d disagreement(s)" % (data.get("signature"), len(out)))
