"""C08 - saving then loading a workflow reproduces it exactly; loads are independent (module Persistence / PersistenceWF).

Model: PersistenceWF.tla.  Part 1 enumerates workflow SHAPES (every built-in step class with every combinator /
command / processor / target option under both workflow classes, every ordered pair of step classes chained or side by
side, every set of <= 2 token types) and says, per shape, which mutable fields two loads share in the code as it is
(byref fields of rows served by @cached getters).  Part 2 explores all Save / Load (3 default contexts + builder) /
MutateLoaded histories over the aliasing profile of a shape with an explicit heap: with deep-copying cached getters (the
code since fix 1d9dc38) Separation, MutationIsolated and LoadReproduces hold; with cachebox' default shallow copy (defect
model, kept as a vacuity guard) TLC refutes them.
Binding: every emitted shape is instantiated with concrete values (a fixed catalogue of scalar classes), saved, loaded
through DefaultDatabaseLoadingContext twice and WorkflowBuilder (deep copy); each load is compared structurally with
the original (own comparator), persistent ids are checked, an id() reachability scan over mutable containers checks
separation (and is compared with the model's prediction of the shared fields), then one load is mutated everywhere and
the other loads and a fresh load are re-checked.
Part 4 (module PersistenceSave): CONCURRENT saves of shared persistable entities - token DAGs (one inner token under two
sibling ListToken / ObjectToken / JobToken), workflows whose steps share Target / DeploymentConfig / FilterConfig objects,
a workflow saved by two tasks.  TLC checks the save protocol (guard, wait, ids read after the gather) on every shape and
emits the shapes; the driver saves real objects under a gated database, enumerates the completion orders of the database
calls and the arrival of the second caller, has every recorded trace explained and judged by Trace_PersistenceSave, and
loads what was saved (see vh/sut/persist_save.py).
"""
from __future__ import annotations

import gc
import json
import os
import time

from vh import aio
from vh.sut import persist_wf as W

LEVEL = "model_checking"
INVS = ["TypeOK", "LoadReproduces", "BuilderHasNoIds", "Separation", "MutationIsolated"]


def _cfg(deep, family, init, nxt, invs=(), small=False, resave_edges=True, max_ops=2):
    t = 'CONSTANTS DeepCopy = %s  Family = "%s"  MaxMut = %d  ResaveEdges = %s  MaxOps = %d  Contexts = %s\nINIT %s\nNEXT %s\n' % (
        "TRUE" if deep else "FALSE", family, 1 if small else 2, "TRUE" if resave_edges else "FALSE", max_ops,
        '{"L1", "L2", "B"}' if small else '{"L1", "L2", "L3", "B"}', init, nxt)
    return t + "".join("INVARIANT %s\n" % i for i in invs)


def _model(ctx):
    f = ctx.tlc("Persistence", "MC_PersistenceWF", "fix.cfg", files={"fix.cfg": _cfg(True, "none", "Init", "Next", INVS, small=ctx.quick)},
                coverage=not ctx.quick, timeout=1800)
    ctx.require(f.ok, "PersistenceWF with deep-copying getters violates %s: specification error\n%s" % (f.violated, f.stdout[-800:]))
    if not ctx.quick:
        ctx.require_coverage(f, ["Save", "Load", "MutateLoaded"])
    ctx.require(f.distinct >= 500 and f.depth >= 5, "suspiciously small history model: %d states, depth %d" % (f.distinct, f.depth))
    cex = {}
    for inv in ctx.pick([], ["Separation", "MutationIsolated", "LoadReproduces"]):      # defect model: thorough tier only
        v = ctx.tlc("Persistence", "MC_PersistenceWF", "asis.cfg", files={"asis.cfg": _cfg(False, "none", "Init", "Next", [inv], small=ctx.quick)},
                    timeout=1800, count=False, workers=1)
        ctx.require(v.error == "invariant" and v.trace, "the defect model (shallow-copying cached getters) does not break %s: vacuous property" % inv)
        cex[inv] = [dict(action=s["action"], **s["context"]) for s in v.trace[1:]]
        ctx.require("shared" in v.trace[0]["state"]["profile"], "counterexample without a shared field class")
    a = ctx.tlc("Persistence", "MC_PersistenceWF", "asis_ok.cfg", timeout=1800,
                files={"asis_ok.cfg": _cfg(False, "none", "Init", "Next", ["TypeOK", "BuilderHasNoIds"])}) if not ctx.quick else None
    if a is not None:
        ctx.require(a.ok, "shallow-copy defect model breaks TypeOK/BuilderHasNoIds")
    ctx.extra["defect_model_counterexamples"] = cex       # DeepCopy = FALSE: the defect repaired by fix 1d9dc38
    return cex


def _generate(ctx):
    """One TLC run: every shape (initial states without successors) and the complete graph of the re-save histories of
    Part 3, on which TLC checks LoadReproducesLastSaved."""
    g = ctx.tlc("Persistence", "MC_PersistenceWF", "gen.cfg", workers=1, timeout=1800,
                files={"gen.cfg": _cfg(True, "all", "GenInitAll", "GenNextAll", ["GraphTypeOK", "LoadReproducesLastSaved"], max_ops=ctx.pick(2, 3))})
    ctx.require(g.ok, "generation failed / re-save model violates %s: %s" % (g.violated, g.stdout[-800:]))
    out = g.printed_json()
    shapes = [x for x in out if isinstance(x, dict) and "shape" in x]
    lines = [x for x in out if isinstance(x, dict) and "act" in x]
    ctx.require(len(shapes) > 500 and len(lines) == g.generated - len(shapes) - 1,
                "emitted %d shapes and %d transitions, TLC generated %d states" % (len(shapes), len(lines), g.generated))
    ctx.require({x["act"] for x in lines} == {"add_port", "add_wire", "add_step", "save", "load"}, "re-save generation incomplete")
    for s in shapes:                      # ToJson writes empty sets/sequences as []
        s["shape"]["tokens"] = sorted(s["shape"].get("tokens") or [])
        s["family"] = "tokens" if s["shape"]["tokens"] else ("pairs" if len(s["shape"]["steps"]) == 2 else "one")
    shapes.sort(key=lambda s: json.dumps(s["shape"], sort_keys=True))
    if not ctx.quick:        # the defect model (Step.save that skips persisted steps) must be refuted
        v = ctx.tlc("Persistence", "MC_PersistenceWF", "noresave.cfg", timeout=1800, count=False, workers=1,
                    files={"noresave.cfg": _cfg(True, "none", "InitRe", "NextRe", ["LoadReproducesLastSaved"], resave_edges=False)})
        ctx.require(v.error == "invariant" and v.trace, "defect model (Step.save skips persisted steps) is not refuted: vacuous property")
        ctx.extra.setdefault("defect_model_counterexamples", {})["Step.save skips persisted steps"] = [
            dict(action=s["action"], **s["context"]) for s in v.trace[1:]]
    return shapes, lines


class Resaver:
    """Replays one re-save history on real classes.  variant: which step classes stand for s1 / s2."""

    def __init__(self, ctx, sf, variant):
        self.ctx, self.sf, self.db, self.variant = ctx, sf, sf.database, variant
        self.serial = 0

    def _new_step(self, b, wf, tag):
        from streamflow.workflow import step as wstep
        from streamflow.workflow.port import JobPort
        if self.variant == "combinator":
            return wf.create_step(cls=wstep.CombinatorStep, name="/%s_%d-combinator" % (tag, self.serial), combinator=b.combinator("Dot", 1))
        if self.variant == "loop-combinator":
            return wf.create_step(cls=wstep.LoopCombinatorStep, name="/%s_%d-combinator" % (tag, self.serial), combinator=b.combinator("Loop", 0))
        if self.variant == "execute":
            return wf.create_step(cls=wstep.ExecuteStep, name="/%s_%d" % (tag, self.serial), job_port=wf.create_port(cls=JobPort, name="job_%s_%d" % (tag, self.serial)))
        raise ValueError(self.variant)

    async def run(self, path):
        """path: transitions up to a state in which the workflow has been saved; then load (default context and builder)
        and compare with the workflow as it was when last saved."""
        from streamflow.core.workflow import Port
        from streamflow.persistence.loading_context import DefaultDatabaseLoadingContext, WorkflowBuilder
        self.serial += 1
        b = W.Builder(self.sf, 100000 + self.serial)
        wf = b.workflow("Workflow")
        hist = [[t["act"]] + list(t["args"]) for t in path if t["act"] != "load"]
        detail = {"resave": True, "variant": self.variant, "history": hist}
        pname = lambda p: "%s_%d" % (p, self.serial)  # noqa
        steps = {"s1": self._new_step(b, wf, "s1")}
        steps["s1"].add_input_port("in_p1", wf.create_port(name=pname("p1")))
        steps["s1"].add_output_port("out_p2", wf.create_port(name=pname("p2")))
        last = None
        try:
            for t in path:
                act, a = t["act"], t["args"]
                if act == "add_port":
                    wf.create_port(name=pname(a[0]))
                elif act == "add_wire":
                    port = wf.ports.get(pname(a[1])) or Port(workflow=wf, name=pname(a[1]))
                    if a[2] == "in":
                        steps[a[0]].add_input_port("in_" + a[1], port)
                    else:
                        steps[a[0]].add_output_port("out_" + a[1], port)
                elif act == "add_step":
                    steps[a[0]] = self._new_step(b, wf, a[0])
                    steps[a[0]].add_input_port("in_" + a[1], wf.ports[pname(a[1])])
                elif act == "save":
                    await wf.save(self.db)
                    last = W.snapshot(wf)
        except Exception as e:
            self.ctx.violation("raise:resave:%s" % type(e).__name__, dict(detail, err=repr(e)), "history %s raised %r" % (hist, e))
            return
        self.ctx.require(last is not None, "re-save history without a save")
        for how, lc in (("load", DefaultDatabaseLoadingContext(self.db)), ("builder", WorkflowBuilder(self.db))):
            try:
                loaded = await lc.load_workflow(wf.persistent_id)
            except Exception as e:
                self.ctx.violation("raise:resave-load:%s:%s" % (how, type(e).__name__), dict(detail, err=repr(e)), "loading after %s raised %r" % (hist, e))
                continue
            for d in W.diffs(last, W.snapshot(loaded))[:6]:
                attr = W.diff_attr(d)
                x, y = str(d[2]), str(d[3])
                missing = ("present" in x and "absent" in y) or (x.startswith("<len") and y.startswith("<len") and int(y[5:-1]) < int(x[5:-1]))
                extra = ("absent" in x and "present" in y)
                sig = "roundtrip:resave:%s%s" % (attr, "-missing" if missing else ("-extra" if extra else ""))
                self.ctx.violation(sig, dict(detail, how=how, diff=[d[0], d[1], x[:200], y[:200]]),
                                   "after %s the %s of the workflow differs from the workflow as last saved: %s saved %s, loaded %s" % (hist, how, attr, x[:80], y[:80]))


class Checker:
    def __init__(self, ctx, sfctx):
        self.ctx, self.sf = ctx, sfctx
        self.db = sfctx.database
        self.serial = 0

    def bad(self, sig, detail, what):
        self.ctx.violation(sig, detail, what)

    async def check_shape(self, item):
        from streamflow.persistence.loading_context import DefaultDatabaseLoadingContext, WorkflowBuilder
        ctx, db = self.ctx, self.db
        shape = item["shape"]
        self.serial += 1
        detail = {"shape": shape}
        label = json.dumps(shape, sort_keys=True)
        try:
            b = W.Builder(self.sf, self.serial)
            wf = b.build(shape)
            orig = W.snapshot(wf)
            otoks = [(t, W.snapshot(t)) for t, _ in b.tokens]
        except Exception as e:        # the harness could not even build the shape: not a verdict
            ctx.require(False, "cannot instantiate shape %s: %r" % (label, e))
        # ---- Save
        try:
            await wf.save(db)
            for t, p in b.tokens:
                await t.save(db, p.persistent_id)
        except Exception as e:
            self.bad("raise:save:%s" % type(e).__name__, dict(detail, err=repr(e)), "saving %s raised %r" % (label, e))
            return
        d = W.diff(orig, W.snapshot(wf))
        if d:
            self.bad("save-changes-object:%s" % W.diff_attr(d), dict(detail, diff=d), "save() modified the workflow it saved: %s" % (d,))
        # ---- Load L1, L2, B
        loads, toks = {}, {}
        for name in ("L1", "L2", "B"):
            try:
                lc = WorkflowBuilder(db) if name == "B" else DefaultDatabaseLoadingContext(db)
                loads[name] = await lc.load_workflow(wf.persistent_id)
                toks[name] = [await lc.load_token(t.persistent_id) for t, _ in b.tokens]
            except Exception as e:
                self.bad("raise:load:%s:%s" % ("builder" if name == "B" else "default", type(e).__name__), dict(detail, err=repr(e)),
                         "loading %s through %s raised %r" % (label, name, e))
                return
        # (I1) structure
        snaps = {}
        initial = set()          # differences that exist right after loading (reported once, as round-trip differences)
        for name, l in loads.items():
            snaps[name] = W.snapshot(l)
            initial |= self.compare(orig, snaps[name], "builder" if name == "B" else "load", detail, label)
            for (t, so), tl in zip(otoks, toks[name]):
                initial |= self.compare(so, W.snapshot(tl), "token", detail, label)
        # (I2) identities
        for name, l in loads.items():
            ents = [("Workflow", l)] + [(type(s).__name__, s) for s in l.steps.values()] + [(type(p).__name__, p) for p in l.ports.values()]
            for cls, e in ents:
                if name == "B" and e.persistent_id is not None:
                    self.bad("builder-keeps-persistent-id:%s" % ("Workflow" if e is l else ("Step" if e in l.steps.values() else "Port")),
                             dict(detail, cls=cls, id=e.persistent_id), "deep copy of %s: %s keeps persistent id %s" % (label, cls, e.persistent_id))
                if name != "B" and e.persistent_id is None:
                    self.bad("load-loses-persistent-id:%s" % cls, dict(detail, cls=cls), "load of %s: %s has no persistent id" % (label, cls))
        if loads["L1"].persistent_id != wf.persistent_id:
            self.bad("load-wrong-persistent-id:Workflow", detail, "loaded workflow has id %s, saved %s" % (loads["L1"].persistent_id, wf.persistent_id))
        for name, l in loads.items():
            for s in l.steps.values():
                if s.workflow is not l:
                    self.bad("load-step-foreign-workflow:%s" % ("builder" if name == "B" else "default"), dict(detail, step=s.name),
                             "step %s of load %s points to another workflow object" % (s.name, name))
        # (I3) separation: identity scan
        reach = {n: self.scan(loads[n], toks[n]) for n in loads}
        reach["orig"] = self.scan(wf, [t for t, _ in b.tokens])
        cache = W.cache_containers(db)
        observed = set()
        for a, c, kind in (("L1", "L2", "two-loads-share"), ("L1", "B", "load-and-deep-copy-share"), ("L2", "B", "load-and-deep-copy-share"),
                           ("orig", "L1", "load-shares-saved-object"), ("orig", "B", "load-shares-saved-object")):
            for p in W.shared_between(reach[a], reach[c]):
                owner, rest = W.norm_path(p)
                if kind == "two-loads-share":
                    observed.add(W.field_name(p))
                self.bad("aliasing:%s:%s.%s" % (kind, owner, rest), dict(detail, path=p, between=[a, c]),
                         "%s: loads %s and %s of the same record share the mutable object %s" % (label, a, c, p))
        for n in ("L1", "B"):
            for p in W.shared_between(reach[n], cache):
                owner, rest = W.norm_path(p)
                self.bad("aliasing:load-shares-cache-row:%s.%s" % (owner, rest), dict(detail, path=p, load=n),
                         "%s: load %s shares the mutable object %s with a cached database row" % (label, n, p))
        predicted = set(item["shared"] or [])
        if observed == predicted:
            ctx.count("shared_fields_as_predicted_by_model")          # model of the code as it is: deep-copying getters, nothing shared
        elif observed < predicted:
            ctx.count("model_predicts_sharing_code_separates")
        else:
            ctx.count("sharing_not_predicted_by_model")
            ctx.extra.setdefault("unpredicted_sharing", []).append({"shape": shape, "observed": sorted(observed), "predicted": sorted(predicted)})
        # ---- MutateLoaded(L1, everything) ; the other loads and the stored record must not change
        before = {n: (W.snapshot(loads[n]), [W.snapshot(t) for t in toks[n]]) for n in ("L2", "B")}
        nmut = W.mutate_everything(loads["L1"]) + sum(W.mutate_everything(t) for t in toks["L1"])
        ctx.count("containers_mutated", nmut)
        for n in ("L2", "B"):
            after = (W.snapshot(loads[n]), [W.snapshot(t) for t in toks[n]])
            for d in (W.diffs(before[n][0], after[0]) + [x for p, q in zip(before[n][1], after[1]) for x in W.diffs(p, q)])[:8]:
                self.leak(d, "other-load", observed, detail, label, n)
        try:
            lc = DefaultDatabaseLoadingContext(db)
            l3 = await lc.load_workflow(wf.persistent_id)
            t3 = [await lc.load_token(t.persistent_id) for t, _ in b.tokens]
        except Exception as e:
            self.bad("raise:load-after-mutation:%s" % type(e).__name__, dict(detail, err=repr(e)), "fresh load of %s after mutating another load raised %r" % (label, e))
            return
        for d in [x for x in W.diffs(orig, W.snapshot(l3)) if (x[0], x[1]) not in initial][:8]:
            self.leak(d, "fresh-load", observed, detail, label, "L3")
        for (t, so), tl in zip(otoks, t3):
            for d in [x for x in W.diffs(so, W.snapshot(tl)) if (x[0], x[1]) not in initial][:8]:
                self.leak(d, "fresh-load", observed, detail, label, "L3")

    def scan(self, wf, tokens):
        r = W.reachable_containers(wf)
        for t in tokens:
            for k, v in W.reachable_containers(t).items():
                r.setdefault(k, v)
        return r

    def compare(self, orig, loaded, how, detail, label):
        ds = W.diffs(orig, loaded)
        for d in ds:
            self.compare_one(d, how, detail, label)
        return {(d[0], d[1]) for d in ds}

    def compare_one(self, d, how, detail, label):
        attr = W.diff_attr(d)
        a, b_ = d[2], d[3]
        if isinstance(a, bool) and isinstance(b_, int) and not isinstance(b_, bool) and a == b_:
            sig = "roundtrip:%s:%s:bool-becomes-int" % (how, attr)
        elif W.value_class(a) != W.value_class(b_):
            sig = "roundtrip:%s:%s:%s-becomes-%s" % (how, attr, W.value_class(a), W.value_class(b_))
        else:
            sig = "roundtrip:%s:%s" % (how, attr)
        self.bad(sig, dict(detail, diff=[d[0], d[1], repr(d[2])[:300], repr(d[3])[:300]]),
                 "%s: %s differs after save/%s: saved %r, loaded %r" % (label, attr, how, d[2] if not isinstance(d[2], (dict, list)) else "...",
                                                                        d[3] if not isinstance(d[3], (dict, list)) else "..."))
        return sig

    def leak(self, d, where, observed, detail, label, n):
        attr = W.diff_attr(d)
        owner, _, rest = attr.partition(".")
        field = attr if owner in ("DeploymentConfig", "FilterConfig") or owner.endswith("Token") else rest
        known_shared = any(field == o or field.startswith(o + ".") or o.startswith(field) for o in observed)
        if known_shared:      # the behavioural face of the sharing found by the identity scan
            sig = "aliasing:two-loads-share:%s" % attr
            self.ctx.count("mutation_visible_through_shared_field")
        else:
            sig = "mutation-leak:%s:%s" % (where, attr)
        self.bad(sig, dict(detail, diff=[d[0], d[1], repr(d[2])[:200], repr(d[3])[:200]], seen_by=n),
                 "%s: after mutating load L1, %s (%s) sees %s changed" % (label, n, where, attr))


class SafeGC:
    """The cyclic garbage collector runs only where the driver says so.  cachebox (a compiled third-party extension behind
    the database's @cached getters) calls back into Python while it holds its own lock, and its tp_traverse takes the
    same lock: a collection that happens to start inside a cached getter blocks the process for ever (observed: main
    thread in futex wait below gc_collect_main -> cachebox._core, after a few thousand loads).  Not a property of
    StreamFlow and not what C08 is about: automatic collection is off while the driver runs and `tick()` collects between
    two cases, when no cached getter is active."""

    def __init__(self, every=25, full_every=1500):
        self.every, self.full_every, self.n = every, full_every, 0

    def __enter__(self):
        self.was = gc.isenabled()
        gc.collect()
        gc.freeze()          # what exists now (shapes, histories emitted by TLC) is never traversed again
        gc.disable()
        return self

    def __exit__(self, *a):
        gc.unfreeze()
        if self.was:
            gc.enable()

    def tick(self):
        self.n += 1
        if self.n % self.full_every == 0:
            gc.collect()
        elif self.n % self.every == 0:
            gc.collect(1)    # the young generations only: what the last cases left behind


SAVE_CAP_QUICK, SAVE_CAP_THOROUGH = 12, 20        # schedules per (shape, variant)
SAVE_INVS = ["SaveTypeOK", "SaveReturnsWithId", "TopReturnsWithId", "RefsResolved", "OneRow", "SavedAll"]


def _save_cfg(waiting, guard, family, init, nxt, invs):
    return ('CONSTANTS Waiting = "%s"  Guard = "%s"  SFamily = "%s"\nINIT %s\nNEXT %s\n' % (waiting, guard, family, init, nxt)
            + "".join("INVARIANT %s\n" % i for i in invs))


def _save_model(ctx):
    """Part 4, model side: the save protocol on every shape of the family (quick: database completions at quiescence,
    thorough: every interleaving), deadlock check on (every caller returns); the same run emits the shapes."""
    r = ctx.tlc("Persistence", "MC_PersistenceSave", "save.cfg", timeout=2400, deadlock=True, coverage=not ctx.quick,
                files={"save.cfg": _save_cfg("always", "always", ctx.pick("quick", "full"), "GenInitS", ctx.pick("NextQ", "Next"), SAVE_INVS)})
    ctx.require(r.ok, "PersistenceSave (code as it is) violates %s / %s: specification error\n%s" % (r.violated, r.error, r.stdout[-800:]))
    shapes = [x["saveshape"] for x in r.printed_json() if isinstance(x, dict) and "saveshape" in x]
    ctx.require(len(shapes) >= 60 and r.distinct >= 5000, "suspiciously small save model: %d shapes, %d states" % (len(shapes), r.distinct))
    if not ctx.quick:
        ctx.require_coverage(r, ["DoEnter", "DoStageDone", "DoDbComplete", "DoWake", "DoStart", "DoTopReturn"])
        for what, waiting, guard, inv in (("second caller of save() returns at once", "never", "always", "RefsResolved"),
                                          ("second caller of save() returns at once", "never", "always", "SaveReturnsWithId"),
                                          ("no _saving guard: the entity is saved again", "always", "never", "OneRow")):
            v = ctx.tlc("Persistence", "MC_PersistenceSave", "defect.cfg", timeout=1800, count=False, workers=1,
                        files={"defect.cfg": _save_cfg(waiting, guard, "quick", "Init", "Next", [inv])})
            ctx.require(v.error == "invariant" and v.trace, "defect model (%s) does not break %s: vacuous property" % (what, inv))
            ctx.extra.setdefault("defect_model_counterexamples", {})["%s / %s" % (what, inv)] = [
                dict(action=s["action"], **s["context"]) for s in v.trace[1:]]
    shapes.sort(key=lambda sh: json.dumps(sh, sort_keys=True))
    return shapes


class ConcurrentSaver:
    """Part 4, implementation side: one shape, one variant (classes dealt to the roles), every schedule (capped)."""

    def __init__(self, ctx, sf):
        from vh.sut import persist_save as S
        self.S, self.ctx, self.sf, self.db = S, ctx, sf, sf.database
        self.gdb = S.GatedDb(sf.database)
        self.serial = 0
        self.port_id = self.wf_id = None
        self.pending = []          # (trace, detail, classes) waiting for the batch verdict of TLC
        self.ck = Checker(ctx, sf)
        self.gc = SafeGC()

    async def setup(self):
        from streamflow.core.workflow import Workflow
        wf = Workflow(context=self.sf, config={}, name="c08-concurrent-saves")
        port = wf.create_port(name="tokens")
        await wf.save(self.db)
        self.port_id, self.wf_id = port.persistent_id, wf.persistent_id
        self.gdb.install()

    def teardown(self):
        self.gdb.uninstall()

    def build(self, shape, variant):
        self.serial += 1
        if shape["name"] == "tokens":
            return self.S.build_tokens(self.sf, shape, self.serial, variant, self.port_id, self.wf_id)
        return self.S.build_workflow(self.sf, shape, self.serial)

    async def one(self, shape, variant, choices):
        """Build fresh objects, save them under the schedule `choices`, check the outcome; returns the widths met."""
        from streamflow.persistence.loading_context import DefaultDatabaseLoadingContext
        ctx, S = self.ctx, self.S
        try:
            b = self.build(shape, variant)
            orig = W.snapshot(b.root)
        except Exception as e:
            ctx.require(False, "cannot instantiate save shape %s: %r" % (json.dumps(shape, sort_keys=True), e))
        run = S.Run(self.gdb, b, choices)
        await run.execute()
        fam = shape["name"]
        classes = dict(b.cls)
        detail = {"concurrent": True, "shape": shape, "variant": variant, "choices": list(choices), "classes": classes,
                  "schedule": [[e["n"], e.get("node", e.get("t")), e.get("refs")] for e in run.events if e["n"] != "End"]}
        label = "%s %s (classes %s)" % (fam, json.dumps(shape["reads"], sort_keys=True), classes)
        self.pending.append((S.trace_of(run), detail, classes))
        bad = False
        for where, e in run.errors:
            bad = True
            ctx.violation("raise:concurrent-save:%s:%s" % (fam, type(e).__name__), dict(detail, err=repr(e), where=where),
                          "%s: concurrent save raised %r in %s" % (label, e, where))
        if run.stuck:
            bad = True
            ctx.violation("hang:concurrent-save:%s" % fam, detail, "%s: no database call is pending and save() has not returned" % label)
        for n, o in b.objs.items():
            if n in b.table and getattr(o, "persistent_id", None) is None and not bad:
                bad = True
                ctx.violation("concurrent-save:entity-without-id:%s:%s" % (fam, classes[n]), dict(detail, node=n),
                              "%s: every save() has returned and %s %s has no persistent id" % (label, classes[n], n))
        if bad or b.root.persistent_id is None:
            return run.widths
        for k in (1, 2):
            try:
                loaded = await b.load(DefaultDatabaseLoadingContext(self.db))
            except Exception as e:
                ctx.violation("raise:load-after-concurrent-save:%s:%s" % (fam, type(e).__name__), dict(detail, err=repr(e)),
                              "%s: load #%d of what the concurrent save stored raised %r" % (label, k, e))
                break
            for d in W.diffs(orig, W.snapshot(loaded))[:6]:
                attr = W.diff_attr(d)
                if isinstance(d[2], bool) and isinstance(d[3], int) and not isinstance(d[3], bool) and d[2] == d[3]:
                    self.ck.compare_one(d, "load", detail, label)          # the known type-fidelity finding of Part 1, same signature
                    continue
                ctx.violation("roundtrip:concurrent-save:%s:%s" % (fam, attr), dict(detail, diff=[d[0], d[1], repr(d[2])[:300], repr(d[3])[:300]]),
                              "%s: %s differs between the saved graph and load #%d: saved %r, loaded %r" % (
                                  label, attr, k, d[2] if not isinstance(d[2], (dict, list)) else "...", d[3] if not isinstance(d[3], (dict, list)) else "..."))
        return run.widths

    async def all_schedules(self, shape, variant, cap):
        """Depth-first over the schedules of one shape (which parked database call completes next / the second caller
        arrives now); at most `cap` of them.  Returns (schedules run, all of them?)."""
        choices, done = [], 0
        while choices is not None and done < cap:
            widths = await self.one(shape, variant, choices)
            done += 1
            self.gc.tick()
            self.ctx.case(("concurrent-save", json.dumps(shape, sort_keys=True), variant, tuple(choices)), True)
            choices = self.S.next_choices(choices, widths)
        return done, choices is None

    @staticmethod
    def reach(shape, node):
        """The entities saved along with `node` (ReachSet of the module)."""
        seen, todo = {node}, [node]
        while todo:
            n = todo.pop()
            for part in ("pre", "post"):
                for stage in shape[part].get(n, []):
                    for m in stage:
                        if m not in seen:
                            seen.add(m)
                            todo.append(m)
        return seen

    def verdicts(self):
        """The batch verdict of Trace_PersistenceSave on every recorded trace."""
        ctx = self.ctx
        res = self.S.judge(ctx, [t for t, _, _ in self.pending])
        for (trace, detail, classes), v in zip(self.pending, res):
            fam = trace["shape"]["name"]
            evs = trace["events"]
            # a failing clause is printed for every state in which it is false; the state right after event k has l = k + 1:
            # the offending events are those of the matching kind, else the first state in which the clause failed
            kind_of = {"RefsResolved": "Issue", "TopReturnsWithId": "Return", "OneRow": "Complete"}
            offending = []
            for clause in sorted({c for _, c in v["bad"]}):
                ls = sorted({l for l, c in v["bad"] if c == clause and 2 <= l <= len(evs) + 1})
                hit = [l for l in ls if evs[l - 2]["n"] == kind_of.get(clause)
                       and (clause != "RefsResolved" or any(i in (0, self.S.UNKNOWN) for _, i in evs[l - 2].get("refs", [])))
                       and (clause != "TopReturnsWithId" or evs[l - 2].get("id") == 0
                            or any(i == 0 and m in self.reach(trace["shape"], trace["shape"]["tops"][evs[l - 2]["t"]]) for m, i in evs[l - 2].get("pids", [])))]
                offending += [(l, clause) for l in (hit or ls[:1])]
            for l, clause in offending[:4]:
                e = evs[l - 2]
                if clause == "RefsResolved":
                    nulls = [m for m, i in e.get("refs", []) if i in (0, self.S.UNKNOWN)] if e.get("n") == "Issue" else []
                    if nulls:
                        sig = "concurrent-save:RefsResolved:%s:%s->%s" % (fam, classes.get(e.get("node"), "?"), "+".join(sorted({classes.get(m, "?") for m in nulls})))
                        what = "the row of %s %s was written with the ids %s: a referred entity had no persistent id yet (its save was still in flight)" % (
                            classes.get(e.get("node"), "?"), e.get("node"), e.get("refs"))
                    else:
                        sig = "concurrent-save:RefsResolved:%s:stale-reference" % fam
                        what = "a row in flight refers to an id that is not (any more) the persistent id of the referred entity (event %s)" % json.dumps(e)[:200]
                elif clause == "TopReturnsWithId":
                    node = trace["shape"]["tops"].get(e.get("t"))
                    unsaved = sorted({classes.get(m, "?") for m, i in e.get("pids", []) if i == 0 and m in self.reach(trace["shape"], node)})
                    if e.get("id") == 0:
                        sig = "concurrent-save:TopReturnsWithId:%s:%s" % (fam, classes.get(node, "?"))
                        what = "save() of %s %s returned to caller %s while the entity had no persistent id" % (classes.get(node, "?"), node, e.get("t"))
                    else:
                        sig = "concurrent-save:TopReturnsWithId:%s:%s:unsaved-%s" % (fam, classes.get(node, "?"), "+".join(unsaved))
                        what = "save() of %s %s returned to caller %s while %s it saves along had no persistent id yet" % (classes.get(node, "?"), node, e.get("t"), unsaved)
                else:
                    sig = "concurrent-save:%s:%s:%s" % (clause, fam, classes.get(e.get("node"), "?"))
                    what = "%s %s was written to the database more than once" % (classes.get(e.get("node"), "?"), e.get("node"))
                ctx.violation(sig, dict(detail, clause=clause, event=e), "%s %s: %s" % (fam, json.dumps(trace["shape"]["reads"], sort_keys=True), what))
            if not v["accepted"] and not v["bad"]:
                k = v["prefix"]
                e = evs[k] if k is not None and k < len(evs) else {"n": "?"}
                sig = "concurrent-save:not-explained:%s:%s:%s" % (fam, e.get("n"), classes.get(e.get("node"), e.get("t", "?")))
                ctx.violation(sig, dict(detail, event=e, prefix=k),
                              "%s: no behaviour of the save protocol explains event %s of the recorded trace: %s" % (fam, k, json.dumps(e)[:300]))
            ctx.count("save_traces_accepted" if v["accepted"] else "save_traces_not_accepted")
        self.pending = []



def run(ctx):
    ctx.rule = ("TLC enumerates workflow shapes (every step class x options x workflow class; ordered pairs of step classes chained / "
                "side by side; sets of <= 2 token types) and all Save/Load/MutateLoaded histories over aliasing profiles; every selected "
                "shape is instantiated with the scalar catalogue, saved, loaded 3 ways, compared, identity-scanned, mutated and re-read; "
                "non-trivial = the shape has at least one step option or token beyond the bare defaults; "
                "concurrent saves: every entity graph emitted by PersistenceSave (token DAGs with a shared token / two callers, workflows "
                "sharing targets, deployments, filters, a workflow saved twice) is saved by the real save() under a gated database for "
                "every completion order of the database calls and arrival point of the second caller (capped per shape), each run is "
                "explained and judged by Trace_PersistenceSave and loaded back")
    cex = _model(ctx)
    shapes, relines = _generate(ctx)
    saveshapes = _save_model(ctx)
    fam = {}
    for s in shapes:
        fam.setdefault(s["family"], []).append(s)
    for k in ("one", "pairs", "tokens"):
        ctx.require(fam.get(k), "no shape of family %s" % k)
        ctx.count("shapes_model:%s" % k, len(fam[k]))
    # quick tier: all single-step and token shapes, every 4th pair (deterministic choice by seed); thorough: everything
    stride = ctx.pick(4, 1)
    sel = fam["one"] + fam["tokens"] + [s for i, s in enumerate(fam["pairs"]) if (i + ctx.seed) % stride == 0]
    W._init_persistable()
    scratch = ctx.scratch("db")
    # Part 3: every state of the re-save graph in which the workflow has been saved = one history to replay
    from vh.sut import persist as P
    ctx.count("resave_graph_transitions", len(relines))
    repaths, seen_states = [], set()
    for path in P.build_paths(relines):
        tr = path[-1]
        if tr["act"] == "load" and tr["_f"] not in seen_states:       # one test per state a load starts from (it loads both ways)
            seen_states.add(tr["_f"])
            repaths.append(path[:-1])
    ctx.require(len(repaths) > 100, "too few re-save histories: %d" % len(repaths))
    variants = ctx.pick(["combinator", "execute"], ["combinator", "execute", "loop-combinator"])

    holder = {}
    safegc = SafeGC()
    phases = ctx.extra.setdefault("driver_phases_wall_cpu_s", {})

    async def main():
        from vh.sut import context as sctx
        sf = sctx.build(db=os.path.join(scratch, "c08.db"))
        ck = Checker(ctx, sf)
        try:
            t0, c0 = time.time(), time.process_time()
            for vi, variant in enumerate(variants):
                rs = Resaver(ctx, sf, variant)
                # the histories are dealt out to the variants in turn (quick: <= 2 modifications, 2 variants; thorough: <= 3, 3 variants)
                mine = [p for k, p in enumerate(repaths) if k % len(variants) == vi]
                for path in mine:
                    ctx.case(("resave", variant, path[-1]["_t"]), sum(1 for t in path if t["act"] == "save") > 1)
                    await rs.run(path)
                    safegc.tick()
                    ctx.count("resave_histories:%s" % variant)
                ctx.impl_trace(len(mine))
            phases["resave_histories"] = [round(time.time() - t0, 1), round(time.process_time() - c0, 1)]
            t0, c0 = time.time(), time.process_time()
            for item in sel:
                sh = item["shape"]
                trivial = item["family"] == "one" and set(sh["steps"][0]) == {"kind"}
                ctx.case(json.dumps(sh, sort_keys=True), not trivial)
                await ck.check_shape(item)
                safegc.tick()
                ctx.count("shapes_checked:%s" % item["family"])
            ctx.impl_trace(len(sel))
            phases["shapes"] = [round(time.time() - t0, 1), round(time.process_time() - c0, 1)]
            # Part 4: concurrent saves of shared entities, every schedule of every shape (capped per shape); last, because the
            # identity scan of Part 2 walks the whole row caches, which these thousands of saves and loads fill up
            t0, c0 = time.time(), time.process_time()
            cs = holder["cs"] = ConcurrentSaver(ctx, sf)
            cs.gc = safegc
            await cs.setup()
            try:
                for i, sh in enumerate(saveshapes):
                    fam = sh["name"]
                    vs = [(i + ctx.seed) % 9] if fam == "tokens" else [0]      # container classes dealt to the roles o, a, b
                    for v in vs:
                        done, complete = await cs.all_schedules(sh, v, ctx.pick(SAVE_CAP_QUICK, SAVE_CAP_THOROUGH))
                        ctx.count("save_schedules:%s" % fam, done)
                        ctx.count("save_shapes_all_schedules" if complete else "save_shapes_capped")
                    ctx.count("save_shapes:%s" % fam)
            finally:
                cs.teardown()
            phases["concurrent_saves"] = [round(time.time() - t0, 1), round(time.process_time() - c0, 1)]
        finally:
            await sctx.close(sf)

    with safegc:
        res, err = aio.run(main(), timeout=ctx.pick(900, 3000))
    if err is not None:
        raise err
    holder["cs"].verdicts()
    ctx.exhaustive = not ctx.quick
    ctx.sample({"defect_model_counterexamples": cex})
    ctx.sample(sel[len(sel) // 3])
    ctx.sample(sel[-1])
    ctx.assumptions += [
        "scalar fidelity is exercised with a fixed catalogue (empty/unicode/escape strings, +-0.0, 2**53+1, nested empty containers), not all JSON values",
        "mappings are compared without their insertion order (wiring dictionaries are rebuilt in database order)",
        "tokens are saved on the first port of the shape and loaded through the same three loading contexts as the workflow",
        "CWL-specific classes are exercised under CWLWorkflow only",
        "concurrent saves: the driver completes database calls and starts the second caller only when every task is blocked; "
        "database failures during a save are not modelled; dependency rows are written for real but their completion order is not explored",
        "the cyclic garbage collector runs between two cases only (cachebox deadlocks when a collection starts inside a cached getter)",
    ]


def replay(ctx, data):
    d = data["detail"]
    W._init_persistable()
    scratch = ctx.scratch("db")
    holder = {}

    async def main():
        from vh.sut import context as sctx
        sf = sctx.build(db=os.path.join(scratch, "c08.db"))
        try:
            if d.get("concurrent"):
                cs = holder["cs"] = ConcurrentSaver(ctx, sf)
                await cs.setup()
                try:
                    await cs.one(d["shape"], d["variant"], d["choices"])
                finally:
                    cs.teardown()
                return
            if d.get("resave"):
                await Resaver(ctx, sf, d["variant"]).run([{"act": h[0], "args": h[1:]} for h in d["history"]])
                return
            await Checker(ctx, sf).check_shape({"shape": d["shape"], "shared": []})
        finally:
            await sctx.close(sf)

    with SafeGC():
        res, err = aio.run(main(), timeout=600)
    if err is not None:
        raise err
    if "cs" in holder:
        holder["cs"].verdicts()
