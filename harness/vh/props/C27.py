"""C27 - batch jobs complete only after leaving the queue (module QueueManager).

Model: specs/QueueManager/QueueManager.tla - cluster queue, `_scheduled_jobs`, the TTL jobs cache, the asyncio
lock (CPython FIFO semantics), one program counter per run() call, undeploy; TLC checks on the complete
state graph (<= 3 concurrent jobs, polling interval 1..2 ticks, jobs leaving at any moment, undeploy at
every point) that a call stops polling only for a job that left the queue, returns that job's own
output / exit code, and that undeploy asks to cancel exactly the registered, uncollected jobs.

Binding (B-env + trace validation): the REAL SlurmConnector (run / undeploy / _get_running_jobs with the
real cachebox TTLCache and the real asyncio.Lock) wraps the REAL LocalConnector; its commands reach
harness-provided sbatch/squeue/scontrol/scancel (dash scripts on PATH, or - fast path - the same tools
interpreted in-process on the same state directory) that append every call to a sequence-numbered log.
The driver decides the order of the environment events only (a command completes, a sleep ends, a tick of
real time passes, a job runs/leaves, undeploy is called): orders come from TLC behaviours of the model
and from seeded random choice.  Verdicts: (a) direct, from the log + the values returned by run();
(b) every recorded execution is validated by TLC against Trace_QueueManager with all invariants on.
"""
from __future__ import annotations

import glob
import json
import logging
import os
import random
import shutil
import tempfile

LEVEL = "model_checking"

INVS = ["TypeOK", "ReportedOnlyGone", "OwnResult", "CancelExact", "Bookkeeping", "LockDiscipline"]
ACTIONS = ["Start", "SbatchExec", "SbatchDone", "SqueueExec", "SqueueDone", "Grant", "Wake", "CollectDone",
           "JobLeaves", "Tick"]
DRIVER_ACTS = {"Start", "SbatchDone", "SqueueDone", "Wake", "CollectDone", "JobRuns", "JobLeaves", "Tick",
               "UndeployStart", "ScancelDone"}


def _cfg(n, p, loose=True, running=True, undeploy=True, trace=False):
    t = lambda b: "TRUE" if b else "FALSE"
    head = "CONSTANTS N = %d  P = %d  Loose = %s  WithRunning = %s  WithUndeploy = %s\n" % (n, p, t(loose), t(running), t(undeploy))
    if trace:
        body = "INIT TInit\nNEXT TNext\nCONSTRAINT TDiag\nINVARIANT TAccept\n"
    else:
        body = "INIT Init\nNEXT Next\nVIEW View\n"
    return head + body + "".join("INVARIANT %s\n" % i for i in INVS)


# ------------------------------------------------------------------------------------------------
# one schedule in a worker process

def _guided(plan):
    plan = [tuple(a) for a in plan]
    pos = [0]

    def choose(en, s):
        while pos[0] < len(plan):
            a = plan[pos[0]]
            pos[0] += 1
            if a in en:
                return a
            s.skipped = getattr(s, "skipped", 0) + 1
        return None
    return choose


def _seeded(seed, n, undeploy_prob):
    rng = random.Random(seed)
    weights = {"Start": 3, "SbatchDone": 3, "SqueueDone": 4, "CollectDone": 3, "Wake": 4, "Tick": 2, "JobRuns": 1,
               "JobLeaves": 1.5, "UndeployStart": 0.0, "ScancelDone": 2, "OtherDone": 3}
    style = rng.choice(["mixed", "submit-first", "eager-leave", "slow-cluster"])
    if style == "submit-first":
        weights.update(Start=12, SbatchDone=6)
    elif style == "eager-leave":
        weights.update(JobLeaves=5)
    elif style == "slow-cluster":
        weights.update(JobLeaves=0.5, Tick=3)
    if rng.random() < undeploy_prob:
        weights["UndeployStart"] = rng.choice([0.15, 0.4, 1.0])

    def choose(en, s):
        if len(s.tasks) == s.n and all(t.done() for t in s.tasks.values()) and (
                s.undeploy_task is None or s.undeploy_task.done()) and not s.rec.parked():
            return None
        ws = [weights.get(a[0], 1) for a in en]
        if sum(ws) <= 0:
            return None
        return rng.choices(en, ws)[0]
    return choose


def _quiet():
    # imported here, once, BEFORE worker processes are forked (the import dominates a schedule's cost)
    import streamflow.log_handler  # noqa: F401  (configures the logger at import)
    import streamflow.deployment.connector.local  # noqa: F401
    import streamflow.deployment.connector.queue_manager  # noqa: F401
    logging.getLogger("streamflow").setLevel(logging.CRITICAL)


def run_one(job):
    """job: {"idx", "root", "n", "p", "kind": guided|seeded, "plan"|"seed", "fast", "undeploy_prob"}"""
    _quiet()
    from vh.sut.queue_fake import Schedule
    d = tempfile.mkdtemp(prefix="s%d_" % job["idx"], dir=job["root"])
    try:
        if job["kind"] == "guided":
            choose = _guided(job["plan"])
        else:
            choose = _seeded(job["seed"], job["n"], job.get("undeploy_prob", 0.5))
        s = Schedule(d, job["n"], job["p"], choose, fast=job.get("fast", True),
                     undeploy=job.get("undeploy", True), max_ticks=job.get("max_ticks", 8))
        s.run()
        out = s.summary()
        out["verdicts"] = [list(v) for v in s.verdicts()] if s.machinery is None else []
        out["job"] = {k: v for k, v in job.items() if k != "root"}
        out["fast_cmds"], out["slow_cmds"] = s.rec.fast, s.rec.slow
        out["skipped"] = getattr(s, "skipped", 0)
        return out
    finally:
        shutil.rmtree(d, ignore_errors=True)


def _pool_map(fn, jobs, workers):
    if workers <= 1 or len(jobs) <= 1:
        return [fn(j) for j in jobs]
    import multiprocessing as mp
    with mp.get_context("fork").Pool(workers) as pool:
        return pool.map(fn, jobs, chunksize=1)


# ------------------------------------------------------------------------------------------------

def _trace_for_tlc(summary, n):
    """Events as Trace_QueueManager wants them.  A call of undeploy() that raised before touching the cluster
    (reported separately) is not an event of the trace: it changed nothing."""
    ev = [dict(e) for e in summary["events"]]
    info = summary.get("undeploy")
    if info and str(info.get("outcome", "")).startswith("raise") and not any(e["e"] == "ScancelExec" for e in ev):
        ev = [e for i, e in enumerate(ev) if i != info["at_event"]]
    fin = dict(summary["final"] or {"pc": []}, e="End")
    ev.append(fin)
    out = []
    for e in ev:
        e.pop("seq", None)
        if "pc" in e:
            e["pc"] = list(e["pc"]) + ["idle"] * (n - len(e["pc"]))
            e["hs"] = "sched" in e
            e.setdefault("sched", [])
        out.append(e)
    return out


def _classes(ctx, s):
    ev = s["events"]
    pcs = [e["pc"] for e in ev if "pc" in e]
    if any("lw" in pc for pc in pcs):
        ctx.count("class:lock-contention")
    if any(sum(1 for x in pc if x in ("squeue", "sleep", "lw")) >= 2 for pc in pcs):
        ctx.count("class:two-or-more-polling")
    if s.get("cache_hits"):
        ctx.count("class:cache-hit", 1)
    if any(e["e"] == "SqueueExec" and len(e["ask"]) >= 2 for e in ev):
        ctx.count("class:squeue-for-several-jobs")
    info = s.get("undeploy")
    if info:
        ctx.count("class:undeploy")
        if info.get("expected"):
            ctx.count("class:undeploy-with-registered-jobs")
        if any(e["e"] == "ScancelExec" for e in ev):
            ctx.count("class:scancel-issued")
    left_before = False
    seen_done = set()
    for e in ev:
        if e["e"] == "SbatchDone":
            seen_done.add(e["j"])
        if e["e"] == "JobLeaves" and e["j"] not in seen_done:
            left_before = True
    if left_before:
        ctx.count("class:job-left-before-sbatch-returned")
    if any(r[0] == "raise" for r in s["results"].values()):
        ctx.count("class:run-raised")


def _hits(s):
    """polls answered from the cache: a SbatchDone/Wake (or a silent lock grant) after which the call went on
    without a squeue line of its own"""
    ev = s["events"]
    hits = 0
    for i, e in enumerate(ev):
        if e["e"] in ("Wake",) and "j" in e:
            j = e["j"]
            k = i + 1
            own = False
            while k < len(ev) and "pc" not in ev[k]:
                if ev[k]["e"] == "SqueueExec" and ev[k]["j"] == j:
                    own = True
                k += 1
            nxt = ev[k]["pc"][j - 1] if k < len(ev) else (s["final"]["pc"][j - 1] if s.get("final") else "?")
            if not own and nxt in ("sleep", "collect", "done"):
                hits += 1
    return hits


def _report(ctx, s, sig, detail, what):
    d = {"schedule": {"n": s["n"], "p": s["p"], "applied": s["applied"], "fast": s["job"].get("fast", True)},
         "finding": detail, "results": s["results"], "undeploy": s.get("undeploy"), "log": s["log"][-80:]}
    return ctx.violation(sig, d, what)


def _evaluate(ctx, summaries, label):
    groups = {}
    for s in summaries:
        if s["machinery"]:
            ctx.require(False, "schedule %s (%s) could not be executed: %s" % (s["job"].get("idx"), label, s["machinery"]))
        s["cache_hits"] = _hits(s)
        ctx.count("cache_hits", s["cache_hits"])
        ctx.count("commands_in_process", s["fast_cmds"])
        ctx.count("commands_real_shell", s["slow_cmds"])
        key = json.dumps([s["n"], s["p"], s["applied"]])
        ctx.case((label, key), nontrivial=len(s["applied"]) > 4)
        _classes(ctx, s)
        s["unlisted_direct"] = False
        for sig, detail, what in s["verdicts"]:
            if _report(ctx, s, sig, detail, what):
                s["unlisted_direct"] = True
        groups.setdefault(s["p"], []).append(s)
    from vh import trace as vtrace
    for p, ss in sorted(groups.items()):
        n = max(s["n"] for s in ss)          # one TLC run per polling interval: calls that do not exist stay idle
        traces = [_trace_for_tlc(s, n) for s in ss]
        files = {"Trace.cfg": _cfg(n, p, trace=True)}
        verdicts = vtrace.validate(ctx, "QueueManager", "Trace_QueueManager", "Trace.cfg", traces, files=files,
                                   timeout=1200, diagnose=False)
        bad = [i for i, v in enumerate(verdicts) if not v["ok"]]
        # diagnosis (longest explained prefix) costs one TLC run per trace: only for a few
        for i in [i for i in bad if verdicts[i]["reason"] == "rejected" and not ss[i]["unlisted_direct"]][:3]:
            ctx.impl_traces -= 1
            verdicts[i] = vtrace.validate(ctx, "QueueManager", "Trace_QueueManager", "Trace.cfg", [traces[i]], files=files,
                                          timeout=600, diagnose=True)[0]
        for s, tr, v in zip(ss, traces, verdicts):
            if v["ok"]:
                ctx.count("traces_accepted")
                continue
            ctx.count("traces_not_accepted")
            if s["unlisted_direct"]:
                # the execution already produced a direct finding; its trace cannot be a behaviour of the model
                ctx.count("traces_rejected_with_direct_finding")
                continue
            ev = v.get("event")
            kind = ev.get("e") if isinstance(ev, dict) else ("undiagnosed" if v.get("prefix") is None else "end")
            sig = "trace:%s" % v["reason"] if v["reason"].startswith("invariant:") else "trace:rejected:%s" % kind
            what = "the recorded execution is not a behaviour of QueueManager: %s at event %s (%s)" % (
                v["reason"], v.get("prefix"), json.dumps(ev)[:300])
            _report(ctx, s, sig, {"trace_verdict": {k: v.get(k) for k in ("reason", "prefix", "event")}, "trace": tr}, what)


def _tlc_plans(ctx, n, p, num, depth, undeploy=True):
    """Behaviours of the model (simulation) projected on the actions the driver controls."""
    d = ctx.scratch("sim_%d_%d_%d" % (n, p, num))
    cfg = _cfg(n, p, loose=True, running=True, undeploy=undeploy).replace("VIEW View\n", "")
    cfg = "\n".join(l for l in cfg.splitlines() if not l.startswith("INVARIANT")) + "\n"
    ctx.tlc("QueueManager", "MC_QueueManager", "Sim.cfg", files={"Sim.cfg": cfg}, workers=1, count=False,
            simulate={"num": num, "depth": depth, "file": os.path.join(d, "b")}, timeout=600)
    from vh.tlc import parse_sim_file
    plans = []
    for f in sorted(glob.glob(os.path.join(d, "b*"))):
        beh = parse_sim_file(f)
        plan = []
        for st in beh:
            a = st["state"].get("act")
            if isinstance(a, list) and a and a[0] in DRIVER_ACTS:
                plan.append(tuple(a))
        if plan:
            plans.append(plan)
    return plans


def _probe_tools(ctx):
    """The in-process interpretation of the tools must agree with the dash tools run by /bin/sh (oracle probe)."""
    import subprocess
    from vh.sut.queue_fake import Cluster
    a, b = Cluster(ctx.scratch("probe_sh")), Cluster(ctx.scratch("probe_py"))
    script = "#!/bin/sh\n\ncd /tmp && echo VHJOB=7\n"
    import base64
    b64 = base64.b64encode(script.encode()).decode()
    steps = ["echo %s | base64 -d | sbatch --parsable --chdir \"/tmp\" " % b64,
             "echo %s | base64 -d | sbatch --parsable " % b64,
             "squeue -h -j 4001,4002 -t PENDING,RUNNING -O JOBID",
             "scontrol show -o job 4001 | sed -n 's/^.*StdOut=\\([^[:space:]]*\\).*/\\1/p'",
             "@leave 4001", "@runs 4002",
             "squeue -h -j 4001,4002,4009 -t PENDING,RUNNING,SUSPENDED -O JOBID",
             "squeue -h -j  -t PENDING,RUNNING -O JOBID",
             "scontrol show -o job 4001 | sed -n 's/^.*ExitCode=\\([0-9]\\+\\):.*/\\1/p'",
             "scontrol show -o job 4444 | sed -n 's/^.*ExitCode=\\([0-9]\\+\\):.*/\\1/p'",
             "cat <S>/job.4001.out", "cat <S>/job.4002.out",
             "scancel 4001 4002", "squeue -h -j 4002 -t PENDING,RUNNING -O JOBID",
             "scontrol show -o job 4002 | sed -n 's/^.*ExitCode=\\([0-9]\\+\\):.*/\\1/p'"]
    env = dict(os.environ, PATH=a.bin + os.pathsep + os.environ.get("PATH", ""))
    for st in steps:
        if st.startswith("@"):
            op, jid = st[1:].split()
            for c in (a, b):
                getattr(c, op)(jid, 7)
            continue
        merged = " 2>&1"      # what create_command appends for the default streams
        pr = subprocess.run(["sh", "-c", st.replace("<S>", a.state) + merged], env=env, capture_output=True, text=True, timeout=60)
        ra = (pr.stdout.strip().replace(a.state, "<S>"), pr.returncode)
        rb = b.exec_fast(st.replace("<S>", b.state))
        ctx.require(rb is not None, "tool probe: the fast path does not understand %r" % st)
        rb = (rb[0].replace(b.state, "<S>"), rb[1])
        ctx.require(ra == rb, "tool probe: dash tools and in-process tools disagree on %r: %r vs %r" % (st, ra, rb))
    a.read_new(), b.read_new()
    la = [l["raw"].replace(a.state, "<S>") for l in a.lines]
    lb = [l["raw"].replace(b.state, "<S>") for l in b.lines]
    ctx.require(la == lb, "tool probe: logs differ:\n%s\n%s" % (la, lb))
    ctx.count("tool_probe_steps", len(steps))


def run(ctx):
    import time
    t0 = time.time()
    phase = ctx.extra.setdefault("phase_wall_s", {})
    _quiet()
    ctx.rule = ("TLC explores all interleavings of QueueManager.tla; executions of the real SlurmConnector are driven by "
                "environment-event orders taken from TLC behaviours and from seeded choice, judged from the fake tools' "
                "sequence-numbered log + run() results and validated as traces; a case is one distinct applied schedule "
                "with more than 4 environment events")
    # ---- 1. the model -------------------------------------------------------------------------
    mcs = ctx.pick(
        [(2, 1, True, True, True), (3, 2, True, False, False)],
        [(2, 1, True, True, True), (2, 2, True, True, True), (3, 1, True, True, True), (3, 2, True, False, True)])
    for n, p, loose, running, undeploy in mcs:
        r = ctx.tlc("QueueManager", "MC_QueueManager", "MC.cfg", files={"MC.cfg": _cfg(n, p, loose, running, undeploy)},
                    coverage=True, timeout=3000)
        ctx.require(r.ok, "QueueManager model violates %s for N=%d P=%d: specification error (replay on the code before "
                          "reporting)\n%s" % (r.violated, n, p, r.stdout[-1500:]))
        ctx.require_coverage(r, ACTIONS + (["UndeployStart", "ScancelExec", "ScancelDone"] if undeploy else [])
                             + (["JobRuns"] if running else []))
    ctx.exhaustive = True
    phase["model_checking"] = round(time.time() - t0, 1); t0 = time.time()
    _probe_tools(ctx)
    phase["tool_probe"] = round(time.time() - t0, 1); t0 = time.time()
    # ---- 2. schedules -------------------------------------------------------------------------
    root = ctx.scratch("runs")
    workers = max(1, min(8, os.cpu_count() or 2))
    jobs = []
    n_guided, n_seeded, n_real = ctx.pick((20, 30, 3), (200, 400, 12))
    plans = _tlc_plans(ctx, 3, 1, n_guided, ctx.pick(45, 60))
    for i, plan in enumerate(plans[:n_guided]):
        n, p = ((3, 1), (3, 2), (3, 1), (2, 1), (3, 2))[i % 5]
        plan = [a for a in plan if len(a) < 2 or a[1] <= n]     # the same order of events for fewer jobs / another interval
        jobs.append({"kind": "guided", "n": n, "p": p, "plan": [list(a) for a in plan], "fast": True})
    ctx.count("schedules_from_tlc_behaviours", len(jobs))
    phase["tlc_behaviours"] = round(time.time() - t0, 1); t0 = time.time()
    rng = ctx.rng("seeded")
    sizes = ctx.pick([2, 3, 3, 3, 4], [1, 2, 3, 3, 3, 4, 5, 6])
    for i in range(n_seeded):
        jobs.append({"kind": "seeded", "n": rng.choice(sizes), "p": rng.choice([1, 1, 2]), "seed": "%s/%d" % (ctx.seed, i),
                     "fast": True, "undeploy_prob": 0.5})
    for i in range(n_real):     # the same through /bin/sh and the dash tools (slow: real subprocesses)
        jobs.append({"kind": "seeded", "n": rng.choice([2, 3]), "p": rng.choice([1, 2]), "seed": "real/%s/%d" % (ctx.seed, i),
                     "fast": False, "undeploy_prob": 0.5, "max_ticks": 5})
    for i, j in enumerate(jobs):
        j["idx"], j["root"] = i, root
    summaries = _pool_map(run_one, jobs, workers)
    ctx.count("schedules", len(summaries))
    phase["schedules_on_real_connector"] = round(time.time() - t0, 1); t0 = time.time()
    phase["sum_of_schedule_walls"] = round(sum(x["wall"] for x in summaries), 1)
    ctx.count("schedules_real_subprocess_tools", n_real)
    _evaluate(ctx, summaries, "sched")
    phase["verdicts_and_trace_validation"] = round(time.time() - t0, 1)
    for s in summaries[:1] + [x for x in summaries if x.get("undeploy")][:1]:
        ctx.sample({"schedule": s["applied"][:40], "results": s["results"], "undeploy": s.get("undeploy"), "log": s["log"][:25]})
    for cls in ("class:lock-contention", "class:two-or-more-polling", "class:squeue-for-several-jobs", "class:undeploy",
                "class:job-left-before-sbatch-returned"):
        ctx.require(ctx.counters.get(cls, 0) > 0, "vacuous exploration: no schedule of %s" % cls)
    ctx.assumptions += [
        "the cluster side is the harness' fake sbatch/squeue/scontrol/scancel (a job is listed by squeue from the moment sbatch "
        "accepted it until it ends or is cancelled; scontrol keeps finished jobs)",
        "most schedules use the in-process interpretation of those tools (probed against the dash tools at start); "
        "a smaller number runs every command through /bin/sh",
        "asyncio.sleep inside queue_manager.py is parked on a gate; the TTL cache and the lock are the real objects, real time "
        "is only waited for (a tick sleeps longer than TTL/P), cache hits are allowed but never required",
        "jobs whose submission is still in flight when undeploy() is called are outside clause 3 (not registered yet)",
        "only SlurmConnector is driven; PBS/Flux share run()/undeploy() but not the listing commands",
    ]


def replay(ctx, data):
    _quiet()
    sch = data["detail"]["schedule"]
    job = {"idx": 0, "root": ctx.scratch("replay"), "kind": "guided", "n": sch["n"], "p": sch["p"], "plan": sch["applied"],
           "fast": sch.get("fast", True)}
    s = run_one(job)
    _evaluate(ctx, [s], "replay")
    print("replayed schedule: results=%s undeploy=%s direct findings=%s" % (s["results"], s.get("undeploy"), [v[0] for v in s["verdicts"]]))
