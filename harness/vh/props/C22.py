"""C22 - transfers reproduce the source data exactly (modules RemoteFSTransfer / RemoteFS).

Model: RemoteFSTransfer.tla states the CONTRACT of DefaultDataManager.transfer_data over abstract
file trees (destination root rule, dereferenced source tree with contents and executable bits,
links allowed only for read-only transfers, registration afterwards) and enumerates the case
analysis: source shape x destination state x basename relation x location pair x writable x number
of destination locations (600 cases); TLC checks that the contract is well defined for every case
and emits the expected destination of each.

Binding: every selected case is instantiated (plain names + text first; then one deviation drawn
per (seed, case): a name class - space, quote, unicode, leading dash - or a content class - binary
larger than the transfer buffer, 1 MiB on thorough) and executed by the REAL
DefaultDataManager.transfer_data between the engine's local deployment and shell-based remote
locations (vh.sut.fs_remote; two deployments, several locations each, all deployed by the real
deployment manager); the source is registered first, as the engine does.  The destination is
walked with os.* inside each destination location, dereferenced, and compared with the contract;
the data-manager lookup for the destination root is checked on every destination location.
"""
from __future__ import annotations

import json
import multiprocessing
import os
import time
from concurrent.futures import ProcessPoolExecutor

LEVEL = "exploration"


def _procs():
    n = os.environ.get("VERIF_FS_PROCS")
    return max(1, int(n)) if n else max(2, min(8, (os.cpu_count() or 4) // 2))


def select(ctx, items):
    n = int(ctx.pick(150, 600) * float(os.environ.get("VERIF_FS_SCALE", "1")))
    if n >= len(items):
        return items
    rng = ctx.rng("cases")
    order = list(range(len(items)))
    rng.shuffle(order)
    seen, chosen, rest = set(), [], []
    for i in order:      # cover every (pair, source, destination state) and every pair of dimension values, then fill
        c = items[i]["case"]
        dims = sorted(c.items())
        cls = {(a, b) for x, a in enumerate(dims) for b in dims[x + 1:]}
        cls.add(("pair-src-dst", c["pair"], c["src"], c["dst"]))
        cls.add(("pair-src-writable", c["pair"], c["src"], c["writable"]))
        if cls - seen:
            seen |= cls
            chosen.append(i)
        else:
            rest.append(i)
    chosen += rest[: max(0, n - len(chosen))]
    return [items[i] for i in sorted(chosen)]


def bind(ctx, items, template):
    from vh.sut import fs_transfer as T
    procs = min(_procs(), max(1, len(items)))
    chunks = [items[i::procs] for i in range(procs)]
    args = [(ctx.scratch("w%d" % i), template, ch, ctx.seed, not ctx.quick) for i, ch in enumerate(chunks) if ch]
    if len(args) == 1:
        outs = [T.worker(args[0])]
    else:
        with ProcessPoolExecutor(max_workers=len(args), mp_context=multiprocessing.get_context("fork")) as ex:
            outs = list(ex.map(T.worker, args))
    total = {"cases": 0, "keys": set(), "by": {}}
    for o in outs:
        ctx.require(o["error"] is None, "binding worker failed:\n%s" % o["error"])
        total["cases"] += o["cases"]
        total["keys"] |= o["keys"]
        for k, v in o["by"].items():
            total["by"][k] = total["by"].get(k, 0) + v
        for sig, detail, what in o["violations"]:
            ctx.violation(sig, detail, what)
    return total


def run(ctx):
    from vh.sut import fs_remote as FR
    ctx.rule = ("TLC enumerates the 600 cases of the transfer contract (source shape x destination state x basename x "
                "location pair x writable x 1..2 destinations) with the expected destination tree; the selected cases are "
                "executed by the real DefaultDataManager.transfer_data with plain names/text and with one drawn name or "
                "content class; non-trivial = distinct (case, name class, content class)")
    info = FR.probe(ctx.scratch("probe"))
    ctx.require(info["chroot"], "shell-based remote unusable here (chroot/tool set): %s" % info.get("chroot_out"))
    ctx.require(info["unterminated_quote_blocks"],
                "oracle assumption failed: an unterminated quote did not block a persistent /bin/sh")
    r = ctx.tlc("RemoteFS", "MC_RemoteFSTransfer", "MC_RemoteFSTransfer.cfg", timeout=900)
    ctx.require(r.ok, "RemoteFSTransfer violates %s: specification error\n%s" % (r.violated, r.stdout[-1500:]))
    items = [x for x in r.printed_json() if isinstance(x, dict) and "case" in x]
    uniq = {}
    for it in items:
        uniq.setdefault(json.dumps(it["case"], sort_keys=True), it)
    items = [uniq[k] for k in sorted(uniq)]
    ctx.require(len(items) == 600, "expected 600 cases from the model, got %d" % len(items))
    for dim, vals in (("src", 5), ("dst", 3), ("pair", 6)):
        ctx.require(len({it["case"][dim] for it in items}) == vals, "case dimension %s incomplete" % dim)
    sel = select(ctx, items)
    ctx.count("model_cases", len(items))
    ctx.count("bound_cases", len(sel))
    ctx.exhaustive = len(sel) == len(items)
    template = FR.Toolbox(ctx.scratch("toolbox")).template
    t1 = time.time()
    total = bind(ctx, sel, template)
    ctx.extra["bind_wall_s"] = round(time.time() - t1, 1)
    ctx.impl_trace(total["cases"])
    ctx.evaluations += total["cases"]
    ctx.distinct |= total["keys"]
    for k, v in sorted(total["by"].items()):
        ctx.count(k, v)
    for need in ["pair:L>L", "pair:L>R", "pair:R>L", "pair:R>R:same-location", "pair:R>R:same-connector",
                 "pair:R>R:other-connector", "src:richdir", "src:emptyfile", "src:emptydir", "dst:dir", "dst:absent_deep",
                 "writable:True", "writable:False", "n:2"]:
        ctx.require(total["by"].get(need, 0) > 0, "class never executed: %s" % need)
    for it in sel[:2]:
        ctx.sample({"case": it["case"], "root": it["root"], "expected_tree": [[e["p"], e["k"], e["c"], e["x"]] for e in it["tree"]]})
    ctx.assumptions += [
        "remote locations are shell-based fakes (BaseConnector subclass; commands passed verbatim to /bin/sh (dash) in a "
        "private chroot with GNU tar/coreutils); two deployments x several locations stand for different connectors / "
        "locations; wrapped (stacked) remotes are not covered",
        "source trees are built with os.*; inner symbolic links (two relative, one absolute) point to entries of the tree",
        "directories above the source/destination basenames have plain names (the classes apply to the basenames and "
        "to the names inside the tree)",
        "the destination is dereferenced inside its own location before it is compared",
    ]


def replay(ctx, data):
    from vh import aio
    from vh.sut import fs_transfer as T
    d = data["detail"]
    out = []

    async def main():
        b = await T.Bench(ctx.scratch("replay")).start()
        try:
            it = {"case": d["case"], "source": d["source"], "tree": d["tree"], "root": d["root"]}
            dev = "plain" if (d["name_class"], d["content_class"]) == ("plain", "text") else \
                "name=%s" % d["name_class"] if d["name_class"] != "plain" else "content=%s" % d["content_class"]
            await T.run_case(b, it, T.Inst(d["name_class"], d["content_class"], data.get("seed", 0)), dev,
                             lambda s, det, w: out.append((s, det, w)))
        finally:
            await b.stop()
    _, exc = aio.run(main(), timeout=300)
    ctx.require(exc is None, "replay failed: %r" % (exc,))
    for s, det, w in out:
        ctx.violation(s, det, w)
    print("replayed %s: %d disagreement(s)" % (data.get("signature"), len(out)))
