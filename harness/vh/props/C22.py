"""C22 - transfers reproduce the source data exactly (modules RemoteFSTransfer / RemoteFS).

Model: RemoteFSTransfer.tla states the CONTRACT of DefaultDataManager.transfer_data over abstract
file trees (destination root rule, dereferenced source tree with contents and executable bits,
links allowed only for read-only transfers, registration afterwards) and enumerates the case
analysis: source shape x destination state x basename relation x location pair x writable x number
of destination locations (600 cases); TLC checks that the contract is well defined for every case
and emits the expected destination of each.

Binding: every selected case is instantiated (plain names + text first; then one deviation drawn
per (seed, case): a name class - space, quote, unicode, leading dash - or a content class - binary
larger than the transfer buffer, 1 MiB on thorough) and executed by the REAL
DefaultDataManager.transfer_data between the engine's local deployment and shell-based remote
locations (vh.sut.fs_remote; two deployments, several locations each, all deployed by the real
deployment manager); the source is registered first, as the engine does.  The destination is
walked with os.* inside each destination location, dereferenced, and compared with the contract;
the data-manager lookup for the destination root is checked on every destination location.

Histories (RemoteFSTransferHistory.tla): the same source is transferred two or three times to fresh
paths of ONE other location, read-only or writable, and a copy may be lost (removed +
invalidate_location) in between - the situations in which transfer_data may serve a transfer from a
copy already on the destination location.  TLC enumerates the 400 histories and checks that every
copy reported as available resolves; the harness replays the maximal ones on the real data manager
and judges every transfer by the same contract (plus: older copies still reported as available must
still dereference to the source tree).
"""
from __future__ import annotations

import json
import multiprocessing
import os
import time
from concurrent.futures import ProcessPoolExecutor

LEVEL = "exploration"


def _procs():
    n = os.environ.get("VERIF_FS_PROCS")
    return max(1, int(n)) if n else max(2, min(8, (os.cpu_count() or 4) // 2))


def select(ctx, items):
    n = int(ctx.pick(150, 600) * float(os.environ.get("VERIF_FS_SCALE", "1")))
    if n >= len(items):
        return items
    rng = ctx.rng("cases")
    order = list(range(len(items)))
    rng.shuffle(order)
    seen, chosen, rest = set(), [], []
    for i in order:      # cover every (pair, source, destination state) and every pair of dimension values, then fill
        c = items[i]["case"]
        dims = sorted(c.items())
        cls = {(a, b) for x, a in enumerate(dims) for b in dims[x + 1:]}
        cls.add(("pair-src-dst", c["pair"], c["src"], c["dst"]))
        cls.add(("pair-src-writable", c["pair"], c["src"], c["writable"]))
        if cls - seen:
            seen |= cls
            chosen.append(i)
        else:
            rest.append(i)
    chosen += rest[: max(0, n - len(chosen))]
    return [items[i] for i in sorted(chosen)]


def select_histories(ctx, hists):
    """Maximal histories (3 transfers) only - their prefixes are checked on the way.  quick: one history
    for every (pair, source, first transfer ro/rw, first copy lost?, second transfer ro/rw), seeded;
    thorough: all."""
    full = [h for h in hists if sum(1 for e in h["hist"] if e["ev"] == "T") == 3]
    if not ctx.quick:
        return full
    rng = ctx.rng("histories")
    order = list(range(len(full)))
    rng.shuffle(order)
    seen, chosen = set(), []
    for i in order:
        h = full[i]
        ev = h["hist"]
        cls = (h["hcase"]["pair"], h["hcase"]["src"], ev[0]["w"], ev[1]["ev"] == "L",
               next(e["w"] for e in ev[1:] if e["ev"] == "T"))
        if cls not in seen:
            seen.add(cls)
            chosen.append(i)
    return [full[i] for i in sorted(chosen)]


def bind(ctx, items, template):
    from vh.sut import fs_transfer as T
    procs = min(_procs(), max(1, len(items)))
    chunks = [items[i::procs] for i in range(procs)]
    args = [(ctx.scratch("w%d" % i), template, ch, ctx.seed, not ctx.quick) for i, ch in enumerate(chunks) if ch]
    if len(args) == 1:
        outs = [T.worker(args[0])]
    else:
        with ProcessPoolExecutor(max_workers=len(args), mp_context=multiprocessing.get_context("fork")) as ex:
            outs = list(ex.map(T.worker, args))
    total = {"cases": 0, "keys": set(), "by": {}}
    for o in outs:
        ctx.require(o["error"] is None, "binding worker failed:\n%s" % o["error"])
        total["cases"] += o["cases"]
        total["keys"] |= o["keys"]
        for k, v in o["by"].items():
            total["by"][k] = total["by"].get(k, 0) + v
        for sig, detail, what in o["violations"]:
            ctx.violation(sig, detail, what)
    return total


def run(ctx):
    from vh.sut import fs_remote as FR
    ctx.rule = ("TLC enumerates the 600 cases of the transfer contract (source shape x destination state x basename x "
                "location pair x writable x 1..2 destinations) with the expected destination tree; the selected cases are "
                "executed by the real DefaultDataManager.transfer_data with plain names/text and with one drawn name or "
                "content class; non-trivial = distinct (case, name class, content class)")
    info = FR.probe(ctx.scratch("probe"))
    ctx.require(info["chroot"], "shell-based remote unusable here (chroot/tool set): %s" % info.get("chroot_out"))
    ctx.require(info["unterminated_quote_blocks"],
                "oracle assumption failed: an unterminated quote did not block a persistent /bin/sh")
    r = ctx.tlc("RemoteFS", "MC_RemoteFSTransfer", "MC_RemoteFSTransfer.cfg", timeout=900)
    ctx.require(r.ok, "RemoteFSTransfer violates %s: specification error\n%s" % (r.violated, r.stdout[-1500:]))
    items = [x for x in r.printed_json() if isinstance(x, dict) and "case" in x]
    uniq = {}
    for it in items:
        uniq.setdefault(json.dumps(it["case"], sort_keys=True), it)
    items = [uniq[k] for k in sorted(uniq)]
    ctx.require(len(items) == 600, "expected 600 cases from the model, got %d" % len(items))
    for dim, vals in (("src", 5), ("dst", 3), ("pair", 6)):
        ctx.require(len({it["case"][dim] for it in items}) == vals, "case dimension %s incomplete" % dim)
    sel = select(ctx, items)
    ctx.count("model_cases", len(items))
    ctx.count("bound_cases", len(sel))
    # histories: 2-3 transfers of one source to one destination location with losses in between
    rh = ctx.tlc("RemoteFS", "MC_RemoteFSTransferHistory", "MC_RemoteFSTransferHistory.cfg", timeout=900)
    ctx.require(rh.ok, "RemoteFSTransferHistory violates %s: specification error\n%s" % (rh.violated, rh.stdout[-1500:]))
    hu = {}
    for it in rh.printed_json():
        if isinstance(it, dict) and "hcase" in it:
            hu.setdefault(json.dumps([it["hcase"], it["hist"]], sort_keys=True), it)
    hists = [hu[k] for k in sorted(hu)]
    ctx.require(len(hists) == 400, "expected 400 histories from the model, got %d" % len(hists))
    ctx.require(any(e["ev"] == "L" for h in hists for e in h["hist"]), "no history with a lost copy")
    sel_h = select_histories(ctx, hists)
    ctx.count("model_histories", len(hists))
    ctx.count("bound_histories", len(sel_h))
    ctx.exhaustive = len(sel) == len(items) and len(sel_h) == 320
    sel = sel + sel_h
    template = FR.Toolbox(ctx.scratch("toolbox")).template
    t1 = time.time()
    total = bind(ctx, sel, template)
    ctx.extra["bind_wall_s"] = round(time.time() - t1, 1)
    ctx.impl_trace(total["cases"])
    ctx.evaluations += total["cases"]
    ctx.distinct |= total["keys"]
    for k, v in sorted(total["by"].items()):
        ctx.count(k, v)
    for need in ["pair:L>L", "pair:L>R", "pair:R>L", "pair:R>R:same-location", "pair:R>R:same-connector",
                 "pair:R>R:other-connector", "src:richdir", "src:emptyfile", "src:emptydir", "dst:dir", "dst:absent_deep",
                 "writable:True", "writable:False", "n:2"]:
        ctx.require(total["by"].get(need, 0) > 0, "class never executed: %s" % need)
    for need in ["histories", "history-with-invalidation:True", "history-pair:L>R", "history-pair:R>L",
                 "history-pair:R>R:same-connector", "history-pair:R>R:other-connector"]:
        ctx.require(total["by"].get(need, 0) > 0, "class never executed: %s" % need)
    ctx.sample({"history": sel_h[0]["hcase"], "events": sel_h[0]["hist"]})
    for it in sel[:2]:
        ctx.sample({"case": it["case"], "root": it["root"], "expected_tree": [[e["p"], e["k"], e["c"], e["x"]] for e in it["tree"]]})
    ctx.assumptions += [
        "remote locations are shell-based fakes (BaseConnector subclass; commands passed verbatim to /bin/sh (dash) in a "
        "private chroot with GNU tar/coreutils); two deployments x several locations stand for different connectors / "
        "locations; wrapped (stacked) remotes are not covered",
        "source trees are built with os.*; inner symbolic links (two relative, one absolute) point to entries of the tree",
        "directories above the source/destination basenames have plain names (the classes apply to the basenames and "
        "to the names inside the tree)",
        "the destination is dereferenced inside its own location before it is compared",
    ]


def replay(ctx, data):
    from vh import aio
    from vh.sut import fs_transfer as T
    d = data["detail"]
    out = []

    async def main():
        b = await T.Bench(ctx.scratch("replay")).start()
        try:
            if "hcase" in d:
                await T.run_history(b, {"hcase": d["hcase"], "hist": d["hist"], "source": d["source"], "tree": d["tree"]},
                                    T.Inst(d["name_class"], d["content_class"], data.get("seed", 0)),
                                    lambda s, det, w: out.append((s, det, w)))
                return
            it = {"case": d["case"], "source": d["source"], "tree": d["tree"], "root": d["root"]}
            dev = "plain" if (d["name_class"], d["content_class"]) == ("plain", "text") else \
                "name=%s" % d["name_class"] if d["name_class"] != "plain" else "content=%s" % d["content_class"]
            await T.run_case(b, it, T.Inst(d["name_class"], d["content_class"], data.get("seed", 0)), dev,
                             lambda s, det, w: out.append((s, det, w)))
        finally:
            await b.stop()
    _, exc = aio.run(main(), timeout=300)
    ctx.require(exc is None, "replay failed: %r" % (exc,))
    for s, det, w in out:
        ctx.violation(s, det, w)
    print("replayed %s: %d disagreement(s)" % (data.get("signature"), len(out)))
