"""C09 - database reads always reflect the latest writes (module Persistence).

Model: Persistence.tla - rows per table, the LRU caches of the @cached getters holding REFERENCES to parsed
JSON objects (a small heap), rows handed to the caller; actions Add / Update (pops a cache) / Get (shallow copy
of the cached row as cachebox does, DeepCopy = TRUE: proposed repair) / MutTop / MutNested.  TLC explores every
history of <= MaxDepth calls over <= 2 ids for each kind of table (cached+updatable: step, port, deployment,
target, filter; uncached+updatable: workflow, execution; cached: token; uncached relations: provenance,
dependency) and a two-table configuration.
Binding (B-edge): every transition of the complete graph is replayed from Init on a real SqliteDatabase (shortest
history reaching its source state + the call); every read on the way and get_<t>(i) for every id afterwards is
compared with direct SQL through a second, fresh sqlite3 connection to the same file.  The verdict is the
property (read == database); the model's own prediction of each read (it predicts the as-is leak of nested
mutations) is compared too and classifies the violation.
"""
from __future__ import annotations

import json
import os

from vh import aio
from vh.sut import persist as P

LEVEL = "model_checking"

ACTIONS = ["AddF", "UpdateF", "GetF", "MutTopF", "MutNestedF"]
INVS = ["TypeOK", "GetReturnsDbRow", "CacheCoherent", "RetsSeparate"]


def _gen(ctx, depth, two=False):
    g = ctx.tlc("Persistence", "MC_Persistence", "Gen.cfg", workers=1, timeout=1800,
                files={"Gen.cfg": P.cfg_text(depth, gen=True, two=two, invariants=["TypeOK"])})
    ctx.require(g.ok, "generation run failed (depth %d): %s %s\n%s" % (depth, g.error, g.violated, g.stdout[-800:]))
    lines = [x for x in g.printed_json() if isinstance(x, dict) and "act" in x]
    ctx.require(len(lines) == g.generated - (1 if two else 4), "emitted %d transitions, TLC generated %d" % (len(lines), g.generated))
    return lines


async def _replay_graph(ctx, scratch, tab, lines, label):
    env = await P.Env(os.path.join(scratch, "c09_%s_%s.db" % (tab.name, label))).open()
    rp = P.Replayer(ctx, env, tab, label=label)
    n = reads = 0
    try:
        for path in P.build_paths(lines):
            tr = path[-1]
            nontrivial = tr["act"] in ("update", "mut_nested", "mut_top") or (tr["act"] == "get" and len(path) > 2)
            ctx.case((tab.name, json.dumps(tr["from"]), tr["act"], str(tr["args"])), nontrivial)
            reads += await rp.run(path)
            ctx.count("edges:%s" % tr["act"])
            n += 1
    finally:
        await env.close()
    ctx.count("transitions_replayed:%s" % tab.name, n)
    ctx.impl_trace(n)
    ctx.count("reads_compared", reads)
    return n


def _model_runs(ctx, depth):
    """What the model says by itself: (1) with the shallow copy of cachebox (the code as it is) the statement does not
    hold - counterexamples are kept for replay on the code; (2) with deep-copying post-processing it holds for every
    kind of table and for histories that mix two cached tables."""
    cex = []
    for inv in ctx.pick(["GetReturnsDbRow"], ["GetReturnsDbRow", "CacheCoherent", "RetsSeparate"]):
        v = ctx.tlc("Persistence", "MC_Persistence", "asis.cfg", timeout=1800, count=False, workers=1,
                    files={"asis.cfg": P.cfg_text(depth, gen=False, invariants=[inv])})
        ctx.require(v.error in (None, "invariant"), "unexpected TLC outcome: %s" % v.error)
        if v.error == "invariant" and v.trace:
            cex.append((inv, [(s["state"]["obs"], s["state"].get("focus")) for s in v.trace[1:]]))
    ctx.extra["asis_model_counterexamples"] = [{"invariant": i, "history": [o for o, _ in h], "kind": h[0][1]} for i, h in cex]
    f = ctx.tlc("Persistence", "MC_Persistence", "fix.cfg", timeout=1800, coverage=True,
                files={"fix.cfg": P.cfg_text(depth, deep=True, gen=False, invariants=INVS)})
    ctx.require(f.ok, "model with deep-copying getters violates %s: specification error\n%s" % (f.violated, f.stdout[-800:]))
    ctx.require_coverage(f, ACTIONS)
    if not ctx.quick:
        two = ctx.tlc("Persistence", "MC_Persistence", "two.cfg", timeout=1800,
                      files={"two.cfg": P.cfg_text(6, deep=True, gen=False, two=True, invariants=INVS)})
        ctx.require(two.ok, "two-table model violates %s" % two.violated)
    return cex


async def _replay_cex(ctx, scratch, cex):
    """A counterexample of the as-is model says where to look; whether the CODE breaks the statement is decided by
    running that history on the code (the violation, if any, is reported by the Replayer under what it observed)."""
    env = await P.Env(os.path.join(scratch, "c09_cex.db")).open()
    try:
        for inv, hist in cex:
            kind = hist[0][1]
            for tab in [t for t in P.TABLES if t.kind == kind]:
                ids, rets, leaked, ver = [], [], False, 1
                for c, _ in hist:
                    act = c["kind"]
                    if act == "add":
                        ids.append(await tab.add(env, ver))
                        ver += 1
                    elif act == "update":
                        await tab.update(env, ids[c["id"] - 1], c["f"], ver)
                        ver += 1
                    elif act == "get":
                        rets.append(await tab.get(env, ids[c["id"] - 1]))
                        rets[:] = rets[-2:]
                    elif act == "mut_top":
                        tab.mut_top(rets[c["k"] - 1])
                    elif act == "mut_nested":
                        tab.mut_nested(rets[c["k"] - 1])
                await env.commit()
                cached = getattr(env.db, "%s_cache" % tab.name)
                for cid in ids:
                    got = tab.normalise(await tab.get(env, cid))
                    if P.classify(tab, got, tab.truth(env, cid), None):
                        leaked = True
                shared = any(any(v is w for v in r.values() for w in cached[cid].values() if isinstance(w, (dict, list)))
                             for r in rets for cid in ids if cid in cached and isinstance(r, dict))
                ctx.count("model_cex_%s_followed_by_code:%s" % (inv, tab.name), 1 if (leaked or shared) else 0)
    finally:
        await env.close()


def run(ctx):
    ctx.rule = ("TLC enumerates every history of <= MaxDepth add/update/get/caller-mutation calls over <= 2 ids for each kind of "
                "table; every transition is replayed on a real SqliteDatabase file for every concrete table of that kind and all "
                "reads are compared with a second uncached sqlite3 connection; non-trivial = the call is an update or a caller "
                "mutation, or a read after at least two earlier calls")
    scratch = ctx.scratch("db")
    depth = ctx.pick(6, 7)
    cex = _model_runs(ctx, depth)
    ctx.require(cex, "the as-is model no longer shows the shallow-copy leak: model out of date")
    lines = _gen(ctx, depth)
    by_kind = {k: [t for t in lines if t["focus"] == k] for k in "ABCD"}
    for k in "ABCD":
        acts = {t["act"] for t in by_kind[k]}
        want = {"add", "get", "mut_top", "mut_nested"} | ({"update"} if k in "AB" else set())
        ctx.require(acts == want, "vacuous generation for kind %s: %s" % (k, sorted(acts)))
        ctx.count("graph_edges:kind_%s:depth%d" % (k, depth), len(by_kind[k]))
    leak_edges = sum(1 for t in lines if t["reads"] != t["truth"])
    ctx.require(leak_edges > 0, "no transition of the as-is model reaches a state whose reads differ from the database")
    ctx.count("graph_edges_where_asis_model_predicts_a_wrong_read", leak_edges)
    lines2 = _gen(ctx, ctx.pick(4, 5), two=True)
    ctx.count("graph_edges:two_tables", len(lines2))

    async def main():
        await _replay_cex(ctx, scratch, cex)
        # B-edge.  Quick tier: the first table of each kind gets the complete graph, the others the graph of depth - 1
        for kind in "ABCD":
            full = by_kind[kind]
            short = [t for t in full if t["depth"] <= depth - 1]
            for j, tab in enumerate([t for t in P.TABLES if t.kind == kind]):
                whole = j == 0 or not ctx.quick
                await _replay_graph(ctx, scratch, tab, full if whole else short, "d%d" % (depth if whole else depth - 1))
        await _replay_two(ctx, scratch, lines2)
        return True

    res, err = aio.run(main(), timeout=ctx.pick(900, 3000))
    if err is not None:
        raise err
    ctx.exhaustive = True
    ctx.sample({"kind": "A", "example_history": [["add"], ["get", 1], ["mut_nested", 1], ["get", 1]],
                "as_is_model_counterexamples": ctx.extra.get("asis_model_counterexamples")})
    ctx.assumptions += [
        "single caller: histories, not schedules (a get_* in flight while update_* pops the cache is outside C09)",
        "the truth is read after committing the connection of the database under test (StreamFlow only commits on close)",
        "tables are exercised one at a time plus one two-table configuration; caches are per table and keyed by id",
    ]


async def _replay_two(ctx, scratch, lines, single=False):
    """Two cached tables (a = step, b = port) in one history; the Replayer is per table, so a combined history is
    split: calls on the other table are still executed (they may disturb this table's cache in a mutated tree)."""
    env = await P.Env(os.path.join(scratch, "c09_two.db")).open()
    tabs = {"a": P.BY_NAME["step"], "b": P.BY_NAME["port"]}
    n = reads = 0
    try:
        for path in ([lines] if single else P.build_paths(lines)):
            tr = path[-1]
            ctx.case(("two", json.dumps(tr["from"]), tr["act"], str(tr["args"])), tr["act"] != "add")
            ids = {"a": [], "b": []}
            rets, lastw = [], {}
            hist = [[t["act"]] + list(t["args"]) for t in path]
            ok = True
            try:
                for t in path:
                    act, args = t["act"], t["args"]
                    if act == "add":
                        ids[args[0]].append(await tabs[args[0]].add(env, t["truth"][args[0]][-1]["top"]))
                    elif act == "update":
                        await tabs[args[0]].update(env, ids[args[0]][args[1] - 1], args[2], t["truth"][args[0]][args[1] - 1][args[2]])
                        lastw[(args[0], args[1])] = "update_%s" % tabs[args[0]].name
                    elif act == "get":
                        rets.append((args[0], await tabs[args[0]].get(env, ids[args[0]][args[1] - 1])))
                        rets[:] = rets[-2:]
                    elif act == "mut_top":
                        tabs[rets[args[0] - 1][0]].mut_top(rets[args[0] - 1][1])
                    elif act == "mut_nested":
                        tabs[rets[args[0] - 1][0]].mut_nested(rets[args[0] - 1][1])
                await env.commit()
                for a, tab in tabs.items():
                    for i, cid in enumerate(ids[a], 1):
                        got = tab.normalise(await tab.get(env, cid))
                        truth = tab.truth(env, cid)
                        reads += 1
                        sig = P.classify(tab, got, truth, lastw.get((a, i)))
                        if sig:
                            ok = False
                            ctx.violation(sig + ":two-tables", {"history": hist, "table": tab.name, "got": repr(got), "truth": truth, "two": True},
                                          "after %s: %s(%d) returned %r, a fresh connection reads %r" % (hist, tab.getter, i, got, truth))
            except Exception as e:
                ctx.violation("raise:two-tables:%s" % type(e).__name__, {"history": hist, "err": repr(e), "two": True}, "history %s raised %r" % (hist, e))
            n += 1
    finally:
        await env.close()
    ctx.impl_trace(n)
    ctx.count("transitions_replayed:two_tables", n)
    ctx.count("reads_compared", reads)


def replay(ctx, data):
    d = data["detail"]
    scratch = ctx.scratch("db")
    want = d["history"]

    async def main():
        if d.get("two"):
            lines = _gen(ctx, max(len(want), 2), two=True)
            sel = [p for p in P.build_paths(lines) if [[t["act"]] + list(t["args"]) for t in p] == want]
            ctx.require(sel, "history not found in the model graph")
            await _replay_two(ctx, scratch, sel[0], single=True)
            return
        tab = P.BY_NAME[d["table"]]
        lines = [t for t in _gen(ctx, max(len(want), 2)) if t["focus"] == tab.kind]
        sel = [p for p in P.build_paths(lines) if P.history_of(p) == want]
        ctx.require(sel, "history %s not found in the model graph" % want)
        env = await P.Env(os.path.join(scratch, "replay.db")).open()
        try:
            await P.Replayer(ctx, env, tab, label="replay").run(sel[0])
        finally:
            await env.close()

    res, err = aio.run(main(), timeout=900)
    if err is not None:
        raise err
