"""C09 - database reads always reflect the latest writes (module Persistence).

Model: Persistence.tla - rows per table, the LRU caches of the @cached getters holding REFERENCES to parsed
JSON objects (a small heap), rows handed to the caller; actions Add / Update (pops a cache) / Get (DeepCopy = TRUE:
the cached getters deep-copy since fix 1d9dc38; FALSE: cachebox' default shallow copy, the repaired defect) / GetAll
(bulk and relational readers: fresh rows, caches untouched; BulkFills: a reader that stores the rows it returns in
the cache - defect model) / MutTop / MutNested.  TLC explores every
history of <= MaxDepth calls over <= 2 ids for each kind of table (cached+updatable: step, port, deployment,
target, filter; uncached+updatable: workflow, execution; cached: token; uncached relations: provenance,
dependency) and a two-table configuration.
Binding (B-edge): every transition of the complete graph is replayed from Init on a real SqliteDatabase (shortest
history reaching its source state + the call); every read on the way and get_<t>(i) for every id afterwards is
compared with direct SQL through a second, fresh sqlite3 connection to the same file.  The verdict is the
property (read == database); the model's own prediction of each read (it predicts the as-is leak of nested
mutations) is compared too and classifies the violation.
"""
from __future__ import annotations

import json
import os

from vh import aio
from vh.sut import persist as P

LEVEL = "model_checking"

ACTIONS = ["AddF", "UpdateF", "GetF", "GetAllF", "MutTopF", "MutNestedF"]
INVS = ["TypeOK", "GetReturnsDbRow", "CacheCoherent", "RetsSeparate"]


def _gen(ctx, depth, two=False):
    g = ctx.tlc("Persistence", "MC_Persistence", "Gen.cfg", workers=1, timeout=1800,
                files={"Gen.cfg": P.cfg_text(depth, gen=True, two=two, invariants=["TypeOK"])})
    ctx.require(g.ok, "generation run failed (depth %d): %s %s\n%s" % (depth, g.error, g.violated, g.stdout[-800:]))
    lines = [x for x in g.printed_json() if isinstance(x, dict) and "act" in x]
    ctx.require(len(lines) == g.generated - (1 if two else 4), "emitted %d transitions, TLC generated %d" % (len(lines), g.generated))
    return lines


async def _replay_graph(ctx, scratch, tab, lines, label):
    env = await P.Env(os.path.join(scratch, "c09_%s_%s.db" % (tab.name, label))).open()
    rp = P.Replayer(ctx, env, tab, label=label)
    n = reads = 0
    try:
        without = ("getall",) if (tab.kind != "D" and not tab.bulk_names) else ()
        for path in P.build_paths(lines, without=without):
            tr = path[-1]
            nontrivial = tr["act"] in ("update", "mut_nested", "mut_top") or (tr["act"] in ("get", "getall") and len(path) > 2)
            ctx.case((tab.name, json.dumps(tr["from"]), tr["act"], str(tr["args"])), nontrivial)
            reads += await rp.run(path)
            ctx.count("edges:%s" % tr["act"])
            n += 1
    finally:
        await env.close()
    ctx.count("transitions_replayed:%s" % tab.name, n)
    ctx.impl_trace(n)
    ctx.count("reads_compared", reads)
    return n


def _model_runs(ctx, depth):
    """The model of the code as it is (deep-copying cached getters since fix 1d9dc38, bulk readers that leave the
    caches alone) satisfies the statement for every kind of table (thorough: also for histories that mix two cached
    tables).  Thorough tier also runs the two DEFECT models - shallow-copying getters (the defect repaired by 1d9dc38)
    and a bulk reader that stores the rows it returns in the cache - and requires that TLC refutes the statement on
    both: the properties are not vacuous with respect to either mechanism."""
    f = ctx.tlc("Persistence", "MC_Persistence", "code.cfg", timeout=1800, coverage=not ctx.quick,
                files={"code.cfg": P.cfg_text(depth, gen=False, invariants=INVS)})
    ctx.require(f.ok, "model of the code as it is violates %s: specification error\n%s" % (f.violated, f.stdout[-800:]))
    if not ctx.quick:        # quick tier: vacuity is guarded by the action sets of the generation run (same actions)
        ctx.require_coverage(f, ACTIONS)
    ctx.require(f.distinct > 10000, "suspiciously small state space: %d" % f.distinct)
    cex = {}
    if not ctx.quick:
        two = ctx.tlc("Persistence", "MC_Persistence", "two.cfg", timeout=1800,
                      files={"two.cfg": P.cfg_text(6, gen=False, two=True, invariants=INVS)})
        ctx.require(two.ok, "two-table model violates %s" % two.violated)
        for name, kw in (("shallow-copying cached getters", {"deep": False}), ("bulk reader fills the cache with the rows it returns", {"bulk_fills": '{"A"}'})):
            v = ctx.tlc("Persistence", "MC_Persistence", "defect.cfg", timeout=1800, count=False, workers=1,
                        files={"defect.cfg": P.cfg_text(6, gen=False, invariants=["GetReturnsDbRow"], **kw)})
            ctx.require(v.error == "invariant" and v.trace, "defect model '%s' does not break GetReturnsDbRow: vacuous property" % name)
            cex[name] = [s["state"]["obs"] for s in v.trace[1:]]
    ctx.extra["defect_model_counterexamples"] = cex


def run(ctx):
    ctx.rule = ("TLC enumerates every history of <= MaxDepth add / update / get / bulk-read / caller-mutation calls over <= 2 ids "
                "for each kind of table; every transition is replayed on a real SqliteDatabase file for every concrete table of that "
                "kind (a bulk read = every bulk/relational reader of the table, the caller keeps and mutates the rows of all of them) "
                "and all reads are compared with a second uncached sqlite3 connection; non-trivial = the call is an update or a "
                "caller mutation, or a read after at least two earlier calls")
    scratch = ctx.scratch("db")
    depth = ctx.pick(6, 7)              # exhaustive model checking
    gdepth = ctx.pick(5, 6)             # graph emitted for replay
    _model_runs(ctx, depth)
    lines = _gen(ctx, gdepth)
    ctx.require(all(t["getok"] and t["coherent"] and t["separate"] for t in lines),
                "a transition of the model of the code as it is breaks a property (TLC's own evaluation in the generation run)")
    by_kind = {k: [t for t in lines if t["focus"] == k] for k in "ABCD"}
    for k in "ABCD":
        acts = {t["act"] for t in by_kind[k]}
        want = {"add", "get", "mut_top", "mut_nested"} | ({"update"} if k in "AB" else set()) | ({"getall"} if k in "ABC" else set())
        ctx.require(acts == want, "vacuous generation for kind %s: %s" % (k, sorted(acts)))
        ctx.count("graph_edges:kind_%s:depth%d" % (k, gdepth), len(by_kind[k]))
    lines2 = [] if ctx.quick else _gen(ctx, 4, two=True)
    ctx.count("graph_edges:two_tables", len(lines2))
    # quick tier: depth 5 on the first table of each kind, depth 4 elsewhere; thorough tier: depth 6 / depth 5
    first = {"A": "step", "B": "workflow", "C": "token", "D": "provenance"}

    def replay_depth(tab):
        return gdepth if first[tab.kind] == tab.name else gdepth - 1

    async def main():
        for tab in P.TABLES:
            d = replay_depth(tab)
            await _replay_graph(ctx, scratch, tab, [t for t in by_kind[tab.kind] if t["depth"] <= d], "d%d" % d)
            ctx.count("replay_depth:%s" % tab.name, d)
        if lines2:
            await _replay_two(ctx, scratch, lines2)
        return True

    res, err = aio.run(main(), timeout=ctx.pick(900, 3000))
    if err is not None:
        raise err
    ctx.exhaustive = True
    ctx.sample(P.history_of(next(p for p in P.build_paths(by_kind["A"]) if len(p) == gdepth and p[-1]["act"] == "get"
                                 and any(t["act"] == "getall" for t in p) and any(t["act"].startswith("mut") for t in p))))
    ctx.sample({"defect_model_counterexamples": ctx.extra.get("defect_model_counterexamples")})
    ctx.assumptions += [
        "single caller: histories, not schedules (a get_* in flight while update_* pops the cache is outside C09)",
        "the truth is read after committing the connection of the database under test (StreamFlow only commits on close)",
        "tables are exercised one at a time plus one two-table configuration; caches are per table and keyed by id",
        "a bulk read of the model stands for all bulk/relational readers of the table at once (the caller keeps every row they return)",
    ]


async def _replay_two(ctx, scratch, lines, single=False):
    """Two cached tables (a = step, b = port) in one history; the Replayer is per table, so a combined history is
    split: calls on the other table are still executed (they may disturb this table's cache in a mutated tree)."""
    env = await P.Env(os.path.join(scratch, "c09_two.db")).open()
    tabs = {"a": P.BY_NAME["step"], "b": P.BY_NAME["port"]}
    n = reads = 0
    try:
        for path in ([lines] if single else P.build_paths(lines)):
            tr = path[-1]
            ctx.case(("two", json.dumps(tr["from"]), tr["act"], str(tr["args"])), tr["act"] != "add")
            ids = {"a": [], "b": []}
            rets, lastw = [], {}
            hist = [[t["act"]] + list(t["args"]) for t in path]
            ok = True
            try:
                for t in path:
                    act, args = t["act"], t["args"]
                    if act == "add":
                        ids[args[0]].append(await tabs[args[0]].add(env, t["truth"][args[0]][-1]["top"]))
                    elif act == "update":
                        await tabs[args[0]].update(env, ids[args[0]][args[1] - 1], args[2], t["truth"][args[0]][args[1] - 1][args[2]])
                        lastw[(args[0], args[1])] = "update_%s" % tabs[args[0]].name
                    elif act == "get":
                        rets.append((args[0], [(None, await tabs[args[0]].get(env, ids[args[0]][args[1] - 1]))]))
                        rets[:] = rets[-2:]
                    elif act == "getall":
                        res = await tabs[args[0]].bulk(env, ids[args[0]])
                        for reader, objs, got, truth in res:
                            reads += 1
                            sig = P.classify_bulk(tabs[args[0]], reader, got, truth)
                            if sig:
                                ctx.violation(sig + ":two-tables", {"history": hist, "table": tabs[args[0]].name, "got": repr(got), "truth": truth, "two": True},
                                              "%s in %s returned %r, a fresh connection reads %r" % (reader, hist, got, truth))
                        for pos in range(len(ids[args[0]])):
                            rets.append((args[0], [(reader, objs[pos]) for reader, objs, _, _ in res if objs[pos] is not None]))
                            rets[:] = rets[-2:]
                    elif act in ("mut_top", "mut_nested"):
                        a, held = rets[args[0] - 1]
                        for origin, row in held:
                            (tabs[a].mut_top if act == "mut_top" else tabs[a].mut_nested)(row, origin)
                await env.commit()
                for a, tab in tabs.items():
                    for i, cid in enumerate(ids[a], 1):
                        got = tab.normalise(await tab.get(env, cid))
                        truth = tab.truth(env, cid)
                        reads += 1
                        sig = P.classify(tab, got, truth, lastw.get((a, i)))
                        if sig:
                            ok = False
                            ctx.violation(sig + ":two-tables", {"history": hist, "table": tab.name, "got": repr(got), "truth": truth, "two": True},
                                          "after %s: %s(%d) returned %r, a fresh connection reads %r" % (hist, tab.getter, i, got, truth))
            except Exception as e:
                ctx.violation("raise:two-tables:%s" % type(e).__name__, {"history": hist, "err": repr(e), "two": True}, "history %s raised %r" % (hist, e))
            n += 1
    finally:
        await env.close()
    ctx.impl_trace(n)
    ctx.count("transitions_replayed:two_tables", n)
    ctx.count("reads_compared", reads)


def replay(ctx, data):
    d = data["detail"]
    scratch = ctx.scratch("db")
    want = d["history"]

    async def main():
        if d.get("two"):
            lines = _gen(ctx, max(len(want), 2), two=True)
            sel = [p for p in P.build_paths(lines) if [[t["act"]] + list(t["args"]) for t in p] == want]
            ctx.require(sel, "history not found in the model graph")
            await _replay_two(ctx, scratch, sel[0], single=True)
            return
        tab = P.BY_NAME[d["table"]]
        lines = [t for t in _gen(ctx, max(len(want), 2)) if t["focus"] == tab.kind]
        sel = [p for p in P.build_paths(lines) if P.history_of(p) == want]
        ctx.require(sel, "history %s not found in the model graph" % want)
        env = await P.Env(os.path.join(scratch, "replay.db")).open()
        try:
            await P.Replayer(ctx, env, tab, label="replay").run(sel[0])
        finally:
            await env.close()

    res, err = aio.run(main(), timeout=900)
    if err is not None:
        raise err
