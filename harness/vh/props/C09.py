"""C09 - database reads always reflect the latest writes (module Persistence).

Model: Persistence.tla - rows per table, the LRU caches of the @cached getters holding REFERENCES to parsed
JSON objects (a small heap), rows handed to the caller; actions Add / Update (pops a cache) / Get (shallow copy
of the cached row as cachebox does, DeepCopy = TRUE: proposed repair) / MutTop / MutNested.  TLC explores every
history of <= MaxDepth calls over <= 2 ids for each kind of table (cached+updatable: step, port, deployment,
target, filter; uncached+updatable: workflow, execution; cached: token; uncached relations: provenance,
dependency) and a two-table configuration.
Binding (B-edge): every transition of the complete graph is replayed from Init on a real SqliteDatabase (shortest
history reaching its source state + the call); every read on the way and get_<t>(i) for every id afterwards is
compared with direct SQL through a second, fresh sqlite3 connection to the same file.  The verdict is the
property (read == database); the model's own prediction of each read (it predicts the as-is leak of nested
mutations) is compared too and classifies the violation.
"""
from __future__ import annotations

import json
import os

from vh import aio
from vh.sut import persist as P

LEVEL = "model_checking"

ACTIONS = ["AddF", "UpdateF", "GetF", "MutTopF", "MutNestedF"]
INVS = ["TypeOK", "GetReturnsDbRow", "CacheCoherent", "RetsSeparate"]


def _gen(ctx, depth, two=False):
    g = ctx.tlc("Persistence", "MC_Persistence", "Gen.cfg", workers=1, timeout=1800,
                files={"Gen.cfg": P.cfg_text(depth, gen=True, two=two, invariants=["TypeOK"])})
    ctx.require(g.ok, "generation run failed (depth %d): %s %s\n%s" % (depth, g.error, g.violated, g.stdout[-800:]))
    lines = [x for x in g.printed_json() if isinstance(x, dict) and "act" in x]
    ctx.require(len(lines) == g.generated - (1 if two else 4), "emitted %d transitions, TLC generated %d" % (len(lines), g.generated))
    return lines


async def _replay_graph(ctx, scratch, tab, lines, label):
    env = await P.Env(os.path.join(scratch, "c09_%s_%s.db" % (tab.name, label))).open()
    rp = P.Replayer(ctx, env, tab, label=label)
    n = reads = 0
    try:
        for path in P.build_paths(lines):
            tr = path[-1]
            nontrivial = tr["act"] in ("update", "mut_nested", "mut_top") or (tr["act"] == "get" and len(path) > 2)
            ctx.case((tab.name, json.dumps(tr["from"]), tr["act"], str(tr["args"])), nontrivial)
            reads += await rp.run(path)
            ctx.count("edges:%s" % tr["act"])
            n += 1
    finally:
        await env.close()
    ctx.count("transitions_replayed:%s" % tab.name, n)
    ctx.impl_trace(n)
    ctx.count("reads_compared", reads)
    return n


def _model_runs(ctx, depth):
    """With deep-copying post-processing of the cached getters the statement holds in the model for every kind of
    table (and, thorough tier, for histories that mix two cached tables).  The as-is model (shallow copy) is explored
    by the generation run, which also evaluates the properties on every transition."""
    f = ctx.tlc("Persistence", "MC_Persistence", "fix.cfg", timeout=1800, coverage=not ctx.quick,
                files={"fix.cfg": P.cfg_text(depth, deep=True, gen=False, invariants=INVS)})
    ctx.require(f.ok, "model with deep-copying getters violates %s: specification error\n%s" % (f.violated, f.stdout[-800:]))
    if not ctx.quick:        # quick tier: vacuity is guarded by the action sets of the generation run (same actions)
        ctx.require_coverage(f, ACTIONS)
    ctx.require(f.distinct > 5000, "suspiciously small state space: %d" % f.distinct)
    if not ctx.quick:
        two = ctx.tlc("Persistence", "MC_Persistence", "two.cfg", timeout=1800,
                      files={"two.cfg": P.cfg_text(6, deep=True, gen=False, two=True, invariants=INVS)})
        ctx.require(two.ok, "two-table model violates %s" % two.violated)


def _asis_counterexamples(ctx, lines):
    """Shortest histories after which the as-is model breaks each property (first violating transition in BFS order)."""
    out = {}
    for path in P.build_paths(lines):
        tr = path[-1]
        for inv, key in (("GetReturnsDbRow", "getok"), ("CacheCoherent", "coherent"), ("RetsSeparate", "separate")):
            if not tr[key] and inv not in out:
                out[inv] = {"kind": tr["focus"], "history": P.history_of(path)}
        if len(out) == 3:
            break
    return out


def run(ctx):
    ctx.rule = ("TLC enumerates every history of <= MaxDepth add/update/get/caller-mutation calls over <= 2 ids for each kind of "
                "table; every transition is replayed on a real SqliteDatabase file for every concrete table of that kind and all "
                "reads are compared with a second uncached sqlite3 connection; non-trivial = the call is an update or a caller "
                "mutation, or a read after at least two earlier calls")
    scratch = ctx.scratch("db")
    depth = ctx.pick(6, 7)
    _model_runs(ctx, depth)
    lines = _gen(ctx, depth)
    cex = _asis_counterexamples(ctx, lines)
    ctx.extra["asis_model_counterexamples"] = cex
    ctx.require(len(cex) == 3 and all(c["kind"] in "AC" for c in cex.values()),
                "the as-is model no longer shows the shallow-copy leak on cached tables: model out of date (%s)" % cex)
    by_kind = {k: [t for t in lines if t["focus"] == k] for k in "ABCD"}
    for k in "ABCD":
        acts = {t["act"] for t in by_kind[k]}
        want = {"add", "get", "mut_top", "mut_nested"} | ({"update"} if k in "AB" else set())
        ctx.require(acts == want, "vacuous generation for kind %s: %s" % (k, sorted(acts)))
        ctx.count("graph_edges:kind_%s:depth%d" % (k, depth), len(by_kind[k]))
    leak_edges = sum(1 for t in lines if t["reads"] != t["truth"])
    ctx.require(leak_edges > 0, "no transition of the as-is model reaches a state whose reads differ from the database")
    ctx.count("graph_edges_where_asis_model_predicts_a_wrong_read", leak_edges)
    lines2 = [] if ctx.quick else _gen(ctx, 5, two=True)
    ctx.count("graph_edges:two_tables", len(lines2))
    # quick tier: complete depth-6 graph on `step`, depth 5 on the first table of the other kinds, depth 4 elsewhere;
    # thorough tier: depth 7 on the first table of each kind, depth 6 elsewhere
    first = {"A": "step", "B": "workflow", "C": "token", "D": "provenance"}

    def replay_depth(tab):
        if ctx.quick:
            return depth if tab.name == "step" else (depth - 1 if first[tab.kind] == tab.name else depth - 2)
        return depth if first[tab.kind] == tab.name else depth - 1

    async def main():
        for tab in P.TABLES:
            d = replay_depth(tab)
            await _replay_graph(ctx, scratch, tab, [t for t in by_kind[tab.kind] if t["depth"] <= d], "d%d" % d)
            ctx.count("replay_depth:%s" % tab.name, d)
        if lines2:
            await _replay_two(ctx, scratch, lines2)
        return True

    res, err = aio.run(main(), timeout=ctx.pick(900, 3000))
    if err is not None:
        raise err
    ctx.exhaustive = True
    ctx.sample({"as_is_model_counterexamples": cex})
    ctx.sample(P.history_of(next(p for p in P.build_paths(by_kind["A"]) if len(p) == depth and p[-1]["act"] == "get")))
    ctx.assumptions += [
        "single caller: histories, not schedules (a get_* in flight while update_* pops the cache is outside C09)",
        "the truth is read after committing the connection of the database under test (StreamFlow only commits on close)",
        "tables are exercised one at a time plus one two-table configuration; caches are per table and keyed by id",
    ]


async def _replay_two(ctx, scratch, lines, single=False):
    """Two cached tables (a = step, b = port) in one history; the Replayer is per table, so a combined history is
    split: calls on the other table are still executed (they may disturb this table's cache in a mutated tree)."""
    env = await P.Env(os.path.join(scratch, "c09_two.db")).open()
    tabs = {"a": P.BY_NAME["step"], "b": P.BY_NAME["port"]}
    n = reads = 0
    try:
        for path in ([lines] if single else P.build_paths(lines)):
            tr = path[-1]
            ctx.case(("two", json.dumps(tr["from"]), tr["act"], str(tr["args"])), tr["act"] != "add")
            ids = {"a": [], "b": []}
            rets, lastw = [], {}
            hist = [[t["act"]] + list(t["args"]) for t in path]
            ok = True
            try:
                for t in path:
                    act, args = t["act"], t["args"]
                    if act == "add":
                        ids[args[0]].append(await tabs[args[0]].add(env, t["truth"][args[0]][-1]["top"]))
                    elif act == "update":
                        await tabs[args[0]].update(env, ids[args[0]][args[1] - 1], args[2], t["truth"][args[0]][args[1] - 1][args[2]])
                        lastw[(args[0], args[1])] = "update_%s" % tabs[args[0]].name
                    elif act == "get":
                        rets.append((args[0], await tabs[args[0]].get(env, ids[args[0]][args[1] - 1])))
                        rets[:] = rets[-2:]
                    elif act == "mut_top":
                        tabs[rets[args[0] - 1][0]].mut_top(rets[args[0] - 1][1])
                    elif act == "mut_nested":
                        tabs[rets[args[0] - 1][0]].mut_nested(rets[args[0] - 1][1])
                await env.commit()
                for a, tab in tabs.items():
                    for i, cid in enumerate(ids[a], 1):
                        got = tab.normalise(await tab.get(env, cid))
                        truth = tab.truth(env, cid)
                        reads += 1
                        sig = P.classify(tab, got, truth, lastw.get((a, i)))
                        if sig:
                            ok = False
                            ctx.violation(sig + ":two-tables", {"history": hist, "table": tab.name, "got": repr(got), "truth": truth, "two": True},
                                          "after %s: %s(%d) returned %r, a fresh connection reads %r" % (hist, tab.getter, i, got, truth))
            except Exception as e:
                ctx.violation("raise:two-tables:%s" % type(e).__name__, {"history": hist, "err": repr(e), "two": True}, "history %s raised %r" % (hist, e))
            n += 1
    finally:
        await env.close()
    ctx.impl_trace(n)
    ctx.count("transitions_replayed:two_tables", n)
    ctx.count("reads_compared", reads)


def replay(ctx, data):
    d = data["detail"]
    scratch = ctx.scratch("db")
    want = d["history"]

    async def main():
        if d.get("two"):
            lines = _gen(ctx, max(len(want), 2), two=True)
            sel = [p for p in P.build_paths(lines) if [[t["act"]] + list(t["args"]) for t in p] == want]
            ctx.require(sel, "history not found in the model graph")
            await _replay_two(ctx, scratch, sel[0], single=True)
            return
        tab = P.BY_NAME[d["table"]]
        lines = [t for t in _gen(ctx, max(len(want), 2)) if t["focus"] == tab.kind]
        sel = [p for p in P.build_paths(lines) if P.history_of(p) == want]
        ctx.require(sel, "history %s not found in the model graph" % want)
        env = await P.Env(os.path.join(scratch, "replay.db")).open()
        try:
            await P.Replayer(ctx, env, tab, label="replay").run(sel[0])
        finally:
            await env.close()

    res, err = aio.run(main(), timeout=900)
    if err is not None:
        raise err
